"""C20 - patch() and the CLI switch the fake on and off cleanly."""
from __future__ import annotations

import contextlib
import io
import itertools
import os
import shutil
import subprocess
import sys
import types
from pathlib import Path
from unittest import mock

import core
from core import S, Check, unstr

TOKENS = ["-d", "--db_path", "--db_path=x", "-dx", "-d=x", "-m", "--module", "--module=mod", "-mmod",
          "s.py", "a", "-x", "--mod", "--db", "-h"]


# ----------------------------------------------------------------------------- CLI

class CliImpl:
    def __enter__(self):
        import runpy

        import fakesnow
        import fakesnow.cli

        self.cli = fakesnow.cli
        self.rec = {}
        rec = self.rec

        @contextlib.contextmanager
        def fake_patch(*a, **kw):
            rec["db"] = kw.get("db_path")
            yield

        def run_module(mod, run_name=None, alter_sys=False, **kw):
            rec["run"] = (True, mod, list(sys.argv))

        def run_path(path, run_name=None, **kw):
            rec["run"] = (False, path, list(sys.argv))

        self.stack = contextlib.ExitStack()
        self.stack.enter_context(mock.patch.object(fakesnow, "patch", fake_patch))
        self.stack.enter_context(mock.patch.object(runpy, "run_module", run_module))
        self.stack.enter_context(mock.patch.object(runpy, "run_path", run_path))
        self.argv, self.path = list(sys.argv), list(sys.path)
        return self

    def __exit__(self, *a):
        self.stack.close()
        sys.argv[:] = self.argv
        sys.path[:] = self.path

    def split(self, args):
        a, b = self.cli.split(list(args))
        return [S(list(a)), S(list(b))]

    def main(self, args):
        self.rec.clear()
        out, err = io.StringIO(), io.StringIO()
        try:
            with contextlib.redirect_stdout(out), contextlib.redirect_stderr(err):
                rc = self.cli.main(list(args))
        except SystemExit as e:
            return [0, e.code if isinstance(e.code, int) else 2]
        finally:
            sys.path[:] = self.path
        if rc == 42:
            return [1]
        is_mod, name, argv = self.rec["run"]
        db = self.rec.get("db")
        return [2, S(is_mod), S(name), S(argv), core.opt(db)]


def grammar_parse(args):
    """Independent recogniser of `fakesnow [own options] target targs...`; returns
    (is_module, name, targs) or None when the list is outside the grammar."""
    i = 0
    n = len(args)
    while i < n:
        a = args[i]
        if a in ("-d", "--db_path"):
            if i + 1 >= n or args[i + 1].startswith("-"):
                return None
            i += 2
        elif a.startswith("--db_path=") or a.startswith("-d="):
            i += 1
        elif a.startswith("-d") and len(a) > 2 and not a.startswith("--"):
            i += 1
        else:
            break
    if i >= n:
        return None
    a = args[i]
    if a in ("-m", "--module"):
        if i + 1 >= n or args[i + 1].startswith("-") or not args[i + 1]:
            return None
        return True, args[i + 1], args[i + 2:]
    if a.startswith("--module=") or a.startswith("-m="):
        v = a.split("=", 1)[1]
        return (True, v, args[i + 1:]) if v else None
    if a.startswith("-m") and not a.startswith("--"):
        return True, a[2:], args[i + 1:]
    if a and not a.startswith("-"):
        return False, a, args[i + 1:]
    return None


def check_cli(ck: Check):
    maxlen = 5 if ck.tier == "thorough" else 4
    toks = TOKENS if ck.tier == "thorough" else [t for t in TOKENS if t not in ("-d=x", "--db", "-h")]
    cases = [list(t) for k in range(maxlen + 1) for t in itertools.product(toks, repeat=k)]
    cases += [list(t) for k in range(3) for t in itertools.product(TOKENS, repeat=k)]
    # arbitrary target arguments after in-grammar prefixes, and some odd tokens
    odd = ["", "-", "--", "-m", "--db_path=q", "x y", "-1", "üñí", "=", "-d"]
    prefixes = [["s.py"], ["-m", "mod"], ["--module=mod"], ["-mmod"], ["-d", "x", "s.py"], ["--db_path=x", "s.py"],
                ["-dx", "s.py"], ["-d=x", "-m", "mod"], ["--db_path", "x", "--module", "mod"]]
    for p in prefixes:
        for _ in range(40 if ck.tier == "quick" else 400):
            k = ck.rng.randint(0, 5)
            cases.append(p + [ck.rng.choice(odd + TOKENS) for _ in range(k)])
    enc = [S(c) for c in cases]
    with CliImpl() as impl:
        obs_split = [impl.split(c) for c in cases]
        obs_main = [impl.main(c) for c in cases]

    ck.cov["exhaustive_space"] = f"all argv of length <= {maxlen} over {len(toks)} token classes {toks}"
    # independent oracle first: the property itself, on the implementation's own observations
    n_gram = 0
    reported = set()
    for c, o in zip(cases, obs_main):
        g = grammar_parse(c)
        if g is None:
            ck.count("cli:outside-grammar")
            continue
        n_gram += 1
        ck.count("cli:in-grammar")
        is_mod, name, targs = g
        want = [2, S(is_mod), S(name), S([name] + targs)]
        if o[:4] != want:
            key = "split" if o[0] == 2 else "exit"
            if key in reported:
                continue
            reported.add(key)
            ck.violation(
                f"fakesnow {' '.join(c)!r}: target should run with argv {[name] + targs} but observed {render_main(o)}",
                {"kind": "cli", "argv": c, "observed": render_main(o), "expected_argv": [name] + targs})
    ck.cov["distinct_nontrivial"] += n_gram
    # correspondence
    for label, run, obs in (("split", "run_c20_split", obs_split), ("main", "run_c20_main", obs_main)):
        dis = ck.correspond(enc, obs, label=label, run=run, kernel_sample=40)
        if dis and not ck.violations:
            i = min(dis, key=lambda j: len(cases[j]))
            ck.violation(
                f"cli {label}: model and implementation differ on argv {cases[i]} (model {ck.model_obs[i]}, impl {obs[i]}); "
                f"theorem passthrough/split_partition no longer tied to cli.py; {len(dis)} disagreements",
                {"kind": "cli-correspondence", "which": label, "argv": cases[i], "model": ck.model_obs[i], "impl": obs[i],
                 "theorem": "Props_C20.passthrough / split_partition", "disagreements": len(dis)},
                no_input=True)
    ck.cov["samples"].append({"argv": cases[len(cases) // 3], "main": render_main(obs_main[len(cases) // 3])})

    # end to end: the real console entry point in a subprocess, real patch(), real runpy
    tmp = core.VERIF / "build" / f"c20-{os.getpid()}"
    tmp.mkdir(parents=True, exist_ok=True)
    try:
        (tmp / "dump.py").write_text("import sys, json; print('ARGV=' + json.dumps(sys.argv))\n")
        (tmp / "dumpmod.py").write_text("import sys, json; print('ARGV=' + json.dumps(sys.argv[1:]))\n")
        e2e = [
            (["dump.py", "a", "-m", "x"], ["dump.py", "a", "-m", "x"]),
            (["--db_path=dbs", "dump.py", "a", "b"], ["dump.py", "a", "b"]),
            (["-ddbs", "dump.py", "-d", "b"], ["dump.py", "-d", "b"]),
            (["-d", "dbs", "-m", "dumpmod", "--db_path=q", "z"], ["--db_path=q", "z"]),
            (["--module=dumpmod", "a", "b"], ["a", "b"]),
        ]
        env = dict(os.environ, PYTHONPATH=f"{core.REPO}{os.pathsep}{tmp}")
        for argv, want in (e2e if ck.tier == "thorough" else e2e[1:4]):
            r = subprocess.run([core.PY, "-m", "fakesnow", *argv], cwd=tmp, capture_output=True, text=True, env=env, timeout=120)
            got = None
            for line in r.stdout.splitlines():
                if line.startswith("ARGV="):
                    import json

                    got = json.loads(line[5:])
            ck.cov["evaluations"] += 1
            if got != want:
                ck.violation(f"python -m fakesnow {argv}: target saw {got}, expected {want}",
                             {"kind": "cli-e2e", "argv": argv, "observed": got, "expected": want, "stderr": r.stderr[-500:]})
    finally:
        shutil.rmtree(tmp, ignore_errors=True)


def render_main(o):
    if o[0] == 0:
        return f"exit({o[1]})"
    if o[0] == 1:
        return "usage(42)"
    return {"module" if o[1] else "path": unstr(o[2]), "argv": [unstr(a) for a in o[3]],
            "db_path": unstr(o[4][0]) if o[4] else None}


# ----------------------------------------------------------------------------- patch()

KIND_NAMES = {0: "orig-connect", 1: "orig-write_pandas", 2: "stale-mock", 3: "other-fn", 4: "attr-missing",
              5: "unloaded-module(connect)", 6: "unloaded-module(write_pandas)", 7: "no-such-module"}


class PatchWorld:
    """Builds a real world of modules for one case and observes it."""

    def __init__(self, tmp: Path, case_id: int, kinds: list[int]):
        import snowflake.connector
        import snowflake.connector.pandas_tools

        self.sc, self.pt = snowflake.connector, snowflake.connector.pandas_tools
        self.orig = (self.sc.connect, self.pt.write_pandas)
        self.tmp, self.names = tmp, ["snowflake.connector.connect", "snowflake.connector.pandas_tools.write_pandas"]
        self.mods = []
        for j, k in enumerate(kinds):
            mn = f"vfm_{case_id}_{j}"
            self.mods.append(mn)
            self.names.append(f"{mn}.fn")
            if k in (5, 6):
                src = ("from snowflake.connector import connect as fn\n" if k == 5
                       else "from snowflake.connector.pandas_tools import write_pandas as fn\n")
                (tmp / f"{mn}.py").write_text(src)
            elif k == 7:
                pass
            else:
                m = types.ModuleType(mn)
                if k == 0:
                    m.fn = self.orig[0]
                elif k == 1:
                    m.fn = self.orig[1]
                elif k == 2:
                    m.fn = mock.MagicMock()
                elif k == 3:
                    m.fn = lambda *a, **kw: None
                sys.modules[mn] = m

    def observe(self) -> list[int]:
        out = []
        for nm in self.names:
            mn, attr = nm.rsplit(".", 1)
            if mn in sys.modules:
                v = sys.modules[mn].__dict__.get(attr)
                if v is self.orig[0]:
                    out.append(0)
                elif v is self.orig[1]:
                    out.append(1)
                elif isinstance(v, mock.MagicMock):
                    out.append(2)
                elif v is None:
                    out.append(4)
                else:
                    out.append(3)
            elif (self.tmp / f"{mn}.py").exists():
                out.append(5 if "import connect" in (self.tmp / f"{mn}.py").read_text() else 6)
            else:
                out.append(7)
        return out

    def cleanup(self):
        import importlib

        for mn in self.mods:
            sys.modules.pop(mn, None)
            f = self.tmp / f"{mn}.py"
            if f.exists():
                f.unlink()
        self.sc.connect, self.pt.write_pandas = self.orig
        importlib.invalidate_caches()


class BodyError(Exception):
    pass


class BodyExit(BaseException):
    """leaving the block the way SystemExit / KeyboardInterrupt / pytest's outcomes do: not an Exception subclass"""


def run_patch_case(tmp, cid, kinds, extras, body_raises, nested=False):
    import fakesnow
    import fakesnow.instance

    pw = PatchWorld(tmp, cid, kinds)
    created = []
    real_fs = fakesnow.instance.FakeSnow

    class RecFS(real_fs):
        def __init__(self, *a, **kw):
            super().__init__(*a, **kw)
            created.append(self)

    inside = None
    try:
        if nested:
            pw.sc.connect = mock.MagicMock()
        w0 = pw.observe()
        with mock.patch.object(fakesnow, "FakeSnow", RecFS):
            try:
                with fakesnow.patch([pw.names[i] for i in extras]):
                    inside = pw.observe()
                    if body_raises:
                        raise (BodyExit() if cid % 2 else BodyError())
                res = 3
            except (BodyError, BodyExit):
                res = 4
            except AssertionError as e:
                res = 0 if "already patched" in str(e) else 2
            except ImportError:
                res = 1
        after = pw.observe()
        closed = False
        for fs in created:
            try:
                fs.duck_conn.execute("select 1")
            except Exception:  # noqa: BLE001
                closed = True
        return w0, [res, [inside] if inside is not None else [], after, S(closed)]
    finally:
        pw.cleanup()


def check_patch(ck: Check):
    tmp = core.VERIF / "build" / f"c20p-{os.getpid()}"
    tmp.mkdir(parents=True, exist_ok=True)
    sys.path.insert(0, str(tmp))
    try:
        maxn, maxe = (3, 3) if ck.tier == "thorough" else (2, 2)
        specs = []
        kinds_all = [0, 1, 2, 3, 4, 5, 6, 7]
        for n in range(maxn + 1):
            for kinds in itertools.product(kinds_all, repeat=n):
                if n == 3 and ck.rng.random() > 0.25:
                    continue
                idx = list(range(2, 2 + n))
                for e in range(maxe + 1):
                    for extras in itertools.product(idx, repeat=e):
                        if e and len(set(extras)) < min(n, e) and ck.rng.random() > 0.5:
                            continue
                        for br in (False, True):
                            specs.append((list(kinds), list(extras), br, False))
        specs.append(([0], [0, 2, 1], False, False))  # standard targets listed again as extras
        specs.append(([], [], False, True))           # nested patching
        specs.append(([0, 5], [2, 3], True, True))
        cases, obs = [], []
        for cid, (kinds, extras, br, nested) in enumerate(specs):
            w0, o = run_patch_case(tmp, cid, kinds, extras, br, nested)
            cases.append([w0, extras, S(br)])
            obs.append(o)
            ck.count(f"patch:result={o[0]}")
        # oracle on the implementation: after == before, with unloaded modules bound to originals
        first = True
        for (kinds, extras, br, nested), c, o in zip(specs, cases, obs):
            w0 = c[0]
            want_after = [{5: 0, 6: 1}.get(v, v) if (i in extras and o[0] not in (0, 1)) else v for i, v in enumerate(w0)]
            ok_after = all(a == w or (w in (5, 6) and a == w - 5) for a, w in zip(o[2], w0)) and \
                (o[0] == 1 or o[2] == want_after) and (o[0] != 0 or o[2] == w0)
            ok_inside = (not o[1]) or all(o[1][0][t] == 2 for t in [0, 1] + extras)
            ok_closed = o[3] == (0 if o[0] == 0 else 1)
            valid = all(w0[t] in (0, 1, 2, 5, 6) for t in [0, 1] + extras) and w0[0] != 2
            ok_result = (o[0] in (3, 4)) == valid and (not valid or o[0] == (4 if br else 3))
            ok_inside = ok_inside and (not valid or bool(o[1]))
            if not ok_result and first:
                first = False
                ck.violation(
                    f"patch(extra_targets={extras}) over locations {[KIND_NAMES[k] for k in w0]} body_raises={br}: result code {o[0]} "
                    f"(0 refused,1 import error,2 assert,3 ok,4 body raised) but all targets valid={valid}; this was patch() call number "
                    f"{specs.index((kinds, extras, br, nested)) + 1} in one process (patch() must be enterable again after any earlier exit)",
                    {"kind": "patch-history", "world": [KIND_NAMES[k] for k in w0], "extras": extras, "body_raises": br,
                     "earlier_calls": [{"world": [KIND_NAMES[k] for k in cc[0]], "extras": cc[1]} for cc in cases[:specs.index((kinds, extras, br, nested))][-5:]],
                     "observed": o})
            if not (ok_after and ok_inside and ok_closed) and first:
                first = False
                names = [KIND_NAMES[k] for k in w0]
                ck.violation(
                    f"patch(extra_targets={extras}) over locations {names} body_raises={br}: result={o[0]} inside={o[1]} "
                    f"after={[KIND_NAMES[k] for k in o[2]]} closed={o[3]} (after_ok={ok_after} inside_ok={ok_inside} closed_ok={ok_closed})",
                    {"kind": "patch", "world": names, "extras": extras, "body_raises": br, "nested": nested, "observed": o})
        ck.cov["distinct_nontrivial"] += sum(1 for s in specs if s[1])
        dis = ck.correspond(cases, obs, label="patch", run="run_c20_patch", kernel_sample=40)
        if dis and first:
            i = dis[0]
            ck.violation(
                f"patch: model and implementation differ on world={cases[i][0]} extras={cases[i][1]} body_raises={cases[i][2]}: "
                f"model {ck.model_obs[i]} impl {obs[i]}; {len(dis)} disagreements",
                {"kind": "patch-correspondence", "case": cases[i], "model": ck.model_obs[i], "impl": obs[i],
                 "theorem": "Props_C20.patch_restores / patch_inside"}, no_input=True)
        ck.cov["samples"].append({"world": [KIND_NAMES[k] for k in cases[-1][0]], "extras": cases[-1][1], "obs": obs[-1]})
    finally:
        sys.path.remove(str(tmp))
        shutil.rmtree(tmp, ignore_errors=True)


def main():
    ck = Check("C20", "Cli", "run_c20_main")
    ck.module = "Cli Patch"
    ck.prepare()
    ck.trusted += [
        "modelled, not verified: argparse (only the part arg_parser() with allow_abbrev=False exercises on split()'s output), "
        "unittest.mock.patch / ExitStack (enter = replace attribute, close = restore in reverse), importlib, runpy",
        "cli correspondence observes main() at the runpy/patch boundary (both mocked by the harness); 5 end-to-end subprocess runs use the real ones",
    ]
    check_cli(ck)
    check_patch(ck)
    return ck.finish(
        rule="CLI: exhaustive token sequences + random target-argument tails; non-trivial = argv inside the grammar "
             "[own options] target targs (the oracle's domain). patch(): all small worlds of locations x extra target lists x exit modes; "
             "non-trivial = at least one extra target")


if __name__ == "__main__":
    sys.exit(main())
