"""Deterministic scheduling of real fakesnow sessions at engine-call boundaries.

The FakeSnow instance's DuckDB connection is replaced by a proxy: every `execute` of every cursor derived from it is
a switch point at which the calling thread parks until the controller grants it the baton. Exactly one session thread
runs at any time, so the interleaving is the one the schedule prescribes (switch points = engine calls and acquisition
of the instance's connect lock). No source hook is needed."""
from __future__ import annotations

import re
import threading


class Deadlock(Exception):
    pass


class Controller:
    def __init__(self, n, schedule):
        self.n = n
        self.schedule = list(schedule)
        self.cv = threading.Condition()
        self.state = {i: "new" for i in range(n)}      # new | parked | running | done
        self.point = {}                                # sid -> ('call', sql) | ('lock',) | ('start',)
        self.granted = None
        self.trace = []                                # (sid, sql) for every engine call, in execution order
        self.lock_owner = None
        self.tls = threading.local()

    # ---- called by session threads
    def park(self, point):
        sid = getattr(self.tls, "sid", None)
        if sid is None:                                # a thread outside the experiment (set-up, observation)
            return
        with self.cv:
            self.state[sid] = "parked"
            self.point[sid] = point
            self.cv.notify_all()
            while self.granted != sid:
                self.cv.wait()
            self.granted = None
            self.state[sid] = "running"
            if point[0] == "call":
                self.trace.append((sid, point[1]))
            elif point[0] == "lock":
                self.lock_owner = sid

    def finished(self):
        sid = self.tls.sid
        with self.cv:
            self.state[sid] = "done"
            self.cv.notify_all()

    def release_lock(self):
        with self.cv:
            self.lock_owner = None

    # ---- controller
    def runnable(self, sid):
        if self.state[sid] != "parked":
            return False
        if self.point[sid][0] == "lock" and self.lock_owner is not None:
            return False
        return True

    def run(self, timeout=60):
        with self.cv:
            while True:
                ok = self.cv.wait_for(lambda: all(s in ("parked", "done") for s in self.state.values()) and self.granted is None, timeout=timeout)
                if not ok:
                    raise Deadlock(f"threads did not reach a switch point: {self.state}")
                if all(s == "done" for s in self.state.values()):
                    return
                nxt = None
                while self.schedule:
                    c = self.schedule.pop(0)
                    if c < self.n and self.runnable(c):
                        nxt = c
                        break
                if nxt is None:
                    cands = [i for i in range(self.n) if self.runnable(i)]
                    if not cands:
                        raise Deadlock(f"no runnable session: {self.state} {self.point}")
                    nxt = cands[0]
                self.granted = nxt
                self.state[nxt] = "running"
                self.cv.notify_all()


class CursorProxy:
    def __init__(self, inner, ctl):
        object.__setattr__(self, "_inner", inner)
        object.__setattr__(self, "_ctl", ctl)

    def execute(self, sql, *a, **kw):
        self._ctl.park(("call", sql))
        return self._inner.execute(sql, *a, **kw)

    def cursor(self):
        return CursorProxy(self._inner.cursor(), self._ctl)

    def __enter__(self):
        self._inner.__enter__()
        return self

    def __exit__(self, *a):
        return self._inner.__exit__(*a)

    def __getattr__(self, name):
        return getattr(self._inner, name)


class LockProxy:
    def __init__(self, ctl):
        self.ctl = ctl

    def __enter__(self):
        self.ctl.park(("lock",))
        return self

    def __exit__(self, *a):
        self.ctl.release_lock()
        return False


def run_sessions(fs, scripts, schedule, timeout=60):
    """scripts: list of callables(session_index) run in their own thread against instance fs.
    Returns (trace, errors) where trace = [(sid, sql)] in execution order."""
    ctl = Controller(len(scripts), schedule)
    real = fs.duck_conn
    fs.duck_conn = CursorProxy(real, ctl)
    had_lock = hasattr(fs, "_connect_lock")
    if had_lock:
        real_lock = fs._connect_lock  # noqa: SLF001
        fs._connect_lock = LockProxy(ctl)  # noqa: SLF001
    errors = {}

    def worker(i):
        ctl.tls.sid = i
        ctl.park(("start",))
        try:
            scripts[i](i)
        except BaseException as e:  # noqa: BLE001
            errors[i] = e
        finally:
            ctl.finished()

    ts = [threading.Thread(target=worker, args=(i,), daemon=True) for i in range(len(scripts))]
    for t in ts:
        t.start()
    try:
        ctl.run(timeout=timeout)
    finally:
        fs.duck_conn = real
        if had_lock:
            fs._connect_lock = real_lock  # noqa: SLF001
    for t in ts:
        t.join(timeout=5)
    return ctl.trace, errors, had_lock


CLASSES = [
    (0, re.compile(r"from information_schema\.schemata\s+where upper\(catalog_name\) = '[^']*'\s*$", re.I)),
    (1, re.compile(r"from information_schema\.schemata\s+where upper\(catalog_name\) = '[^']*' and upper\(schema_name\)", re.I)),
    (2, re.compile(r"^\s*ATTACH\b", re.I)),
    (3, re.compile(r"create table if not exists \S+\.information_schema\._fs_tables_ext", re.I)),
    (4, re.compile(r"^\s*CREATE SCHEMA\b", re.I)),
    (5, re.compile(r"^\s*SET schema\s*=", re.I)),
    (7, re.compile(r"INSERT INTO \S+\.information_schema\._fs_tables_ext", re.I)),
    (14, re.compile(r"^\s*CREATE OR REPLACE TEMPORARY TABLE MERGE_CANDIDATES\b", re.I)),
    (15, re.compile(r"^\s*INSERT INTO\b.*\bFROM MERGE_CANDIDATES\b", re.I | re.S)),
    (16, re.compile(r"^\s*SELECT COUNT_IF\(MERGE_OP\b.*\bFROM MERGE_CANDIDATES\b", re.I | re.S)),
    (6, re.compile(r"^\s*CREATE TABLE\b", re.I)),
    (8, re.compile(r"^\s*INSERT INTO\b", re.I)),
    (10, re.compile(r"^\s*SELECT .* FROM information_schema\.tables\b.*_fs_tables_ext", re.I | re.S)),
    (9, re.compile(r"^\s*SELECT \* FROM\b", re.I)),
]


def classify(sql):
    """class of an engine call as the model names it, or None for calls the model does not have (switch points only)"""
    s = " ".join(sql.split())
    for k, rx in CLASSES:
        if rx.search(s):
            return k
    return None
