"""C04 - DML changes exactly the right rows and reports the true affected count."""
from __future__ import annotations

import sys

import core
import fsutil
from core import S, Check, unstr

TABLES = ["c04_t", "C04_U", '"c04 w"']
ADMIN = ['DB1.S1.C04_T', 'DB1.S1.C04_U', 'DB1.S1."c04 w"']
VALS = [None, 0, 1, 2, 3]


# ----------------------------------------------------------------------------- generation

def g_term(rng, allow_plus=False):
    x = rng.random()
    if x < 0.55:
        return ("col", rng.random() < 0.5)
    if allow_plus and x < 0.7:
        return ("plus", rng.random() < 0.5, rng.choice([1, -1, 2]))
    return ("const", rng.choice(VALS))


def g_pred(rng, depth=0):
    x = rng.random()
    if depth >= 3 or x < 0.45:
        y = rng.random()
        if y < 0.4:
            return ("eq", g_term(rng), g_term(rng))
        if y < 0.65:
            return ("lt", g_term(rng), g_term(rng))
        if y < 0.8:
            return ("isnull", g_term(rng))
        return ("in", g_term(rng), [rng.choice(VALS) for _ in range(rng.randint(1, 3))])
    if x < 0.65:
        return ("and", g_pred(rng, depth + 1), g_pred(rng, depth + 1))
    if x < 0.85:
        return ("or", g_pred(rng, depth + 1), g_pred(rng, depth + 1))
    return ("not", g_pred(rng, depth + 1))


def g_stmt(rng):
    t = rng.randrange(3)
    x = rng.random()
    if x < 0.35:
        n = rng.choice([0, 1, 1, 2, 3, 4]) if rng.random() < 0.9 else 0
        n = max(n, 1)
        return ("insv", t, rng.randrange(4), [(rng.choice(VALS), rng.choice(VALS)) for _ in range(n)])
    if x < 0.5:
        return ("inss", t, rng.randrange(4), rng.randrange(3), g_pred(rng))
    if x < 0.72:
        return ("upd", t, rng.random() < 0.5, g_term(rng, True), g_pred(rng))
    if x < 0.95:
        return ("del", t, g_pred(rng))
    return ("trunc", t)


# ----------------------------------------------------------------------------- rendering

def r_val(v):
    return "NULL" if v is None else str(v)


def r_term(t, rng=None):
    if t[0] == "col":
        return "b" if t[1] else "a"
    if t[0] == "const":
        return r_val(t[1])
    return f"({'b' if t[1] else 'a'} + {t[2]})" if t[2] >= 0 else f"({'b' if t[1] else 'a'} - {-t[2]})"


def r_pred(p):
    k = p[0]
    if k == "eq":
        return f"{r_term(p[1])} = {r_term(p[2])}"
    if k == "lt":
        return f"{r_term(p[1])} < {r_term(p[2])}"
    if k == "isnull":
        return f"{r_term(p[1])} IS NULL"
    if k == "in":
        return f"{r_term(p[1])} IN ({', '.join(r_val(v) for v in p[2])})"
    if k == "and":
        return f"(({r_pred(p[1])}) AND ({r_pred(p[2])}))"
    if k == "or":
        return f"(({r_pred(p[1])}) OR ({r_pred(p[2])}))"
    return f"(NOT ({r_pred(p[1])}))"


COLS = ["", "(a)", "(b)", "(b, a)"]


PREFIX = [""]


def tn(t):
    """the table as the statement names it: unqualified, or fully qualified into a database that is not the session's current one"""
    return PREFIX[0] + TABLES[t]


def r_stmt(s):
    k = s[0]
    if k == "insv":
        _, t, c, rows = s
        if c == 0 or c == 3:
            vals = ", ".join(f"({r_val(a)}, {r_val(b)})" for a, b in rows)
        else:
            vals = ", ".join(f"({r_val(a)})" for a, _ in rows)
        return f"INSERT INTO {tn(t)} {COLS[c]} VALUES {vals}"
    if k == "inss":
        _, t, c, src, p = s
        sel = "a, b" if c in (0, 3) else "a"
        return f"INSERT INTO {tn(t)} {COLS[c]} SELECT {sel} FROM {tn(src)} WHERE {r_pred(p)}"
    if k == "upd":
        _, t, sb, e, p = s
        return f"UPDATE {tn(t)} SET {'b' if sb else 'a'} = {r_term(e)} WHERE {r_pred(p)}"
    if k == "del":
        return f"DELETE FROM {tn(s[1])} WHERE {r_pred(s[2])}"
    return f"TRUNCATE TABLE {tn(s[1])}"


def e_term(t):
    if t[0] == "col":
        return [0, S(t[1])]
    if t[0] == "const":
        return [1, core.opt(t[1])]
    return [2, S(t[1]), t[2]]


def e_pred(p):
    k = p[0]
    if k == "eq":
        return [0, e_term(p[1]), e_term(p[2])]
    if k == "lt":
        return [1, e_term(p[1]), e_term(p[2])]
    if k == "isnull":
        return [2, e_term(p[1])]
    if k == "in":
        return [3, e_term(p[1]), [core.opt(v) for v in p[2]]]
    if k == "and":
        return [4, e_pred(p[1]), e_pred(p[2])]
    if k == "or":
        return [5, e_pred(p[1]), e_pred(p[2])]
    return [6, e_pred(p[1])]


def e_row(r):
    return [core.opt(r[0]), core.opt(r[1])]


def e_stmt(s):
    k = s[0]
    if k == "insv":
        # with a one-column list only the first component is sent
        return [0, s[1], s[2], [e_row(r) for r in s[3]]]
    if k == "inss":
        return [1, s[1], s[2], s[3], e_pred(s[4])]
    if k == "upd":
        return [2, s[1], S(s[2]), e_term(s[3]), e_pred(s[4])]
    if k == "del":
        return [3, s[1], e_pred(s[2])]
    return [4, s[1]]


# ----------------------------------------------------------------------------- implementation

STATUS_NAMES = {"number of rows inserted": 0, "number of rows updated": 1, "number of rows deleted": 2}


def dump(admin, db="DB1"):
    out = []
    for t in ADMIN:
        rows = admin.execute(f"select a, b from {t.replace('DB1.', db + '.', 1)}").fetchall()
        out.append(sorted(([core.opt(a), core.opt(b)] for a, b in rows), key=repr))
    return out


def run_impl(stmts, other_db=False):
    """other_db: the statements name their tables fully qualified in DB2 while the session's current database DB1 has tables of the
    same names (one sentinel row each), which must stay exactly as they are"""
    fs, conn = fsutil.fresh()
    cur = conn.cursor()
    for t in TABLES:
        cur.execute(f"create table {t} (a int, b int)")
    db = "DB1"
    if other_db:
        db = "DB2"
        cur.execute("create database db2")
        cur.execute("create schema db2.s1")
        for t in TABLES:
            cur.execute(f"create table db2.s1.{t} (a int, b int)")
            cur.execute(f"insert into {t} values (777, 777)")
        PREFIX[0] = "db2.s1."
    admin = fs.duck_conn.cursor()
    obs = []
    for j, s in enumerate(stmts):
        try:
            cur.execute(r_stmt(s))
            rows = cur.fetchall()
            names = list(cur._arrow_table.schema.names)  # noqa: SLF001
            if j % 2 and s[0] != "trunc":
                # programs look at the description before they look at the count: the count must still be the statement's
                if [x.name for x in cur.description] != names:
                    raise AssertionError(f"description names {[x.name for x in cur.description]} != result columns {names}")
            if s[0] == "trunc":
                rep = [[3], 1]
            else:
                kind = STATUS_NAMES.get(names[0], 9)
                ok_shape = len(rows) == 1 and (len(rows[0]) == (2 if kind == 1 else 1)) and (kind != 1 or rows[0][1] == 0)
                rep = [[kind, rows[0][0]] if ok_shape and isinstance(rows[0][0], int) else [9, S(repr(rows))], cur.rowcount if cur.rowcount is not None else -1]
        except Exception as e:  # noqa: BLE001
            rep = [[8, S(type(e).__name__)], -1]
        obs.append([rep, dump(admin, db)])
    PREFIX[0] = ""
    if other_db and dump(admin) != [[[[777], [777]]]] * 3:
        obs.append([[[7, S("the same-named tables of the current database changed: " + repr(dump(admin)))], -1], dump(admin, db)])
    fs.duck_conn.close()
    return obs


def canon_model(m):
    return [[rep, [sorted(t, key=repr) for t in dbs]] for rep, dbs in m]


def oracle(stmts, obs):
    """status count == rowcount == observed change in table size (insert/delete) ; bystanders untouched."""
    prev = [[], [], []]
    for s, (rep, tabs) in zip(stmts, obs):
        t = s[1]
        for j in range(3):
            if j != t and tabs[j] != prev[j]:
                return f"`{r_stmt(s)}` changed bystander table {TABLES[j]}: {prev[j]} -> {tabs[j]}"
        if rep[0][0] in (8, 9):
            return f"`{r_stmt(s)}` gave {rep}"
        if s[0] != "trunc":
            n, rc = rep[0][1], rep[1]
            if n != rc:
                return f"`{r_stmt(s)}`: status row says {n} but cursor.rowcount is {rc}"
            if s[0] in ("insv", "inss") and len(tabs[t]) - len(prev[t]) != n:
                return f"`{r_stmt(s)}`: reported {n} rows inserted, table grew by {len(tabs[t]) - len(prev[t])}"
            if s[0] == "del" and len(prev[t]) - len(tabs[t]) != n:
                return f"`{r_stmt(s)}`: reported {n} rows deleted, table shrank by {len(prev[t]) - len(tabs[t])}"
            if s[0] == "upd" and len(prev[t]) != len(tabs[t]):
                return f"`{r_stmt(s)}`: update changed the number of rows"
            if s[0] == "insv" and n != len(s[3]):
                return f"`{r_stmt(s)}`: {len(s[3])} rows written, {n} reported"
        elif tabs[t]:
            return f"`{r_stmt(s)}` left rows {tabs[t]}"
        prev = tabs
    return None


# ----------------------------------------------------------------------------- DDL status

def check_ddl(ck: Check):
    import snowflake.connector.errors  # noqa: F401

    names = ["tab1", "Tab_2", "UPPER3", "mixed Case", "lower", "ünï"]
    cases, obs = [], []
    fs, conn = fsutil.fresh()
    cur = conn.cursor()
    k = 0
    for ident in names:
        for quoted in (False, True):
            if not quoted and not ident.replace("_", "").isalnum():
                continue
            if not quoted and not ident.isascii():
                continue
            k += 1
            q = f'"{ident}"' if quoted else ident
            uniq = f"{ident}{k}" if not quoted else ident
            q = f'"{uniq}"' if quoted else uniq
            for kind, mk, rm in ((0, "create table {} (i int)", "drop table {}"), (2, "create view {} as select 1 as x", "drop view {}"),
                                 (1, "create schema {}", "drop schema {}"), (3, "create database {}", None)):
                if kind == 3 and (quoted or not uniq.isascii()):
                    continue
                name = q if kind != 3 else f"{uniq}db"
                ident_sent = uniq if kind != 3 else f"{uniq}db"
                r = cur.execute(mk.format(name)).fetchall()
                cases.append([kind, S(ident_sent), S(quoted)])
                obs.append(S(r[0][0]) if len(r) == 1 and len(r[0]) == 1 else S(repr(r)))
                if rm:
                    r = cur.execute(rm.format(name)).fetchall()
                    cases.append([4, S(ident_sent), S(quoted)])
                    obs.append(S(r[0][0]) if len(r) == 1 and len(r[0]) == 1 else S(repr(r)))
    fs.duck_conn.close()
    first = True
    for c, o in zip(cases, obs):
        ident, quoted = unstr(c[1]), bool(c[2])
        want = ident if quoted else ident.upper()
        if want not in unstr(o) and first:
            first = False
            ck.violation(f"DDL kind {c[0]} on {'quoted' if quoted else 'unquoted'} name {ident!r}: status {unstr(o)!r} does not name {want!r}",
                         {"kind": "ddl-status", "ddl_kind": c[0], "identifier": ident, "quoted": quoted, "status": unstr(o)})
    ascii_cases = [(c, o) for c, o in zip(cases, obs) if unstr(c[1]).isascii()]
    dis = ck.correspond([c for c, _ in ascii_cases], [o for _, o in ascii_cases], label="ddl", run="run_c04_ddl", kernel_sample=20)
    if dis and first:
        c, o = ascii_cases[dis[0]]
        ck.violation(f"DDL status: model {unstr(ck.model_obs[dis[0]])!r} vs implementation {unstr(o)!r} for {c}",
                     {"kind": "ddl-correspondence", "case": c, "impl": unstr(o), "model": unstr(ck.model_obs[dis[0]]), "theorem": "Props_C04.ddl_status_names_object"}, no_input=True)


def template_tie(ck):
    """Translator half of the tie: the status-message templates of cursor.py, re-read from /repo on every run with Python's ast,
    emitted as a Coq statement about the model's ddl_status and proved by coqc."""
    import ast
    import os
    import shutil
    import subprocess

    tree = ast.parse((core.REPO / "fakesnow" / "cursor.py").read_text())
    want = {"SQL_CREATED_DATABASE": "CreateDatabase", "SQL_CREATED_SCHEMA": "CreateSchema", "SQL_CREATED_TABLE": "CreateTable", "SQL_CREATED_VIEW": "CreateView", "SQL_DROPPED": "DropAny"}
    found = {}
    for node in tree.body:
        if isinstance(node, ast.Assign) and isinstance(node.targets[0], ast.Name) and node.targets[0].id in want:
            v = node.value
            if isinstance(v, ast.Call) and getattr(v.func, "id", "") == "Template" and isinstance(v.args[0], ast.Constant):
                found[node.targets[0].id] = v.args[0].value
    if set(found) != set(want):
        raise core.MachineryError(f"status templates not found in cursor.py (translator fails closed): {sorted(set(want) - set(found))}")
    clauses, src = [], {}
    for name, text in found.items():
        pre, sep, rest = text.partition("${name}")
        if not (pre.startswith("SELECT '") and sep and rest.endswith("' as 'status'")):
            return {name: text}, found
        a, b = pre[len("SELECT '"):], rest[: -len("' as 'status'")]
        src[name] = (a, b)
        lit = lambda t: "[" + "; ".join(str(ord(c)) for c in t) + "]"  # noqa: E731
        clauses.append(f"(forall n, ddl_status {want[name]} n true = {lit(a)} ++ n ++ {lit(b)})")
    out = core.VERIF / "build" / f"c04tie-{os.getpid()}"
    out.mkdir(parents=True, exist_ok=True)
    try:
        (out / "Tie.v").write_text("From FS Require Import Sexp Dml.\nOpen Scope Z_scope.\nTheorem templates_match_source :\n  " + " /\\\n  ".join(clauses) +
                                   ".\nProof. repeat split; intros n; reflexivity. Qed.\nPrint Assumptions templates_match_source.\n")
        r = subprocess.run(f"timeout 300 coqc -Q {core.COQ}/theories FS Tie.v", shell=True, cwd=out, capture_output=True, text=True)
        ck.cov["template_tie"] = {"templates": len(found), "theorem": "templates_match_source (generated from /repo/fakesnow/cursor.py, checked by coqc)", "accepted": r.returncode == 0}
        return ({} if r.returncode == 0 else {"coqc": r.stderr[-300:] + r.stdout[-300:]}), found
    finally:
        shutil.rmtree(out, ignore_errors=True)


def main():
    ck = Check("C04", "Dml", "run_c04")
    ck.prepare()
    tie_bad, tie_src = template_tie(ck)
    ck.trusted.append("modelled, not verified: DuckDB's evaluation of predicates (three-valued logic), INSERT/UPDATE/DELETE/TRUNCATE and its affected-row count; "
                      "sqlglot's rendering of the generated statements")
    n = 220 if ck.tier == "quick" else 6000
    seqs = []
    # sweep: every command x affected count 0/1/2/n
    base = [("insv", 0, 0, [(1, 1), (2, None), (None, 3), (2, 2)]), ("insv", 1, 0, [(1, 0)])]
    for cnt_pred in (("eq", ("col", False), ("const", 9)), ("eq", ("col", False), ("const", 1)), ("eq", ("col", False), ("const", 2)),
                     ("or", ("isnull", ("col", False)), ("lt", ("const", 0), ("col", False))), ("eq", ("col", False), ("const", None)),
                     ("not", ("eq", ("col", False), ("const", 2)))):
        seqs.append(base + [("upd", 0, True, ("plus", True, 1), cnt_pred), ("inss", 2, 0, 0, cnt_pred), ("del", 0, cnt_pred), ("del", 0, cnt_pred)])
    seqs.append([("del", 0, ("isnull", ("col", True))), ("upd", 1, False, ("const", 1), ("isnull", ("col", True))), ("inss", 0, 3, 1, ("isnull", ("col", False))), ("trunc", 2)])
    n_sweep = len(seqs)
    for _ in range(n):
        seqs.append([g_stmt(ck.rng) for _ in range(ck.rng.randint(5, 14))])
    cases = [[e_stmt(s) for s in seq] for seq in seqs]
    # every fourth sequence names its tables fully qualified in ANOTHER database than the session's current one, which holds tables of the same names
    other = [i % 4 == 3 for i in range(len(seqs))]
    impl = [run_impl(seq, o_) for seq, o_ in zip(seqs, other)]
    reported = False
    zero = 0
    for k_, (seq, obs) in enumerate(zip(seqs, impl)):
        if len(obs) > len(seq):
            PREFIX[0] = "db2.s1."
            if not reported:
                reported = True
                ck.violation(f"statements {[r_stmt(s) for s in seq]} (current database DB1, which has tables of the same names): {unstr(obs[-1][0][0][1])}",
                             {"statements": [r_stmt(s) for s in seq], "current_database": "DB1", "observed": obs})
            PREFIX[0] = ""
            impl[k_] = obs = obs[:len(seq)]
        ck.count("names:other-database" if other[k_] else "names:unqualified")
        for s, (rep, _) in zip(seq, obs):
            ck.count(f"stmt:{s[0]}")
            if s[0] != "trunc" and rep[0][0] in (0, 1, 2):
                ck.count(f"affected={min(rep[0][1], 3)}{'+' if rep[0][1] >= 3 else ''}")
        msg = oracle(seq, obs)
        if msg and not reported:
            reported = True
            o_ = other[k_]
            small = core.shrink_list(seq, lambda c: oracle(c, run_impl(c, o_)[:len(c)]) is not None)
            PREFIX[0] = "db2.s1." if o_ else ""
            texts = [r_stmt(s) for s in small]
            PREFIX[0] = ""
            ck.violation(f"statements {texts}: {oracle(small, run_impl(small, o_)[:len(small)])}",
                         {"statements": texts, "observed": run_impl(small, o_)})
    model = core.model_eval("run_c04", cases)
    ck.cov["evaluations"] += len(cases)
    dis = [i for i, (m, o) in enumerate(zip(model, impl)) if canon_model(m) != o]
    idx = sorted(set(ck.rng.sample(range(len(cases)), 40)) | set(dis[:20]))
    if core.kernel_failing(ck.module, "run_c04", [(cases[i], model[i]) for i in idx], "C04"):
        raise core.MachineryError("kernel and extracted model disagree on run_c04")
    ck.kernel_checked += len(idx)
    if dis and not reported:
        i = dis[0]

        def differs(c):
            return canon_model(core.model_eval("run_c04", [[e_stmt(s) for s in c]])[0]) != run_impl(c, other[i])[:len(c)]

        small = core.shrink_list(seqs[i], differs)
        mo = canon_model(core.model_eval("run_c04", [[e_stmt(s) for s in small]])[0])
        io = run_impl(small, other[i])[:len(small)]
        k = next((j for j, (a, b) in enumerate(zip(mo, io)) if a != b), 0)
        ck.violation(
            f"model and implementation differ after {[r_stmt(s) for s in small]}: step {k}: model {mo[k]} impl {io[k]}; {len(dis)} disagreements; "
            f"Props_C04 theorems no longer tied to cursor.py",
            {"statements": [r_stmt(s) for s in small], "model": mo, "impl": io, "theorem": "Props_C04.count_reported / *_exact"}, no_input=True)
    check_ddl(ck)
    ck.cov["distinct_nontrivial"] = len({core.show(c) for c in cases if len(c) >= 3})
    ck.cov["samples"] += [{"statements": [r_stmt(s) for s in seqs[j]], "reports": [o[0] for o in impl[j]]} for j in (0, n_sweep + 1)]
    if tie_bad and not ck.violations:
        ck.violation(f"the status-message templates of cursor.py no longer match the model's ddl_status: {tie_bad}; the generated theorem templates_match_source is rejected by coqc, "
                     "so Props_C04.ddl_status_names_object is no longer about this code", {"templates": tie_src, "problem": tie_bad, "theorem": "templates_match_source"}, no_input=True)
    return ck.finish(rule="the five DDL status templates re-translated from cursor.py and proved equal to the model's ddl_status; sweep of every DML command x affected count 0/1/2/n + random sequences of 5-14 DML statements over three tables "
                          "(NULLs, duplicates, 3VL predicates of depth <=3, column lists, INSERT..SELECT incl. self-insert, TRUNCATE); after EVERY statement the status row, "
                          "rowcount and the full contents of all three tables are compared; DDL status text for quoted/unquoted names; non-trivial = sequences of >=3 statements, distinct by encoding")


if __name__ == "__main__":
    sys.exit(main())
