"""C13 - transactions are atomic, isolated between connections, and sticky to theirs."""
from __future__ import annotations

import itertools
import sys

import core
import fsutil
from core import Check

BEGINS = ["BEGIN", "begin transaction", "Begin"]
FAILS = ["select * from c13_missing", "select nocol from c13_t", "insert into c13_t values (1, 2)", "select * from nodb.nosch.t"]


def render(op, variant):
    k = op[0]
    if k == "begin":
        return BEGINS[variant % len(BEGINS)]
    if k == "commit":
        return None if variant % 3 == 2 else ("COMMIT" if variant % 3 == 0 else "commit")
    if k == "rollback":
        return None if variant % 3 == 2 else ("ROLLBACK" if variant % 3 == 0 else "rollback")
    if k == "insert":
        if variant % 8 == 6:
            return f"EXECUTEMANY:insert into c13_t values (%s)|{op[1]}"     # the same row through cursor.executemany
        if variant % 4 == 3:
            # the same single-row insert written as a MERGE (DML in several internal steps: it must stay inside the transaction like any other)
            return f"merge into c13_t using (select {op[1]} as id) as s on c13_t.id = s.id when not matched then insert (id) values (s.id)"
        return f"insert into c13_t values ({op[1]})"
    if k == "select":
        return "select id from c13_t"
    if k == "fail":
        if variant % 5 == 4:
            return "EXECUTEMANY:insert into c13_missing values (%s)|1"       # a failing executemany
        return FAILS[variant % len(FAILS)]
    raise ValueError(op)


def run_impl(nconn, hist):
    """hist: [(conn, cursor, op, variant)]"""
    import snowflake.connector.errors as E

    fs, admin = fsutil.fresh()
    admin.cursor().execute("create table c13_t (id int)")
    conns = [fs.connect(database="DB1", schema="S1") for _ in range(nconn)]
    curs = [[c.cursor(), c.cursor()] for c in conns]
    obs = []
    for c, k, op, variant in hist:
        sql = render(op, variant)
        try:
            if sql is None:
                (conns[c].commit if op[0] == "commit" else conns[c].rollback)()
                obs.append([6])   # method form: no result to look at
                continue
            if sql.startswith("EXECUTEMANY:"):
                stmt, val = sql[len("EXECUTEMANY:"):].split("|")
                cur = curs[c][k].executemany(stmt, [(int(val),)])
            else:
                cur = curs[c][k].execute(sql)
            rows = cur.fetchall()
            if op[0] == "select":
                obs.append([0, sorted(r[0] for r in rows)])
            elif op[0] == "insert":
                obs.append([1] if rows == [(1,)] else [9, core.S(repr(rows))])
            elif rows == [("Statement executed successfully.",)]:
                obs.append([2])
            elif rows == []:
                obs.append([3])
            else:
                obs.append([9, core.S(repr(rows))])
        except E.ProgrammingError:
            obs.append([4])
        except Exception as e:  # noqa: BLE001
            obs.append([8, core.S(type(e).__name__)])
    final = sorted(r[0] for r in fs.connect(database="DB1", schema="S1").cursor().execute("select id from c13_t").fetchall())
    fs.duck_conn.close()
    return obs, final


OPCODE = {"begin": 0, "commit": 1, "rollback": 2, "insert": 3, "select": 4, "fail": 5}


def enc(nconn, hist):
    # a failing statement that names an unknown database fails before the engine starts it (no snapshot): its own op in the model
    def code(op, v):
        return 6 if op[0] == "fail" and v % 5 != 4 and "nodb." in FAILS[v % len(FAILS)] else OPCODE[op[0]]
    return [nconn, [[c, code(op, v)] + ([op[1]] if op[0] == "insert" else []) for c, _k, op, v in hist]]


def canon_model(m, hist):
    outs, committed = m
    res = []
    for o, (c, k, op, variant) in zip(outs, hist):
        if o[0] == 0:
            res.append([0, sorted(o[1])])
        elif op[0] in ("commit", "rollback") and render(op, variant) is None:
            res.append([6])
        else:
            res.append(o)
    return res, sorted(committed)


def oracle(nconn, hist, obs, final):
    """Atomicity / isolation / stickiness on the implementation's observations."""
    state = ["none"] * nconn          # none | tx
    pending = [[] for _ in range(nconn)]
    committed, rolled = [], []
    begun_committed = [None] * nconn
    for (c, k, op, variant), o in zip(hist, obs):
        kind = op[0]
        if o[0] in (8, 9):
            return f"connection {c}: `{render(op, variant) or kind + '()'}` gave unexpected result {o}"
        if kind == "begin":
            state[c] = "tx"
            begun_committed[c] = list(committed)
        elif kind == "insert":
            if o != [1]:
                return f"connection {c}: insert {op[1]} gave {o}"
            (pending[c] if state[c] == "tx" else committed).append(op[1])
        elif kind in ("commit", "rollback"):
            if state[c] == "none" and o not in ([2], [6]):
                return f"connection {c}: {kind} with no open transaction gave {o}, expected the success status row"
            if state[c] == "tx":
                (committed if kind == "commit" else rolled).extend(pending[c])
            pending[c] = []
            state[c] = "none"
        elif kind == "fail":
            if o != [4]:
                return f"connection {c}: failing statement gave {o}, expected ProgrammingError"
        elif kind == "select":
            seen = set(o[1])
            others_pending = {r for d in range(nconn) if d != c for r in pending[d]}
            if seen & others_pending:
                return f"connection {c} sees uncommitted rows {sorted(seen & others_pending)} of another connection"
            if seen & set(rolled):
                return f"connection {c} sees rolled-back rows {sorted(seen & set(rolled))}"
            if not set(pending[c]) <= seen:
                return f"connection {c} (cursor {k}) does not see its own writes {sorted(set(pending[c]) - seen)}"
            if state[c] == "none" and seen != set(committed):
                return f"connection {c} outside a transaction sees {sorted(seen)}, committed rows are {sorted(committed)}"
            if state[c] == "tx" and not (set(begun_committed[c]) <= seen <= set(committed) | set(pending[c])):
                return f"connection {c} inside a transaction sees {sorted(seen)}: not between its start snapshot and committed+own"
    if final != sorted(committed):
        return f"after the history a new connection sees {final}, committed rows are {sorted(committed)} (rolled back: {rolled}, still pending: {pending})"
    return None


def interleavings(a, b):
    n, m = len(a), len(b)
    for pos in itertools.combinations(range(n + m), n):
        ia, ib, out = iter(a), iter(b), []
        ps = set(pos)
        for i in range(n + m):
            out.append(next(ia) if i in ps else next(ib))
        yield out


def gen_random(rng, nconn):
    state = [False] * nconn
    hist, rid = [], 100
    for _ in range(rng.randint(6, 18)):
        c, k = rng.randrange(nconn), rng.randrange(2)
        x = rng.random()
        if not state[c] and x < 0.25:
            op = ("begin",)
            state[c] = True
        elif x < 0.5:
            rid += 1
            op = ("insert", rid)
        elif x < 0.72:
            op = ("select",)
        elif x < 0.8:
            op = ("fail",)
        elif x < 0.9:
            op = ("commit",)
            state[c] = False
        else:
            op = ("rollback",)
            state[c] = False
        hist.append((c, k, op, rng.randrange(6)))
    return hist


def runtime_failure_oracle(ck):
    """A statement that fails WHILE RUNNING inside a transaction (NOT NULL violation, conversion error) - outside the model, oracle only:
    nothing of the transaction may be visible to another connection before it ends, ROLLBACK leaves no trace, and after COMMIT the rows
    of the transaction are there together or not at all."""
    from fakesnow.instance import FakeSnow

    bad = []
    for failing in ("insert into nn values (null, 9)", "insert into nn select 'not a number', 9"):
        for end in ("rollback", "commit"):
            for via_api in (False, True):
                fs = FakeSnow()
                a, b = fs.connect(database="db1", schema="s1"), fs.connect(database="db1", schema="s1")
                a.cursor().execute("create table nn (id int not null, v int)")
                a.cursor().execute("insert into nn values (0, 0)")
                log, ok = [], {}

                def ex(c, sql, who):
                    try:
                        r = c.cursor().execute(sql).fetchall()
                        log.append(f"{who}: {sql} -> {r}")
                        return r
                    except Exception as e:  # noqa: BLE001
                        log.append(f"{who}: {sql} -> {type(e).__name__}")
                        return None

                ex(a, "begin", "A")
                ok[1] = ex(a, "insert into nn values (1, 1)", "A") is not None
                ex(a, failing, "A")
                ok[2] = ex(a, "insert into nn values (2, 2)", "A") is not None
                seen_mid = ex(b, "select id from nn order by 1", "B")
                if via_api:
                    try:
                        (a.rollback if end == "rollback" else a.commit)()
                        log.append(f"A: conn.{end}() -> ok")
                    except Exception as e:  # noqa: BLE001
                        log.append(f"A: conn.{end}() -> {type(e).__name__}")
                else:
                    ex(a, end, "A")
                seen_a = ex(a, "select id from nn order by 1", "A")
                seen_b = ex(b, "select id from nn order by 1", "B")
                fs.duck_conn.close()
                ck.cov["evaluations"] += 1
                tx_rows = [(i,) for i in (1, 2) if ok[i]]
                allowed_end = [[(0,)]] if end == "rollback" else [[(0,)], [(0,)] + tx_rows]
                if seen_mid != [(0,)]:
                    bad.append((log, f"connection B saw {seen_mid} while A's transaction was still open"))
                elif seen_a != seen_b or seen_b not in allowed_end:
                    bad.append((log, f"after {end}: A sees {seen_a}, B sees {seen_b}; allowed: {allowed_end}"))
    return bad


def main():
    ck = Check("C13", "Tx", "run_c13")
    ck.prepare()
    ck.trusted.append("modelled, not verified: DuckDB's MVCC (snapshot isolation, snapshot taken by the first statement after BEGIN - also a failing one; "
                      "catalog/binder errors do not abort the transaction); write-write conflicts, runtime errors that abort a transaction and nested BEGIN are outside the model")
    A = [(0, 0, ("begin",), 0), (0, 0, ("insert", 1), 0), (0, 1, ("select",), 0), (0, 1, ("commit",), 0)]
    A2 = [(0, 0, ("begin",), 1), (0, 1, ("insert", 1), 0), (0, 0, ("fail",), 0), (0, 0, ("rollback",), 2)]
    A3 = [(0, 0, ("begin",), 0), (0, 0, ("fail",), 1), (0, 0, ("select",), 0), (0, 0, ("commit",), 2)]
    B = [(1, 0, ("insert", 2), 0), (1, 0, ("select",), 0), (1, 1, ("select",), 0)]
    B2 = [(1, 0, ("begin",), 2), (1, 0, ("select",), 0), (1, 0, ("insert", 2), 0), (1, 0, ("select",), 0)]
    B3 = [(1, 0, ("select",), 0), (1, 0, ("commit",), 0), (1, 0, ("insert", 2), 0), (1, 1, ("select",), 0)]
    hists = []
    pairs = [(A, B), (A, B2), (A2, B), (A2, B3), (A3, B), (A3, B2)] if ck.tier == "quick" else \
        [(a, b) for a in (A, A2, A3) for b in (B, B2, B3)]
    for a, b in pairs:
        for h in interleavings(a, b):
            hists.append((2, h + [(0, 0, ("select",), 0), (1, 0, ("select",), 0)]))
    n_exh = len(hists)
    # corpus: cursor reuse across transactions ended by the method forms; failure inside a transaction then method-form end
    hists.append((2, [(0, 0, ("begin",), 0), (0, 0, ("insert", 1), 0), (0, 0, ("commit",), 2), (0, 0, ("begin",), 0), (0, 0, ("insert", 2), 0),
                      (1, 0, ("select",), 0), (0, 0, ("rollback",), 2), (1, 0, ("select",), 0)]))
    hists.append((2, [(0, 0, ("begin",), 0), (0, 0, ("insert", 1), 0), (0, 0, ("fail",), 0), (0, 0, ("commit",), 2), (1, 0, ("select",), 0),
                      (0, 0, ("insert", 2), 0), (1, 0, ("select",), 0)]))
    for _ in range(250 if ck.tier == "quick" else 6000):
        n = ck.rng.choice((2, 3))
        hists.append((n, gen_random(ck.rng, n)))
    ck.cov["exhaustive_space"] = f"{n_exh} = all statement-level interleavings of {len(pairs)} script pairs (4 + 3..4 statements) on 2 connections x 2 cursors"
    cases = [enc(n, h) for n, h in hists]
    impl = [run_impl(n, h) for n, h in hists]
    reported = False
    for (n, h), (obs, final) in zip(hists, impl):
        ck.count(f"len={min(len(h), 20)}")
        msg = oracle(n, h, obs, final)
        if msg and not reported:
            reported = True

            def bad(hh):
                o2, f2 = run_impl(n, hh)
                return oracle(n, hh, o2, f2) is not None

            small = core.shrink_list(h, bad)
            o2, f2 = run_impl(n, small)
            ck.violation(f"history {[(c, k, render(op, v) or op[0] + '()') for c, k, op, v in small]}: {oracle(n, small, o2, f2)}",
                         {"nconn": n, "history": [(c, k, render(op, v) or f"conn.{op[0]}()") for c, k, op, v in small], "observed": o2, "final_table": f2})
    model = core.model_eval("run_c13", cases)
    ck.cov["evaluations"] += len(cases)
    dis = [i for i, (m, (obs, final), (n, h)) in enumerate(zip(model, impl, hists)) if canon_model(m, h) != (obs, final)]
    idx = sorted(set(ck.rng.sample(range(len(cases)), 50)) | set(dis[:20]))
    if core.kernel_failing(ck.module, "run_c13", [(cases[i], model[i]) for i in idx], "C13"):
        raise core.MachineryError("kernel and extracted model disagree on run_c13")
    ck.kernel_checked += len(idx)
    if dis and not reported:
        i = min(dis, key=lambda j: len(hists[j][1]))
        n, h = hists[i]
        ck.violation(
            f"model and implementation differ on history {[(c, k, render(op, v) or op[0] + '()') for c, k, op, v in h]}: model {canon_model(model[i], h)} impl {impl[i]}; "
            f"{len(dis)} disagreements; Props_C13 theorems no longer tied to the code",
            {"nconn": n, "history": [(c, k, render(op, v) or f"conn.{op[0]}()") for c, k, op, v in h], "model": canon_model(model[i], h), "impl": impl[i],
             "theorem": "Props_C13.rollback_no_trace / commit_atomic_visibility"}, no_input=True)
    ck.cov["distinct_nontrivial"] = len({core.show(c) for c, (n, h) in zip(cases, hists)
                                         if any(op[0] == "begin" for _, _, op, _ in h) and len({c0 for c0, *_ in h}) >= 2})
    ck.cov["samples"] += [{"history": [(c, k, render(op, v) or op[0] + "()") for c, k, op, v in hists[j][1]], "observed": impl[j][0]} for j in (3, len(hists) - 1)]
    rt = runtime_failure_oracle(ck)
    if rt:
        log, what = rt[0]
        ck.violation(f"a statement failing at run time inside a transaction: {what}; statements: {log}", {"statements": log, "finding": what, "cases_failing": len(rt)})
    return ck.finish(rule="all interleavings of small transactional scripts + random histories over 2-3 connections x 2 cursors (SQL and conn.commit()/rollback() forms, "
                          "failing statements inside transactions); non-trivial = contains a BEGIN and statements of >=2 connections; distinct by encoded history")


if __name__ == "__main__":
    sys.exit(main())
