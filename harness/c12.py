"""C12 - MERGE leaves the target as Snowflake's MERGE would, with true counts."""
from __future__ import annotations

import sys

import core
import fsutil
from core import Check

NT, NS = 3, 3
OPS = {0: "=", 1: "<", 2: ">", 3: "<>"}
KINDS = {0: "number of rows inserted", 1: "number of rows updated", 2: "number of rows deleted"}


# ----------------------------------------------------------------------------- generator
def gen_cond(rng, sides, depth=0):
    r = rng.random()
    if depth >= 2 or r < 0.55:
        k = rng.random()
        sd = rng.choice(sides)
        if k < 0.6:
            return [1, sd, rng.randrange(NT), rng.choice([0, 0, 1, 2, 3]), rng.randint(0, 5)]
        if k < 0.8 and 0 in sides and 1 in sides:
            return [2, rng.randrange(NT), rng.randrange(NS), rng.choice([0, 1, 2, 3])]
        return [3, sd, rng.randrange(NT)]
    if r < 0.75:
        return [4, gen_cond(rng, sides, depth + 1), gen_cond(rng, sides, depth + 1)]
    if r < 0.9:
        return [5, gen_cond(rng, sides, depth + 1), gen_cond(rng, sides, depth + 1)]
    return [6, gen_cond(rng, sides, depth + 1)]


def gen_sval(rng):
    r = rng.random()
    if r < 0.6:
        return [0, rng.randrange(NS)]
    if r < 0.9:
        return [1, [rng.randint(0, 9)]]
    return [1, []]


def gen_case(rng, profile):
    on = [[0, 0]] if rng.random() < 0.8 else ([[0, 0], [1, 1]] if rng.random() < 0.7 else [[1, 2]])
    keycols = [p[0] for p in on]
    ncl = rng.choice([1, 1, 2, 2, 3, 4])
    cls = []
    for _ in range(ncl):
        k = rng.random()
        if k < 0.65:
            sides = [1] if (profile == "srccond" or rng.random() < 0.5) else [0, 1]
            cond = [0] if rng.random() < 0.35 else gen_cond(rng, sides)
            if rng.random() < 0.6:
                cols = rng.sample(range(NT), rng.randint(1, 2))
                if profile != "keyassign":
                    cols = [c for c in cols if c not in keycols] or [c for c in range(NT) if c not in keycols][:1]
                cls.append([0, cond, [[c, gen_sval(rng)] for c in cols]])
            else:
                cls.append([1, cond])
        else:
            cond = [0] if rng.random() < 0.5 else gen_cond(rng, [1])
            cols = list(range(NT)) if rng.random() < 0.5 else sorted(rng.sample(range(NT), rng.randint(1, NT)))
            vals = [[0, on[[p[0] for p in on].index(c)][1]] if (c in keycols and rng.random() < 0.8) else gen_sval(rng) for c in cols]
            cls.append([2, cond, cols, vals])
    if profile != "anyorder":
        cls.sort(key=lambda c: c[0] == 2)          # WHEN NOT MATCHED last (stable)
    def rows(n, dupkeys):
        out, keys = [], []
        for _ in range(n):
            key = rng.choice([1, 2, 3, 4, 5, 6]) if rng.random() < 0.92 else None
            if not dupkeys:
                for _ in range(6):
                    if key is None or key not in keys:
                        break
                    key = rng.choice([1, 2, 3, 4, 5, 6, 7, 8])
                if key in keys:
                    key = None
            keys.append(key)
            r = [[rng.randint(0, 5)] if rng.random() < 0.88 else [] for _ in range(NT)]
            for c in set(keycols) | {p[1] for p in on}:
                r[c] = [key] if key is not None else []
            out.append(r)
        return out
    tgt = rows(rng.choice([0, 1, 2, 3, 4, 5]), dupkeys=profile in ("dupkey",) or rng.random() < 0.25)
    src = rows(rng.choice([0, 1, 2, 3, 4, 5]), dupkeys=profile == "nondet")
    return [[on, cls, NT], tgt, src]


# ----------------------------------------------------------------------------- rendering
def kw(rng, s):
    m = rng.random()
    return s.upper() if m < 0.3 else (s if m < 0.7 else "".join(c.upper() if rng.random() < 0.5 else c for c in s))


def r_cond(c):
    if c[0] == 0:
        return "1 = 1"
    if c[0] == 1:
        return f"{'ts'[c[1]]}.{'cd'[c[1]]}{c[2]} {OPS[c[3]]} {c[4]}"
    if c[0] == 2:
        return f"t.c{c[1]} {OPS[c[3]]} s.d{c[2]}"
    if c[0] == 3:
        return f"{'ts'[c[1]]}.{'cd'[c[1]]}{c[2]} is null"
    if c[0] == 4:
        return f"({r_cond(c[1])} and {r_cond(c[2])})"
    if c[0] == 5:
        return f"({r_cond(c[1])} or {r_cond(c[2])})"
    return f"(not {r_cond(c[1])})"


def r_sval(e):
    if e[0] == 0:
        return f"s.d{e[1]}"
    return str(e[1][0]) if e[1] else "null"


def render(rng, m, subquery=False):
    on, cls, _ = m
    using = "(select d0, d1, d2 from s) as s" if subquery else "s"
    sql = f"{kw(rng, 'merge into')} t {kw(rng, 'using')} {using} {kw(rng, 'on')} " + " and ".join(f"t.c{i} = s.d{j}" for i, j in on)
    for c in cls:
        cond = "" if c[1] == [0] else f" {kw(rng, 'and')} {r_cond(c[1])}"
        if c[0] == 0:
            pre = "t." if rng.random() < 0.3 else ""
            sql += f" {kw(rng, 'when matched')}{cond} {kw(rng, 'then update set')} " + ", ".join(f"{pre}c{i} = {r_sval(e)}" for i, e in c[2])
        elif c[0] == 1:
            sql += f" {kw(rng, 'when matched')}{cond} {kw(rng, 'then delete')}"
        else:
            cols = "" if (c[2] == list(range(NT)) and rng.random() < 0.5) else " (" + ", ".join(f"c{i}" for i in c[2]) + ")"
            sql += f" {kw(rng, 'when not matched')}{cond} {kw(rng, 'then insert')}{cols} {kw(rng, 'values')} (" + ", ".join(r_sval(e) for e in c[3]) + ")"
    return sql


def r_rows(rows):
    return ", ".join("(" + ", ".join(str(v[0]) if v else "null" for v in r) + ")" for r in rows)


# ----------------------------------------------------------------------------- independent oracle: Snowflake's MERGE in Python
def col(r, i):
    return r[i][0] if i < len(r) and r[i] else None


def ev(c, t, s):
    k = c[0]
    if k == 0:
        return True
    if k == 1:
        x = col(t if c[1] == 0 else s, c[2])
        return None if x is None else {0: x == c[4], 1: x < c[4], 2: x > c[4], 3: x != c[4]}[c[3]]
    if k == 2:
        x, y = col(t, c[1]), col(s, c[2])
        return None if x is None or y is None else {0: x == y, 1: x < y, 2: x > y, 3: x != y}[c[3]]
    if k == 3:
        return col(t if c[1] == 0 else s, c[2]) is None
    if k == 4:
        a, b = ev(c[1], t, s), ev(c[2], t, s)
        return False if a is False or b is False else (True if a and b else None)
    if k == 5:
        a, b = ev(c[1], t, s), ev(c[2], t, s)
        return True if a is True or b is True else (False if a is False and b is False else None)
    a = ev(c[1], t, s)
    return None if a is None else not a


def joins(on, t, s):
    return all(col(t, i) is not None and col(t, i) == col(s, j) for i, j in on)


def sval(e, s):
    return ([col(s, e[1])] if col(s, e[1]) is not None else []) if e[0] == 0 else e[1]


def spec(m, tgt, src):
    """None when the merge is nondeterministic (outside the property)."""
    on, cls, w = m
    out, cnt = [], {0: 0, 1: 0, 2: 0}
    for t in tgt:
        ms = [s for s in src if joins(on, t, s)]
        if len(ms) > 1:
            return None
        new = t
        if ms:
            for c in cls:
                if c[0] != 2 and ev(c[1], t, ms[0]) is True:
                    if c[0] == 1:
                        new = None
                        cnt[2] += 1
                    else:
                        new = list(t)
                        for i, e in c[2]:
                            new[i] = sval(e, ms[0])
                        cnt[1] += 1
                    break
        if new is not None:
            out.append(new)
    for s in src:
        if not any(joins(on, t, s) for t in tgt):
            for c in cls:
                if c[0] == 2 and ev(c[1], [], s) is True:
                    r = [[] for _ in range(w)]
                    for i, e in zip(c[2], c[3]):
                        r[i] = sval(e, s)
                    out.append(r)
                    cnt[0] += 1
                    break
    kinds = sorted({{2: 0, 0: 1, 1: 2}[c[0]] for c in cls})
    return sorted(out), [[k, [cnt[k]]] for k in kinds]


def mentions_target(c):
    if c[0] in (1, 3):
        return c[1] == 0
    if c[0] == 2:
        return True
    return any(mentions_target(x) for x in c[1:] if isinstance(x, list))


def classes(m, tgt, src):
    """syntactic known-finding classes the case falls into"""
    on, cls, _ = m
    out = set()
    keycols = {i for i, _ in on}
    if any(c[0] == 0 and any(i in keycols for i, _ in c[2]) for c in cls):
        out.add("C12-key-assign")
    seen_ins = False
    for c in cls:
        if c[0] == 2:
            seen_ins = True
        elif seen_ins:
            out.add("C12-insert-before-matched")
    if any(c[0] != 2 and mentions_target(c[1]) for c in cls):
        for s in src:
            if sum(1 for t in tgt if joins(on, t, s)) > 1:
                out.add("C12-dupkey-target-cond")
    return out


# ----------------------------------------------------------------------------- implementation
def run_impl(sql, tgt, src, notnull=False):
    fs, conn = fsutil.fresh()
    cur = conn.cursor()
    try:
        cur.execute("create table t (c0 int, c1 int, c2 int" + (" not null" if notnull else "") + ")")
        cur.execute("create table s (d0 int, d1 int, d2 int)")
        if tgt:
            cur.execute(f"insert into t values {r_rows(tgt)}")
        if src:
            cur.execute(f"insert into s values {r_rows(src)}")
        err = None
        counts = None
        try:
            cur.execute(sql)
            rows = cur.fetchall()
            names = list(cur._arrow_table.column_names)  # noqa: SLF001
            inv = {v: k for k, v in KINDS.items()}
            counts = [[inv.get(n, 9), [int(v)] if v is not None else []] for n, v in zip(names, rows[0])] if len(rows) == 1 else [[99, []]]
        except Exception as e:  # noqa: BLE001
            err = f"{type(e).__name__}: {str(e)[:160]}"
        def dump(tbl):
            return sorted([[[v] if v is not None else [] for v in r] for r in conn.cursor().execute(f"select * from {tbl}").fetchall()])
        t_after, s_after = dump("t"), dump("s")
        # the same statement text once more on the same connection (the data has changed, the text has not)
        second = None
        if err is None and not notnull:
            try:
                cur.execute(sql)
                rows2 = cur.fetchall()
                names2 = list(cur._arrow_table.column_names)  # noqa: SLF001
                inv2 = {v: k for k, v in KINDS.items()}
                second = {"counts": [[inv2.get(n, 9), [int(v)] if v is not None else []] for n, v in zip(names2, rows2[0])], "t": dump("t")}
            except Exception as e:  # noqa: BLE001
                second = {"err": f"{type(e).__name__}: {str(e)[:120]}"}
        try:
            conn.cursor().execute("select * from merge_candidates").fetchall()
            helper = True
        except Exception:  # noqa: BLE001
            helper = False
        return {"err": err, "counts": counts, "t": t_after, "s": s_after, "helper": helper, "second": second}
    finally:
        fs.duck_conn.close()


def main():
    ck = Check("C12", "Merge", "run_c12")
    ck.prepare()
    ck.trusted.append("modelled, not verified: DuckDB's FULL OUTER JOIN, CASE, 3VL predicate evaluation, DELETE ... USING / UPDATE ... FROM, COUNT_IF; sqlglot's parsing of MERGE; "
                      "Snowflake's MERGE semantics are encoded by hand twice (Coq spec_target, Python harness/c12.py spec) and the two are compared on every case")
    known = {f["id"]: f for f in ck.findings}
    reported = set()

    def report(key, msg, rep, no_input=False):
        if key not in reported and len(reported) < 3:
            reported.add(key)
            ck.violation(msg, rep, no_input=no_input)

    def known_or_report(fid, msg, rep):
        f = known.get(fid)
        if f:
            ck.known(fid, f["what"])
        else:
            report(fid, msg, rep)

    n = {"quick": 260, "thorough": 4000}[ck.tier]
    profiles = ["plain"] * 5 + ["srccond"] * 2 + ["dupkey", "anyorder", "keyassign", "nondet"]
    cases, sqls, impl = [], [], []
    for i in range(n):
        prof = profiles[i % len(profiles)]
        case = gen_case(ck.rng, prof)
        sql = render(ck.rng, case[0], subquery=ck.rng.random() < 0.15)
        cases.append(case)
        sqls.append(sql)
        ck.count(f"profile:{prof}")
        ck.count(f"clauses:{len(case[0][1])}")
    # fixed corner cases first
    T = [[[1], [10], [100]], [[2], [20], [200]], [[3], [30], [300]]]
    Sx = [[[2], [21], [201]], [[3], [31], [301]], [[4], [41], [401]]]
    fixed = [
        [[[[0, 0]], [[1, [1, 1, 1, 0, 21]], [0, [0], [[1, [0, 1]], [2, [0, 2]]]], [2, [0], [0, 1, 2], [[0, 0], [0, 1], [0, 2]]]], NT], T, Sx],
        [[[[0, 0]], [[1, [0]], [2, [0], [0, 1, 2], [[0, 0], [0, 1], [1, [7]]]]], NT], T, []],
        [[[[0, 0]], [[1, [0]]], NT], [], []],
        [[[[0, 0]], [[1, [1, 0, 1, 0, 20]]], NT], T + [[[2], [22], [222]]], Sx],
        [[[[0, 0]], [[2, [0], [0, 1], [[0, 1], [0, 2]]], [1, [0]]], NT], T, Sx],
        [[[[0, 0]], [[0, [0], [[0, [0, 1]]]]], NT], T, Sx],
        [[[[0, 0]], [[1, [0]], [2, [0], [0, 1, 2], [[0, 0], [0, 1], [0, 2]]]], NT], T + [[[], [1], [1]]], Sx + [[[], [2], [2]]]],
    ]
    # the witnesses of Props_C12.key_assign_refuted / insert_first_refuted / dupkey_refuted, replayed on the implementation
    R = lambda a, b, c: [[a], [b], [c]]  # noqa: E731
    fixed += [
        [[[[0, 0]], [[0, [1, 1, 1, 0, 3], [[0, [0, 1]]]], [1, [0]]], NT], [R(2, 20, 200), R(3, 30, 300)], [R(2, 3, 201), R(3, 31, 301)]],
        [[[[0, 0]], [[2, [0], [0, 1], [[0, 1], [0, 2]]], [1, [0]]], NT], [R(2, 20, 200)], [R(2, 21, 201), R(4, 2, 401)]],
        [[[[0, 0]], [[1, [1, 0, 1, 0, 20]]], NT], [R(2, 20, 200), R(2, 22, 222)], [R(2, 21, 201)]],
    ]
    for f in reversed(fixed):
        cases.insert(0, f)
        sqls.insert(0, render(ck.rng, f[0]))
    for case, sql in zip(cases, sqls):
        impl.append(run_impl(sql, case[1], case[2]))
    mo = core.model_eval("run_c12", cases)
    ck.cov["evaluations"] += len(cases)
    sample = sorted(ck.rng.sample(range(len(cases)), min(40, len(cases))))
    if core.kernel_failing("Merge", "run_c12", [(cases[i], mo[i]) for i in sample], "C12"):
        raise core.MachineryError("kernel and extracted model disagree on run_c12")
    ck.kernel_checked += len(sample)
    # second application of the same text: the model applied to the model's own result
    cases2 = [[c[0], m[0], c[2]] for c, m in zip(cases, mo)]
    mo2 = core.model_eval("run_c12", cases2)
    for case, sql, o, m, m2 in zip(cases, sqls, impl, mo, mo2):
        sec = o.get("second")
        if not sec or o["err"] or sorted(m[0]) != o["t"] or spec(case[0], case[1], case[2]) is None or spec(case[0], o["t"], case[2]) is None:
            continue
        ck.cov["evaluations"] += 1
        if "err" in sec or sec["t"] != sorted(m2[0]) or sec["counts"] != m2[1]:
            report("second", f"`{sql}` executed a second time on the same connection (target now {o['t']}): implementation {sec}, model target {sorted(m2[0])} counts {m2[1]}",
                   {"sql": sql, "target_before_second_run": o["t"], "source": case[2], "impl_second": sec, "model_second": [sorted(m2[0]), m2[1]]}, no_input=True)
    n_dom = n_det = n_nontrivial = 0
    for i, (case, sql, o, m) in enumerate(zip(cases, sqls, impl, mo)):
        m_t, m_counts, m_cands, m_dom, m_spec_t, m_spec_c = sorted(m[0]), m[1], m[2], bool(m[3]), sorted(m[4]), m[5]
        rep = {"sql": sql, "target": case[1], "source": case[2], "impl": o, "model_target": m_t, "model_counts": m_counts, "case": case}
        sp = spec(case[0], case[1], case[2])
        cl = classes(case[0], case[1], case[2])
        if len(m_cands) >= 2 and len(case[0][1]) >= 2:
            n_nontrivial += 1
        if o["err"]:
            report("err", f"`{sql}` raised {o['err']}", rep)
            continue
        # (1) model vs implementation, everywhere (the model is meant to be faithful outside dom too)
        # (a nondeterministic merge with an UPDATE clause is outside the property and outside the model: which of the
        #  joined source rows UPDATE ... FROM uses is the engine's choice)
        if (o["t"] != m_t or o["counts"] != m_counts) and not (sp is None and any(c[0] == 0 for c in case[0][1])):
            report("model", f"`{sql}` on target {case[1]} source {case[2]}: implementation leaves {o['t']} counts {o['counts']}, the model of transforms_merge predicts {m_t} counts {m_counts}: "
                            "the correspondence behind Props_C12.merge_correct_partial no longer holds", dict(rep, theorem="Props_C12.merge_correct_partial"), no_input=sp is None or (o["t"] == sp[0]))
        if o["s"] != sorted(case[2]):
            report("source", f"`{sql}` changed the source table: {o['s']}", rep)
        if o["helper"]:
            known_or_report("C12-helper-visible", f"after `{sql}` the helper table merge_candidates is visible in the session", rep)
        # (2) the Coq spec and the independent Python spec agree
        if sp is not None:
            n_det += 1
            if sp[0] != m_spec_t or sp[1] != m_spec_c:
                raise core.MachineryError(f"Coq spec_target/spec_counts {m_spec_t} {m_spec_c} and the Python oracle {sp} disagree on {case}")
            if m_dom:
                n_dom += 1
                if m_t != m_spec_t:
                    raise core.MachineryError(f"model: fake_target <> spec_target inside dom on {case} - contradicts merge_correct_partial")
            # (3) the property: implementation vs Snowflake's semantics on every deterministic merge
            if o["t"] != sp[0]:
                if cl:
                    fid = sorted(cl)[0]
                    known_or_report(fid, f"`{sql}` on target {case[1]} source {case[2]} leaves {o['t']}, Snowflake's MERGE gives {sp[0]}", rep)
                else:
                    report("spec", f"`{sql}` on target {case[1]} source {case[2]} leaves {o['t']}, Snowflake's MERGE gives {sp[0]}", rep)
            elif o["counts"] != sp[1]:
                if not m_cands and all(c[1] == [] for c in o["counts"]):
                    known_or_report("C12-counts-null", f"`{sql}`: counts {o['counts']} instead of zeros", rep)
                elif cl:
                    known_or_report(sorted(cl)[0], f"`{sql}`: counts {o['counts']}, rows actually affected {sp[1]}", rep)
                else:
                    report("counts", f"`{sql}` on target {case[1]} source {case[2]} reports {o['counts']}, rows actually affected {sp[1]}", rep)
    # (4) atomicity: a statement that fails half-way (NOT NULL violated by the INSERT step after the DELETE step ran)
    m_at = [[[0, 0]], [[1, [0]], [2, [0], [0, 1, 2], [[0, 0], [0, 1], [1, []]]]], NT]
    o = run_impl(render(ck.rng, m_at), T, Sx, notnull=True)
    pre = sorted(core.model_eval("run_c12_prefix", [[m_at, T, Sx, 1]])[0])
    ck.cov["evaluations"] += 1
    if o["err"] and o["t"] != sorted(T):
        if o["t"] != pre:
            report("prefix", f"failed MERGE left {o['t']}, the model's prefix after 1 statement is {pre}", {"impl": o, "model_prefix": pre}, no_input=True)
        known_or_report("C12-not-atomic", f"a MERGE whose INSERT step fails leaves the DELETE step applied: {o['t']}", {"impl": o})
    elif not o["err"]:
        report("atomic-probe", "the NOT NULL probe did not fail", {"impl": o})
    # (4b) MERGE is DML: inside BEGIN ... ROLLBACK / COMMIT it is part of the session's transaction, together with earlier work,
    #      and invisible to another session until committed (oracle: the transaction semantics of C13's model)
    def dump_(c, tbl):
        return sorted([[[v] if v is not None else [] for v in r] for r in c.cursor().execute(f"select * from {tbl}").fetchall()])

    tx_done = 0
    for case, sql, m in zip(cases, sqls, mo):
        if tx_done >= (30 if ck.tier == "thorough" else 8):
            break
        m_t = sorted(m[0])
        if not (m[3] and m_t != sorted(case[1])):          # inside dom and the merge changes the target
            continue
        tx_done += 1
        ck.cov["evaluations"] += 1
        ck.count("tx-envelope")
        fs_t, c1 = fsutil.fresh()
        c2 = fs_t.connect(database="DB1", schema="S1")
        cur1 = c1.cursor()
        cur1.execute("create table t (c0 int, c1 int, c2 int)")
        cur1.execute("create table s (d0 int, d1 int, d2 int)")
        cur1.execute("create table aux (x int)")
        if case[1]:
            cur1.execute(f"insert into t values {r_rows(case[1])}")
        if case[2]:
            cur1.execute(f"insert into s values {r_rows(case[2])}")
        rep = {"sql": sql, "target": case[1], "source": case[2]}
        try:
            cur1.execute("begin")
            cur1.execute("insert into aux values (1)")
            cur1.execute(sql)
            inside, other = dump_(c1, "t"), dump_(c2, "t")
            c1.cursor().execute("rollback")
            after_rb = (dump_(c1, "t"), dump_(c1, "s"), dump_(c1, "aux"))
            cur1.execute("begin")
            cur1.execute(sql)
            c1.commit()
            c1.rollback()
            after_c = (dump_(c1, "t"), dump_(c2, "t"))
        except Exception as e:  # noqa: BLE001
            report("tx-error", f"begin; insert; `{sql}`; rollback; begin; merge; commit raised {type(e).__name__}: {str(e)[:120]}", rep)
            fs_t.duck_conn.close()
            continue
        fs_t.duck_conn.close()
        if inside != m_t:
            report("tx-inside", f"inside a transaction `{sql}` leaves {inside}, outside one {m_t}", dict(rep, inside=inside))
        if other != sorted(case[1]):
            report("tx-visible", f"another session sees {other} while the transaction containing `{sql}` is open (committed state: {sorted(case[1])})", dict(rep, other=other))
        if after_rb != (sorted(case[1]), sorted(case[2]), []):
            report("tx-rollback", f"begin; insert into aux; `{sql}`; rollback leaves target/source/aux = {after_rb}, before the transaction: {(sorted(case[1]), sorted(case[2]), [])}", dict(rep, after=after_rb))
        if after_c != (m_t, m_t):
            report("tx-commit", f"begin; `{sql}`; commit; rollback leaves {after_c[0]} (other session: {after_c[1]}), expected {m_t}", dict(rep, after=after_c))
    # a MERGE that fails half-way inside a transaction, then ROLLBACK: nothing of it stays
    fs_t, c1 = fsutil.fresh()
    cur1 = c1.cursor()
    cur1.execute("create table t (c0 int, c1 int, c2 int not null)")
    cur1.execute("create table s (d0 int, d1 int, d2 int)")
    cur1.execute(f"insert into t values {r_rows(T)}")
    cur1.execute(f"insert into s values {r_rows(Sx)}")
    cur1.execute("begin")
    try:
        cur1.execute(render(ck.rng, m_at))
        failed = False
    except Exception:  # noqa: BLE001
        failed = True
    c1.cursor().execute("rollback")
    left = dump_(c1, "t")
    fs_t.duck_conn.close()
    ck.cov["evaluations"] += 1
    if not failed or left != sorted(T):
        report("tx-failed-merge", f"begin; <MERGE whose INSERT step fails>; rollback leaves {left}, before the transaction {sorted(T)} (failed={failed})", {"sql": render(ck.rng, m_at), "left": left})
    # (5) forms the property quantifies over but fakesnow cannot parse
    for fid, sql in [("C12-alias-unsupported", "merge into t as tt using s as ss on tt.c0 = ss.d0 when matched then update set c1 = ss.d1"),
                     ("C12-qualified-unsupported", "merge into db1.s1.t using db1.s1.s on t.c0 = s.d0 when matched then delete"),
                     ("C12-set-expression", "merge into t using s on t.c0 = s.d0 when matched then update set c1 = s.d1 + 1")]:
        o = run_impl(sql, T, Sx)
        ck.cov["evaluations"] += 1
        want = {"C12-alias-unsupported": [[[1], [10], [100]], [[2], [21], [200]], [[3], [31], [300]]], "C12-qualified-unsupported": [[[1], [10], [100]]],
                "C12-set-expression": [[[1], [10], [100]], [[2], [22], [200]], [[3], [32], [300]]]}[fid]
        if o["err"] and o["t"] == sorted(T):
            known_or_report(fid, f"`{sql}`: {o['err']}", {"sql": sql, "impl": o})         # rejected, nothing changed: the recorded finding
        elif o["err"] or o["t"] != want:
            report(f"unsupported:{fid}", f"`{sql}` is a form fakesnow does not support; it must be rejected or answered correctly, but it left {o['t']} ({o['err']}), expected {want}", {"sql": sql, "impl": o})
    # string constants inside MERGE clauses (conditions, SET values, INSERT values) mean what they mean in any other statement:
    # backslash escapes, quotes, and the same through bound parameters (oracle: the values as Python strings)
    consts = [("C:\\temp", "X:\\tools", "tab\\there"), ("it's", 'say "hi"', "50% $x ; --"), ("a\\nb", "new\nline", "\\\\srv\\share")]
    for variant in ("inline", "bound"):
        for c_del, c_upd, c_ins in consts:
            fs_s, c_s = fsutil.fresh()
            cu = c_s.cursor()
            cu.execute("create table mt (k int, note varchar)")
            cu.execute("create table ms (k int, note varchar)")
            cu.execute("insert into mt values (%s, %s), (%s, %s), (%s, %s)", (1, c_del, 2, "keep", 3, c_del))
            cu.execute("insert into ms values (%s, %s), (%s, %s), (%s, %s)", (1, c_del, 2, "x", 4, "y"))
            q = lambda x: "'" + x.replace("\\", "\\\\").replace("'", "''").replace("\n", "\\n") + "'"  # noqa: E731
            tmpl = ("merge into mt using ms on mt.k = ms.k when matched and ms.note = {0} then delete when matched then update set note = {1} "
                    "when not matched then insert (k, note) values (ms.k, {2})")
            ck.cov["evaluations"] += 1
            ck.count(f"string-constants:{variant}")
            try:
                if variant == "inline":
                    sql = tmpl.format(q(c_del), q(c_upd), q(c_ins))
                    st = cu.execute(sql).fetchall()
                else:
                    sql = tmpl.format("%s", "%s", "%s")
                    st = cu.execute(sql, (c_del, c_upd, c_ins)).fetchall()
                names = [d.name for d in cu.description] if False else list(cu._arrow_table.column_names)  # noqa: SLF001
                got = sorted(c_s.cursor().execute("select k, note from mt").fetchall())
                counts = dict(zip(names, map(int, st[0])))
                err = None
            except Exception as e:  # noqa: BLE001
                got, counts, err = None, None, f"{type(e).__name__}: {str(e)[:120]}"
            fs_s.duck_conn.close()
            want = sorted([(2, c_upd), (3, c_del), (4, c_ins)])
            want_counts = {"number of rows inserted": 1, "number of rows updated": 1, "number of rows deleted": 1}
            if err or got != want or counts != want_counts:
                report(f"strconst:{variant}", f"`{sql}`" + (f" with parameters {(c_del, c_upd, c_ins)!r}" if variant == "bound" else "") +
                       f": target {got} counts {counts} ({err}); the constants denote {(c_del, c_upd, c_ins)!r}, so Snowflake's MERGE leaves {want} with {want_counts}",
                       {"sql": sql, "parameters": [c_del, c_upd, c_ins] if variant == "bound" else None, "target_after": got, "counts": counts, "expected": want})
    # the same with equally named columns in target and source and a SET expression that reads the target column
    from fakesnow.instance import FakeSnow

    fs_ = FakeSnow()
    c_ = fs_.connect(database="DB1", schema="S1")
    cur_ = c_.cursor()
    for tn, sn in (("inventory", "shipments"), ("t1", "t2"), ("stock", "arrivals")):
        cur_.execute(f"create or replace table {tn} (sku int, qty int)")
        cur_.execute(f"create or replace table {sn} (sku int, qty int)")
        cur_.execute(f"insert into {tn} values (1, 10), (2, 20)")
        cur_.execute(f"insert into {sn} values (1, 5), (2, 7), (3, 40)")
        sql = (f"merge into {tn} using {sn} on {tn}.sku = {sn}.sku when matched then update set qty = {tn}.qty + {sn}.qty "
               f"when not matched then insert (sku, qty) values ({sn}.sku, {sn}.qty)")
        ck.cov["evaluations"] += 1
        try:
            cur_.execute(sql)
            err = None
        except Exception as e:  # noqa: BLE001
            err = f"{type(e).__name__}: {str(e)[:100]}"
        got = sorted(c_.cursor().execute(f"select * from {tn}").fetchall())
        if err and got == [(1, 10), (2, 20)]:
            known_or_report("C12-set-expression", f"`{sql}`: {err}", {"sql": sql})
        elif err or got != [(1, 15), (2, 27), (3, 40)]:
            report("setexpr", f"`{sql}` leaves {got} ({err}); Snowflake's MERGE gives [(1, 15), (2, 27), (3, 40)]", {"sql": sql, "target_after": got})
    fs_.duck_conn.close()
    if n_dom < len(cases) * 0.3:
        raise core.MachineryError(f"only {n_dom}/{len(cases)} generated merges fall inside dom - generator degraded")
    ck.cov["distinct_nontrivial"] = n_nontrivial
    ck.cov["inside_dom"] = n_dom
    ck.cov["deterministic"] = n_det
    ck.cov["samples"] += [{"sql": sqls[0]}, {"sql": sqls[len(fixed) + 1], "target": cases[len(fixed) + 1][1], "source": cases[len(fixed) + 1][2]}]
    return ck.finish(rule="random merges (0-5 target/source rows, NULL and duplicate keys, 1-4 clauses in any kind/order, 3VL conditions on either side, column lists, subquery sources, keyword case): "
                          "implementation vs model (target multiset + status row) everywhere; Coq spec vs independent Python spec; implementation vs spec on every deterministic merge; "
                          "source untouched; failing-half-way probe vs the model's statement prefix; transaction envelope (BEGIN; earlier DML; MERGE; ROLLBACK / COMMIT, second session, failing MERGE then ROLLBACK);  non-trivial = >= 2 clauses and >= 2 candidate rows")


if __name__ == "__main__":
    sys.exit(main())
