"""C17 - the HTTP server answers exactly like the in-process fake."""
from __future__ import annotations

import gzip
import http.client
import json
import logging
import sys

import core
import fsutil
from core import Check


def outcome(conn, sql, dictc=False):
    import snowflake.connector.errors as E

    try:
        cur = conn.cursor().execute(sql)
        rows = cur.fetchall()
        desc = [(d.name, d.type_code, d.precision, d.scale) for d in cur.description] if cur.description else None
        return ("ok", [tuple(map(fsutil.pyrepr, r)) for r in rows], cur.rowcount, desc)
    except E.ProgrammingError as e:
        return ("ProgrammingError", e.errno, e.sqlstate, e.raw_msg if hasattr(e, "raw_msg") else e.msg)
    except Exception as e:  # noqa: BLE001
        return ("exception", type(e).__name__)


TYPE_VALUES = {
    "boolean": ["true", "false"],
    "int": ["0", "1", "-1", "9223372036854775807", "-9223372036854775808"],
    "float": ["0.0", "1.5", "-2.25", "1e300", "1e-300"],
    "number(10,2)": ["0", "12345678.91", "-0.01"],
    "number(38,10)": ["1234567890123456789012345678.0123456789", "-0.0000000001"],
    "varchar": ["''", "'hello'", "'ü😀'", "'a''b\\\\c'", "'line\\nbreak'"],
    "date": ["'2018-04-15'", "'1969-12-31'", "'0001-01-01'", "'9999-12-31'"],
    "time": ["'04:15:29.123456'", "'00:00:00'", "'23:59:59.999999'"],
    "timestamp_ntz": ["'2013-04-05 01:02:03.123456'", "'1969-12-31 23:59:59.999999'", "'1960-06-01 01:02:03.5'", "'2020-01-01 00:00:00.000009'", "'1970-01-01 00:00:00'",
                      "'1900-01-01 00:00:00.000001'", "'2262-04-11 23:47:16.854775'"],
    "timestamp_tz": ["'2013-04-05 01:02:03.123456'", "'1969-12-31 23:59:59.999999'", "'1950-01-01 12:00:00.25'"],
    "variant": ["'{\"k\": [1, 2, null]}'", "'1.23'", "'\"s\"'"],
    "binary": [],
}


def fractions(ck):
    """microsecond fractions: the first ones of the class that used to fail, boundaries, and random ones"""
    import struct

    fr = [0, 1, 9, 10, 99, 999, 1000, 123456, 500000, 999999, 999990, 7, 57, 58, 113, 114]
    for us in range(1, 400):
        x = us / 1e6 * 1e9
        if x != int(x) and len(fr) < 60:
            fr.append(us)
    fr += [ck.rng.randrange(1000000) for _ in range(40 if ck.tier == "quick" else 3000)]
    _ = struct
    return sorted(set(fr))


def statements(ck):
    out = []
    for ty, vals in TYPE_VALUES.items():
        cast = {"variant": "parse_json({})", "timestamp_tz": "{}::timestamp_tz", "binary": "{}"}.get(ty, "{}::" + ty)
        for v in vals:
            out.append(f"select {cast.format(v)} as c")
        if ty != "binary":
            out.append(f"select null::{ty} as c")
            if vals:
                out.append(f"select c from (values ({cast.format(vals[0])}), (null), ({cast.format(vals[-1])})) t(c)")
    for us in fractions(ck):
        for base in ("2020-01-01 00:00:00", "1969-12-31 23:59:59", "1901-02-03 04:05:06"):
            if ck.tier == "quick" and base != "2020-01-01 00:00:00" and us % 3:
                continue
            out.append(f"select '{base}.{us:06d}'::timestamp_ntz as a, '{base}.{us:06d}'::timestamp_tz as b")
    out += [
        "select 1 as a, 'x' as b, 2.5::float as c where 1 = 0",
        "create table c17_t (id int, name varchar(20), ts timestamp_ntz, amt number(10,2))",
        "insert into c17_t values (1, 'a', '2020-01-01 01:02:03.000009', 1.5), (2, null, null, null), (3, 'c', '1969-12-31 23:59:59.999999', -2.25)",
        "select * from c17_t order by id", "select count(*) as n from c17_t", "select id, ts from c17_t where ts is null", "update c17_t set name = 'z' where id > 1",
        "update c17_t set name = 'q' where id > 100", "delete from c17_t where id = 3", "delete from c17_t where id = 99", "select * from c17_t where id > 100",
        "select * from c17_missing", "select nocol from c17_t", "insert into c17_t values (1)", "create table c17_t (i int)", "select * from nodb.s.t", "select $undefinedvar",
        "create view c17_v as select id from c17_t", "select * from c17_v", "drop view c17_v", "describe table c17_t", "show tables", "set v1 = 5", "select $v1 as v",
        "alter table c17_t add column extra varchar", "create schema c17_s", "drop schema c17_s", "select current_database() as d, current_schema() as s",
        "select object_construct('k', 'v1') as o", "select to_decimal('12.3456', 10, 2) as d", "create or replace table c17_t (i int)", "drop table c17_t",
    ]
    return out


def raw_query(port, auth, sql="select 1"):
    body = gzip.compress(json.dumps({"sqlText": sql}).encode())
    c = http.client.HTTPConnection("localhost", port, timeout=10)
    h = {"Content-Type": "application/json", "Content-Encoding": "gzip"}
    if auth is not None:
        h["Authorization"] = auth
    c.request("POST", "/queries/v1/query-request", body=body, headers=h)
    r = c.getresponse()
    data = r.read()
    c.close()
    try:
        j = json.loads(data)
    except Exception:  # noqa: BLE001
        j = {}
    return r.status, j.get("code"), j.get("success")


def check_wire_tie(ck, report, struct_disagrees):
    """Translator tie: the integer dataflow of arrow.timestamp_to_sf_struct / to_sf_col (TIME) and the token slice of server.py, re-read from
    /repo on every run (harness/arrow_translate.py, fails closed), emitted over Wire.v's pyarrow combinators and proved equal to the model's
    epoch / fraction / encode_time / extract by coqc (generated theorems arrow_matches_source, token_slice_matches_source)."""
    import os
    import shutil
    import subprocess

    import arrow_translate

    try:
        text = arrow_translate.coq(core.REPO)
    except arrow_translate.Unsupported as e:
        report(f"arrow.py / server.py are no longer of the translated form ({e}): the theorems arrow_matches_source / token_slice_matches_source cannot be generated",
               {"theorem": "arrow_matches_source"}, no_input=True)
        return
    out = core.VERIF / "build" / f"c17tie-{os.getpid()}"
    out.mkdir(parents=True, exist_ok=True)
    try:
        (out / "Tie.v").write_text(text)
        r = subprocess.run(f"timeout 300 coqc -Q {core.COQ}/theories FS Tie.v", shell=True, cwd=out, capture_output=True, text=True)
        ok = r.returncode == 0 and r.stdout.count("Closed under the global context") == 2
        ck.cov["source_tie"] = {"theorems": ["arrow_matches_source", "token_slice_matches_source"], "generated_from": ["fakesnow/arrow.py", "fakesnow/server.py"], "accepted": ok,
                                "definitions": [l for l in text.splitlines() if l.startswith("Definition src_")]}
        if not ok:
            report("the dataflow of arrow.timestamp_to_sf_struct / the TIME branch of to_sf_col / the token slice of server.py, as re-read from the source, is no longer "
                   f"provably equal to the model's: coqc rejects the generated theorem ({(r.stdout + r.stderr)[-200:].strip()}); Props_C17.epoch_fraction_exact / token_extract are no longer about this code",
                   {"theorem": "arrow_matches_source / token_slice_matches_source", "generated": text}, no_input=not struct_disagrees)
    finally:
        shutil.rmtree(out, ignore_errors=True)


def main():
    logging.getLogger("snowflake").setLevel(logging.CRITICAL)
    logging.getLogger("uvicorn").setLevel(logging.CRITICAL)
    ck = Check("C17", "Wire", "run_c17_ts")
    ck.prepare()
    ck.trusted.append("modelled, not verified: pyarrow (floor_temporal, casts, StructArray validity, IPC), the connector's nanoarrow decoding and HTTP client, starlette/uvicorn; "
                      "the server-equals-in-process claim itself is established by the differential runs, the theorems cover the wire arithmetic and the token/session table")
    import httpsrv

    reported = [False]

    def report(msg, rep, no_input=False):
        if not reported[0]:
            reported[0] = True
            ck.violation(msg, rep, no_input=no_input)

    known = {f["id"]: f for f in ck.findings}
    with httpsrv.Server() as srv:
        # 1. the wire struct for timestamps, directly on arrow.py (covers every fraction class)
        import pyarrow as pa

        from fakesnow.arrow import timestamp_to_sf_struct

        ts_vals = [None, 0, -1, 1, 999999, -999999, 1577836800000009, -2208988799999999, 9223372036854775, -9223372036854775]
        ts_vals += [ck.rng.randrange(-4 * 10**15, 4 * 10**15) for _ in range(300 if ck.tier == "quick" else 20000)]
        ts_vals += [1577836800000000 + us for us in fractions(ck)]
        if ck.tier == "thorough":
            ts_vals += [86400000000 * 365 * 30 + us for us in range(0, 1000000, 7)]
        arr = timestamp_to_sf_struct(pa.array(ts_vals, type=pa.timestamp("us")))
        impl = []
        for v, s in zip(ts_vals, arr.to_pylist()):
            if s is None:
                impl.append([[], []])
            else:
                impl.append([[s["epoch"], s["fraction"]], [s["epoch"] * 1000000 + s["fraction"] // 1000]])
        dis = ck.correspond([core.opt(v) for v in ts_vals], impl, label="ts", run="run_c17_ts", kernel_sample=40)
        for i in dis[:1]:
            bad_rt = impl[i][1] != core.opt(ts_vals[i])
            report(f"timestamp_to_sf_struct({ts_vals[i]} us): wire struct {impl[i][0]} decodes to {impl[i][1]}; model {ck.model_obs[i]}"
                   + ("" if bad_rt else "; Props_C17.wire_roundtrip_timestamp no longer tied to arrow.py"),
                   {"timestamp_us": ts_vals[i], "impl": impl[i], "model": ck.model_obs[i], "theorem": "Props_C17.epoch_fraction_exact"}, no_input=not bad_rt)
        # 1b. the same arithmetic as the SOURCE writes it (translator tie)
        check_wire_tie(ck, report, bool(dis))
        # 2. http vs in-process on the same statements
        fs, ic = fsutil.fresh("db1", "s1")
        hc = srv.connect(db_path=":isolated:")
        stmts = statements(ck)
        nontrivial = 0
        for sql in stmts:
            a, b = outcome(hc, sql), outcome(ic, sql)
            ck.cov["evaluations"] += 1
            ck.count(f"http-vs-inproc:{a[0]}")
            if a[0] == "ok" and a[1]:
                nontrivial += 1
            if a == b:
                continue
            # classes of recorded findings
            if b[0] == "exception" and a[0] == "exception":
                fid = "C17-non-programming-errors-500"
            elif b[0] == "ok" and a[0] == "ok" and a[2:] == b[2:] and "Decimal:" in str(b[1]) and "int:" in str(a[1]):
                fid = "C17-decimal-scale0-int"
            else:
                fid = None
            if fid and fid in known:
                ck.known(fid, known[fid]["what"])
                continue
            report(f"`{sql}`: over HTTP {a}, in process {b}", {"statement": sql, "http": a, "in_process": b})
        ck.cov["distinct_nontrivial"] = nontrivial
        ck.cov["samples"].append({"statement": stmts[5], "http": outcome(hc, stmts[5])})
        # statements whose description is unavailable in process (C06 findings) fail over HTTP
        for sql, fid in (("begin", "C17-description-dependent-500"), ("select 1 +", "C17-non-programming-errors-500")):
            a, b = outcome(hc, sql), outcome(ic, sql)
            if a != b:
                f = known.get(fid)
                ck.known(fid, f["what"]) if f else report(f"`{sql}`: over HTTP {a}, in process {b}", {"statement": sql, "http": a, "in_process": b})
            for c in (hc, ic):
                try:
                    c.cursor().execute("rollback")
                except Exception:  # noqa: BLE001
                    pass
        # 3. sessions and tokens
        s1 = srv.connect()
        s2 = srv.connect()
        i1 = srv.connect(db_path=":isolated:")
        i2 = srv.connect(db_path=":isolated:")
        s1.cursor().execute("create or replace table c17_shared (i int)")
        s1.cursor().execute("insert into c17_shared values (1)")
        i1.cursor().execute("create table c17_iso (i int)")
        checks = [
            ("second shared login sees the first one's table", outcome(s2, "select * from c17_shared")[0] == "ok"),
            ("isolated login does not see shared data", outcome(i1, "select * from c17_shared")[:2] == ("ProgrammingError", 2003)),
            ("isolated logins do not see each other's data", outcome(i2, "select * from c17_iso")[:2] == ("ProgrammingError", 2003)),
            ("shared login does not see isolated data", outcome(s1, "select * from c17_iso")[:2] == ("ProgrammingError", 2003)),
        ]
        # the same statement text repeated by one login while ANOTHER login changes the table's types in between: values,
        # description and rowcount must follow, exactly as for two in-process connections
        s2.cursor().execute("create or replace table c17_chg (amount number(10,2), label varchar)")
        s2.cursor().execute("insert into c17_chg values (123.45, 'a')")
        q_chg = "SELECT amount, label FROM c17_chg"
        before = outcome(s1, q_chg)
        s2.cursor().execute("create or replace table c17_chg (amount number(10,4), label int)")
        s2.cursor().execute("insert into c17_chg values (1.2345, 7)")
        after = outcome(s1, q_chg)
        checks.append((f"`{q_chg}` repeated by one login after another login replaced the table: got {after}, before the change {before}",
                       before[:2] == ("ok", [("Decimal:123.45", "str:a")]) and after[:2] == ("ok", [("Decimal:1.2345", "int:7")]) and after[3] is not None
                       and [(d[0], d[3]) for d in after[3]] == [("AMOUNT", 4), ("LABEL", 0)]))
        s2.cursor().execute("alter table c17_chg add column extra float")
        after2 = outcome(s1, "SELECT * FROM c17_chg")
        after3 = outcome(s1, "SELECT * FROM c17_chg")
        s2.cursor().execute("alter table c17_chg drop column label")
        after4 = outcome(s1, "SELECT * FROM c17_chg")
        checks.append((f"`SELECT * FROM c17_chg` repeated across ALTER TABLE by another login: {after2[:2]} / {after4[:2]}",
                       after2[0] == "ok" and after2 == after3 and len(after2[1][0]) == 3 and after4[0] == "ok" and len(after4[1][0]) == 2 and [d[0] for d in after4[3]] == ["AMOUNT", "EXTRA"]))
        s1.cursor().execute("create schema if not exists c17_other")
        try:
            s1.cursor().execute("use schema c17_other")   # takes effect, then answers 500 (finding C17-description-dependent-500)
        except Exception:  # noqa: BLE001
            pass
        s1.cursor().execute("set sv = 1")
        checks += [
            ("USE SCHEMA in one session does not move another", outcome(s2, "select current_schema() as s")[1] == [("str:S1",)]),
            ("session variables are per login", outcome(s2, "select $sv")[0] == "ProgrammingError"),
            ("the session that set them keeps them", outcome(s1, "select current_schema() as s, $sv as v")[1] == [("str:C17_OTHER", "int:1")]),
        ]
        tok = next(iter(srv.mod.sessions))
        n_sessions = len(srv.mod.sessions)
        checks += [
            ("missing Authorization -> 401/390103", raw_query(srv.port, None)[:2] == (401, "390103")),
            ("unknown token -> 401/390104", raw_query(srv.port, 'Snowflake Token="nope"')[:2] == (401, "390104")),
            ("empty Authorization -> 401/390103", raw_query(srv.port, "")[:2] == (401, "390103")),
            ("valid token -> 200", raw_query(srv.port, f'Snowflake Token="{tok}"')[0] == 200),
            ("refused requests create no session", len(srv.mod.sessions) == n_sessions),
        ]
        # 4. several logins opened BEFORE any of them runs a statement: whatever a login creates (its database, its schema) exists from
        #    the login on, exactly as with in-process connects - the other sessions' answers depend on it
        from fakesnow.instance import FakeSnow

        fs_l = FakeSnow()
        names = [("c17l_a", "s1"), ("c17l_a", "s2"), ("c17l_b", "s1")]
        hs = [srv.connect(database=d, schema=s_) for d, s_ in names]
        ins = [fs_l.connect(database=d, schema=s_) for d, s_ in names]
        login_stmts = [(0, "select schema_name from information_schema.schemata where catalog_name = 'C17L_A' and schema_name like 'S%' order by 1"),
                       (0, "select database_name from information_schema.databases where database_name like 'C17L%' order by 1"),
                       (0, "create table s2.t (i int)"), (0, "insert into s2.t values (1), (2)"), (0, "create table c17l_b.s1.u (v varchar)"),
                       (0, "insert into c17l_b.s1.u values ('x')"), (0, "create schema s2"), (0, "create schema if not exists s2"),
                       (1, "select * from t order by 1"), (2, "select * from u"), (1, "select current_database() as d, current_schema() as s"),
                       (2, "select current_database() as d, current_schema() as s")]
        for who, sql in login_stmts:
            a, b = outcome(hs[who], sql), outcome(ins[who], sql)
            ck.cov["evaluations"] += 1
            ck.count("logins-first")
            if a != b and not (a[0] == "ok" and b[0] == "ok" and a[2:] == b[2:] and "Decimal:" in str(b[1]) and "int:" in str(a[1]) and "C17-decimal-scale0-int" in known):
                report(f"three logins {names} opened before any statement, then login {who} runs `{sql}`: over HTTP {a}, in process {b}",
                       {"logins": names, "statements": [x for x in login_stmts[: login_stmts.index((who, sql)) + 1]], "http": a, "in_process": b})
        fs_l.duck_conn.close()
        for name, ok in checks:
            ck.cov["evaluations"] += 1
            ck.count("session-check")
            if not ok:
                report(f"sessions/tokens: {name} - does not hold", {"check": name})
        fs.duck_conn.close()
    return ck.finish(rule="(1) timestamp_to_sf_struct vs the wire model on edge, random and formerly-failing-class timestamps incl. NULL; (2) the same statements through the HTTP server "
                          "with the real connector and in process: rows with python types, rowcount, description, errors (errno, sqlstate, message) - every column type x NULL x edge "
                          "values, timestamps over many microsecond fractions and negative epochs, DML/DDL/SHOW/DESCRIBE/SET/errors; (3) login/query sequences: shared vs isolated instances, "
                          "per-session context and variables, missing/unknown/empty tokens; (4) several logins opened before any statement, then statements that depend on what the idle logins created; non-trivial = statements returning at least one row over HTTP")


if __name__ == "__main__":
    sys.exit(main())
