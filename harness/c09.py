"""C09 - metadata views always describe exactly the current user objects."""
from __future__ import annotations

import sys

import core
import fsutil
from core import S, Check, unstr

OTHER = {1: ("int", "NUMBER(38,0)", "NUMBER"), 2: ("number(10,2)", "NUMBER(10,2)", "NUMBER"), 3: ("float", "FLOAT", "FLOAT"), 4: ("boolean", "BOOLEAN", "BOOLEAN"),
         5: ("date", "DATE", "DATE"), 6: ("timestamp_ntz", "TIMESTAMP_NTZ(9)", "TIMESTAMP_NTZ"), 7: ("variant", "VARIANT", "VARIANT")}
OTHER_BY_DESC = {v[1]: k for k, v in OTHER.items()}
DBS = ["DB1", "DB2"]
SCHEMAS = ["S1", "S2"]
TABLES = ["T1", "T2", "T3"]
COLS = ["A", "B", "C", "D", "E"]
COMMENTS = ["first", "second one", "it's quoted", "", "None", "x" * 40, "cmt;--"]


def gen_col(rng, name=None):
    name = name or rng.choice(COLS)
    if rng.random() < 0.55:
        d = rng.choice([[], [], [3], [10], [255], [16777216]])
        return [S(name), [0, d]]
    return [S(name), [1, rng.choice(list(OTHER))]]


def gen_key(rng):
    return [S(rng.choice(DBS)), S(rng.choice(SCHEMAS)), S(rng.choice(TABLES))]


def gen_hist(rng, profile, n, dbs=None):
    h = []
    alive = []
    for _ in range(n):
        r = rng.random()
        k = gen_key(rng)
        if dbs:
            k[0] = S(rng.choice(dbs))
        if alive and r < 0.75:
            k = rng.choice(alive)
        if profile == "dom":
            kinds = [0] * 6 + [1] * 3 + [2] + [3] * 4 + [4] * 3 + [5] * 2 + [6] * 3 + [7] * 2
        else:
            kinds = [0] * 5 + [1] * 2 + [2] + [3] * 3 + [4] * 2 + [5] * 2 + [6] * 2 + [7] * 2 + [8] * 2
        kind = rng.choice(kinds) if len(h) >= 2 else 0
        if kind == 3 and profile == "dom" and k not in alive:
            if alive:
                k = rng.choice(alive)
            else:
                kind = 0
        if kind == 0:
            names = rng.sample(COLS, rng.randint(1, 4))
            cm = [S(rng.choice(COMMENTS))] if rng.random() < 0.5 else []
            h.append([0, int(rng.random() < 0.4), k, [gen_col(rng, n_) for n_ in names], cm])
            if k not in alive:
                alive.append(k)
        elif kind == 1:
            h.append([1, k])
            if k in alive:
                alive.remove(k)
        elif kind == 2:
            h.append([2, k[0], S("S2")])
            alive = [a for a in alive if not (a[0] == k[0] and a[1] == S("S2"))]
        elif kind == 3:
            h.append([3, k, S(rng.choice(COMMENTS))])
        elif kind == 4:
            h.append([4, k, gen_col(rng)])
        elif kind == 5:
            h.append([5, k, S(rng.choice(COLS))])
        elif kind == 6:
            h.append([6, k, S(rng.choice(COLS)), S(rng.choice(COLS))])
        elif kind == 7:
            k2 = [k[0], k[1], S(rng.choice(TABLES))]
            h.append([7, k, k2])
            if k in alive and k2 not in alive:
                alive[alive.index(k)] = k2
        else:
            h.append([8, k, [k[0], k[1], S(rng.choice(TABLES))]])
    return h


def with_tx(rng, h):
    """Put BEGIN ... COMMIT/ROLLBACK brackets around random segments of a history (DB1 only: DB2 is observed through a second connection)."""
    out, i = [], 0
    while i < len(h):
        if rng.random() < 0.35:
            n = rng.randint(1, 4)
            out.append([9])
            out += h[i:i + n]
            out.append([11] if rng.random() < 0.6 else [10])
            i += n
        else:
            out.append(h[i])
            i += 1
    return out


def qn(rng, k):
    d, s, t = (unstr(x) for x in k)
    r = rng.random()
    t = t.lower() if rng.random() < 0.5 else t
    if d == "DB1" and s == "S1" and r < 0.3:
        return t
    if d == "DB1" and r < 0.5:
        return f"{s.lower()}.{t}"
    return f"{d}.{s}.{t}"


def coldef_sql(c):
    name, ty = unstr(c[0]), c[1]
    if ty[0] == 0:
        return f"{name} " + (f"varchar({ty[1][0]})" if ty[1] else "varchar")
    return f"{name} {OTHER[ty[1]][0]}"


def lit(s):
    return "'" + s.replace("'", "''") + "'"


def render(rng, o):
    k = o[0]
    if k in (9, 10, 11):
        return [{9: rng.choice(["begin", "begin transaction"]), 10: "commit", 11: "rollback"}[k]]
    if k == 0:
        cm = f" comment = {lit(unstr(o[4][0]))}" if o[4] else ""
        return [f"create {'or replace ' if o[1] else ''}table {qn(rng, o[2])} ({', '.join(coldef_sql(c) for c in o[3])}){cm}"]
    if k == 1:
        return [f"drop table {qn(rng, o[1])}"]
    if k == 2:
        d, s = unstr(o[1]), unstr(o[2])
        return [f"drop schema if exists {d}.{s}", f"create schema {d}.{s}"]
    if k == 3:
        t = qn(rng, o[1])
        return [f"comment on table {t} is {lit(unstr(o[2]))}" if rng.random() < 0.5 else f"alter table {t} set comment = {lit(unstr(o[2]))}"]
    if k == 4:
        return [f"alter table {qn(rng, o[1])} add column {coldef_sql(o[2])}"]
    if k == 5:
        return [f"alter table {qn(rng, o[1])} drop column {unstr(o[2])}"]
    if k == 6:
        return [f"alter table {qn(rng, o[1])} rename column {unstr(o[2])} to {unstr(o[3])}"]
    if k == 7:
        return [f"alter table {qn(rng, o[1])} rename to {unstr(o[2][2])}"]
    src = qn(rng, o[2])
    return [f"create table {qn(rng, o[1])} clone {src}" if rng.random() < 0.5 else f"create table {qn(rng, o[1])} as select * from {src}"]


def observe(conns):
    """Every live user table with the four answers of the model + cross-channel data for the agreement oracle."""
    out, cross = [], []
    for d in DBS:
        conn = conns[d]
        cur = conn.cursor()
        rows = cur.execute(f"select table_schema, table_name, comment, table_type from {d}.information_schema.tables where table_catalog = '{d}' order by 1, 2").fetchall()
        user = [(s, t, c) for s, t, c, ty in rows if s in SCHEMAS and ty == "BASE TABLE"]
        internal = sorted(f"{s}.{t}" for s, t, c, ty in rows if s not in SCHEMAS)
        shown = sorted((r[4], r[1]) for r in cur.execute(f"show tables in database {d}").fetchall())
        objs = sorted((r[4], r[1]) for r in cur.execute(f"show objects in database {d}").fetchall())
        terse = sorted((r[4], r[1]) for r in cur.execute(f"show terse tables in database {d}").fetchall())
        schemas = sorted(r[1] for r in cur.execute(f"show schemas in database {d}").fetchall())
        cross.append({"db": d, "info_tables": sorted((s, t) for s, t, _ in user), "show_tables": shown, "show_objects": objs, "show_terse": terse, "schemas": schemas, "internal": internal})
        for s, t, c in user:
            desc = cur.execute(f"describe table {d}.{s}.{t}").fetchall()
            info = cur.execute(f"select column_name, character_maximum_length, data_type, is_nullable, ordinal_position from {d}.information_schema.columns "
                               f"where table_catalog = '{d}' and table_schema = '{s}' and table_name = '{t}' order by ordinal_position").fetchall()
            star = [x.name for x in conn.cursor().describe(f"select * from {d}.{s}.{t}")]
            dd = []
            for r in desc:
                ty = r[1]
                dd.append([S(r[0]), [0, int(ty[8:-1])] if ty.startswith("VARCHAR(") else [1, OTHER_BY_DESC.get(ty, 99)]])
            out.append([[S(d), S(s), S(t)], core.opt(c), [dd], [[S(r[0]), core.opt(r[1])] for r in info]])
            cross[-1].setdefault("tables", []).append({"t": f"{d}.{s}.{t}", "describe": [(r[0], r[1], r[3]) for r in desc], "info": [tuple(r) for r in info], "star": star})
    return sorted(out), cross


def check_types(ck, report):
    """(a) translator tie: the CASE arms of the view _fs_columns_snowflake, read from /repo's info_schema.py, against the model's arms
    (generated theorem view_arms_match_source); (b) correspondence of info_name / info_prec / info_scale with the real view over a table
    holding a column of every DuckDB type SQL can produce here; (c) the property: information_schema.columns / DESCRIBE agree with
    cursor.description on type name, precision and scale (Props_C09.info_name_agrees_partial, info_precision_agrees_partial)."""
    import os
    import re
    import subprocess

    import c06
    import view_translate

    try:
        src = view_translate.translate(core.REPO)
    except view_translate.Unsupported as e:
        src = None
        report("view-translate", f"the CASE expressions of _fs_columns_snowflake in info_schema.py are no longer of the translated form ({e}): "
                                 "theorem view_arms_match_source cannot be generated", {"theorem": "view_arms_match_source"}, no_input=True)
    tie_ok = None
    if src is not None:
        out = core.VERIF / "build" / f"c09tie-{os.getpid()}"
        out.mkdir(parents=True, exist_ok=True)
        try:
            def cs(x):
                return "[" + "; ".join(str(ord(c)) for c in x) + "]"

            def oz(x):
                return "None" if x is None else f"(Some {x})"
            n_, p_, s_ = src
            (out / "Tie.v").write_text(
                "From FS Require Import Sexp Types.\nOpen Scope Z_scope.\n"
                f"Definition src_name_arms : list (bool * str * str) := [{'; '.join(f'({str(a).lower()}, {cs(b)}, {cs(c)})' for a, b, c in n_)}].\n"
                f"Definition src_prec_arms : list (str * option Z) := [{'; '.join(f'({cs(a)}, {oz(b)})' for a, b in p_)}].\n"
                f"Definition src_scale_arms : list (str * option Z) := [{'; '.join(f'({cs(a)}, {oz(b)})' for a, b in s_)}].\n"
                "Theorem view_arms_match_source : (src_name_arms, src_prec_arms, src_scale_arms) = (name_arms, prec_arms, scale_arms).\n"
                "Proof. vm_compute. reflexivity. Qed.\nPrint Assumptions view_arms_match_source.\n")
            r = subprocess.run(f"timeout 300 coqc -Q {core.COQ}/theories FS Tie.v", shell=True, cwd=out, capture_output=True, text=True)
            tie_ok = r.returncode == 0 and "Closed under the global context" in r.stdout
            ck.cov["view_tie"] = {"name_arms": len(n_), "precision_arms": len(p_), "scale_arms": len(s_),
                                  "theorem": "view_arms_match_source (generated from /repo/fakesnow/info_schema.py with sqlglot, checked by coqc)", "accepted": tie_ok}
        finally:
            import shutil
            shutil.rmtree(out, ignore_errors=True)
    # a column of every type
    fs, conn = fsutil.fresh()
    cur = conn.cursor()
    cols = ["1 as c_int", "1::bigint as c_big", "1.5 as c_dec", "12345.678::number(10,3) as c_num", "1.5::double as c_dbl", "'x' as c_txt", "true as c_bool", "current_date as c_date",
            "'12:00:00'::time as c_time", "current_timestamp::timestamp_ntz as c_ntz", "current_timestamp as c_tz", "parse_json('1') as c_var",
            "1::smallint as c_small", "'ab'::binary as c_bin"]
    cur.execute("create table c09_ty as select " + ", ".join(cols))
    raw = fs.duck_conn.cursor().execute("select column_name, data_type from db1.information_schema.columns where table_name = 'C09_TY' order by ordinal_position").fetchall()
    info = cur.execute("select column_name, data_type, numeric_precision, numeric_scale from information_schema.columns where table_name = 'C09_TY' order by ordinal_position").fetchall()
    desc = cur.execute("describe table c09_ty").fetchall()
    meta = conn.cursor().describe("select * from c09_ty")
    fs.duck_conn.close()

    def enc(t):
        m_ = re.fullmatch(r"DECIMAL\((\d+),(\d+)\)", t)
        return [2, int(m_.group(1)), int(m_.group(2))] if m_ else c06.PLAIN.get(t) or c06.OTHER.get(t) or [13, 99]
    cases = [[enc(t) for _, t in raw]]
    mo = core.model_eval("run_c09_types", cases)[0]
    if core.kernel_failing("Types", "run_c09_types", [(cases[0], mo)], "C09"):
        raise core.MachineryError("kernel and extracted model disagree on run_c09_types")
    ck.kernel_checked += 1
    ck.cov["evaluations"] += len(raw)
    SF = {0: "NUMBER", 1: "FLOAT", 2: "TEXT", 3: "DATE", 12: "TIME", 8: "TIMESTAMP_NTZ", 7: "TIMESTAMP_TZ", 11: "BINARY", 5: "VARIANT", 13: "BOOLEAN"}
    first_bad = None
    for (cn, dt), (_, iname, iprec, iscale), drow, md, m in zip(raw, info, desc, meta, mo):
        m_name, m_prec, m_scale, d_name, d_prec, d_scale, dom = m
        rep = {"column": cn, "duckdb_type": dt, "information_schema": [iname, iprec, iscale], "describe_table": drow[1],
               "description": [md.type_code, md.precision, md.scale], "model": [unstr(m_name[0]) if m_name else None, m_prec, m_scale]}
        # (b) model of the view vs the view
        if (unstr(m_name[0]) if m_name else None) != iname or m_prec != core.opt(iprec) or m_scale != core.opt(iscale):
            first_bad = first_bad or rep
            report("view-model", f"column {cn} ({dt}): information_schema.columns says {iname} precision {iprec} scale {iscale}, the model of the view says "
                                 f"{rep['model']}; Props_C09.info_name_agrees_partial is no longer about this code", dict(rep, theorem="Props_C09.info_name_agrees_partial"), no_input=True)
            continue
        # (c) the property, independent of the model: the three channels name the same Snowflake type
        want = SF.get(md.type_code)
        if iname != want or not str(drow[1]).startswith("VARCHAR" if want == "TEXT" else want):
            report("type-names", f"column {cn} ({dt}): information_schema.columns says {iname}, DESCRIBE TABLE {drow[1]}, cursor.description {want}", rep)
        elif want == "NUMBER" and (iprec, iscale) != (md.precision, md.scale):
            report("type-precision", f"column {cn} ({dt}): information_schema.columns says NUMBER({iprec},{iscale}), cursor.description NUMBER({md.precision},{md.scale})", rep)
        elif want == "NUMBER" and drow[1] != f"NUMBER({md.precision},{md.scale})":
            report("type-describe", f"column {cn} ({dt}): DESCRIBE TABLE says {drow[1]}, cursor.description NUMBER({md.precision},{md.scale})", rep)
    if tie_ok is False:
        model_arms = core.model_eval("run_c09_arms", [[]])[0]
        report("view-tie", f"the CASE arms of _fs_columns_snowflake in info_schema.py {src} differ from the model's {model_arms}: the generated theorem view_arms_match_source is rejected by coqc",
               {"source_arms": [list(map(list, src[0])), src[1], src[2]], "theorem": "view_arms_match_source", "first_differing_column": first_bad}, no_input=first_bad is None)


def main():
    ck = Check("C09", "Meta", "run_c09")
    ck.prepare()
    ck.trusted.append("modelled, not verified: DuckDB's catalog and information_schema (which tables/columns/types exist is read back from it), the SQL of the views in info_schema.py and of "
                      "DESCRIBE/SHOW (their agreement with each other is checked by the cross-channel oracle, not proved); the model covers the side-table bookkeeping (comments, VARCHAR lengths)")
    known = {f["id"]: f for f in ck.findings}
    reported = set()

    def report(key, msg, rep, no_input=False):
        if key not in reported and len(reported) < 4:
            reported.add(key)
            ck.violation(msg, rep, no_input=no_input)

    def known_or_report(fid, msg, rep):
        f = known.get(fid)
        if f:
            ck.known(fid, f["what"])
        else:
            report(fid, msg, rep)

    nh, steps = {"quick": (24, 10), "thorough": (240, 14)}[ck.tier]
    hists, impl, sql_logs, crosses = [], [], [], []
    def K(t, s_="S1"):
        return [S("DB1"), S(s_), S(t)]

    def vc(n_, d):
        return [S(n_), [0, [d] if d else []]]

    def ic(n_):
        return [S(n_), [1, 1]]

    # the witnesses of Props_C09.*_refuted (and of the former rename / re-add findings, fixed by 6836b10) and the example of
    # meta_holds_somewhere, replayed on the implementation
    fixed = [
        [[0, 0, K("R1"), [vc("V", 7)], []], [6, K("R1"), S("V"), S("W")]],
        [[0, 0, K("R1"), [ic("A")], [S("c")]], [7, K("R1"), K("R2")], [0, 0, K("R1"), [ic("A")], []]],
        [[0, 0, K("C1"), [vc("V", 7)], []], [8, K("C2"), K("C1")]],
        [[0, 0, K("C1"), [vc("V", 7)], []], [4, K("C1"), ic("X")], [5, K("C1"), S("V")], [4, K("C1"), ic("V")]],
        [[3, K("T9"), S("x")], [0, 0, K("T9"), [ic("A")], []]],
        [[0, 0, K("T1"), [ic("A"), vc("B", 10), vc("C", None)], [S("first")]], [1, K("T1")], [0, 0, K("T1"), [vc("B", None), ic("C")], []],
         [0, 1, K("T1"), [vc("B", 3)], [S("it's")]], [4, K("T1"), vc("D", 255)], [0, 0, K("T1", "S2"), [vc("B", 5)], [S("other")]], [2, S("DB1"), S("S2")],
         [0, 0, K("T1", "S2"), [vc("B", None)], []], [3, K("T1"), S("last")], [6, K("T1"), S("B"), S("E")], [5, K("T1"), S("D")], [4, K("T1"), ic("D")],
         [7, K("T1"), K("T2")], [0, 0, K("T1"), [vc("E", None)], []]],
    ]
    # meta_tx_holds_somewhere: the same history with a rolled-back re-creation, a committed tail and a rolled-back DROP
    fixed.append(fixed[5][:2] + [[9]] + fixed[5][2:4] + [[11], [9]] + fixed[5][2:] + [[10], [9], [1, K("T2")], [11]])
    for i in range(nh + len(fixed)):
        profile = "dom" if i % 3 != 2 else "any"
        if i < len(fixed):
            h = fixed[i]
        elif i % 2:
            h = with_tx(ck.rng, gen_hist(ck.rng, profile, steps, dbs=["DB1"]))
            ck.count("with-transactions")
        else:
            h = gen_hist(ck.rng, profile, steps)
        ck.count(f"profile:{profile}")
        fs, conn = fsutil.fresh()
        cur = conn.cursor()
        for st in ["create schema db1.s2", "create database db2", "create schema db2.s1", "create schema db2.s2"]:
            cur.execute(st)
        conn2 = fs.connect(database="DB2", schema="S1")
        trace, log, cr = [], [], []
        for o in h:
            ck.count(f"op:{o[0]}")
            for sql in render(ck.rng, o):
                log.append(sql)
                try:
                    conn.cursor().execute(sql)
                except Exception as e:  # noqa: BLE001
                    log[-1] += f"   -- {type(e).__name__}"
            if ck.rng.random() < 0.35:
                # statements fakesnow answers without doing anything (tags, clustering, session variables): they must not touch metadata either
                nz = ck.rng.choice(["set c09_v = 1", "create tag c09_tag", "alter table db1.s1.t1 set tag c09_tag = 'x'", "alter table db1.s1.t2 cluster by (a)",
                                    "alter table db1.s2.t1 modify column a set tag c09_tag = 'y'", "unset c09_v"])
                log.append(nz + "   -- no-op")
                try:
                    conn.cursor().execute(nz)
                except Exception:  # noqa: BLE001
                    log[-1] += " (raised)"
            try:
                ob, cross = observe({"DB1": conn, "DB2": conn2})
            except Exception as e:  # noqa: BLE001
                # the metadata queries themselves fail (eg the session's transaction was aborted behind the user's back)
                report("observe", f"after `{log[-1]}` the metadata queries raise {type(e).__name__}: {str(e)[:160]}", {"statements": list(log), "op": o})
                break
            trace.append(ob)
            cr.append(cross)
        fs.duck_conn.close()
        hists.append(h)
        impl.append(trace)
        sql_logs.append(log)
        crosses.append(cr)
    mo = core.model_eval("run_c09", hists)
    ck.cov["evaluations"] += sum(len(h) for h in hists)
    nh = len(hists)
    sample = sorted(ck.rng.sample(range(nh), min(12, nh)))
    if core.kernel_failing("Meta", "run_c09", [(hists[i], mo[i]) for i in sample], "C09"):
        raise core.MachineryError("kernel and extracted model disagree on run_c09")
    ck.kernel_checked += len(sample)
    n_dom = n_nontrivial = 0
    for h, tr, m, log, cr in zip(hists, impl, mo, sql_logs, crosses):
        in_dom = bool(m[0])
        n_dom += in_dom
        if max((len(step) for step in tr), default=0) >= 2:
            n_nontrivial += 1
        for j, (step_impl, step_model, cross) in enumerate(zip(tr, m[1], cr)):
            sm = sorted(step_model)
            fake = [x[:4] for x in sm]
            spec = {tuple(map(tuple, x[0])): (x[4], x[5]) for x in sm}
            rep = {"statements": log, "step": j, "op": h[j], "impl": step_impl, "model": fake, "in_dom": in_dom}
            # (1) model of the bookkeeping vs implementation, everywhere
            if step_impl != fake:
                bad = next((a, b) for a, b in zip(step_impl + [None], fake + [None]) if a != b)
                report("model", f"after {log[-1] if j == len(h) - 1 else 'step ' + str(j)} ({h[j][0]}): implementation answers {bad[0]}, the model of the side-table bookkeeping predicts {bad[1]}; "
                                "Props_C09.metadata_exact_partial is no longer about this code", dict(rep, theorem="Props_C09.metadata_exact_partial"), no_input=True)
                break
            # (2) the property: answers = what was most recently declared (the model's ghost state)
            for x in step_impl:
                want_c, want_d = spec[tuple(map(tuple, x[0]))]
                if x[1] != want_c or x[2] != want_d:
                    if in_dom:
                        raise core.MachineryError(f"model: fake answers differ from the declarations inside dom: {x} vs {want_c} {want_d} - contradicts metadata_exact_partial")
                    kinds = {o[0] for o in h}   # (a rolled-back step can bring an earlier discrepancy back: classify by the whole history)
                    fid = "C09-clone-loses-lengths" if 8 in kinds else "C09-comment-on-missing-table" if 3 in kinds else None
                    what = f"table {'.'.join(unstr(p) for p in x[0])}: comment {x[1]} / columns {x[2]} but the latest declarations say {want_c} / {want_d}"
                    if fid:
                        known_or_report(fid, what, rep)
                    else:
                        report("spec", what, rep)
            # (3) cross-channel agreement, independent of the model
            for c in cross:
                if not (c["info_tables"] == c["show_tables"] == c["show_terse"]) or not set(c["show_tables"]) <= set(c["show_objects"]):
                    report("agree", f"information_schema.tables {c['info_tables']}, SHOW TABLES {c['show_tables']}, SHOW TERSE TABLES {c['show_terse']}, SHOW OBJECTS {c['show_objects']} disagree in {c['db']}", dict(rep, cross=c))
                if c["internal"]:
                    known_or_report("C09-internal-objects-listed", f"{c['db']}.information_schema.tables lists internal objects {c['internal']}", dict(rep, cross=c))
                if [s for s in c["schemas"] if s.startswith("_fs") or s == "main"]:
                    report("schemas", f"SHOW SCHEMAS lists internal schemas {c['schemas']}", dict(rep, cross=c))
                for t in c.get("tables", []):
                    names_d = [r[0] for r in t["describe"]]
                    names_i = [r[0] for r in t["info"]]
                    if not (names_d == names_i == t["star"]):
                        report("cols", f"{t['t']}: DESCRIBE {names_d}, information_schema.columns {names_i}, description of SELECT * {t['star']} disagree", dict(rep, table=t))
                    for (dn, dt, dnull), (iname, ilen, ity, inull, ipos) in zip(t["describe"], t["info"]):
                        want_ty = f"VARCHAR({ilen if ilen is not None else 16777216})" if ity == "TEXT" else None
                        if (want_ty and dt != want_ty) or (not want_ty and not dt.startswith(ity)) or (dnull == "Y") != (inull == "YES"):
                            report("types", f"{t['t']}.{dn}: DESCRIBE says {dt} null={dnull}, information_schema.columns says {ity} len={ilen} nullable={inull}", dict(rep, table=t))
                        if ity != "TEXT" and ilen is not None:
                            report("stale-length", f"{t['t']}.{dn}: a {ity} column reports character_maximum_length {ilen}", dict(rep, table=t))
    if n_dom < nh * 0.4:
        raise core.MachineryError(f"only {n_dom}/{nh} histories inside dom")
    # (3b) Snowflake type names, precision and scale: the view's CASE arms (translator tie) and the three channels
    check_types(ck, report)
    # (4) witnesses of the refuted statements / recorded findings, replayed
    probes = {
        "rename-column": ["create table r1 (v varchar(7)) comment = 'c'", "alter table r1 rename column v to w", "describe table r1"],
        "rename-table": ["create table r2 (v varchar(7)) comment = 'c'", "alter table r2 rename to r3", "describe table r3"],
        "C09-clone-loses-lengths": ["create table c1 (v varchar(7))", "create table c2 clone c1", "describe table c2"],
    }
    fs, conn = fsutil.fresh()
    for fid, sqls in probes.items():
        cur = conn.cursor()
        for s_ in sqls:
            rows = cur.execute(s_).fetchall()
        ck.cov["evaluations"] += 1
        if rows[0][1] != "VARCHAR(7)":
            known_or_report(fid, f"{sqls}: DESCRIBE says {rows[0][1]}", {"statements": sqls})
    cur = conn.cursor()
    for s_ in ["create database dbo", "create schema dbo.so", "create table dbo.so.od (v varchar(7))"]:
        cur.execute(s_)
    rows = cur.execute("describe table dbo.so.od").fetchall()
    ck.cov["evaluations"] += 1
    if rows[0][1] != "VARCHAR(7)":
        known_or_report("C09-describe-other-database", f"(current database DB1) describe table dbo.so.od says {rows[0][1]} for a VARCHAR(7) column", {"rows": [list(map(str, r)) for r in rows]})
    # views: information_schema.views / DESCRIBE VIEW / SHOW OBJECTS agree
    cur = conn.cursor()
    cur.execute("create table vt (a int, b varchar(5))")
    cur.execute("create view vv as select a, b from vt")
    views = cur.execute("select table_schema, table_name from information_schema.views").fetchall()
    objs = [(r[1], r[2]) for r in cur.execute("show objects").fetchall()]
    dv = [(r[0], r[1]) for r in cur.execute("describe view vv").fetchall()]
    ck.cov["evaluations"] += 3
    if views != [("S1", "VV")] or ("VV", "VIEW") not in objs or [n for n, _ in dv] != ["A", "B"]:
        report("views", f"view VV: information_schema.views {views}, SHOW OBJECTS {objs}, DESCRIBE VIEW {dv}", {})
    if dv and dv[1][1] != "VARCHAR(5)":
        known_or_report("C09-view-loses-lengths", f"DESCRIBE VIEW vv reports {dv[1][1]} for a VARCHAR(5) column", {"describe": dv})
    # views of a database that is not the session's current one
    cur.execute("create table dbo.so.ot (a int)")
    cur.execute("create view dbo.so.ov as select a from dbo.so.ot")
    v_other = cur.execute("select table_catalog, table_schema, table_name from dbo.information_schema.views").fetchall()
    v_here = cur.execute("select table_catalog, table_schema, table_name from db1.information_schema.views").fetchall()
    o_other = sorted((r[1], r[2]) for r in cur.execute("show objects in database dbo").fetchall())
    ck.cov["evaluations"] += 3
    if v_other != [("DBO", "SO", "OV")] or v_here != [("DB1", "S1", "VV")] or ("OV", "VIEW") not in o_other or ("VV", "VIEW") in o_other:
        report("views-db", f"views per database: dbo.information_schema.views {v_other}, db1.information_schema.views {v_here}, SHOW OBJECTS IN DATABASE dbo {o_other}; "
                           "expected exactly OV in DBO and VV in DB1", {"statements": ["create view vv ... (DB1.S1)", "create view dbo.so.ov as select a from dbo.so.ot"]})
    cur.execute("drop view vv")
    if cur.execute("select table_name from information_schema.views").fetchall() or ("VV", "VIEW") in [(r[1], r[2]) for r in cur.execute("show objects").fetchall()]:
        report("views2", "dropped view still listed", {})
    fs.duck_conn.close()
    ck.cov["distinct_nontrivial"] = n_nontrivial
    ck.cov["inside_dom"] = n_dom
    ck.cov["samples"] += [{"statements": sql_logs[0][:6]}]
    return ck.finish(rule="random DDL histories over 2 databases x 2 schemas x 3 tables x 5 column names (CREATE [OR REPLACE] with/without comment and VARCHAR lengths, DROP, DROP SCHEMA + re-create, "
                          "COMMENT ON / SET COMMENT, ADD/DROP/RENAME COLUMN, RENAME TO, CLONE/CTAS; random qualification and case); after EVERY statement and for every live table: comment, "
                          "DESCRIBE TABLE and information_schema.columns lengths vs the model; vs the latest declarations (the property); SHOW TABLES / TERSE / OBJECTS / SCHEMAS, "
                          "information_schema.tables/columns, DESCRIBE and the description of SELECT * vs each other; non-trivial = histories reaching >= 2 live tables")


if __name__ == "__main__":
    sys.exit(main())
