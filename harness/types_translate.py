"""Translator: the if/elif chain of types.describe_as_rowtype.as_column_info (precision / scale / length per Snowflake type) re-read from
/repo/fakesnow/types.py with Python's ast and emitted as the Coq list Types.meta_rules is compared with. Fails closed."""
import ast
import sys
from pathlib import Path


class Unsupported(Exception):
    pass


def cs(x):
    return "[" + "; ".join(str(ord(c)) for c in x) + "]"


def oz(x):
    return "None" if x is None else f"(Some {x})"


def cond(test):
    # column_type.startswith("DECIMAL") | sf_type == "x" | sf_type.startswith("x")
    if isinstance(test, ast.Call) and isinstance(test.func, ast.Attribute) and test.func.attr == "startswith" and isinstance(test.func.value, ast.Name) \
            and len(test.args) == 1 and isinstance(test.args[0], ast.Constant) and isinstance(test.args[0].value, str):
        who, lit_ = test.func.value.id, test.args[0].value
        if who == "column_type" and lit_ == "DECIMAL":
            return "CDecimal"
        if who == "sf_type":
            return f"(CTypePrefix {cs(lit_)})"
    if isinstance(test, ast.Compare) and len(test.ops) == 1 and isinstance(test.ops[0], ast.Eq) and isinstance(test.left, ast.Name) and test.left.id == "sf_type" \
            and isinstance(test.comparators[0], ast.Constant) and isinstance(test.comparators[0].value, str):
        return f"(CTypeIs {cs(test.comparators[0].value)})"
    raise Unsupported(f"condition {ast.unparse(test)}")


def body(stmts):
    vals, from_type = {}, {}
    for st in stmts:
        if isinstance(st, ast.Assign) and len(st.targets) == 1 and isinstance(st.targets[0], ast.Name) and st.targets[0].id == "match":
            continue                                  # match = re.search(r"\((\d+),(\d+)\)", column_type)
        if not (isinstance(st, ast.Assign) and len(st.targets) == 1 and isinstance(st.targets[0], ast.Subscript) and isinstance(st.targets[0].value, ast.Name)
                and st.targets[0].value.id == "info" and isinstance(st.targets[0].slice, ast.Constant)):
            raise Unsupported(f"statement {ast.unparse(st)[:80]}")
        key, v = st.targets[0].slice.value, st.value
        if isinstance(v, ast.Constant) and isinstance(v.value, int):
            vals[key] = v.value
        elif isinstance(v, ast.IfExp) and isinstance(v.test, ast.Name) and v.test.id == "match" and isinstance(v.orelse, ast.Constant) and isinstance(v.orelse.value, int) \
                and ast.unparse(v.body) in ("int(match[1])", "int(match[2])"):
            from_type[key] = (ast.unparse(v.body), v.orelse.value)
        else:
            raise Unsupported(f"value {ast.unparse(v)[:80]}")
    if from_type:
        if vals or set(from_type) != {"precision", "scale"} or from_type["precision"][0] != "int(match[1])" or from_type["scale"][0] != "int(match[2])":
            raise Unsupported(f"decimal branch {from_type} {vals}")
        return f"(RFromType {from_type['precision'][1]} {from_type['scale'][1]})"
    if set(vals) - {"precision", "scale", "byteLength", "length"} or vals.get("byteLength") != vals.get("length"):
        raise Unsupported(f"fields {vals}")
    return f"(RConst {oz(vals.get('precision'))} {oz(vals.get('scale'))} {oz(vals.get('length'))})"


def coq(repo):
    tree = ast.parse((Path(repo) / "fakesnow" / "types.py").read_text())
    outer = next((n for n in tree.body if isinstance(n, ast.FunctionDef) and n.name == "describe_as_rowtype"), None)
    fn = next((n for n in (outer.body if outer else []) if isinstance(n, ast.FunctionDef) and n.name == "as_column_info"), None)
    if fn is None:
        raise Unsupported("describe_as_rowtype.as_column_info not found")
    chains = [n for n in fn.body if isinstance(n, ast.If) and "sf_type :=" not in ast.unparse(n.test)]
    if len(chains) != 1:
        raise Unsupported(f"{len(chains)} if-chains in as_column_info")
    rules, node = [], chains[0]
    while True:
        rules.append(f"({cond(node.test)}, {body(node.body)})")
        if len(node.orelse) == 1 and isinstance(node.orelse[0], ast.If):
            node = node.orelse[0]
        elif not node.orelse:
            break
        else:
            raise Unsupported("else branch in the chain")
    # the initial dict must leave the four fields None
    init = next((n for n in fn.body if isinstance(n, ast.AnnAssign) and isinstance(n.target, ast.Name) and n.target.id == "info"), None)
    if init is None or not isinstance(init.value, ast.Dict):
        raise Unsupported("info: ColumnInfo = {...} not found")
    d = {k.value: v for k, v in zip(init.value.keys, init.value.values) if isinstance(k, ast.Constant)}
    for f in ("byteLength", "length", "scale", "precision"):
        if not (isinstance(d.get(f), ast.Constant) and d[f].value is None):
            raise Unsupported(f"initial value of {f}")
    return ("From FS Require Import Sexp Types.\nOpen Scope Z_scope.\n"
            f"Definition src_meta_rules : list (rcond * rval) := [{'; '.join(rules)}].\n"
            "Theorem meta_rules_match_source : src_meta_rules = meta_rules.\nProof. vm_compute. reflexivity. Qed.\n"
            "Print Assumptions meta_rules_match_source.\n")


if __name__ == "__main__":
    print(coq(sys.argv[1]))
