"""Child processes of the C18 check.
  writer <db_path|-> <mode> <trace_file> <history.json>   mode: count | kill:<K> | clean | raise | patch-clean | patch-raise | memory
  reader <db_path>                                          prints a JSON dump of what a fresh process finds
The writer logs, BEFORE each engine call, one line "c <n> <class>" and after each completed operation "d <j>", each
fsynced, so the parent knows exactly what had happened when the process died."""
from __future__ import annotations

import json
import os
import signal
import sys

HERE = os.path.dirname(os.path.abspath(__file__))
sys.path.insert(0, HERE)
import core  # noqa: E402

core.use_repo()
import sched  # noqa: E402
from core import unstr  # noqa: E402


def kname(k):
    return ".".join('"main"' if unstr(x) == "main" else unstr(x) for x in k)


class KillProxy:
    def __init__(self, inner, st):
        object.__setattr__(self, "_inner", inner)
        object.__setattr__(self, "_st", st)

    def execute(self, sql, *a, **kw):
        st = self._st
        st["n"] += 1
        if st["kill"] == st["n"]:
            os.kill(os.getpid(), signal.SIGKILL)
        c = sched.classify(sql)
        s = " ".join(sql.split()).upper()
        if c is None:
            c = 11 if s.startswith("BEGIN") else 12 if s.startswith("COMMIT") else 13 if s.startswith("ROLLBACK") else None
        if st.get("silent"):
            c = None              # an operation the model does not have
        st["log"](f"c {st['n']} {c if c is not None else -1}")
        return self._inner.execute(sql, *a, **kw)

    def cursor(self):
        return KillProxy(self._inner.cursor(), self._st)

    def __enter__(self):
        self._inner.__enter__()
        return self

    def __exit__(self, *a):
        return self._inner.__exit__(*a)

    def __getattr__(self, name):
        return getattr(self._inner, name)


def run_history(connect, hist, log, st=None):
    conn = lcur = None
    n6 = 0
    for j, o in enumerate(hist):
        k = o[0]
        if k == 0:
            conn = connect(unstr(o[1]), unstr(o[2]))
            lcur = conn.cursor()
        else:
            cur = conn.cursor()
            if k == 1:
                cur.execute(f"create database {unstr(o[1])}")
            elif k == 2:
                cm = f" comment = '{unstr(o[2][0])}'" if o[2] else ""
                cur.execute(f"create table {kname(o[1])} (v int){cm}")
            elif k == 3:
                cur.execute(f"insert into {kname(o[1])} values ({o[2]})")
            elif k == 6:
                n6 += 1
                if n6 % 3 != 0:
                    # the way connector programs do it: one long-lived cursor for the statements, the connection's commit()/rollback() to end
                    if n6 % 3 == 2 and not o[3] and j < len(hist) - 1:
                        # ... inside `with conn:` - leaving the block neither commits nor rolls back, the transaction is still the program's to end
                        with conn:
                            lcur.execute("begin")
                            for v in o[2]:
                                lcur.execute(f"insert into {kname(o[1])} values ({v})")
                        conn.rollback()
                    else:
                        lcur.execute("begin")
                        for v in o[2]:
                            lcur.execute(f"insert into {kname(o[1])} values ({v})")
                        if o[3]:
                            conn.commit()
                        elif j < len(hist) - 1:
                            conn.rollback()
                else:
                    cur.execute("begin")
                    for v in o[2]:
                        conn.cursor().execute(f"insert into {kname(o[1])} values ({v})")
                    if o[3]:
                        conn.cursor().execute("commit")
                    elif j < len(hist) - 1:
                        conn.cursor().execute("rollback")
            elif k == 8:        # not in the model: statements that fail (they must leave nothing behind, not even an open transaction)
                if st is not None:
                    st["silent"] = True
                for bad in ("merge into db1.s1.t using missing_src on t.v = missing_src.v when matched then delete", "select * from missing_table"):
                    try:
                        conn.cursor().execute(bad)
                        raise AssertionError(f"{bad} did not fail")
                    except AssertionError:
                        raise
                    except Exception:  # noqa: BLE001
                        pass
                if st is not None:
                    st["silent"] = False
            elif k == 9:        # not in the model: DDL inside a transaction that is rolled back leaves nothing - no table, no metadata - and removes nothing
                if st is not None:
                    st["silent"] = True
                for q in ("begin", "create table db1.s1.ghost (v varchar(7)) comment = 'ghost'", "drop table db1.s1.t", "rollback"):
                    conn.cursor().execute(q)
                if st is not None:
                    st["silent"] = False
            elif k == 7:        # not in the model: a sized VARCHAR column (metadata must survive a clean exit)
                if st is not None:
                    st["silent"] = True
                cur.execute(f"create table {kname(o[1])} (v varchar(10))")
                if st is not None:
                    st["silent"] = False
        log(f"d {j}")
    return conn


def writer(db_path, mode, trace_file, hist_file):
    hist = json.load(open(hist_file))
    fd = os.open(trace_file, os.O_WRONLY | os.O_CREAT | os.O_APPEND)

    def log(line):
        os.write(fd, (line + "\n").encode())
        os.fsync(fd)

    kill = int(mode.split(":")[1]) if mode.startswith("kill:") else 0
    st = {"n": 0, "kill": kill, "log": log}
    path = None if db_path == "-" else db_path
    if mode.startswith("patch"):
        import snowflake.connector

        import fakesnow

        with fakesnow.patch(db_path=path):
            run_history(lambda d, s: snowflake.connector.connect(database=d, schema=s), hist, log)
            if mode == "patch-raise":
                raise RuntimeError("boom")
        return
    from fakesnow.instance import FakeSnow

    fs = FakeSnow(db_path=path)
    fs.duck_conn = KillProxy(fs.duck_conn, st)
    run_history(lambda d, s: fs.connect(database=d, schema=s), hist, log, st)
    if mode == "raise":
        raise RuntimeError("boom")
    if mode == "memory":
        other = FakeSnow()
        c2 = other.connect(database="db1", schema="s1")
        try:
            c2.cursor().execute("select * from t")
            print("SEES-OTHER")
        except Exception:  # noqa: BLE001
            print("ISOLATED")


def reader(db_path, names):
    from fakesnow.instance import FakeSnow

    import c19

    before = sorted(os.listdir(db_path))
    fs = FakeSnow(db_path=db_path)
    names = names.split(",")        # the databases the writer used, spelled the way Snowflake reports them
    out = {"files_before": before, "errors": []}
    for n in names:
        try:
            fs.connect(database=n)
        except Exception as e:  # noqa: BLE001
            out["errors"].append(f"{n}: {type(e).__name__}: {str(e)[:100]}")
    out["engine"] = c19.dump_engine(fs)
    cur = fs.duck_conn.cursor()
    out["lengths"] = []
    for n in names:
        try:
            out["lengths"] += [list(r) for r in cur.execute(f"select ext_table_name, ext_column_name, ext_character_maximum_length from {n}.information_schema._fs_columns_ext order by 1, 2").fetchall()]
        except Exception as e:  # noqa: BLE001
            out["errors"].append(f"{n} lengths: {type(e).__name__}")
    print("DUMP " + json.dumps(out))


if __name__ == "__main__":
    if sys.argv[1] == "writer":
        writer(*sys.argv[2:6])
    else:
        reader(sys.argv[2], sys.argv[3])
