"""C07 - failures are Snowflake errors with the right codes, and change nothing."""
from __future__ import annotations

import sys

import core
import fsutil
from core import S, Check, unstr

CAUSES = ["UnknownTable", "UnknownView", "UnknownSchema", "UnknownDatabase", "UnknownColumn", "UnknownFunction", "TableExists", "ViewExists",
          "SchemaExists", "DatabaseExists", "ColumnExists", "WrongArity", "NoDatabase", "NoSchema", "UndefinedVariable", "ClosedConnection"]
CID = {c: i for i, c in enumerate(CAUSES)}

# statement, cause - in a session with DB1.S1 current, table T(id int, name varchar), view VW, schema S2, database DB2
FAILING = [
    # unknown table: every qualification level, every position
    ("select * from nt", "UnknownTable"), ("select * from s1.nt", "UnknownTable"), ("select * from db1.s1.nt", "UnknownTable"),
    ("select * from s2.t", "UnknownTable"), ("select * from db2.main.nt", "UnknownTable"),
    ("select * from t join nt on t.id = nt.id", "UnknownTable"), ("select * from t a left join s1.nt b using (id)", "UnknownTable"),
    ("select * from (select * from nt) x", "UnknownTable"), ("select (select max(id) from nt) from t", "UnknownTable"),
    ("select * from t where id in (select id from db1.s1.nt)", "UnknownTable"), ("with c as (select * from nt) select * from c", "UnknownTable"),
    ("insert into nt values (1, 'a')", "UnknownTable"), ("insert into s1.nt (id) values (1)", "UnknownTable"), ("insert into t select * from nt", "UnknownTable"),
    ("update nt set id = 1", "UnknownTable"), ("update db1.s1.nt set id = 1 where id = 2", "UnknownTable"), ("delete from nt", "UnknownTable"),
    ("delete from s1.nt where id = 1", "UnknownTable"), ("truncate table nt", "UnknownTable"), ("drop table nt", "UnknownTable"),
    ("drop table db1.s1.nt", "UnknownTable"), ("alter table nt add column z int", "UnknownTable"), ("describe table nt", "UnknownTable"),
    ("create table c1 as select * from nt", "UnknownTable"), ("create view c2 as select * from nt", "UnknownTable"),
    ("create table c3 clone nt", "UnknownTable"),
    # failing replacements of an existing table (its rows AND its recorded comment / VARCHAR lengths must survive)
    ("create or replace table t as select * from nt", "UnknownTable"), ("create or replace table t clone nt", "UnknownTable"),
    ("create or replace table t as select nocol from s2.other", "UnknownColumn"), ("create or replace table db1.s1.t as select * from nodb.s1.t", "UnknownDatabase"),
    ("merge into nt using t on nt.id = t.id when matched then delete", "UnknownTable"),
    # unknown view / schema / database
    ("drop view nv", "UnknownView"), ("drop view s1.nv", "UnknownView"), ("describe view nv", "UnknownTable"),
    ("create table nos.c4 (i int)", "UnknownSchema"), ("create table db1.nos.c4 (i int)", "UnknownSchema"), ("create view nos.c5 as select 1 as x", "UnknownSchema"),
    ("drop schema nos", "UnknownSchema"), ("use schema nos", "UnknownSchema"), ("use schema db1.nos", "UnknownSchema"), ("select * from nos.t", "UnknownTable"),
    ("select * from nodb.s1.t", "UnknownDatabase"), ("create table nodb.s1.c6 (i int)", "UnknownDatabase"), ("create schema nodb.s9", "UnknownDatabase"),
    ("drop schema nodb.s1", "UnknownDatabase"), ("use database nodb", "UnknownDatabase"), ("use schema nodb.s1", "UnknownDatabase"),
    ("insert into nodb.s1.t values (1, 'a')", "UnknownDatabase"), ("drop table nodb.s1.t", "UnknownDatabase"),
    # unknown column / function
    ("select nocol from t", "UnknownColumn"), ("select t.nocol from t", "UnknownColumn"), ("select * from t where nocol = 1", "UnknownColumn"),
    ("select * from t order by nocol", "UnknownColumn"), ("select * from t a join t b on a.nocol = b.id", "UnknownColumn"),
    ("update t set nocol = 1", "UnknownColumn"), ("update t set id = nocol", "UnknownColumn"), ("delete from t where nocol = 1", "UnknownColumn"),
    ("insert into t (id, nocol) values (1, 2)", "UnknownColumn"), ("insert into t (nocol) select id from t", "UnknownColumn"),
    ("alter table t drop column nocol", "UnknownColumn"), ("alter table t rename column nocol to z", "UnknownColumn"),
    ("create view c7 as select nocol from t", "UnknownColumn"), ("select id from vw where nocol = 1", "UnknownColumn"),
    ("select nofn(id) from t", "UnknownFunction"), ("select * from t where nofn(1) = 1", "UnknownFunction"), ("insert into t select nofn(1), 'a'", "UnknownFunction"),
    # already exists
    ("create table t (i int)", "TableExists"), ("create table s1.t (i int)", "TableExists"), ("create table db1.s1.t (i int)", "TableExists"),
    ("create table t as select 1 as i", "TableExists"), ("create view vw as select 1 as x", "ViewExists"), ("create schema s2", "SchemaExists"),
    ("create schema db1.s2", "SchemaExists"), ("create database db2", "DatabaseExists"), ("alter table t add column id int", "ColumnExists"),
    # wrong number of values
    ("insert into t values (1)", "WrongArity"), ("insert into t values (1, 'a', 3)", "WrongArity"), ("insert into t (id) values (1, 2)", "WrongArity"),
    ("insert into t select 1", "WrongArity"), ("insert into t (id, name) select id from t", "WrongArity"),
    # undefined variable
    ("select $nosuchvar", "UndefinedVariable"), ("insert into t values ($nv, 'a')", "UndefinedVariable"), ("create table $nv (i int)", "UndefinedVariable"),
]
# on a session without database / with database only
NO_DB = [("select * from t", "NoDatabase"), ("select * from s1.t", "NoDatabase"), ("create schema sx", "NoDatabase"), ("create table tx (i int)", "NoDatabase"),
         ("insert into t values (1, 'a')", "NoDatabase"), ("drop table t", "NoDatabase"), ("drop schema s1", "NoDatabase"), ("update s1.t set id = 1", "NoDatabase")]
NO_SCHEMA = [("select * from t", "NoSchema"), ("create table tx (i int)", "NoSchema"), ("insert into t values (1, 'a')", "NoSchema"), ("delete from t", "NoSchema"),
             ("drop table t", "NoSchema"), ("create view vx as select 1 as x", "NoSchema")]


def setup():
    from fakesnow.instance import FakeSnow

    fs = FakeSnow()
    conn = fs.connect(database="db1", schema="s1")
    cur = conn.cursor()
    for sql in ("create table t (id int, name varchar(20)) comment = 'the t table'", "insert into t values (1, 'a'), (2, null)", "create view vw as select id from t", "create schema s2",
                "create database db2", "create table s2.other (x int)", "insert into s2.other values (7)"):
        cur.execute(sql)
    return fs, conn


def observe_exc(fn):
    import snowflake.connector.errors as E

    try:
        fn()
        return None
    except E.ProgrammingError as e:
        return [0, e.errno if e.errno is not None else -1, core.opt(e.sqlstate if e.sqlstate not in (None, "n/a") else None)]
    except E.DatabaseError as e:
        return [1, e.errno if e.errno is not None else -1, core.opt(e.sqlstate)]
    except Exception as e:  # noqa: BLE001
        return [9, S(type(e).__name__), S(str(e)[:100])]


def dump(fs, conn, other):
    """Everything a failed statement must leave alone."""
    admin = fs.duck_conn.cursor()
    tabs = admin.execute("select table_catalog, table_schema, table_name, table_type from information_schema.tables "
                         "where table_catalog not in ('memory','system','temp','_fs_global') and table_schema not in ('information_schema','pg_catalog') order by all").fetchall()
    schs = admin.execute("select catalog_name, schema_name from information_schema.schemata where catalog_name not in ('memory','system','temp') order by all").fetchall()
    cols = admin.execute("select table_catalog, table_schema, table_name, column_name, data_type from information_schema.columns "
                         "where table_catalog not in ('memory','system','temp','_fs_global') and table_schema not in ('information_schema','pg_catalog') order by all").fetchall()
    rows = {}
    for d, s, t, ty in tabs:
        if ty == "BASE TABLE":
            rows[(d, s, t)] = sorted(map(repr, admin.execute(f'select * from "{d}"."{s}"."{t}"').fetchall()))
    ctx = (conn.database, conn.schema, conn.database_set, conn.schema_set,
           conn._duck_conn.execute("select current_database(), current_schema()").fetchone())  # noqa: SLF001
    variables = dict(conn.variables._variables)  # noqa: SLF001
    own_view = sorted(map(repr, conn._duck_conn.execute('select * from "DB1"."S1"."T"').fetchall()))  # noqa: SLF001
    others_view = sorted(map(repr, other.cursor().execute("select * from db1.s1.t").fetchall()))
    # the Snowflake-side metadata, as this session sees it (inside its transaction, if one is open) and as everybody else does
    meta_own = [sorted(map(repr, conn._duck_conn.execute(f"select * from DB1.information_schema.{x}").fetchall())) for x in ("_fs_tables_ext", "_fs_columns_ext")]  # noqa: SLF001
    meta_all = [sorted(map(repr, admin.execute(f"select * from DB1.information_schema.{x}").fetchall())) for x in ("_fs_tables_ext", "_fs_columns_ext")]
    return {"tables": tabs, "schemas": schs, "columns": cols, "rows": rows, "ctx": ctx, "variables": variables, "own_view": own_view, "others_view": others_view,
            "metadata_own": meta_own, "metadata_committed": meta_all}


def main():
    ck = Check("C07", "Errs", "run_c07_code")
    ck.module = "Errs"
    ck.prepare()
    ck.trusted.append("modelled, not verified: DuckDB's exception class per cause (Catalog vs Binder vs Connection), the Snowflake connector's error classes; "
                      "the catalog/context half is the machine shared with C03 (Ctx.v) whose correspondence C03's check runs")
    import snowflake.connector.errors as E

    cases, obs, meta = [], [], []
    reported = [False]

    def report(msg, rep):
        if not reported[0]:
            reported[0] = True
            ck.violation(msg, rep)

    states = ["plain", "in-transaction", "variables"] if ck.tier == "quick" else ["plain", "in-transaction", "variables", "tx+variables"]
    for state in states:
        fs, conn = setup()
        other = fs.connect(database="db1", schema="s1")
        cur = conn.cursor()
        if "variables" in state:
            cur.execute("set v1 = 5")
            cur.execute("set v2 = 'x'")
        if "transaction" in state or "tx" in state:
            cur.execute("begin")
            cur.execute("insert into t values (3, 'pending')")
        stmts = FAILING if state == "plain" or ck.tier == "thorough" else FAILING[::3]
        for sql, cause in stmts:
            before = dump(fs, conn, other)
            c2 = conn.cursor()
            o = observe_exc(lambda: c2.execute(sql))  # noqa: B023
            ck.cov["evaluations"] += 1
            ck.count(f"cause:{cause}")
            ck.count(f"state:{state}")
            if o is None:
                report(f"[{state}] `{sql}` was expected to fail ({cause}) but succeeded", {"state": state, "statement": sql, "cause": cause})
                continue
            after = dump(fs, conn, other)
            sq = c2.sqlstate
            if o[0] == 9:
                report(f"[{state}] `{sql}` ({cause}) raised the engine-specific exception {unstr(o[1])}: {unstr(o[2])}",
                       {"state": state, "statement": sql, "cause": cause, "observed": [unstr(o[1]), unstr(o[2])]})
                continue
            if before != after:
                diff = [k for k in before if before[k] != after[k]]
                report(f"[{state}] failed statement `{sql}` ({cause}) changed {diff}: {[(before[k], after[k]) for k in diff][:2]}",
                       {"state": state, "statement": sql, "cause": cause, "changed": diff})
            want_sq = unstr(o[2][0]) if o[2] else None
            if sq != want_sq and not (sq == "n/a" and want_sq is None):
                report(f"[{state}] after failing `{sql}` cursor.sqlstate is {sq!r}, the exception carried {want_sq!r}", {"state": state, "statement": sql, "sqlstate": sq})
            c2.execute("select 1")
            if c2.sqlstate is not None:
                report(f"cursor.sqlstate still {c2.sqlstate!r} after a successful execute following `{sql}`", {"statement": sql})
            cases.append(CID[cause])
            obs.append(o)
            meta.append((state, sql, cause))
        # the connection stays usable, the open transaction still holds its write
        follow = observe_exc(lambda: [cur.execute("select count(*) from t").fetchall(), cur.execute("create table after_fail (i int)"), cur.execute("insert into after_fail values (1)")])  # noqa: B023
        if follow is not None:
            report(f"[{state}] connection unusable after the failures: {follow}", {"state": state, "observed": follow})
        if "transaction" in state or "tx" in state:
            n = cur.execute("select count(*) from t where name = 'pending'").fetchall()
            cur.execute("rollback")
            n2 = cur.execute("select count(*) from t where name = 'pending'").fetchall()
            if n != [(1,)] or n2 != [(0,)]:
                report(f"[{state}] the open transaction did not survive the failures intact: pending rows seen {n}, after rollback {n2}", {"state": state})
        fs.duck_conn.close()
    # sessions without database / schema
    from fakesnow.instance import FakeSnow

    fs, conn = setup()
    nodb = fs.connect()
    nosch = fs.connect(database="db1")
    for c, stmts in ((nodb, NO_DB), (nosch, NO_SCHEMA)):
        for sql, cause in stmts:
            cur = c.cursor()
            o = observe_exc(lambda: cur.execute(sql))  # noqa: B023
            ck.cov["evaluations"] += 1
            ck.count(f"cause:{cause}")
            if o is None or o[0] == 9:
                report(f"`{sql}` on a session without {'database' if c is nodb else 'schema'} gave {o}", {"statement": sql, "cause": cause, "observed": o})
                continue
            cases.append(CID[cause])
            obs.append(o)
            meta.append(("no-context", sql, cause))
    fs.duck_conn.close()
    # closed connection: every use
    fs, conn = setup()
    cur_before = conn.cursor()
    conn.close()
    uses = {"cursor().execute": lambda: conn.cursor().execute("select 1"), "old cursor.execute": lambda: cur_before.execute("select 1"),
            "execute_string": lambda: conn.execute_string("select 1"), "commit": conn.commit, "rollback": conn.rollback,
            "executemany": lambda: conn.cursor().executemany("insert into t values (%s, %s)", [(1, "a")]),
            "describe": lambda: conn.cursor().describe("select 1")}
    for name, fn in uses.items():
        o = observe_exc(fn)
        ck.cov["evaluations"] += 1
        ck.count("cause:ClosedConnection")
        if o is None or o[0] == 9:
            report(f"{name} on a closed connection gave {o if o is None else [unstr(o[1]), unstr(o[2])]}, expected DatabaseError 250002 (08003)", {"use": name, "observed": o})
            continue
        cases.append(CID["ClosedConnection"])
        obs.append(o)
        meta.append(("closed", name, "ClosedConnection"))
    # correspondence with the cause table
    model = core.model_eval("run_c07_code", cases)
    dis = [i for i, (m, o) in enumerate(zip(model, obs)) if m != o]
    uniq = sorted(set(cases))
    if core.kernel_failing("Errs", "run_c07_code", [(c, core.model_eval("run_c07_code", [c])[0]) for c in uniq], "C07"):
        raise core.MachineryError("kernel and extracted model disagree on run_c07_code")
    ck.kernel_checked += len(uniq)
    if dis:
        i = dis[0]
        state, sql, cause = meta[i]
        allowed = [[0, 2003, [S("42S02")]], [0, 2043, [S("02000")]]]
        is_ref = cause not in ("NoDatabase", "NoSchema", "UndefinedVariable", "ClosedConnection")
        if is_ref and obs[i] in allowed:
            report(f"[{state}] `{sql}` ({cause}): model says {model[i]}, implementation raised {obs[i]} - still one of the two allowed codes; "
                   f"the cause table of Errs.v no longer matches the code ({len(dis)} statements)",
                   {"statement": sql, "cause": cause, "model": model[i], "impl": obs[i], "theorem": "Props_C07.reference_failure_code"})
            ck.violations[-1]["no_input"] = True
        else:
            report(f"[{state}] `{sql}` ({cause}) raised {['ProgrammingError', 'DatabaseError'][obs[i][0]]} errno={obs[i][1]} sqlstate={[unstr(x) for x in obs[i][2]]}, "
                   f"expected {['ProgrammingError', 'DatabaseError'][model[i][0]]} {model[i][1]} {[unstr(x) for x in model[i][2]]}",
                   {"state": state, "statement": sql, "cause": cause, "observed": obs[i], "expected": model[i]})
    # a statement text that WORKED a moment ago fails, with the same error as ever, once what it refers to is gone - on the same cursor and on
    # another cursor of the session, and it changes nothing (no answer may be remembered by statement text)
    fs_r, conn_r = setup()
    again = [("UndefinedVariable", ["set c07v = 5"], "select $c07v + 1", ["unset c07v"]),
             ("UndefinedVariable", ["set c07w = 1"], "delete from t where id <= $c07w", ["insert into t values (1, 'a')", "unset c07w"]),
             ("UnknownTable", ["create table c07_gone (i int)", "insert into c07_gone values (1)"], "select * from c07_gone", ["drop table c07_gone"]),
             ("UnknownColumn", ["alter table t add column c07_extra int"], "select c07_extra from t", ["alter table t drop column c07_extra"]),
             ("UnknownSchema", ["create schema c07_s", "create table c07_s.x (i int)"], "select * from c07_s.x", ["drop schema c07_s cascade"])]
    want_codes = core.model_eval("run_c07_code", [CID[c_] for c_, _, _, _ in again])
    for (cause, pre, text, undo), want_code in zip(again, want_codes):
        cur_r = conn_r.cursor()
        ck.cov["evaluations"] += 1
        ck.count("same-text-after-removal")
        try:
            for s_ in pre:
                cur_r.execute(s_)
            cur_r.execute(text)
            conn_r.cursor().execute(text)
            for s_ in undo:
                cur_r.execute(s_)
        except Exception as e:  # noqa: BLE001
            raise core.MachineryError(f"same-text scenario set-up failed: {pre} {text} {undo}: {e}") from e
        for who, c_ in (("the same cursor", cur_r), ("another cursor of the session", conn_r.cursor())):
            got = observe_exc(lambda c_=c_: c_.execute(text))
            if got is None or got[:2] != want_code[:2]:
                report(f"{pre}; `{text}` (worked); {undo}; then the identical `{text}` on {who}: "
                       + ("succeeded" if got is None else f"raised {got}") + f", expected {['ProgrammingError', 'DatabaseError'][want_code[0]]} {want_code[1]} ({cause})",
                       {"statements": pre + [text] + undo + [text], "cause": cause, "observed": got, "expected": want_code})
    fs_r.duck_conn.close()
    # sqlstate machine against a real cursor: every way an execute can end - engine success, a statement answered by a nop_regexes pattern,
    # connector errors of three causes, an exception that is not a connector error (syntax), and finally a closed connection
    fs, conn = setup()
    fs.nop_regexes = [r"^CALL\b"]
    conn_n = fs.connect(database="db1", schema="s1")
    evs = {"ok": ("select 1", []), "nop": ("call some_procedure()", []), "UnknownTable": ("select * from nt", [CID["UnknownTable"]]), "UnknownColumn": ("select nocol from t", [CID["UnknownColumn"]]),
           "UndefinedVariable": ("select $zz", [CID["UndefinedVariable"]]), "syntax": ("select 1 +", [[]])}
    seqs = []
    keys = list(evs)
    for a in keys:
        for b in keys:
            for c in keys:
                seqs.append([a, b, c])
    seqs += [[a, b, "closed"] for a in keys for b in keys]
    sq_cases, sq_obs = [], []
    for seq in seqs:
        cn = fs.connect(database="db1", schema="s1") if "closed" in seq else conn_n
        cur = cn.cursor()
        for k in seq:
            if k == "closed":
                cn.close()
            try:
                cur.execute(evs["ok" if k == "closed" else k][0])
            except Exception:  # noqa: BLE001
                pass
        sq_cases.append([[CID["ClosedConnection"]] if k == "closed" else evs[k][1] for k in seq])
        sq_obs.append(core.opt(cur.sqlstate if cur.sqlstate != "n/a" else None))
    dis2 = ck.correspond(sq_cases, sq_obs, label="sqlstate", run="run_c07_sqlstate", kernel_sample=20)
    if dis2:
        i = dis2[0]
        texts = ["<conn.close()> select 1" if k == "closed" else evs[k][0] for k in seqs[i]]
        report(f"cursor.sqlstate after executing {texts} (connection with nop_regexes=['^CALL\\b']) is {sq_obs[i]}, the life cycle gives {ck.model_obs[i]}",
               {"statements": texts, "observed": sq_obs[i], "expected": ck.model_obs[i]})
    fs.duck_conn.close()
    ck.cov["distinct_nontrivial"] = len({(m[1], m[0]) for m in meta})
    ck.cov["samples"] += [{"state": m[0], "statement": m[1], "cause": m[2], "raised": o} for m, o in list(zip(meta, obs))[:3]]
    ck.cov["exhaustive_space"] = f"{len(FAILING)} failing statements (every cause x qualification level x position) x {len(states)} session states + {len(NO_DB) + len(NO_SCHEMA)} context failures + {len(uses)} uses of a closed connection + {len(seqs)} sqlstate sequences"
    return ck.finish(rule="enumerated failing statements per cause; for each: exception class/errno/sqlstate vs the model's cause table, full dump (catalog, columns, rows, "
                          "session context, variables, the transaction's own and others' view) before/after must be equal, cursor.sqlstate life cycle, connection usable afterwards; "
                          "non-trivial = distinct (statement, session state)")


if __name__ == "__main__":
    sys.exit(main())
