"""C05 - fetch calls hand out every result row once, in order, at full width."""
from __future__ import annotations

import datetime
import decimal
import itertools
import sys

import core
import fsutil
from core import S, Check

POOLS = {
    "int": ("{}::int", [10, 11, 12, 13, 14]),
    "str": ("'{}'::varchar", ["a", "b c", "", "ü😀", "Z"]),
    "dbl": ("{}::double", [0.5, -1.25, 1e300, 0.0, 2.0]),
    "dec": ("{}::decimal(10,2)", [decimal.Decimal("1.10"), decimal.Decimal("-2.00"), decimal.Decimal("0.01"),
                                  decimal.Decimal("3.50"), decimal.Decimal("99999999.99")]),
    "date": ("'{}'::date", [datetime.date(2020, 1, 2), datetime.date(1969, 12, 31), datetime.date(2024, 2, 29),
                            datetime.date(1, 1, 1), datetime.date(9999, 12, 31)]),
    "bool": ("{}", [True, False]),
    "cnt": ("{}", [0, 1, 2, 3, 4, 5]),
}
NAME_POOL = ["A", "B", "a b", "C", "A", "b"]


def lit(ty, tok):
    if tok is None:
        return "NULL"
    fmt, pool = POOLS[ty]
    v = pool[tok]
    if ty in ("str",):
        return fmt.format(str(v).replace("'", "''"))
    if ty == "bool":
        return "true" if v else "false"
    if ty == "date":
        return fmt.format(v.isoformat())
    return fmt.format(v)


def token_of(ty, v):
    if v is None:
        return None
    pool = POOLS[ty][1]
    for i, p in enumerate(pool):
        if type(p) is type(v) and p == v:
            return i
    return 1000  # unknown value: will disagree with the model


def render_select(types, names, rows):
    cols = ", ".join(f'column{j + 2} AS "{n}"' for j, n in enumerate(names))
    if rows:
        vals = ", ".join("(" + ", ".join([str(i)] + [lit(t, v) for t, v in zip(types, r)]) + ")" for i, r in enumerate(rows))
        return f"SELECT {cols} FROM (VALUES {vals}) ORDER BY column1"
    dummy = "(" + ", ".join(["0"] + [lit(t, 0) for t in types]) + ")"
    return f"SELECT {cols} FROM (VALUES {dummy}) WHERE 1 = 0 ORDER BY column1"


def enc_row(r):
    return [core.opt(v) for v in r]


def enc_case(dictc, ops):
    out = []
    for o in ops:
        k = o[0]
        if k == "exec":
            _, types, names, rows = o[:4]
            out.append([0, [enc_row(r) for r in rows], S(names), core.opt(o[4] if len(o) > 4 else None)])
        elif k == "one":
            out.append([1])
        elif k == "many":
            out.append([2, core.opt(o[1])])
        elif k == "all":
            out.append([3])
        elif k == "asz":
            out.append([4, o[1]])
        elif k == "rowcount":
            out.append([5])
        elif k == "pandas":
            out.append([6])
        elif k in ("peek", "baddescribe"):
            out.append([7])
    return [S(dictc), out]


def run_impl(conn, dictc, ops):
    import snowflake.connector

    cur = conn.cursor(fsutil.dict_cursor_class()) if dictc else conn.cursor()
    types, names = None, None
    obs = []

    def conv_rows(rs):
        if dictc:
            return [1, [[[S(k), core.opt(token_of(types[names.index(k)] if names.count(k) == 1 else types[len(names) - 1 - names[::-1].index(k)], v))]
                         for k, v in d.items()] for d in rs]]
        return [0, [[core.opt(token_of(t, v)) for t, v in zip(types, r)] + [[999]] * (len(r) - len(types)) for r in rs]]

    for o in ops:
        k = o[0]
        try:
            if k == "exec":
                _, types, names, rows = o[:4]
                cur.execute(o[5] if len(o) > 5 else render_select(types, names, rows))
                obs.append([4])
            elif k == "one":
                r = cur.fetchone()
                if r is None:
                    obs.append([2, []])
                else:
                    obs.append([2, [conv_rows([r])[1][0]]])
            elif k == "many":
                obs.append(conv_rows(cur.fetchmany(o[1]) if o[1] is not None else cur.fetchmany()))
            elif k == "all":
                obs.append(conv_rows(cur.fetchall()))
            elif k == "asz":
                cur.arraysize = o[1]
                obs.append([4])
            elif k == "rowcount":
                obs.append([5, core.opt(cur.rowcount)])
            elif k == "pandas":
                obs.append([5, [len(cur.fetch_pandas_all())]])
            elif k == "baddescribe":
                # describe() of a statement that cannot be described fails - and must leave the cursor exactly as it was (an observer too)
                try:
                    cur.describe("select * from c05_missing_table")
                except Exception:  # noqa: BLE001
                    pass
                obs.append([4])
            elif k == "peek":
                # observers: they may answer anything, but must not move the cursor (Props_C05.peek_erasure)
                _ = (cur.description, cur.sqlstate, cur.sfqid, cur.rowcount, cur.arraysize)
                obs.append([4])
        except TypeError as e:
            obs.append([3, 1] if "No open result set" in str(e) else [3, 98, S(str(e)[:80])])
        except snowflake.connector.NotSupportedError:
            obs.append([3, 2])
        except Exception as e:  # noqa: BLE001
            obs.append([3, 99, S(type(e).__name__)])
    return obs


def oracle(dictc, ops, obs):
    """The property itself, on the implementation's observations. Returns None or a message."""
    rows = None
    delivered = None
    req = 0
    asz = 1
    for o, ob in zip(ops, obs):
        k = o[0]
        if k == "exec":
            rows, names, types = o[3], o[2], o[1]
            affected = o[4] if len(o) > 4 else None
            delivered, req = [], 0
            continue
        if k == "asz":
            asz = o[1]
            continue
        if k == "baddescribe":
            continue
        if k == "peek":
            if ob != [4] and rows is not None:          # (before the first execute there is nothing to describe: outside the property)
                return f"reading description/sqlstate/sfqid/rowcount raised {ob}"
            continue
        if rows is None:
            if k in ("one", "many", "all") and ob != [3, 1]:
                return f"{k} before any execute gave {ob}, expected TypeError(No open result set)"
            if k == "pandas" and ob != [3, 2]:
                return f"fetch_pandas_all before any execute gave {ob}"
            continue
        if k in ("rowcount", "pandas"):
            want_n = affected if (k == "rowcount" and affected is not None) else len(rows)
            if ob != [5, [want_n]]:
                return f"{k} reports {ob[1:]}, expected {want_n}"
            continue
        if ob[0] == 3:
            return f"{k} raised {ob}"
        got = ob[1] if k != "one" else ob[1]
        if k == "one":
            req += 1
        elif k == "many":
            req += (o[1] or asz)
        else:
            req += len(rows) or asz
        for r in got:
            if dictc:
                if [core.unstr(kv[0]) for kv in r] != list(dict.fromkeys(names)):
                    return f"dict row keys {[core.unstr(kv[0]) for kv in r]} differ from column names {names}"
                vals = {core.unstr(kv[0]): kv[1] for kv in r}
                exp_row = rows[len(delivered)] if len(delivered) < len(rows) else None
                if exp_row is not None:
                    expd = {}
                    for n, v in zip(names, exp_row):
                        expd[n] = core.opt(v)
                    if vals != expd:
                        return f"dict row {vals} differs from result row {expd}"
                delivered.append(exp_row)
            else:
                if len(r) != len(names):
                    return f"tuple row has {len(r)} elements for {len(names)} columns {names}"
                delivered.append([v[0] if v else None for v in r])
        want = rows[:req]
        if not dictc and delivered != [list(r) for r in want]:
            return f"after {k}: rows handed out so far {delivered} != first {req} rows of the result {want}"
        if dictc and len(delivered) != len(want):
            return f"after {k}: {len(delivered)} rows handed out, expected {len(want)}"
    return None


def gen_case(rng):
    def shape():
        ncols = rng.randint(1, 4)
        types = [rng.choice(list(POOLS)) for _ in range(ncols)]
        names = [rng.choice(NAME_POOL) for _ in range(ncols)]
        nrows = rng.choice([0, 1, 2, 3, 3, 4, 5, 7])
        rows = [[rng.choice([None] + list(range(len(POOLS[t][1])))) for t in types] for _ in range(nrows)]
        return ("exec", types, names, rows)

    def dml():
        k = rng.choice([0, 0, 1, 2, 5])
        if rng.random() < 0.5:
            return ("exec", ["cnt", "cnt"], ["number of rows updated", "number of multi-joined rows updated"], [[k, 0]], k,
                    f"UPDATE c05_t SET i = i WHERE i < {k}")
        return ("exec", ["cnt"], ["number of rows inserted"], [[k]], k, f"INSERT INTO c05_u SELECT i FROM c05_t WHERE i < {k}")

    plain_shape = shape

    def shape():  # noqa: F811
        return dml() if rng.random() < 0.2 else plain_shape()

    ops = []
    if rng.random() < 0.1:
        ops.append(rng.choice([("one",), ("many", None), ("all",), ("pandas",), ("rowcount",)]))
    ops.append(shape())
    for _ in range(rng.randint(1, 12)):
        x = rng.random()
        if x < 0.25:
            ops.append(("one",))
        elif x < 0.55:
            ops.append(("many", rng.choice([None, None, 0, 1, 2, 3, 5])))
        elif x < 0.7:
            ops.append(("all",))
        elif x < 0.82:
            ops.append(("asz", rng.randint(1, 4)))
        elif x < 0.88:
            ops.append(("rowcount",))
        elif x < 0.93:
            ops.append(("pandas",))
        elif x < 0.96:
            ops.append(shape())
        elif x < 0.985:
            ops.append(("peek",))
        else:
            ops.append(("baddescribe",))
    return rng.random() < 0.4, ops


def main():
    ck = Check("C05", "Fetch", "run_c05")
    ck.prepare()
    ck.trusted.append("modelled, not verified: pyarrow Table.slice / to_pylist, DuckDB's evaluation of the VALUES query that produces the rows")
    fs, conn = fsutil.fresh()
    conn.cursor().execute("create table c05_t (i int)")
    conn.cursor().execute("insert into c05_t values (0),(1),(2),(3),(4)")
    conn.cursor().execute("create table c05_u (i int)")
    cases = []
    # exhaustive small scope
    alpha = [("one",), ("many", 1), ("many", 2), ("many", None), ("all",)]
    maxlen = 5 if ck.tier == "thorough" else 4
    for n in range(5):
        rows = [[i % 5] for i in range(n)]
        for k in range(1, (maxlen if n in (2, 3) or ck.tier == "thorough" else maxlen - 1) + 1):
            for seq in itertools.product(alpha, repeat=k):
                cases.append((False, [("exec", ["int"], ["A"], rows), *seq]))
    n_exh = len(cases)
    for _ in range(900 if ck.tier == "quick" else 40000):
        cases.append(gen_case(ck.rng))
    # attribute reads between the fetch calls, at every position of short sequences
    for seq in itertools.product([("one",), ("many", 2), ("all",), ("peek",)], repeat=4):
        if ("peek",) in seq:
            cases.append((len(cases) % 2 == 0, [("exec", ["int"], ["A"], [[0], [1], [2]]), *seq]))
    for d_ in (False, True):
        cases.append((d_, [("baddescribe",), ("exec", ["int", "str"], ["A", "B"], [[0, 1], [1, 0]]), ("one",), ("baddescribe",), ("all",), ("exec", ["int"], ["A"], [[2]]), ("all",)]))
    # corpus: the F2 witness
    cases.insert(0, (False, [("exec", ["int", "int"], ["A", "A"], [[1, 2]]), ("all",)]))
    for d in (False, True):
        for k in (0, 2):
            cases.insert(0, (d, [("exec", ["cnt"], ["number of rows inserted"], [[k]], k, f"INSERT INTO c05_u SELECT i FROM c05_t WHERE i < {k}"),
                                 ("rowcount",), ("all",), ("one",), ("rowcount",)]))
    ck.cov["exhaustive_space"] = f"{n_exh} = all sequences of length <= {maxlen} (quick: <= {maxlen - 1} for 0/1/4 rows) over fetchone/fetchmany(1|2|None)/fetchall on results of 0..4 rows"
    enc = [enc_case(d, ops) for d, ops in cases]
    obs = [run_impl(conn, d, ops) for d, ops in cases]
    seen = set()
    for (d, ops), ob in zip(cases, obs):
        ck.count("dict" if d else "tuple")
        ck.count(f"len={min(len(ops), 13)}")
        ex = [o for o in ops if o[0] == "exec"]
        if ex and len(ex[0][3]) >= 2 and sum(1 for o in ops if o[0] in ("one", "many", "all")) >= 2:
            seen.add(core.show(enc_case(d, ops)))
    ck.cov["distinct_nontrivial"] = len(seen)
    reported = False
    for (d, ops), ob in zip(cases, obs):
        msg = oracle(d, ops, ob)
        if msg and not reported:
            reported = True
            small = core.shrink_list(ops, lambda c: oracle(d, c, run_impl(conn, d, c)) is not None)
            ck.violation(f"{'Dict' if d else 'tuple'} cursor, ops {small}: {oracle(d, small, run_impl(conn, d, small))}",
                         {"dict_cursor": d, "ops": small, "observed": run_impl(conn, d, small)})
    dis = ck.correspond(enc, obs)
    if dis and not reported:
        i = dis[0]
        d, ops = cases[i]

        def differs(c):
            return core.model_eval("run_c05", [enc_case(d, c)])[0] != run_impl(conn, d, c)

        small = core.shrink_list(ops, differs)
        ck.violation(
            f"model and implementation differ on ops {small} (dict={d}): model {core.model_eval('run_c05', [enc_case(d, small)])[0]} "
            f"impl {run_impl(conn, d, small)}; {len(dis)} disagreements; theorems of Props_C05 no longer tied to cursor.py",
            {"dict_cursor": d, "ops": small, "theorem": "Props_C05.fetch_in_order", "disagreements": len(dis)}, no_input=True)
    # "a new execute replaces the old result set completely" - also when the TEXT is the same and only the data changed
    c_a, c_b = conn.cursor(), conn.cursor()
    c_b.execute("create or replace table c05_live (id int)")
    c_b.execute("insert into c05_live values (1), (2)")
    q_live = "select id from c05_live order by id"
    first = c_a.execute(q_live).fetchmany(1)
    c_b.execute("insert into c05_live values (3)")
    second = c_a.execute(q_live).fetchall()
    c_b.execute("delete from c05_live where id < 3")
    third = (c_a.execute(q_live).fetchone(), c_a.fetchone(), c_a.rowcount)
    ck.cov["evaluations"] += 3
    if first != [(1,)] or second != [(1,), (2,), (3,)] or third != ((3,), None, 1):
        ck.violation(f"the same statement text re-executed on one cursor while another cursor changes the data: {first} / {second} / {third}; expected [(1,)] / [(1,), (2,), (3,)] / ((3,), None, 1)",
                     {"statements": [q_live, "(other cursor) insert into c05_live values (3)", q_live, "(other cursor) delete from c05_live where id < 3", q_live], "observed": [first, second, list(third)]})
    ck.cov["samples"] += [{"dict_cursor": cases[j][0], "ops": cases[j][1], "observed": obs[j]} for j in (0, n_exh // 2, len(cases) - 1)]
    return ck.finish(rule="exhaustive short fetch sequences + random shapes/sequences (tuple and dict cursors, repeated/quoted names, "
                          "six value types, NULLs, re-execute, fetch-before-execute); non-trivial = result of >=2 rows and >=2 fetch calls; distinct by encoded case")


if __name__ == "__main__":
    sys.exit(main())
