"""C10 - rewritten Snowflake functions return what Snowflake documents."""
from __future__ import annotations

import calendar
import datetime
import hashlib
import re
import sys
from decimal import ROUND_HALF_UP, Decimal

import core
import fsutil
from core import S, Check, unstr

EPOCH = datetime.date(1970, 1, 1)
UNITS = ["day", "week", "month", "quarter", "year", "hour"]


def dn(d):
    return (d - EPOCH).days


def us(t):
    delta = t - datetime.datetime(1970, 1, 1)
    return (delta.days * 86400 + delta.seconds) * 10**6 + delta.microseconds


# ----------------------------------------------------------------------------- typed generator over the model's fragment
ROWS = [
    {"c0": 7, "c1": datetime.date(2020, 1, 31), "c2": datetime.datetime(2020, 1, 31, 10, 30), "c3": Decimal("12.34"), "c4": "12.345"},
    {"c0": None, "c1": None, "c2": None, "c3": None, "c4": None},
    {"c0": -3, "c1": datetime.date(2019, 12, 31), "c2": datetime.datetime(1969, 12, 31, 23, 59, 59), "c3": Decimal("-0.05"), "c4": "abc"},
    {"c0": 0, "c1": datetime.date(2024, 2, 29), "c2": datetime.datetime(2024, 2, 29, 0, 0), "c3": Decimal("99999999.99"), "c4": "-7"},
]
COLTYPE = {0: "int", 1: "date", 2: "ts", 3: "dec", 4: "text"}
DATES = [datetime.date(2020, 1, 31), datetime.date(2020, 2, 29), datetime.date(2021, 1, 31), datetime.date(1999, 12, 31), datetime.date(2020, 1, 4), datetime.date(2020, 1, 6),
         datetime.date(1960, 3, 1), datetime.date(2000, 2, 28)]


def env_of(row):
    def enc(c, v):
        if v is None:
            return [0]
        t = COLTYPE[c]
        if t == "int":
            return [1, v]
        if t == "date":
            return [7, dn(v)]
        if t == "ts":
            return [8, us(v)]
        if t == "dec":
            return [2, int(v.scaleb(2)), 2]
        m = re.fullmatch(r"(-?\d+)(?:\.(\d+))?", v)
        return [5, int(m.group(1) + (m.group(2) or "")), len(m.group(2) or "")] if m else [4, S(v)]
    return [enc(c, row[f"c{c}"]) for c in range(5)]


def gen(rng, ty, depth):
    """returns (model expr, SQL text)"""
    leaf = depth <= 0 or rng.random() < 0.25
    if ty == "int":
        if leaf:
            if rng.random() < 0.5:
                return [1, 0], "c0"
            z = rng.randint(-5, 40)
            return [0, [1, z]], f"({z})" if z < 0 else str(z)
        k = rng.random()
        if k < 0.35:
            op = rng.choice([(2, "+"), (3, "-"), (4, "*")])
            a, sa = gen(rng, "int", depth - 1)
            b, sb = gen(rng, "int", depth - 1)
            return [op[0], a, b], f"({sa} {op[1]} {sb})"
        if k < 0.7:
            u = rng.randrange(6)
            ta, tb = rng.choice([("date", "date"), ("ts", "ts"), ("date", "ts")])
            a, sa = gen(rng, ta, depth - 1)
            b, sb = gen(rng, tb, depth - 1)
            return [18, u, a, b], f"datediff({UNITS[u]}, {sa}, {sb})"
        if k < 0.85:
            c, sc = gen(rng, "bool", depth - 1)
            a, sa = gen(rng, "int", depth - 1)
            b, sb = gen(rng, "int", depth - 1)
            return [11, c, a, b], f"case when {sc} then {sa} else {sb} end"
        a, sa = gen(rng, "int", depth - 1)
        b, sb = gen(rng, "int", depth - 1)
        return [12, a, b], f"coalesce({sa}, {sb})"
    if ty == "bool":
        if leaf:
            v = rng.choice([True, False, None])
            return ([0, [0]], "null::boolean") if v is None else ([0, [3, int(v)]], "true" if v else "false")
        k = rng.random()
        if k < 0.3:
            t = rng.choice(["int", "date", "ts"])
            op = rng.choice([(5, "="), (6, "<")])
            a, sa = gen(rng, t, depth - 1)
            b, sb = gen(rng, t, depth - 1)
            return [op[0], a, b], f"({sa} {op[1]} {sb})"
        if k < 0.5:
            t = rng.choice(["int", "date", "bool"])
            a, sa = gen(rng, t, depth - 1)
            b, sb = gen(rng, t, depth - 1)
            return [14, a, b], f"equal_null({sa}, {sb})"
        if k < 0.7:
            op = rng.choice([(7, "and"), (8, "or")])
            a, sa = gen(rng, "bool", depth - 1)
            b, sb = gen(rng, "bool", depth - 1)
            return [op[0], a, b], f"({sa} {op[1]} {sb})"
        if k < 0.85:
            a, sa = gen(rng, "bool", depth - 1)
            return [9, a], f"(not {sa})"
        a, sa = gen(rng, rng.choice(["int", "date", "dec"]), depth - 1)
        return [10, a], f"({sa} is null)"
    if ty == "date":
        if leaf:
            if rng.random() < 0.4:
                return [1, 1], "c1"
            d = rng.choice(DATES)
            return [13, [0, [6, dn(d)]]], f"'{d.isoformat()}'::date"
        k = rng.random()
        if k < 0.5:
            u = rng.choice([0, 1, 2, 4, 0, 2, 3])
            n, sn = gen(rng, "int", 0) if rng.random() < 0.7 else gen(rng, "int", depth - 1)
            d, sd = gen(rng, "date", depth - 1)
            if d[0] != 13:                         # make it a syntactic cast most of the time (the supported form)
                if rng.random() < 0.7:
                    d, sd = [13, d], f"({sd})::date"
            return [17, u, n, d], f"dateadd({UNITS[u]}, {sn}, {sd})"
        if k < 0.7:
            a, sa = gen(rng, rng.choice(["date", "ts"]), depth - 1)
            return [16, a], f"to_date({sa})"
        if k < 0.85:
            a, sa = gen(rng, "ts", depth - 1)
            return [13, a], f"({sa})::date"
        d = rng.choice(DATES)
        return [16, [0, [6, dn(d)]]], f"to_date('{d.isoformat()}')"
    if ty == "ts":
        if leaf:
            if rng.random() < 0.5:
                return [1, 2], "c2"
            t = datetime.datetime.combine(rng.choice(DATES), datetime.time(rng.randint(0, 23), rng.choice([0, 30, 59]), rng.choice([0, 59])))
            return [0, [8, us(t)]], f"'{t.isoformat(sep=' ')}'::timestamp_ntz"
        u = rng.randrange(6)
        n, sn = gen(rng, "int", 0)
        if rng.random() < 0.3:               # a sub-day unit over a DATE gives a TIMESTAMP
            d, sd = gen(rng, "date", depth - 1)
            if d[0] != 13 and rng.random() < 0.7:
                d, sd = [13, d], f"({sd})::date"
            return [17, 5, n, d], f"dateadd(hour, {sn}, {sd})"
        d, sd = gen(rng, "ts", depth - 1)
        return [17, u, n, d], f"dateadd({UNITS[u]}, {sn}, {sd})"
    if ty == "dec":
        p, s = rng.choice([(10, 2), (5, 1), (38, 0), (12, 4), (3, 0), (4, 2)])
        try_ = rng.random() < 0.4
        k = rng.random()
        if k < 0.35:
            txt = rng.choice(["12.345", "1.45", "-1.45", "0.005", "123456", "-7", "1e3x", "abc", "99.995", "0"])
            m = re.fullmatch(r"(-?\d+)(?:\.(\d+))?", txt)
            a = [0, [5, int(m.group(1) + (m.group(2) or "")), len(m.group(2) or "")]] if m else [0, [4, S(txt)]]
            sa = f"'{txt}'"
        elif k < 0.5:
            a, sa = [1, 4], "c4"
        elif k < 0.7:
            a, sa = [1, 3], "c3"
        elif k < 0.85:
            a, sa = gen(rng, "int", depth - 1)
        else:
            lit = rng.choice(["1.45", "12.5", "-0.05", "3.14159"])
            a, sa = [0, [2, int(lit.replace(".", "")), len(lit.split(".")[1])]], lit
        name = rng.choice(["to_decimal", "to_number", "to_numeric"])
        args = f"{sa}, {p}, {s}" if not (p == 38 and s == 0 and rng.random() < 0.5) else sa
        return [15, int(try_), a, p, s], f"{'try_' if try_ else ''}{name}({args})"
    raise ValueError(ty)


def enc_obs(v):
    if v is None:
        return [[0]]
    if isinstance(v, bool):
        return [[3, int(v)]]
    if isinstance(v, int):
        return [[1, v]]
    if isinstance(v, Decimal):
        sign, digits, exp = v.as_tuple()
        return [[2, int("".join(map(str, digits))) * (-1 if sign else 1), -exp]]
    if isinstance(v, datetime.datetime):
        return [[8, us(v.replace(tzinfo=None))]]
    if isinstance(v, datetime.date):
        return [[7, dn(v)]]
    if isinstance(v, str):
        return [[4, S(v)]]
    return [[99, S(repr(v))]]


# ----------------------------------------------------------------------------- independent oracle for the other rewritten functions
def other_cases():
    sha = hashlib.sha256(b"a").hexdigest()
    return [
        ("regexp_replace('aaa bbb', 'a', 'x')", "xxx bbb"), ("regexp_replace(regexp_replace('aaa bbb', 'a', 'x'), 'b', 'y')", "xxx yyy"),
        ("regexp_replace('a.b.c', '\\\\.', '-')", "a-b-c"), ("regexp_replace('abc', 'b')", "ac"), ("upper(regexp_replace(regexp_replace('a1b22', '[0-9]+', '#'), '#', '-'))", "A-B-"),
        ("regexp_substr('hello world', 'o w')", "o w"), ("regexp_substr('abc', 'x')", None), ("regexp_substr('aaa', 'a', 2)", "a"),
        ("length(regexp_replace('x' || regexp_replace('aa', 'a', 'bb'), 'b', 'c'))", 5),
        ("trim('  a ')", "a"), ("trim(c0::varchar)", "7"), ("trim('xxaxx', 'x')", "a"), ("trim(trim('--ab--', '-'), 'a')", "b"), ("trim(c0, '7') || '.'", "."), ("sha2('a')", sha), ("sha2('a', 256)", sha), ("sha2_hex('a')", sha), ("sha2_binary('a')", bytes.fromhex(sha)),
        ("sha2_hex(sha2_hex('a'))", hashlib.sha256(sha.encode()).hexdigest()), ("sha2_binary(sha2('a', 256))", hashlib.sha256(sha.encode()).digest()),
        ("sha2(sha2_hex(sha2('a')))", hashlib.sha256(hashlib.sha256(sha.encode()).hexdigest().encode()).hexdigest()),
        ("to_timestamp('2020-01-02 03:04:05')", datetime.datetime(2020, 1, 2, 3, 4, 5)), ("to_timestamp_ntz('2020-01-02')", datetime.datetime(2020, 1, 2)),
        ("to_timestamp(1600000000)", datetime.datetime(2020, 9, 13, 12, 26, 40)), ("to_date('04/03/2020', 'DD/MM/YYYY')", datetime.date(2020, 3, 4)),
        ("c0::float", 7.0), ("c0 / 2", 3.5), ("c3::int", 12), ("'5'::int + 1", 6), ("c0::varchar || 'x'", "7x"), ("c3::float", 12.34),
        ("equal_null(c4, '12.345')", True), ("equal_null(null, c0)", False),
        ("array_size(split('a,b,c', ','))", 3),
        ("to_number(case when to_decimal(-0.05, 4, 2) is null then 1 else 7 end, 3, 0)", Decimal("7")), ("to_decimal(to_decimal('1.5', 10, 2) + 1, 10, 1)", Decimal("2.5")),
        ("try_to_decimal(try_to_number('12.5', 5, 1)::varchar, 10, 2)", Decimal("12.50")), ("sha2(sha2('a'))", hashlib.sha256(sha.encode()).hexdigest()),
        ("trim(trim('  a '))", "a"), ("regexp_substr(regexp_substr('hello world', 'l+o w'), 'o w')", "o w"), ("equal_null(equal_null(1, 1), true)", True),
        ("to_date(to_date('2020-01-02'))", datetime.date(2020, 1, 2)),
        ("dateadd(quarter, 1, '2021-01-31'::date)", datetime.date(2021, 4, 30)), ("dateadd(day, 1, dateadd(hour, 5, '2023-04-02'::date))", datetime.datetime(2023, 4, 3, 5, 0)), ("dateadd(quarter, -1, c2)", datetime.datetime(2019, 10, 31, 10, 30)),
    ]


def sf_regexp_substr(subject, pattern, position=1, occurrence=1, params="c", group=None):
    """REGEXP_SUBSTR as its reference page defines it, over Python's re (patterns are chosen where re and RE2 agree)."""
    flags = 0
    for ch in params:
        flags = re.I if ch == "i" else 0 if ch == "c" else flags
    ms = list(re.finditer(pattern, subject[position - 1:], flags))
    if len(ms) < occurrence:
        return None
    return ms[occurrence - 1].group(group if group is not None else (1 if "e" in params else 0))


def regexp_cases():
    out = []
    for subj in ["hello world", "Hello WORLD hello", "abc", "a1b22c333", ""]:
        for pat in ["o", "l+", "(l+)(o)", "x(y)", "[a-z]+", "([a-z])([0-9]+)", "(H)ello"]:
            ng = re.compile(pat).groups
            forms = [(), (1,), (3,), (1, 1), (1, 2), (2, 3), (1, 1, "c"), (1, 1, "i"), (1, 2, "i")]
            if ng:
                forms += [(1, 1, "e"), (1, 2, "e"), (1, 1, "ie"), (1, 1, "e", 1), (1, 2, "e", 1), (2, 1, "e", ng), (1, 1, "c", ng), (1, 1, "e", 0)]
            for f in forms:
                args = "".join(", " + (repr(x) if isinstance(x, str) else str(x)) for x in f)
                want = sf_regexp_substr(subj, pat, *f)
                # 'e' without group_num: the parser fills in group 0, the whole match comes back (recorded finding) - only where that differs
                cls = "C10-regexp-substr-e-default" if len(f) == 3 and "e" in f[2] and want != sf_regexp_substr(subj, pat, *f, 0) else None
                out.append((f"regexp_substr('{subj}', '{pat}'{args})", want, cls))
    return out


def main():
    ck = Check("C10", "Expr", "run_c10")
    ck.prepare()
    ck.trusted.append("modelled, not verified: DuckDB's evaluation of casts, INTERVAL arithmetic, date_diff, TRY_CAST, IS NOT DISTINCT FROM (sem_duck), sqlglot's generation of DATEADD/DATEDIFF/TO_DECIMAL; "
                      "Snowflake itself is not available: sem_sf encodes its reference pages by hand and is cross-checked on every case against an independent Python implementation "
                      "(datetime, calendar, Decimal ROUND_HALF_UP); parsing of numbers and dates from text is outside the model (VNumText/VDateText); regex, SHA-256 and the PRNG are only "
                      "checked by the independent oracle table, not modelled")
    known = {f["id"]: f for f in ck.findings}
    reported = set()

    def report(key, msg, rep, no_input=False):
        if key not in reported and len(reported) < 4:
            reported.add(key)
            ck.violation(msg, rep, no_input=no_input)

    def known_or_report(fid, msg, rep):
        f = known.get(fid)
        if f:
            ck.known(fid, f["what"])
        else:
            report(fid, msg, rep)

    thorough = ck.tier == "thorough"
    # ---- (0) the calendar vs Python's datetime
    cal_cases, cal_want = [], []
    days = range(-25567, 47847, 1 if thorough else 37)
    for z in list(days) + [-719162, -141427, 2932896, -100000, 100000]:
        d = EPOCH + datetime.timedelta(days=z)
        cal_cases.append([d.year, d.month, d.day])
        cal_want.append([z, d.year, d.month, d.day])
    dis = ck.correspond(cal_cases, cal_want, label="cal", run="run_c10_cal", kernel_sample=20)
    if dis:
        raise core.MachineryError(f"the model's calendar disagrees with Python's datetime on {cal_cases[dis[0]]}")
    # ---- (1) generated expressions of the modelled fragment, five contexts
    fs, conn = fsutil.fresh()
    cur = conn.cursor()
    cur.execute("create table t (id int, c0 int, c1 date, c2 timestamp_ntz, c3 number(10,2), c4 varchar)")
    for i, r in enumerate(ROWS):
        cur.execute("insert into t values (%s, %s, %s, %s, %s, %s)", (i, r["c0"], r["c1"], r["c2"], r["c3"], r["c4"]))
    cur.execute("create table flag (id int, f int)")
    n = {"quick": 220, "thorough": 4000}[ck.tier]
    cases, obs, info = [], [], []
    for i in range(n):
        ty = ck.rng.choice(["int", "bool", "date", "ts", "dec", "dec", "date", "bool"])
        e, sql = gen(ck.rng, ty, ck.rng.randint(1, 3))
        ctxs = ["select", "select", "cte", "view"] + (["where", "dml"] if ty == "bool" else [])
        ctx = ck.rng.choice(ctxs)
        ck.count(f"context:{ctx}")
        ck.count(f"type:{ty}")
        per_row = []
        try:
            if ctx == "select":
                rows = cur.execute(f"select {sql} from t order by id").fetchall()
                per_row = [enc_obs(r[0]) for r in rows]
            elif ctx == "cte":
                rows = cur.execute(f"with c as (select id, {sql} as x from t) select x from c order by id").fetchall()
                per_row = [enc_obs(r[0]) for r in rows]
            elif ctx == "view":
                cur.execute(f"create or replace view vx as select id, {sql} as x from t")
                rows = cur.execute("select x from vx order by id").fetchall()
                per_row = [enc_obs(r[0]) for r in rows]
            elif ctx == "where":
                ids = {r[0] for r in cur.execute(f"select id from t where {sql}").fetchall()}
                per_row = [("where", j in ids) for j in range(len(ROWS))]
            else:
                cur.execute("truncate table flag")
                cur.execute("insert into flag select id, 0 from t")
                cur.execute(f"update flag set f = 1 where id in (select id from t where {sql})")
                ids = {r[0] for r in cur.execute("select id from flag where f = 1").fetchall()}
                per_row = [("where", j in ids) for j in range(len(ROWS))]
        except Exception as ex:  # noqa: BLE001
            # a failing row fails the whole statement: evaluate row by row in the select list instead
            per_row = []
            for j in range(len(ROWS)):
                try:
                    r1 = cur.execute(f"select {sql} from t where id = {j}").fetchall()
                    per_row.append(enc_obs(r1[0][0]))
                except Exception as ex1:  # noqa: BLE001
                    per_row.append(("err", f"{type(ex1).__name__}: {str(ex1)[:100]}"))
            ctx = "select"
        for j, row in enumerate(ROWS):
            cases.append([env_of(row), e])
            obs.append(per_row[j])
            info.append((sql, ctx, j))
    mo = core.model_eval("run_c10", cases)
    ck.cov["evaluations"] += len(cases)
    sample = sorted(ck.rng.sample(range(len(cases)), min(40, len(cases))))
    if core.kernel_failing("Expr", "run_c10", [(cases[i], mo[i]) for i in sample], "C10"):
        raise core.MachineryError("kernel and extracted model disagree on run_c10")
    ck.kernel_checked += len(sample)
    n_sup = n_nest = 0
    for case, o, m, (sql, ctx, j) in zip(cases, obs, mo, info):
        duck, sf, sup = m[0], m[1], bool(m[2])
        n_sup += sup
        n_nest += sql.count("(") >= 4
        rep = {"expression": sql, "context": ctx, "row": {k: str(v) for k, v in ROWS[j].items()}, "observed": o, "model_duck": duck, "model_snowflake": sf, "supported": sup}
        if isinstance(o, tuple) and o[0] == "where":
            got_true = o[1]
            if duck == [] and any(k_ in sql for k_ in (" and ", " or ", "case when", "coalesce(")):
                ck.count("skipped:short-circuit")
                continue
            want_true = duck == [[3, 1]]
            if got_true != want_true:
                report("where", f"`... where {sql}` ({ctx}) row {j}: selected={got_true}, the model's value is {duck}", dict(rep, theorem="Props_C10.rewrite_correct_partial"), no_input=(got_true == (sf == [[3, 1]])))
            elif sup and (sf == [[3, 1]]) != got_true:
                raise core.MachineryError("model: sem_duck(rewrite e) <> sem_sf e inside `supported`")
            continue
        got = [] if isinstance(o, tuple) else o
        big = bool(duck) and duck[0][0] in (7, 8) and not (-719162 <= (duck[0][1] if duck[0][0] == 7 else duck[0][1] // 86400000000) <= 2932896)
        if isinstance(o, tuple) and o[0] == "err" and big:
            ck.count("skipped:outside-years-1-9999")
            continue
        if isinstance(o, tuple) and "OverflowError" in o[1]:
            ck.count("skipped:beyond-python-datetime")      # year > 9999: the connector cannot even represent the value
            continue
        lazy = any(k_ in sql for k_ in (" and ", " or ", "case when", "coalesce("))
        if duck == [] and got != [] and lazy:
            ck.count("skipped:short-circuit")               # SQL leaves open whether the failing operand of AND/OR/CASE/COALESCE is evaluated
            continue
        # (a) the model of DuckDB's side vs the implementation (also outside `supported`)
        if got != duck:
            report("model", f"`select {sql}` ({ctx}) on row {j}: implementation {o}, model sem_duck(rewrite e) = {duck}", dict(rep, theorem="Props_C10.rewrite_correct_partial"), no_input=(got == sf))
            continue
        if sup and duck != sf:
            raise core.MachineryError(f"model: sem_duck(rewrite e) {duck} <> sem_sf e {sf} inside `supported` for {sql}")
        # (b) the property: what Snowflake documents
        if got != sf:
            # outside `supported`: attribute the difference to the recorded finding whose construct occurs in the expression
            fid = None
            if not sup:
                for marker, f_ in (("datediff(week", "C10-datediff-week-epoch"), ("datediff(hour", "C10-datediff-hour-epoch"), ("try_to_", "C10-try-to-decimal-number"),
                                   ("to_decimal(", "C10-decimal-narrowing-truncates"), ("to_number(", "C10-decimal-narrowing-truncates"), ("to_numeric(", "C10-decimal-narrowing-truncates"),
                                   ("dateadd(", "C10-dateadd-date-column-type")):
                    if marker in sql:
                        fid = f_
                        break
                if fid in ("C10-decimal-narrowing-truncates", "C10-try-to-decimal-number") and got and got[0][0] == 2 and sf in ([], [[0]]):
                    fid = "C10-decimal-round-overflow"
            if fid:
                known_or_report(fid, f"`select {sql}` on row {j} gives {o}; Snowflake documents {sf}", rep)
            else:
                report("spec", f"`select {sql}` ({ctx}) on row {j} gives {o}; Snowflake documents {sf}", rep)
    # ---- (2) cross-check of sem_sf against an independent Python implementation on the date/decimal primitives
    prim, want = [], []
    for d in DATES:
        for u in range(6):
            for k in (-13, -1, 0, 1, 2, 11, 25):
                prim.append([[], [17, u, [0, [1, k]], [13, [0, [6, dn(d)]]]]])
                if u == 5:
                    want.append([[8, us(datetime.datetime.combine(d, datetime.time()) + datetime.timedelta(hours=k))]])
                else:
                    if u in (0, 1):
                        r = d + datetime.timedelta(days=k * (7 if u == 1 else 1))
                    else:
                        months = k * {2: 1, 3: 3, 4: 12}[u]
                        t = d.year * 12 + d.month - 1 + months
                        y, m_ = divmod(t, 12)
                        r = datetime.date(y, m_ + 1, min(d.day, calendar.monthrange(y, m_ + 1)[1]))
                    want.append([[7, dn(r)]])
        for d2 in DATES:
            for u in range(5):
                prim.append([[], [18, u, [13, [0, [6, dn(d)]]], [13, [0, [6, dn(d2)]]]]])
                if u == 0:
                    w = (d2 - d).days
                elif u == 1:
                    w = (dn(d2) + 3) // 7 - (dn(d) + 3) // 7
                elif u == 2:
                    w = (d2.year * 12 + d2.month) - (d.year * 12 + d.month)
                elif u == 3:
                    w = (d2.year * 4 + (d2.month - 1) // 3) - (d.year * 4 + (d.month - 1) // 3)
                else:
                    w = d2.year - d.year
                want.append([[1, w]])
    for txt in ["12.345", "1.45", "-1.45", "0.005", "-0.005", "99.995", "123456", "0.5", "-0.5", "1.5", "2.5"]:
        for p, s in ((10, 2), (5, 1), (38, 0), (3, 0)):
            m_ = re.fullmatch(r"(-?\d+)(?:\.(\d+))?", txt)
            prim.append([[], [15, 0, [0, [5, int(m_.group(1) + (m_.group(2) or "")), len(m_.group(2) or "")]], p, s]])
            q = Decimal(txt).quantize(Decimal(1).scaleb(-s), rounding=ROUND_HALF_UP)
            want.append([[2, int(q.scaleb(s)), s]] if abs(int(q.scaleb(s))) < 10**p else [])
    pm = core.model_eval("run_c10", prim)
    ck.cov["evaluations"] += len(prim)
    for c_, m, w in zip(prim, pm, want):
        if m[1] != w:
            raise core.MachineryError(f"Coq sem_sf {m[1]} and the Python oracle {w} disagree on {c_[1]}")
    # ---- (3) the rewritten functions outside the model: independent oracle table, nested forms included
    for expr, want_v, cls in [(e_, w_, None) for e_, w_ in other_cases()] + regexp_cases():
        ck.cov["evaluations"] += 1
        try:
            got = cur.execute(f"select {expr} from t where id = 0").fetchall()[0][0]
        except Exception as ex:  # noqa: BLE001
            report(f"fn:{expr}", f"`select {expr}` raised {type(ex).__name__}: {str(ex)[:100]}", {"expression": expr})
            continue
        if isinstance(got, bytearray):
            got = bytes(got)
        if got != want_v or type(got) is not type(want_v):
            if cls:
                known_or_report(cls, f"`select {expr}` gives {got!r}, Snowflake documents {want_v!r}", {"expression": expr})
            else:
                report(f"fn:{expr}", f"`select {expr}` gives {got!r}, Snowflake documents {want_v!r}", {"expression": expr})
    # structural rewrites
    cur.execute("create table j1 (customer_id int, name varchar)")
    cur.execute("create table j2 (id int, label varchar)")
    cur.execute("insert into j1 values (1, 'a'), (2, 'b'), (3, 'c')")
    cur.execute("insert into j2 values (1, 'x'), (3, 'z')")
    struct = [
        ("select a.customer_id as id, b.label from j1 a join j2 b on a.customer_id = b.id order by 1", [(1, "x"), (3, "z")]),
        ("select a.customer_id as id, b.label from j1 a left join j2 b on a.customer_id = b.id order by 1", [(1, "x"), (2, None), (3, "z")]),
        ("select a.customer_id + 0 as k, b.label from j1 a join j2 b on k = b.id order by 1", [(1, "x"), (3, "z")]),
        ("select column1, column2 from (values (1, 'x'), (2, 'y')) order by 1", [(1, "x"), (2, "y")]),
        ("select * from identifier('j2') order by id", [(1, "x"), (3, "z")]),
        ("select array_agg(customer_id) within group (order by customer_id desc) from j1", [("[3,2,1]",)]),
        ("select count(*) from j1 sample (100)", [(3,)]),
    ]
    for sql, want_rows in struct:
        ck.cov["evaluations"] += 1
        try:
            got = [tuple(r) for r in cur.execute(sql).fetchall()]
            if sql.startswith("select array_agg"):
                got = [(re.sub(r"\s", "", str(got[0][0])),)]
        except Exception as ex:  # noqa: BLE001
            got = f"{type(ex).__name__}: {str(ex)[:100]}"
        if got != want_rows:
            report(f"struct:{sql[:40]}", f"`{sql}` gives {got!r}, expected {want_rows!r}", {"sql": sql})
    r1 = cur.execute("select random(7) from j1").fetchall()
    r2 = cur.execute("select random(7) from j1").fetchall()
    if r1 != r2 or len(r1) != 3 or not all(isinstance(x[0], int) and -2**63 <= x[0] < 2**63 for x in r1):
        report("random", f"random(7) is not repeatable: {r1} vs {r2}", {})
    # every RANDOM of a statement is a 64-bit integer and the statement is repeatable - also several calls, seeded or not, and in subqueries
    q_r = "select random(5) as a, random(5) as b, random() as c, (select random(5)) as d from j1"
    r3, r4 = cur.execute(q_r).fetchall(), cur.execute(q_r).fetchall()
    ck.cov["evaluations"] += 1
    if r3 != r4 or len(r3) != 3 or not all(isinstance(v, int) and -2**63 <= v < 2**63 for row in r3 for v in row):
        report("random-many", f"`{q_r}` gives {r3} then {r4}: every RANDOM must be a 64-bit integer and a seeded statement repeatable", {"sql": q_r})
    # ---- (4) unsupported forms are rejected, not answered wrongly
    for sql in ["select to_decimal('1.5', '99.9')", "select regexp_replace('aaa', 'a', 'b', 2)", "select sha2('a', 512)"]:
        ck.cov["evaluations"] += 1
        try:
            got = cur.execute(sql).fetchall()
            report(f"reject:{sql}", f"`{sql}` is a form fakesnow does not support but it answered {got!r}", {"sql": sql})
        except Exception:  # noqa: BLE001
            pass
    # ---- (5) recorded findings: replay their witnesses
    for fid, sql, want_v in [("C10-dateadd-date-column-type", "select dateadd(day, 1, c1) from t where id = 0", datetime.date(2020, 2, 1)),
                             ("C10-decimal-narrowing-truncates", "select to_decimal(1.45, 10, 1)", Decimal("1.5")), ("C10-array-agg-empty", "select array_agg(customer_id) from j1 where 1 = 0", "[]"),
                             ("C10-random-second", "select random(1) as a, random(1) as b", None), ("C10-to-timestamp-scale", "select to_timestamp(1600000000, 3)", datetime.datetime(1970, 1, 19, 12, 26, 40))]:
        ck.cov["evaluations"] += 1
        try:
            got = cur.execute(sql).fetchall()[0]
            bad = (got[0] != got[1]) if fid == "C10-random-second" else (got[0] != want_v or type(got[0]) is not type(want_v))
        except Exception as ex:  # noqa: BLE001
            got, bad = f"{type(ex).__name__}: {str(ex)[:80]}", True
        if bad:
            known_or_report(fid, f"`{sql}` gives {got!r}", {"sql": sql, "expected": repr(want_v)})
    fs.duck_conn.close()
    if n_sup < len(cases) * 0.4:
        raise core.MachineryError(f"only {n_sup}/{len(cases)} generated cases inside `supported`")
    ck.cov["distinct_nontrivial"] = n_nest
    ck.cov["inside_supported"] = n_sup
    ck.cov["samples"] += [{"expression": info[0][0]}, {"expression": info[8][0]}]
    return ck.finish(rule="typed random expressions of the modelled fragment (depth <= 3: arithmetic, comparisons, 3VL, CASE, COALESCE, ::date, EQUAL_NULL, [TRY_]TO_DECIMAL/NUMBER/NUMERIC over text / "
                          "column / integer / decimal arguments, TO_DATE, DATEADD and DATEDIFF over six units) evaluated per row (values, NULLs, month ends, leap day, pre-1970) in the select list, "
                          "WHERE, inside an UPDATE, a view and a CTE: implementation vs sem_duck(rewrite e) and vs sem_sf e (value and type); sem_sf vs an independent Python implementation; the "
                          "calendar vs datetime; oracle table for the regex/hash/trim/timestamp/cast rewrites incl. nested calls; REGEXP_SUBSTR over subjects x patterns x position/occurrence/parameters/group forms (match and no match) vs Python re; structural rewrites (alias in JOIN, VALUES, IDENTIFIER, "
                          "ARRAY_AGG WITHIN GROUP, SAMPLE, RANDOM); unsupported forms rejected; non-trivial = expressions with >= 4 nested calls")


if __name__ == "__main__":
    sys.exit(main())
