"""C06 - cursor.description matches the result of every executed statement."""
from __future__ import annotations

import ast
import datetime
import decimal
import os
import shutil
import subprocess
import sys

import core
import fsutil
from core import S, Check, unstr

PLAIN = {"BIGINT": [0], "INTEGER": [1], "DOUBLE": [3], "VARCHAR": [4], "BOOLEAN": [5], "DATE": [6], "TIME": [7], "TIMESTAMP": [8], "TIMESTAMP_NS": [9],
         "TIMESTAMP WITH TIME ZONE": [10], "BLOB": [11], "JSON": [12]}
OTHER = {"HUGEINT": [13, 1], "UBIGINT": [13, 2], "TINYINT": [13, 3], "UUID": [13, 4], "INTEGER[]": [13, 5], "SMALLINT": [13, 6], "FLOAT": [13, 7], "INTERVAL": [13, 8],
         "STRUCT(a INTEGER)": [13, 9], "UINTEGER": [13, 10]}
PYK = {int: 0, decimal.Decimal: 1, float: 2, str: 3, datetime.date: 4, datetime.time: 5, bytes: 8, bytearray: 8, bool: 9}


def pykind(v):
    if isinstance(v, bool):
        return 9
    if isinstance(v, datetime.datetime):
        return 7 if v.tzinfo is not None else 6
    for t, k in PYK.items():
        if type(v) is t:
            return k
    return 99


def source_table():
    """The translator half of the tie: the dict literal duckdb_to_sf_type parsed from /repo's types.py."""
    tree = ast.parse((core.REPO / "fakesnow" / "types.py").read_text())
    for node in tree.body:
        if isinstance(node, ast.Assign) and any(isinstance(t, ast.Name) and t.id == "duckdb_to_sf_type" for t in node.targets):
            d = ast.literal_eval(node.value)
            return list(d.items())
    raise core.MachineryError("duckdb_to_sf_type not found in types.py (translator fails closed)")


def check_table_tie(ck: Check, report):
    src = source_table()
    out = core.VERIF / "build" / f"c06tie-{os.getpid()}"
    out.mkdir(parents=True, exist_ok=True)
    try:
        def coq_str(s):
            return "[" + "; ".join(str(ord(c)) for c in s) + "]"
        body = "; ".join(f"({coq_str(a)}, {coq_str(b)})" for a, b in src)
        (out / "Tie.v").write_text(
            "From FS Require Import Sexp Types.\nOpen Scope Z_scope.\n"
            f"Definition src_table : list (str * str) := [{body}].\n"
            "Theorem table_matches_source : src_table = table.\nProof. vm_compute. reflexivity. Qed.\nPrint Assumptions table_matches_source.\n")
        r = subprocess.run(f"timeout 300 coqc -Q {core.COQ}/theories FS Tie.v", shell=True, cwd=out, capture_output=True, text=True)
        ck.cov["table_tie"] = {"source_entries": len(src), "theorem": "table_matches_source (generated from /repo/fakesnow/types.py, checked by coqc)", "accepted": r.returncode == 0}
        if r.returncode != 0:
            model = [(unstr(a), unstr(b)) for a, b in core.model_eval("run_c06_table", [[]])[0]]
            diff = sorted(set(src) ^ set(model))
            return diff or ["order"]
        return []
    finally:
        shutil.rmtree(out, ignore_errors=True)


def check_rules_tie(ck: Check):
    """Translator tie for the if/elif chain of types.describe_as_rowtype (precision / scale / length per type): generated theorem
    meta_rules_match_source; with Props_C06.sf_meta_by_rules the model's sf_meta is then what the source's dict + chain compute."""
    import types_translate

    try:
        ok, out = core.source_tie("c06rules", types_translate.coq(core.REPO), 1)
    except types_translate.Unsupported as e:
        ok, out = False, f"as_column_info is no longer of the translated form: {e}"
    ck.cov["rules_tie"] = {"theorem": "meta_rules_match_source (generated from fakesnow/types.py::describe_as_rowtype with ast, checked by coqc)", "accepted": ok}
    return ok, out


def meta_tuple(m):
    return [m.type_code, core.opt(m.precision), core.opt(m.scale), core.opt(m.internal_size)]


def check_unit(ck: Check, report):
    """describe_as_result_metadata on every type string vs the model."""
    from fakesnow.types import describe_as_result_metadata

    cases, impl, names = [], [], []
    for n, e in {**PLAIN, **OTHER}.items():
        cases.append(e)
        names.append(n)
    for p in range(1, 39):
        for s in range(0, p + 1):
            cases.append([2, p, s])
            names.append(f"DECIMAL({p},{s})")
    for n in names:
        try:
            m = describe_as_result_metadata([("C", n, "YES", None, None, None)])[0]
            impl.append([meta_tuple(m)])
        except NotImplementedError:
            impl.append([])
    model = core.model_eval("run_c06_type", cases)
    ck.cov["evaluations"] += len(cases)
    dis = [i for i, (m, o) in enumerate(zip(model, impl)) if m[0] != o]
    if core.kernel_failing("Types", "run_c06_type", [(cases[i], model[i]) for i in sorted(set(range(0, len(cases), 25)) | set(dis[:5]))], "C06"):
        raise core.MachineryError("kernel and extracted model disagree on run_c06_type")
    ck.kernel_checked += len(range(0, len(cases), 25))
    ck.cov["exhaustive_space"] = f"{len(cases)} DuckDB type strings = 12 mapped names + {len(OTHER)} unmapped + DECIMAL(p,s) for all 1<=p<=38, 0<=s<=p"
    return [(names[i], model[i][0], impl[i]) for i in dis]


ENGINE_TYPES = [
    ("BIGINT", "select 1::bigint as c"), ("INTEGER", "select 1 as c"), ("DECIMAL(10,2)", "select 1.5::number(10,2) as c"), ("DECIMAL(38,10)", "select 1.5::number(38,10) as c"),
    ("DECIMAL(2,1)", "select 1.5 as c"), ("DOUBLE", "select 1.5::float as c"), ("VARCHAR", "select 'x' as c"), ("BOOLEAN", "select true as c"), ("DATE", "select '2020-01-02'::date as c"),
    ("TIME", "select '01:02:03'::time as c"), ("TIMESTAMP", "select '2020-01-02 03:04:05'::timestamp_ntz as c"), ("TIMESTAMP WITH TIME ZONE", "select '2020-01-02 03:04:05'::timestamp_tz as c"),
    ("BLOB", "select 'a'::binary as c"), ("JSON", "select parse_json('{\"a\": 1}') as c"), ("BIGINT", "select count(*) as c from c06_t"),
    ("DOUBLE", "select avg(id) as c from c06_t"), ("VARCHAR", "select id::varchar as c from c06_t"), ("BIGINT", "select id as c from c06_t"), ("DECIMAL(10,2)", "select amt as c from c06_t"),
    ("DECIMAL(10,2)", "select max(amt) as c from c06_t"), ("TIMESTAMP", "select ts as c from c06_t"), ("JSON", "select v as c from c06_t"), ("JSON", "select v:a as c from c06_t"),
    ("VARCHAR", "select v:a::varchar as c from c06_t"), ("DATE", "select to_date('2020-01-02') as c"), ("DECIMAL(10,2)", "select to_decimal('1.5', 10, 2) as c"),
]
DTYPE = {**PLAIN, **OTHER}


def dtype_enc(n):
    if n.startswith("DECIMAL("):
        p, s = n[8:-1].split(",")
        return [2, int(p), int(s)]
    return DTYPE[n]


STATEMENTS_OK = [
    "select * from c06_t order by id", "select id, name from c06_t where id > 100", "select 1 as a, 2 as a", 'select id as "mixed Case", name as "A B" from c06_t',
    "insert into c06_t (id, name) values (9, 'n')", "update c06_t set name = 'z' where id = 9", "delete from c06_t where id = 9", "delete from c06_t where id = 99",
    "create table c06_u (i int)", "create view c06_v as select id from c06_t", "select * from c06_v", "drop view c06_v", "drop table c06_u", "create schema c06_s", "drop schema c06_s",
    "set c06var = 1", "select $c06var as v", "unset c06var", "show tables", "show schemas", "describe table c06_t", "alter table c06_t add column extra int", "rollback",
    "select id, name from c06_t where name = %s", "select * from c06_t sample (100)", "call c06_nop()",
    "select array_agg(id) within group (order by id desc) as a from c06_t", "select name from c06_t where name like 'a\\\\_%' escape '\\\\'",
    "select case when id > 1 then 'big' else 'small' end as sz, coalesce(name, 'none') as nm from c06_t", "select regexp_replace(name, 'a', 'b') as r from c06_t",
    "select dateadd(day, 1, ts) as d1, datediff(day, ts, ts) as d2 from c06_t", "select to_timestamp(0) as t0, to_date('2020-01-02') as d", "select split('a,b', ',') as parts",
    "select object_construct('k', id) as o from c06_t", "select id, row_number() over (order by id) as rn from c06_t", "select id from c06_t union all select 5",
    "with c as (select id from c06_t) select count(*) as n from c", "select name, count(*) as n from c06_t group by name order by n desc limit 2", "select distinct name from c06_t",
    "select id from c06_t where id in (1, 2) and amt between 0 and 10", "select id from (select id from c06_t where id > 1) x", "select v:a as va, v[0] as v0 from c06_t",
    "select upper(name) as u, length(name) as l, amt * 2 as dbl, amt::int as i, id / 2 as h from c06_t", "select equal_null(name, null) as e from c06_t", "select sha2('a') as h",
    "select trim(name) as t, id::float as f, ts::date as d from c06_t", "select value from c06_t, lateral flatten(input => parse_json('[1,2]')) f where id = 1",
]


def setup_conn(**kw):
    fs, conn = fsutil.fresh(**kw)
    cur = conn.cursor()
    cur.execute("create table c06_t (id int, name varchar(10), amt number(10,2), ts timestamp_ntz, v variant, n0 number(10,0))")
    cur.execute("insert into c06_t values (1, 'a', 1.5, '2020-01-02 03:04:05', parse_json('{\"a\": \"x\"}'), 7), (2, null, null, null, null, null), (3, 'c', -2.25, '1969-12-31 23:59:59.5', parse_json('[1]'), 8)")
    return fs, conn


def desc_of(cur):
    return [(d.name, d.type_code, d.precision, d.scale) for d in cur.description]


def main():
    ck = Check("C06", "Types", "run_c06_type")
    ck.prepare()
    ck.trusted.append("modelled, not verified: DuckDB's DESCRIBE (result type inference), Arrow's to_pylist, ResultMetadata.from_column; the dict duckdb_to_sf_type is NOT trusted: "
                      "it is re-translated from /repo/fakesnow/types.py on every run and proved equal to the model's table by coqc")
    reported = [False]

    def report(msg, rep, no_input=False):
        if not reported[0]:
            reported[0] = True
            ck.violation(msg, rep, no_input=no_input)

    known = {f["id"]: f for f in ck.findings}
    # (a) translator tie + (b) unit-level table
    tie = check_table_tie(ck, report)
    rules_ok, rules_out = check_rules_tie(ck)
    unit = check_unit(ck, report)
    # (c) engine level: description entry and fetched python kind per DuckDB type, vs the model and vs the property
    import snowflake.connector.errors as E  # noqa: F401

    fs, conn = setup_conn()
    eng_dis = []
    for tname, sql in ENGINE_TYPES:
        cur = conn.cursor()
        rows = cur.execute(sql).fetchall()
        m = core.model_eval("run_c06_type", [dtype_enc(tname)])[0]
        ck.cov["evaluations"] += 1
        ck.count(f"engine:{tname.split('(')[0]}")
        try:
            d = cur.description[0]
            got_meta = [[d.type_code, core.opt(d.precision), core.opt(d.scale), core.opt(d.internal_size)]]
        except NotImplementedError:
            got_meta = []
        vals = [r[0] for r in rows if r[0] is not None]
        got_py = [pykind(vals[0])] if vals else m[1]
        if got_meta != m[0] or got_py != m[1]:
            eng_dis.append((tname, sql, m, [got_meta, got_py]))
        # the property itself: type code agrees with the python value fetched
        if got_meta and vals:
            tc, sc = got_meta[0][0], got_meta[0][2]
            want = {0: 0 if (not sc or sc[0] == 0) else 1, 1: 2, 2: 3, 3: 4, 12: 5, 8: 6, 7: 7, 11: 8, 5: 3, 13: 9}[tc]
            if want != got_py[0]:
                if tc == 0 and got_py[0] == 1 and "C06-fixed0-decimal" in known:
                    ck.known("C06-fixed0-decimal", known["C06-fixed0-decimal"]["what"])
                else:
                    report(f"`{sql}`: description says type_code={tc} scale={sc} but the fetched value {vals[0]!r} is a {type(vals[0]).__name__}",
                           {"statement": sql, "description": got_meta, "value": repr(vals[0])})
    # the fixed0 finding's own witness
    cur = conn.cursor()
    r = cur.execute("select n0 from c06_t where id = 1").fetchall()
    if type(r[0][0]) is decimal.Decimal and cur.description[0].scale == 0:
        f = known.get("C06-fixed0-decimal")
        ck.known(f["id"], f["what"]) if f else report("NUMBER(10,0) column described as FIXED scale 0 but fetched as Decimal", {"statement": "select n0 from c06_t"})
    # (d) statement kinds: available, one entry per column, names = DictCursor keys, describe() agrees, reading it is pure
    fs2, conn2 = setup_conn(nop_regexes=["^call c06_nop"])
    fs3, conn3 = setup_conn(nop_regexes=["^call c06_nop"])
    for sql in STATEMENTS_OK:
        params = ("a",) if "%s" in sql else None
        ck.cov["evaluations"] += 1
        ck.count("statement-kind")
        c_a, c_b = conn2.cursor(), conn3.cursor(fsutil.dict_cursor_class())
        try:
            c_a.execute(sql, params)
            c_b.execute(sql, params)
        except Exception as e:  # noqa: BLE001
            report(f"`{sql}` raised {type(e).__name__}: {str(e)[:120]}", {"statement": sql})
            continue
        try:
            d1 = desc_of(c_a)
        except Exception as e:  # noqa: BLE001
            report(f"description after `{sql}` raised {type(e).__name__}: {str(e)[:120]}", {"statement": sql, "exception": type(e).__name__})
            continue
        ncols = c_a._arrow_table.num_columns  # noqa: SLF001
        first = c_a.fetchone()
        d2 = desc_of(c_a)                      # read again in the middle of the fetch sequence
        rest = c_a.fetchall()
        d3 = desc_of(c_a)
        rows_b = c_b.fetchall()                # the twin never reads description
        keys = list(rows_b[0].keys()) if rows_b else None
        all_a = ([first] if first is not None else []) + rest
        if len(d1) != ncols or (first is not None and len(first) != len(d1)):
            report(f"`{sql}`: description has {len(d1)} entries for a result of {ncols} columns", {"statement": sql, "description": d1})
        elif not (d1 == d2 == d3):
            report(f"`{sql}`: description changes while fetching: {d1} / {d2} / {d3}", {"statement": sql})
        elif keys is not None and list(dict.fromkeys(n for n, *_ in d1)) != keys:
            report(f"`{sql}`: description names {[n for n, *_ in d1]} differ from DictCursor keys {keys}", {"statement": sql, "description": d1, "dict_keys": keys})
        elif (lambda x: x if "order by" in sql.lower() else sorted(x))([tuple(map(fsutil.pyrepr, r)) for r in all_a]) != \
                (lambda x: x if "order by" in sql.lower() else sorted(x))([tuple(map(fsutil.pyrepr, r.values())) for r in rows_b]) and len(set(n for n, *_ in d1)) == len(d1):
            # (without ORDER BY the two instances may return the rows in different orders: compared as multisets)
            report(f"`{sql}`: reading description changed what the fetch calls return: {all_a} vs {rows_b}", {"statement": sql})
        if sql.lstrip().lower().startswith("select") and "%s" not in sql and "sample" not in sql:
            try:
                dd = [(x.name, x.type_code, x.precision, x.scale) for x in conn2.cursor().describe(sql)]
                if dd != d1:
                    report(f"describe({sql!r}) = {dd} but description after executing it = {d1}", {"statement": sql, "describe": dd, "description": d1})
            except Exception as e:  # noqa: BLE001
                report(f"describe({sql!r}) raised {type(e).__name__}: {str(e)[:100]}", {"statement": sql})
    # the same cursor re-executing the same text after its meaning changed (DDL through another cursor, USE SCHEMA)
    fs5, conn5 = setup_conn()
    cur5 = conn5.cursor()
    cur5.execute("select * from c06_t")
    d_before = desc_of(cur5)
    conn5.cursor().execute("alter table c06_t add column later_col varchar")
    cur5.execute("select * from c06_t")
    row = cur5.fetchone()
    d_after = desc_of(cur5)
    ck.cov["evaluations"] += 2
    if len(d_after) != len(row) or d_after[-1][0] != "LATER_COL" or len(d_after) != len(d_before) + 1:
        report(f"same cursor, same text `select * from c06_t` after ALTER TABLE ADD COLUMN through another cursor: description has {len(d_after)} entries {[n for n, *_ in d_after]} "
               f"for a row of {len(row)} values", {"statements": ["select * from c06_t", "(other cursor) alter table c06_t add column later_col varchar", "select * from c06_t"], "description": d_after})
    conn5.cursor().execute("create schema c06_s2")
    conn5.cursor().execute("create table c06_s2.c06_t (only_col varchar)")
    conn5.cursor().execute("use schema c06_s2")
    cur5.execute("select * from c06_t")
    d_s2 = desc_of(cur5)
    if [n for n, *_ in d_s2] != ["ONLY_COL"]:
        report(f"same cursor, same text `select * from c06_t` after USE SCHEMA: description {d_s2}, expected the single column ONLY_COL", {"description": d_s2})
    fs5.duck_conn.close()
    # ... and with NO DDL on this connection in between: the meaning of the same text changes through USE SCHEMA, through ROLLBACK,
    # and through DDL issued by another connection
    fs6, conn6 = setup_conn()
    other6 = fs6.connect(database="DB1", schema="S1")
    c6 = conn6.cursor()
    c6.execute("create schema c06_s3")
    c6.execute("create table c06_s3.c06_t (solo varchar, second_col int)")
    sel = "select * from c06_t"
    c6.execute(sel)
    d_s1 = desc_of(c6)
    c6.execute("use schema c06_s3")
    c6.execute(sel)
    row6 = c6.fetchone()
    d_s3 = desc_of(c6)
    ck.cov["evaluations"] += 3
    if [n for n, *_ in d_s3] != ["SOLO", "SECOND_COL"]:
        report(f"same text `{sel}` after USE SCHEMA (no DDL in between): description {[n for n, *_ in d_s3]}, the statement now reads C06_S3.C06_T (SOLO, SECOND_COL); before the USE it was {[n for n, *_ in d_s1]}",
               {"statements": ["create table c06_s3.c06_t (solo varchar, second_col int)", sel, "<read description>", "use schema c06_s3", sel, "<read description>"], "description": d_s3})
    c6.execute("use schema s1")
    c6.execute("begin")
    c6.execute("alter table c06_t add column tx_col int")
    c6.execute(sel)
    d_in = desc_of(c6)
    c6.execute("rollback")
    c6.execute(sel)
    row6 = c6.fetchone()
    d_out = desc_of(c6)
    if "TX_COL" not in [n for n, *_ in d_in] or "TX_COL" in [n for n, *_ in d_out] or len(d_out) != len(row6):
        report(f"same text `{sel}` after a rolled-back ALTER TABLE ADD COLUMN: description {[n for n, *_ in d_out]} for a row of {len(row6)} values (inside the transaction: {[n for n, *_ in d_in]})",
               {"statements": ["begin", "alter table c06_t add column tx_col int", sel, "<read description>", "rollback", sel, "<read description>"], "description": d_out})
    other6.cursor().execute("alter table c06_t add column from_other_conn int")
    c6.execute(sel)
    row6 = c6.fetchone()
    d_oc = desc_of(c6)
    if d_oc[-1][0] != "FROM_OTHER_CONN" or len(d_oc) != len(row6):
        report(f"same text `{sel}` after ANOTHER connection added a column: description {[n for n, *_ in d_oc]} for a row of {len(row6)} values",
               {"statements": [sel, "<read description>", "(other connection) alter table c06_t add column from_other_conn int", sel, "<read description>"], "description": d_oc})
    fs6.duck_conn.close()
    # describe() must not execute
    n0 = conn2.cursor().execute("select count(*) from c06_t").fetchall()
    try:
        conn2.cursor().describe("select * from c06_t where id in (select id from c06_t)")
    except Exception:  # noqa: BLE001
        pass
    if conn2.cursor().execute("select count(*) from c06_t").fetchall() != n0:
        report("describe() changed the data", {})
    # ... and leaves the result set pending on the cursor alone, whether it succeeds or fails, tuple or dict cursor (fix b1fe93a)
    for cls_kw in ({}, {"cursor_class": fsutil.dict_cursor_class()}):
        cd_ = conn2.cursor(**({} if not cls_kw else {})) if not cls_kw else conn2.cursor(fsutil.dict_cursor_class())
        cd_.execute("select id from c06_t order by id")
        first = cd_.fetchone()
        try:
            dn = [x.name for x in cd_.describe("select id, name from c06_t")]
        except Exception as e:  # noqa: BLE001
            dn = f"{type(e).__name__}"
        try:
            cd_.describe("select * from c06_missing")
            dn2 = "no error"
        except Exception:  # noqa: BLE001
            dn2 = "raised"
        rest = cd_.fetchall()
        want_rest = conn2.cursor().execute("select id from c06_t order by id").fetchall()[1:]
        got_rest = [tuple(r.values()) if isinstance(r, dict) else tuple(r) for r in rest]
        ck.cov["evaluations"] += 1
        if dn != ["ID", "NAME"] or dn2 != "raised" or got_rest != want_rest or first is None:
            report(f"execute; fetchone; describe(q2) -> {dn}; describe(<missing table>) -> {dn2}; fetchall -> {got_rest[:3]}... expected the remaining rows {want_rest[:3]}... "
                   f"({'Dict' if cls_kw else 'tuple'} cursor): describe() must not touch the pending result set", {"dict_cursor": bool(cls_kw)})
    # data and session identical on the twin that never read description
    a = fs2.duck_conn.cursor().execute("select * from DB1.S1.C06_T order by all").fetchall()
    b = fs3.duck_conn.cursor().execute("select * from DB1.S1.C06_T order by all").fetchall()
    if a != b or (conn2.database, conn2.schema) != (conn3.database, conn3.schema):
        report(f"reading description changed data or session: {a} vs {b}", {})
    # description of a query over objects only THIS session can see: DDL not yet committed, temporary tables
    fs7, conn7 = setup_conn()
    c7 = conn7.cursor()
    dict7 = conn7.cursor(fsutil.dict_cursor_class())
    for step_sqls, q in [(["begin", "alter table c06_t add column tx_note varchar(5)"], "select * from c06_t"),
                         (["create table c06_tx_new (a int, b varchar(7), c float)", "insert into c06_tx_new values (1, 'x', 1.5)"], "select * from c06_tx_new"),
                         (["rollback", "create temporary table c06_tmp (x int, y varchar(3), z date)", "insert into c06_tmp values (1, 'a', '2020-01-02')"], "select * from c06_tmp")]:
        for s_ in step_sqls:
            c7.execute(s_)
        c7.execute(q)
        row = c7.fetchone()
        ck.cov["evaluations"] += 1
        try:
            d = c7.description
            names = [x.name for x in d]
            d2 = [x.name for x in conn7.cursor().describe(q)]
        except Exception as e:  # noqa: BLE001
            report(f"after {step_sqls} the query `{q}` ran (row {row}) but its description raises {type(e).__name__}: {str(e)[:120]}", {"statements": step_sqls + [q]})
            continue
        keys = list(dict7.execute(q).fetchone().keys())
        if not (names == keys == d2) or len(names) != len(row):
            report(f"after {step_sqls}: description of `{q}` names {names}, DictCursor keys {keys}, describe() {d2}, row width {len(row)}", {"statements": step_sqls + [q]})
    fs7.duck_conn.close()
    # qmark connections: description after every kind of statement with bound parameters - queries whose root is not a plain SELECT included
    import snowflake.connector

    old_ps = snowflake.connector.paramstyle
    try:
        snowflake.connector.paramstyle = "qmark"
        fs8, conn8 = setup_conn()
    finally:
        snowflake.connector.paramstyle = old_ps
    c8 = conn8.cursor()
    d8 = conn8.cursor(fsutil.dict_cursor_class())
    qm = [("select ? as a, ? as b", (1, "x")), ("select ? as a union all select ?", (1, 2)), ("select id from c06_t where id = ? intersect select ?", (1, 1)),
          ("select id from c06_t where id <= ? except select ?", (3, 2)), ("(select ? as x)", (5,)), ("select * from (values (?, ?)) v(p, q)", (1, "z")),
          ("with w as (select ? as k) select k from w", (9,)), ("insert into c06_t (id) values (?)", (70,)), ("update c06_t set name = ? where id = ?", ("q", 70)),
          ("delete from c06_t where id = ?", (70,))]
    for sql, params in qm:
        ck.cov["evaluations"] += 1
        ck.count("qmark")
        try:
            c8.execute(sql, params)
            d_before = [x.name for x in c8.description]
            row = c8.fetchone()
            d_mid = [x.name for x in c8.description]
            c8.fetchall()
            d_after = [x.name for x in c8.description]
            keys = list(d8.execute(sql, params).fetchone().keys()) if not sql.startswith(("insert", "update", "delete")) else d_before
        except Exception as e:  # noqa: BLE001
            report(f"qmark connection: `{sql}` with parameters {params}: {type(e).__name__}: {str(e)[:140]} (description must be available after every successfully executed statement)",
                   {"statement": sql, "params": list(params), "paramstyle": "qmark"})
            continue
        if not (d_before == d_mid == d_after == keys) or (row is not None and len(row) != len(d_before)):
            report(f"qmark connection: `{sql}` with parameters {params}: description {d_before} / {d_mid} / {d_after}, DictCursor keys {keys}, row {row}",
                   {"statement": sql, "params": list(params), "paramstyle": "qmark"})
    fs8.duck_conn.close()
    # known findings: statements after which description is unavailable / wrong
    probes = [
        ("C06-description-unavailable", ["begin", "use schema s1", "truncate table c06_t"]),
        ("C06-unmapped-types", ["select hash('a')", "select sign(-2)", "select array_construct(1, 2)", "select sum(id) from c06_t"]),
        ("C06-seeded-random", ["select random(42) as r"]),
        ("C06-comment-status", ["comment on table c06_t is 'x'"]),
        ("C06-describe-non-select", ["insert into c06_t (id) values (50)"]),
    ]
    fs4, conn4 = setup_conn()
    for fid, sqls in probes:
        bad = []
        for sql in sqls:
            cur = conn4.cursor()
            try:
                if fid == "C06-describe-non-select":
                    cur.describe(sql)
                    continue
                cur.execute(sql)
                rows = cur.fetchall()
                d = cur.description
                if fid == "C06-seeded-random" and d[0].name != "R":
                    bad.append(f"`{sql}` describes column {d[0].name!r}")
                if fid == "C06-comment-status" and rows and d[0].type_code == 2 and not isinstance(rows[0][0], str):
                    bad.append(f"`{sql}` returns {rows} under a TEXT description")
            except Exception as e:  # noqa: BLE001
                bad.append(f"`{sql}`: {type(e).__name__}")
            try:
                conn4.cursor().execute("rollback")
            except Exception:  # noqa: BLE001
                pass
        f = known.get(fid)
        if bad and f:
            ck.known(fid, f["what"])
        elif bad:
            report(f"{bad[0]}", {"class": fid, "observed": bad})
    # report model/table disagreements last (after the oracle had its chance to name a failing input)
    if tie:
        report(f"the dict duckdb_to_sf_type in types.py differs from the model's table on {tie}: theorem table_matches_source (generated) is rejected by coqc; "
               f"Props_C06.meta_consistent_partial is no longer about this code", {"differences": [list(x) if isinstance(x, tuple) else x for x in tie], "theorem": "table_matches_source"}, no_input=True)
    if unit:
        n, m, o = unit[0]
        report(f"describe_as_rowtype({n!r}): model {m} vs implementation {o}; {len(unit)} type strings disagree", {"type": n, "model": m, "impl": o, "theorem": "Props_C06.meta_consistent_partial"}, no_input=True)
    if not rules_ok:
        report(f"the if/elif chain of types.describe_as_rowtype is no longer provably the model's meta_rules: {rules_out}; Props_C06.sf_meta_by_rules no longer ties sf_meta to this code",
               {"theorem": "meta_rules_match_source"}, no_input=True)
    if eng_dis:
        tname, sql, m, g = eng_dis[0]
        report(f"`{sql}` (DuckDB type {tname}): model (meta, python kind) {m} vs implementation {g}", {"statement": sql, "model": m, "impl": g, "theorem": "Props_C06.meta_consistent_partial"}, no_input=True)
    for f in (fs, fs2, fs3, fs4):
        f.duck_conn.close()
    ck.cov["distinct_nontrivial"] = len(ENGINE_TYPES) + len(STATEMENTS_OK)
    ck.cov["samples"] += [{"statement": ENGINE_TYPES[2][1], "duckdb_type": ENGINE_TYPES[2][0]}, {"statement": STATEMENTS_OK[3]}]
    return ck.finish(rule="(a) the source's type dict re-translated and proved equal to the model's table; (b) describe_as_result_metadata on every DuckDB type string (all DECIMAL(p,s)); "
                          "(c) per DuckDB result type: description entry and fetched python kind vs model and vs each other; (d) per statement kind (queries, DML, DDL, SHOW/DESCRIBE, SET, "
                          "bound parameters, no-op'd, sampled): description available, one entry per column, names = DictCursor keys, stable across the fetch sequence, describe() agrees, "
                          "reading it changes neither fetch results, data nor session (twin instance); non-trivial = engine-level type cases + statement kinds")


if __name__ == "__main__":
    sys.exit(main())
