"""C02 - unquoted identifiers fold to upper case; quoted ones are kept verbatim; outcomes do not depend on letter case."""
from __future__ import annotations

import re
import sys

import core
import fsutil
from core import S, Check, unstr

# ⟦...⟧ marks text whose case is significant although it is not quoted (JSON path keys); string literals and quoted
# identifiers are never touched by the re-speller.
SCRIPT = [
    "create database db2",
    "create schema db2.sch2",
    "use schema db2.sch2",
    "create table t1 (id int, name varchar(10), \"Mixed Col\" int, v variant) comment = 'cmt'",
    "insert into t1 values (1, 'a', 10, parse_json('{\"k\": 1}')), (2, 'B', 20, null)",
    "insert into t1 (id, name) values (3, 'c')",
    "select * from t1 order by id",
    "select id as alias1, \"Mixed Col\", name from t1 where name = 'a'",
    "select t1.id, x.id as xid from t1 join t1 as x on t1.id = x.id order by 1",
    "select tt.id idd from db2.sch2.t1 as tt where tt.id in (select id from sch2.t1) order by idd desc",
    "update t1 set name = 'z' where id = 3",
    "delete from t1 where id = 99",
    "select count(*) as cnt, max(id) mx from t1",
    "select v:⟦k⟧ as kk, v:⟦k⟧::int as ki from t1 where id = 1",
    "create table t2 (id int, val varchar)",
    "insert into t2 values (1, 'one'), (4, 'four')",
    "merge into t1 using t2 on t1.id = t2.id when matched then update set name = t2.val when not matched then insert (id, name) values (t2.id, t2.val)",
    "select id, name from t1 order by id",
    "merge into t1 using (select id, val from t2 where id = 4) as t2 on t1.id = t2.id when matched and t2.val = 'four' then delete",
    "select id, name from t1 order by id",
    "create view v1 as select id, name from t1",
    "select * from v1 order by id",
    "describe table t1",
    "describe view v1",
    "show tables",
    "show terse tables in schema db2.sch2",
    "show schemas",
    "show objects",
    "show terse objects in database db2",
    "show primary keys",
    "select table_name, table_type, comment from information_schema.tables where table_schema = 'SCH2' order by 1",
    "select column_name, data_type, character_maximum_length from information_schema.columns where table_name = 'T1' order by ordinal_position",
    "select database_name from information_schema.databases order by 1",
    "set myvar = 5",
    "select $myvar as v, $MYVAR + 1 as w",
    "unset myvar",
    "select $myvar",
    "select * from nonexistent",
    "select nocol from t1",
    "create table t1 (x int)",
    "select * from nodb.nosch.t1",
    "alter table t1 add column extra int",
    "alter table t1 rename column extra to extra2",
    "select extra2 from t1 where id = 1",
    "comment on table t2 is 'c2'",
    "select comment from information_schema.tables where table_name = 'T2'",
    "create or replace table t3 as select id, name as nm from t1",
    "create table t4 clone t3",
    "select * from t4 order by 1",
    "drop view v1",
    "drop table t2",
    "use database db1",
    "select current_database(), current_schema()",
    "use schema db1.s1",
    "create table tt (a int)",
    "select * from db2.sch2.t3 order by id",
    "create schema \"lower sch\"",
    "use schema \"lower sch\"",
    "create table \"Quoted Tbl\" (\"a b\" int, plain int)",
    "insert into \"Quoted Tbl\" values (1, 2)",
    "select \"a b\", plain, plain as \"P q\" from \"Quoted Tbl\"",
    "select * from \"quoted tbl\"",
    "drop table \"Quoted Tbl\"",
    "use schema s1",
    "drop schema \"lower sch\"",
    "begin",
    "insert into tt values (1)",
    "rollback",
    "select count(*) from tt",
    "begin transaction",
    "insert into tt values (2)",
    "commit",
    "select a from tt",
    "truncate table tt",
    "select to_date('2020-01-02') as d, dateadd(day, 1, '2020-01-01'::date) dd, regexp_replace('abc', 'b', 'X') r, datediff(month, '2020-01-01'::date, '2020-03-01'::date) m",
    "select to_decimal('1.5', 10, 2) as dec, try_to_number('x') as tn, equal_null(null, null) en, sha2('a') sh, trim(' x ') tr",
    "select * from identifier('DB2.SCH2.T3') order by id",
    "select column1, column2 from (values (1, 'x'), (2, 'y')) order by 1",
    "select array_agg(id) within group (order by id) as ids from db2.sch2.t3",
    "select object_construct('k', 1) as oc, array_size(parse_json('[1,2]')) as sz, split('a,b', ',') sp",
    "select value::varchar as vv from table(flatten(input => parse_json('[\"Aa\", \"b\"]')))" if False else "select f.value::varchar as vv from db2.sch2.t3, lateral flatten(input => parse_json('[\"Aa\", \"b\"]')) f where id = 1",
    "create user someuser",
    "show users",
    "drop table if exists never_there",
    "create table if not exists tt (a int)",
    "create tag cost_center",
    "alter table tt set tag cost_center = 'x'",
    "create tag cost_center comment = 'c'",
    "alter table t1 modify column id set tag cost_center = 'x'",
    "alter table t1 alter column name set tag cost_center = 'y'",
    "alter table t1 modify column id unset tag cost_center",
    "describe table db2.sch2.t3",
    "show primary keys in schema",
]

SPLIT = re.compile(r"('(?:[^']|'')*'|\"(?:[^\"]|\"\")*\"|⟦[^⟧]*⟧)")


def respell(sql, mode, rng):
    out = []
    for part in SPLIT.split(sql):
        if not part:
            continue
        if part[0] in "'\"":
            out.append(part)
        elif part[0] == "⟦":
            out.append(part[1:-1])
        elif mode == "upper":
            out.append(part.upper())
        elif mode == "lower":
            out.append(part.lower())
        elif mode == "base":
            out.append(part)
        else:
            out.append("".join((c.swapcase() if rng.random() < 0.5 else c) for c in part))
    return "".join(out)


def outcome(conn, sql, dict_cursor):
    cur = conn.cursor(fsutil.dict_cursor_class()) if dict_cursor else conn.cursor()
    try:
        cur.execute(sql)
        rows = cur.fetchall()
        if dict_cursor:
            rows_c = [sorted((k, fsutil.pyrepr(v)) for k, v in r.items()) for r in rows]
        else:
            rows_c = [[fsutil.pyrepr(v) for v in r] for r in rows]
        cols = list(cur._arrow_table.column_names) if cur._arrow_table is not None else None  # noqa: SLF001
        return {"ok": True, "rows": rows_c, "cols": cols, "rowcount": cur.rowcount, "db": conn.database, "schema": conn.schema, "sqlstate": cur.sqlstate}
    except Exception as e:  # noqa: BLE001
        return {"ok": False, "exc": type(e).__name__, "errno": getattr(e, "errno", None), "sqlstate": getattr(e, "sqlstate", None), "db": conn.database, "schema": conn.schema}


def run_script(mode, rng, dict_cursor):
    fs, conn = fsutil.fresh()
    outs, sqls = [], []
    try:
        for st in SCRIPT:
            sql = respell(st, mode, rng)
            sqls.append(sql)
            outs.append(outcome(conn, sql, dict_cursor))
    finally:
        fs.duck_conn.close()
    return sqls, outs


RESERVED = {"select", "from", "table", "where", "order", "group", "by", "as", "on", "in", "is", "not", "null", "and", "or", "all", "any", "case", "when", "then", "else", "end", "create",
            "drop", "set", "use", "show", "to", "with", "join", "left", "right", "full", "inner", "cross", "union", "values", "insert", "update", "delete", "into", "like", "true", "false",
            "int", "date", "time", "row", "rows", "for", "if", "at", "of", "no", "asc", "desc", "limit", "having", "distinct", "between", "exists", "using", "natural", "lateral", "qualify",
            "start", "connect", "sample", "pivot", "unpivot", "window", "over", "ilike", "rlike", "regexp", "some", "minus", "except", "intersect", "current", "top", "fetch", "offset",
            "column", "constraint", "default", "primary", "unique", "foreign", "references", "check", "alter", "grant", "revoke", "view", "schema", "database", "increment", "trigger",
            "commit", "rollback", "begin", "merge", "matched", "copy", "cast", "try_cast", "interval", "localtime", "localtimestamp", "current_date", "current_time", "current_timestamp",
            "current_user", "tablesample", "following", "organization", "account", "issue", "gscluster", "connection", "whenever", "cube", "rollup", "grouping", "sets", "uuid", "map",
            "struct", "array", "object", "variant", "cache", "temp", "temporary", "transient", "volatile", "replace", "filter", "div", "mod", "xor", "end", "collate", "describe", "desc",
            "comment", "return", "returns", "function", "procedure", "call", "execute", "immediate", "declare", "let", "loop", "while", "repeat", "until", "do", "rename", "add",
            "index", "indexes", "key", "keys", "cluster", "recursive", "only", "next", "first", "last", "nulls", "respect", "ignore", "semi", "anti", "asof", "match_condition", "positional",
            "summarize", "pragma", "load", "install", "attach", "detach", "export", "import", "vacuum", "analyze", "explain", "checkpoint", "force", "prepare", "deallocate", "reset", "global",
            "session", "local", "seed", "percent", "bernoulli", "system", "block", "unknown", "escape", "similar", "glob", "notnull", "isnull", "both", "leading", "trailing", "overlaps",
            "placing", "authorization", "binary", "collation", "concurrently", "freeze", "verbose", "analyse", "symmetric", "asymmetric", "deferrable", "initially", "user", "variadic",
            "out", "inout", "setof", "dec", "decimal", "numeric", "number", "real", "float", "double", "char", "varchar", "string", "text", "boolean", "bigint", "smallint", "tinyint",
            "byteint", "integer", "datetime", "timestamp", "generated", "always", "identity", "x", "e", "n", "b", "r", "u"}


QUOTED_WORDS = ["GROUP", "END", "DESC", "ASC", "CHECK", "CREATE", "IN", "NULL", "TRUE", "FALSE", "ORDER", "TABLE", "SELECT", "FROM", "LATERAL", "USER", "WHERE", "ALL", "ANY", "BY",
                "CASE", "NOT", "ON", "AS", "LIMIT", "VALUES", "DEFAULT", "COLUMN", "SCHEMA", "DATE", "INT"]


def gen_ident(rng, quoted):
    if quoted and rng.random() < 0.3:
        # a quoted identifier may spell any SQL word, in any case: it must stay quoted all the way to the engine
        w = rng.choice(QUOTED_WORDS)
        return rng.choice([w, w, w.lower(), w.capitalize()])
    if quoted:
        alpha = "abcXYZ 09_$.é\U0001F600-"
        s = "".join(rng.choice(alpha) for _ in range(rng.randint(1, 10))).strip() or "q"
        return s
    while True:
        s = rng.choice("abcdefgxyzABCDEFGXYZ_") + "".join(rng.choice("abcxyzABCXYZ019_$") for _ in range(rng.randint(1, 9)))
        if s.lower() not in RESERVED:
            return s


def render_ident(text, quoted):
    return '"' + text.replace('"', '""') + '"' if quoted else text


def main():
    ck = Check("C02", "Ident", "run_c02_norm")
    ck.prepare()
    ck.trusted.append("modelled, not verified: sqlglot's tokenizer/keyword table and parser (keyword case is invisible in its AST), Python's str.upper beyond ASCII "
                      "(unquoted Snowflake identifiers are ASCII), DuckDB's case-insensitive catalog; Props_C02.step_respell/run_respell are about the context machine of C03, "
                      "whose correspondence with the code is checked by the C03 check with randomised case and quoting")
    known = {f["id"]: f for f in ck.findings}
    reported = set()

    def report(key, msg, rep, no_input=False):
        if key not in reported and len(reported) < 4:
            reported.add(key)
            ck.violation(msg, rep, no_input=no_input)

    thorough = ck.tier == "thorough"
    # ---------------- (A) reported names: model's norm vs five channels of the implementation
    import snowflake.connector.cursor  # noqa: F401
    from sqlglot import exp

    from fakesnow import checks

    n_id = 400 if thorough else 90
    fs, conn = fsutil.fresh()
    cases, impl, info = [], [], []
    for k in range(n_id):
        quoted = ck.rng.random() < 0.4
        text = gen_ident(ck.rng, quoted)
        if k == 0:
            quoted, text = True, "values"          # the witness of finding C02-use-schema-quoted-values, replayed on every run
        mask = [ck.rng.random() < 0.5 for _ in text]
        cases.append([S(text), int(quoted), [int(b) for b in mask]])
        ck.count("ident:quoted" if quoted else "ident:unquoted")
        re_text = text if quoted else "".join(c.swapcase() if (b and c.isascii() and c.isalpha()) else c for c, b in zip(text, mask))
        obs = []
        for variant in (text, re_text):
            idn = render_ident(variant, quoted)
            cur = conn.cursor()
            dcur = conn.cursor(fsutil.dict_cursor_class())
            try:
                st = cur.execute(f"create or replace table {idn} (c int)").fetchall()[0][0]
                c1 = list(cur.execute(f"select 1 as {idn}")._arrow_table.column_names)[0]  # noqa: SLF001
                c2 = list(dcur.execute(f"select 1 as {idn}").fetchall()[0].keys())[0]
                c3 = cur.execute(f"select {idn} from (select 2 as {idn})").description[0].name
                val = cur.execute(f"select {idn} from (select 2 as {idn}) x").fetchall()
                names = {r[0] for r in cur.execute("select table_name from information_schema.tables where table_schema = 'S1'").fetchall()}
                shown = {r[1] for r in cur.execute("show tables").fetchall()}
                cur.execute(f"create schema {idn}")
                cur.execute(f"use schema {idn}")
                sch = conn.schema
                cur.execute("use schema s1")
                cur.execute(f"drop schema {idn}")
                dst = cur.execute(f"drop table {idn}").fetchall()[0][0]
                obs.append({"status": st, "col": c1, "dictkey": c2, "desc": c3, "schema": sch, "drop": dst, "info": sorted(names), "show": sorted(shown), "val": [list(r) for r in val]})
            except Exception as e:  # noqa: BLE001
                obs.append({"error": f"{type(e).__name__}: {str(e)[:120]}"})
                for clean in ("use schema db1.s1", f"drop schema if exists db1.{idn}", f"drop table if exists db1.s1.{idn}"):
                    try:
                        conn.cursor().execute(clean)
                    except Exception:  # noqa: BLE001
                        pass
        impl.append(obs)
        info.append((text, quoted, re_text))
    fs.duck_conn.close()
    mo = core.model_eval("run_c02_norm", cases)
    ck.cov["evaluations"] += len(cases)
    sample = sorted(ck.rng.sample(range(len(cases)), min(40, len(cases))))
    if core.kernel_failing("Ident", "run_c02_norm", [(cases[i], mo[i]) for i in sample], "C02"):
        raise core.MachineryError("kernel and extracted model disagree on run_c02_norm")
    ck.kernel_checked += len(sample)
    for (text, quoted, re_text), obs, m in zip(info, impl, mo):
        name, name2, status = unstr(m[0]), unstr(m[1]), unstr(m[2])
        if name != name2:
            raise core.MachineryError("model: norm changed under respell - contradicts Props_C02.norm_respell")
        for variant, o in zip((text, re_text), obs):
            rep = {"identifier": render_ident(variant, quoted), "model_reported_name": name, "observed": o}
            if "error" in o and quoted and "." in variant and "C02-quoted-dot" in known:
                ck.known("C02-quoted-dot", known["C02-quoted-dot"]["what"])
                continue
            if "error" in o and quoted and variant.lower() == "values" and "Values" in o["error"] and "C02-use-schema-quoted-values" in known:
                ck.known("C02-use-schema-quoted-values", known["C02-use-schema-quoted-values"]["what"])
                continue
            if "error" in o and "$" in variant and "C02-dollar-in-identifier" in known:
                ck.known("C02-dollar-in-identifier", known["C02-dollar-in-identifier"]["what"])
                continue
            if "error" in o:
                report("identerr", f"statements naming the identifier {render_ident(variant, quoted)} failed: {o['error']}", rep)
                continue
            wrong = [k for k in ("col", "dictkey", "desc", "schema") if o[k] != name]
            if o["status"] != status or o["drop"] != f"{name} successfully dropped.":
                wrong.append("status")
            if name not in o["info"] or name not in o["show"]:
                wrong.append("catalog")
            if o["val"] != [[2]]:
                wrong.append("val")
            if wrong:
                report("norm", f"identifier {render_ident(variant, quoted)} is reported as {[o[k] for k in wrong if k in o] or o['status']} in {wrong}; "
                               f"the property (and the model's norm) give {name!r}", rep)
    # checks.equal vs ident_eq
    eq_cases, eq_impl = [], []
    for _ in range(200 if thorough else 60):
        a = gen_ident(ck.rng, False)
        variants = [(a, False), (a.upper(), False), (a.lower(), False), (a, True), (a.upper(), True), (gen_ident(ck.rng, True), True)]
        x, y = ck.rng.choice(variants), ck.rng.choice(variants)
        eq_cases.append([[S(x[0]), int(x[1])], [S(y[0]), int(y[1])]])
        eq_impl.append(int(checks.equal(exp.Identifier(this=x[0], quoted=x[1]), exp.Identifier(this=y[0], quoted=y[1]))))
    # translator tie: checks.equal re-read from /repo's checks.py and proved equal to the model's ident_eq (generated theorem)
    import checks_translate

    try:
        tie_ok, tie_out = core.source_tie("c02", checks_translate.coq(core.REPO), 1)
        ck.cov["source_tie"] = {"theorem": "ident_eq_matches_source (generated from fakesnow/checks.py::equal with ast, checked by coqc)", "accepted": tie_ok}
    except checks_translate.Unsupported as e:
        tie_ok, tie_out = False, f"checks.equal is no longer of the translated form: {e}"
    dis = ck.correspond(eq_cases, eq_impl, label="eq", run="run_c02_eq")
    if not tie_ok and not dis:
        report("eq-tie", f"checks.equal as written in checks.py is no longer provably the model's ident_eq: {tie_out}; Props_C02.ident_eq_respell is no longer about this code",
               {"theorem": "ident_eq_matches_source"}, no_input=True)
    for i in dis[:1]:
        report("eq", f"checks.equal on {eq_cases[i]} gives {eq_impl[i]}, the model's ident_eq {ck.model_obs[i]}", {"case": eq_cases[i], "theorem": "Props_C02.ident_eq_respell"}, no_input=True)

    # ---------------- (B) metamorphic: the whole script under re-spellings, complete outcome per statement
    modes = ["upper", "lower"] + ["random"] * (30 if thorough else 6)
    for dict_cursor in (False, True):
        base_sqls, base = run_script("base", ck.rng, dict_cursor)
        n_err = sum(1 for o in base if not o["ok"])
        ck.cov["script"] = {"statements": len(SCRIPT), "failing_in_base_spelling": n_err}
        for mode in modes:
            sqls, outs = run_script(mode, ck.rng, dict_cursor)
            ck.cov["evaluations"] += len(outs)
            ck.count(f"respelling:{mode}", len(outs))
            for st, sql, o, b in zip(SCRIPT, sqls, outs, base):
                if o != b:
                    diff = {k: (b.get(k), o.get(k)) for k in set(o) | set(b) if o.get(k) != b.get(k)}
                    rep = {"base_statement": respell(st, "base", ck.rng), "respelled": sql, "base_outcome": b, "respelled_outcome": o, "script_prefix": sqls[: sqls.index(sql)]}
                    msg = f"`{sql}` behaves differently from `{respell(st, 'base', ck.rng)}`: {str(diff)[:300]}"
                    fid = None
                    low = st.lower()
                    if low.startswith("show users") and o["ok"] and b["ok"] and str(o["rows"]).lower() == str(b["rows"]).lower():
                        fid = "C02-user-name-case"
                    if fid and fid in known:
                        ck.known(fid, known[fid]["what"])
                    else:
                        report(f"meta:{st[:30]}", msg, rep)
    # every statement the script expects to work does work in the base spelling (guards against a vacuous comparison)
    expected_fail = {"select $myvar", "select * from nonexistent", "select nocol from t1", "create table t1 (x int)", "select * from nodb.nosch.t1"}
    _, base = run_script("base", ck.rng, False)
    for st, b in zip(SCRIPT, base):
        if st == 'select * from "quoted tbl"':
            if b["ok"]:
                f = known.get("C02-quoted-case-insensitive-lookup")
                ck.known(f["id"], f["what"]) if f else report("qcase", '`select * from "quoted tbl"` finds the table "Quoted Tbl"', {"outcome": b})
            continue
        if (not b["ok"]) != (st in expected_fail):
            report(f"base:{st[:30]}", f"script statement `{st}` {'failed' if not b['ok'] else 'unexpectedly succeeded'} in its base spelling: {b}", {"statement": st, "outcome": b})
    ck.cov["distinct_nontrivial"] = len(SCRIPT) * len(modes) * 2
    ck.cov["samples"] += [{"identifier": info[0][0], "quoted": info[0][1]}, {"respelled": respell(SCRIPT[16], "random", ck.rng)}]
    return ck.finish(rule="(A) random identifiers (unquoted ASCII; quoted with spaces, lower case, unicode) and a random re-spelling of each: status messages, result column names, DictCursor keys, "
                          "description, conn.schema, information_schema and SHOW TABLES all report the model's norm; checks.equal = ident_eq; (B) a script of "
                          f"{len(SCRIPT)} statements of every supported kind run on fresh instances under all-upper, all-lower and random re-spellings of everything outside quotes, tuple and dict "
                          "cursors: rows, column names, rowcount, error class/errno/sqlstate and reported context identical to the base spelling, statement by statement; "
                          "non-trivial = statements x re-spellings")


if __name__ == "__main__":
    sys.exit(main())
