"""Runs fakesnow's HTTP server (from $VERIF_REPO) in a thread and connects the real Snowflake connector to it."""
from __future__ import annotations

import socket
import threading
import time


class Server:
    def __enter__(self):
        import uvicorn

        import fakesnow.server

        self.mod = fakesnow.server
        s = socket.socket()
        s.bind(("127.0.0.1", 0))
        self.port = s.getsockname()[1]
        s.close()
        self.server = uvicorn.Server(uvicorn.Config(fakesnow.server.app, port=self.port, log_level="error"))
        self.thread = threading.Thread(target=self.server.run, name="Server", daemon=True)
        self.thread.start()
        t0 = time.time()
        while not self.server.started:
            time.sleep(0.05)
            if time.time() - t0 > 30:
                raise RuntimeError("server did not start")
        return self

    def __exit__(self, *a):
        self.server.should_exit = True
        self.thread.join(timeout=10)

    def connect(self, database="db1", schema="s1", db_path=None, **kw):
        import snowflake.connector

        sp = {"CLIENT_OUT_OF_BAND_TELEMETRY_ENABLED": False}
        if db_path is not None:
            sp["FAKESNOW_DB_PATH"] = db_path
        return snowflake.connector.connect(user="fake", password="snow", account="fakesnow", host="localhost", port=self.port, protocol="http",
                                           session_parameters=sp, database=database, schema=schema, network_timeout=1, login_timeout=5, **kw)
