"""Translator: fakesnow/checks.py::equal (identifier equality) re-read with Python's ast and emitted over Ident.v's vocabulary. Fails closed."""
import ast
import sys
from pathlib import Path


class Unsupported(Exception):
    pass


def side(node, params):
    """<p>.this if <p>.quoted else <p>.this.upper()   ->   Coq term for parameter p"""
    def attr(n, name):
        return isinstance(n, ast.Attribute) and n.attr == name and isinstance(n.value, ast.Name) and n.value.id in params and n.value.id
    if isinstance(node, ast.IfExp):
        p = attr(node.test, "quoted")
        if p and attr(node.body, "this") == p and isinstance(node.orelse, ast.Call) and not node.orelse.args and isinstance(node.orelse.func, ast.Attribute) \
                and node.orelse.func.attr == "upper" and attr(node.orelse.func.value, "this") == p:
            v = params[p]
            return f"(if iquoted {v} then itext {v} else upper (itext {v}))"
    raise Unsupported(f"expression {ast.unparse(node)}")


def coq(repo):
    tree = ast.parse((Path(repo) / "fakesnow" / "checks.py").read_text())
    fn = next((n for n in tree.body if isinstance(n, ast.FunctionDef) and n.name == "equal"), None)
    if fn is None or [a.arg for a in fn.args.args] != ["left", "right"]:
        raise Unsupported("def equal(left, right) not found")
    params = {"left": "a", "right": "b"}
    env = {}
    ret = None
    for st in fn.body:
        if isinstance(st, ast.Expr) and isinstance(st.value, ast.Constant):
            continue                                     # docstring
        if isinstance(st, ast.Assign) and len(st.targets) == 1 and isinstance(st.targets[0], ast.Name):
            env[st.targets[0].id] = side(st.value, params)
        elif isinstance(st, ast.Return) and isinstance(st.value, ast.Compare) and len(st.value.ops) == 1 and isinstance(st.value.ops[0], ast.Eq):
            def val(n):
                if isinstance(n, ast.Name) and n.id in env:
                    return env[n.id]
                return side(n, params)
            ret = f"str_eqb {val(st.value.left)} {val(st.value.comparators[0])}"
        else:
            raise Unsupported(f"statement {ast.unparse(st)[:80]}")
    if ret is None:
        raise Unsupported("no `return x == y`")
    return ("From FS Require Import Sexp Ident.\n"
            f"Definition src_equal (a b : ident) : bool := {ret}.\n"
            "Theorem ident_eq_matches_source : forall a b, src_equal a b = ident_eq a b.\nProof. intros a b. reflexivity. Qed.\n"
            "Print Assumptions ident_eq_matches_source.\n")


if __name__ == "__main__":
    print(coq(sys.argv[1]))
