"""C18 - with db_path, committed state survives exit, exceptions and kills."""
from __future__ import annotations

import json
import os
import shutil
import subprocess
import sys
from concurrent.futures import ThreadPoolExecutor

import core
from core import S, Check, unstr

CHILD = str(core.VERIF / "harness" / "c18_child.py")


def K(d, s, t):
    return [S(d), S(s), S(t)]


T = K("DB1", "S1", "T")
U = K("DB2", "main", "U")
TV = K("DB1", "S1", "TV")
HIST = [
    [0, S("db1"), S("s1")],
    [2, T, [S("c-t")]],
    [3, T, 1],
    [8],
    [9],
    [6, T, [2, 3], 1],
    [6, T, [4, 5], 0],
    [1, S("DB2")],
    [2, U, [S("c-u")]],
    [3, U, 7],
    [3, T, 6],
    [7, TV],
    [6, T, [10, 11], 0],        # (a third way to drive a transaction: fresh cursors, SQL ROLLBACK)
    [6, T, [8, 9], 0],          # left open when the process ends
]
MODEL_HIST = [[0, S("DB1"), S("S1")] if o[0] == 0 else o for o in HIST if o[0] not in (7, 8, 9)]


def run_child(args, cwd=None):
    env = dict(os.environ, PYTHONHASHSEED="0")
    return subprocess.run([core.PY, CHILD, *args], capture_output=True, text=True, timeout=300, env=env, cwd=cwd)


def read_trace(path):
    calls, done = [], []
    if os.path.exists(path):
        for line in open(path):
            p = line.split()
            if p[0] == "c":
                calls.append(int(p[2]))
            elif p[0] == "d":
                done.append(int(p[1]))
    return calls, done


def one_run(base, tag, mode, hist_file):
    d = base / tag
    (d / "db").mkdir(parents=True)
    trace = d / "trace"
    w = run_child(["writer", str(d / "db"), mode, str(trace), str(hist_file)])
    r = run_child(["reader", str(d / "db"), "DB1,DB2"])
    dump = None
    for line in r.stdout.splitlines():
        if line.startswith("DUMP "):
            dump = json.loads(line[5:])
    calls, done = read_trace(trace)
    shutil.rmtree(d, ignore_errors=True)
    return {"mode": mode, "writer_rc": w.returncode, "writer_err": w.stderr[-300:], "reader_rc": r.returncode, "reader_err": r.stderr[-400:], "dump": dump, "calls": calls, "done": done}


def tables_all(r):
    return {".".join(unstr(x) for x in t[0]) for t in r["dump"]["engine"][2]}


def cmts_all(r):
    return {".".join(unstr(x) for x in c[0]) for c in r["dump"]["engine"][3]}


def canon(e):
    """(database names, schemas, tables with sorted rows, comments) of an engine dump; bootstrap flags dropped (the reader completes it)"""
    # the reader's own connect attaches (or creates, empty) each database it asks for, so bare databases and their default schema say nothing
    return [sorted(x for x in e[1] if unstr(x[1]) != "main"), sorted([[k, sorted(r)] for k, r in e[2]]), sorted(e[3])]


def main():
    ck = Check("C18", "Steps", "run_c18")
    ck.prepare()
    ck.trusted.append("modelled, not verified: DuckDB's durability and atomicity of one autocommitted/committed engine call under SIGKILL (WAL replay on ATTACH), the filesystem; kills are delivered "
                      "BETWEEN engine calls (every such point is enumerated); a kill INSIDE an engine call is outside the model")
    known = {f["id"]: f for f in ck.findings}
    reported = set()

    def report(key, msg, rep, no_input=False):
        if key not in reported and len(reported) < 4:
            reported.add(key)
            ck.violation(msg, rep, no_input=no_input)

    def known_or_report(fid, msg, rep):
        f = known.get(fid)
        if f:
            ck.known(fid, f["what"])
        else:
            report(fid, msg, rep)

    base = core.VERIF / "build" / f"c18-{os.getpid()}"
    base.mkdir(parents=True, exist_ok=True)
    try:
        hist_file = base / "hist.json"
        hist_file.write_text(json.dumps(HIST))
        full = one_run(base, "count", "count", hist_file)
        if full["writer_rc"] != 0 or not full["dump"]:
            # every statement of the history is valid: a writer that cannot get through it is a failing history in itself
            report("writer", f"the writer process failed on a history of valid statements (after operations {full['done']} had completed): {full['writer_err'][-250:]} {full['reader_err'][-150:]}",
                   {"history": HIST, "completed_operations": full["done"], "stderr": full["writer_err"]})
            ck.cov["distinct_nontrivial"] = 0
            return ck.finish(rule="reference run failed")
        n_calls = len(full["calls"])
        ks = list(range(1, n_calls + 1)) if ck.tier == "thorough" or n_calls <= 80 else list(range(1, n_calls + 1, 2))
        jobs = [("kill", k) for k in ks] + [("clean", 0), ("raise", 0), ("patch-clean", 0), ("patch-raise", 0)]
        with ThreadPoolExecutor(max_workers=12) as ex:
            runs = list(ex.map(lambda j: one_run(base, f"{j[0]}{j[1]}", f"kill:{j[1]}" if j[0] == "kill" else j[0], hist_file), jobs))
        cases, obs = [], []
        for (kind, k), r in zip(jobs, runs):
            ck.count(f"exit:{kind}")
            if not r["dump"] or r["reader_rc"] != 0 or r["dump"]["errors"]:
                report("reader", f"after {r['mode']} a fresh process cannot read the databases: {r['reader_err'][-200:]} {r['dump'] and r['dump']['errors']}", {"run": r})
                continue
            if kind == "kill" and r["writer_rc"] != -9:
                raise core.MachineryError(f"writer was not killed at call {k}: rc={r['writer_rc']} {r['writer_err']}")
            if kind in ("clean", "patch-clean") and r["writer_rc"] != 0:
                report("writer", f"{r['mode']}: the writer failed: {r['writer_err']}", {"run": r})
                continue
            calls = r["calls"] if kind in ("kill", "clean", "raise") else full["calls"]
            if kind == "kill" and calls != full["calls"][: k - 1]:
                raise core.MachineryError("non-deterministic engine-call sequence")
            m = sum(1 for c in calls if c >= 0)
            cases.append([[MODEL_HIST], [0] * m, m])
            obs.append((kind, k, r, calls))
        mo = core.model_eval("run_c18", cases)
        ck.cov["evaluations"] += len(cases)
        sample = sorted(set(range(0, len(cases), 5)))
        if core.kernel_failing("Steps", "run_c18", [(cases[i], mo[i]) for i in sample], "C18"):
            raise core.MachineryError("kernel and extracted model disagree on run_c18")
        ck.kernel_checked += len(sample)
        # the model's call classes for the whole history (taken from the C19 entry point) vs the writer's engine calls
        m_all = sum(1 for c in full["calls"] if c >= 0)
        cls = core.model_eval("run_c19", [[[MODEL_HIST], [0] * m_all]])[0][1]
        if cls != [c for c in full["calls"] if c >= 0]:
            report("classes", f"the writer's engine calls {[c for c in full['calls'] if c >= 0]} differ from the model's automata {cls}: Props_C18.committed_survives is no longer about this code",
                   {"impl": full["calls"], "model": cls, "theorem": "Props_C18.committed_survives"}, no_input=True)
        for (kind, k, r, calls), m in zip(obs, mo):
            got = canon(r["dump"]["engine"])
            got[1] = [t for t in got[1] if unstr(t[0][2]) != "TV"]
            want = canon(m)
            rep = {"exit": r["mode"], "engine_calls_before_death": len(calls), "completed_operations": r["done"], "found_after_restart": got, "model_disk": want, "history": HIST}
            # (0) nothing of a rolled-back transaction (table, comment, lengths) may be on disk
            ghosts = [k_ for k_ in cmts_all(r) if k_ not in tables_all(r)]
            if ghosts or "DB1.S1.GHOST" in tables_all(r) or any(x[0] == "GHOST" for x in r["dump"]["lengths"]):
                report("ghost", f"{r['mode']}: metadata or objects of work that was rolled back are on disk: comments for {ghosts}, tables {sorted(tables_all(r))}, lengths {r['dump']['lengths']}", rep)
            # (1) model's disk vs what a fresh process finds
            if got != want:
                report("model", f"{r['mode']}: a fresh process finds {got}, the model's disk after {len(calls)} engine calls is {want}", dict(rep, theorem="Props_C18.committed_survives"), no_input=True)
                continue
            # (2) the property on the observations alone
            odd = [f for f in r["dump"]["files_before"] if f.split(".")[0] not in ("DB1", "DB2")]
            if odd:
                report("files", f"{r['mode']}: unexpected files under db_path: {r['dump']['files_before']} (one file per database, named after the upper-cased database)", rep)
            rows = {".".join(unstr(x) for x in t[0]): t[1] for t in got[1]}
            cmts = {".".join(unstr(x) for x in c[0]): unstr(c[1]) for c in got[2]}
            done = set(r["done"]) if kind in ("kill", "clean", "raise") else set(range(len(HIST)))
            trows = rows.get("DB1.S1.T")
            must = [v for j, vs in ((2, [1]), (5, [2, 3]), (10, [6])) if j in done for v in vs]
            if any(v not in (trows or []) for v in must):
                report("lost", f"{r['mode']}: operations {sorted(done)} had completed but table T holds {trows}: committed rows {must} lost", rep)
            if trows and (set(trows) & {4, 5, 8, 9, 10, 11}):
                report("uncommitted", f"{r['mode']}: rows of a rolled-back / never committed transaction are on disk: {trows}", rep)
            if trows and len(set(trows) & {2, 3}) == 1:
                report("txatomic", f"{r['mode']}: half of a committed transaction is on disk: {trows}", rep)
            if 9 in done and rows.get("DB2.main.U") != [7]:
                report("lost2", f"{r['mode']}: DB2.main.U holds {rows.get('DB2.main.U')} after its insert had completed", rep)
            for tname, j, c in (("DB1.S1.T", 1, "c-t"), ("DB2.main.U", 8, "c-u")):
                if j in done and cmts.get(tname) != c:
                    report("comment", f"{r['mode']}: the comment of {tname} is {cmts.get(tname)!r} after CREATE TABLE ... COMMENT had completed", rep)
                if tname in rows and j not in done and cmts.get(tname) != c:
                    known_or_report("C18-torn-create-table", f"{r['mode']}: {tname} exists without its comment: the interrupted CREATE TABLE ... COMMENT is half there", rep)
            if kind != "kill" and ["TV", "V", 10] not in r["dump"]["lengths"]:
                report("lengths", f"{r['mode']}: VARCHAR(10) length of TV not found after restart: {r['dump']['lengths']}", rep)
        # (3) in-memory instances never touch the disk nor see each other
        d = base / "mem"
        d.mkdir()
        w = run_child(["writer", "-", "memory", str(base / "mem-trace"), str(hist_file)], cwd=str(d))
        ck.cov["evaluations"] += 1
        left = sorted(os.listdir(d))
        if w.returncode != 0 or left or "ISOLATED" not in w.stdout:
            report("memory", f"in-memory instance: rc={w.returncode} files left in the working directory {left}, output {w.stdout[-100:]} {w.stderr[-200:]}", {})
        ck.cov["distinct_nontrivial"] = len(ks)
        ck.cov["exhaustive_space"] = f"every kill point between engine calls of the history: {len(ks)} of {n_calls}" + ("" if len(ks) == n_calls else " (every second one in quick)")
        ck.cov["samples"] += [{"history": [str(o)[:60] for o in HIST[:4]]}]
    finally:
        shutil.rmtree(base, ignore_errors=True)
    return ck.finish(rule="a writer process runs a history (connect auto-creating db+schema, CREATE TABLE ... COMMENT, inserts, committed / rolled-back / left-open transactions, CREATE DATABASE, a table in "
                          "the second database, a sized VARCHAR) with db_path and is SIGKILLed before engine call K for every K, or exits cleanly / by exception, directly or under patch(); a fresh "
                          "process attaches every database file and dumps schemas, tables, rows, comments, lengths; compared with the model's disk after the same number of calls and with an "
                          "independent completed-operations oracle; in-memory instances leave no file; non-trivial = kill points")


if __name__ == "__main__":
    sys.exit(main())
