"""C14 - connect() does what its options say in every configuration."""
from __future__ import annotations

import itertools
import os
import shutil
import sys

import core
from core import S, Check, unstr

BUILTIN = ["MAIN", "INFORMATION_SCHEMA", "PG_CATALOG"]
DBS = [None, "db1", "Db1", "DB1", "d_1"]
SCHEMAS = [None, "s1", "S1", "s_1", "information_schema", "main"]
HIDDEN = {"MEMORY", "SYSTEM", "TEMP", "_FS_GLOBAL"}


def catalog(duck):
    rows = duck.execute("select catalog_name, schema_name from information_schema.schemata").fetchall()
    out = {}
    for c, s in rows:
        if c.upper() in HIDDEN:
            continue
        out.setdefault(c.upper(), set()).add(s.upper())
    return out


def run_case(tmp, mode, prior, flags, cfgs, cid):
    """Returns (world0 sexp, per-connect observations, final catalog, files, probes)."""
    import snowflake.connector.errors as E
    from fakesnow.instance import FakeSnow

    path = None
    disk = {}
    if mode != "memory":
        path = tmp / f"case{cid}"
        path.mkdir()
    if mode == "path-existing":
        tpl = tmp / "template"
        if not tpl.exists():
            tpl.mkdir()
            a = FakeSnow(db_path=tpl)
            a.connect(database="DB1", schema="S1")
            a.connect(database="DA1", schema="SA1")
            a.duck_conn.close()
        path.rmdir()
        shutil.copytree(tpl, path)
        disk = {"DB1": BUILTIN + ["S1"], "DA1": BUILTIN + ["SA1"]}
    fs = FakeSnow(create_database_on_connect=True, create_schema_on_connect=True, db_path=path)
    if prior >= 1:
        c_prior = fs.connect(database="DB1", schema="S1" if prior >= 2 else None)
        fs.connect(database="DA1", schema="SA1" if prior >= 2 else None)
        if prior == 3:
            # the state 'database there, schema missing' reached by a HISTORY of this instance: an earlier connect made the schema, a session dropped it
            c_prior.cursor().execute("drop schema db1.s1")
    cat0 = catalog(fs.duck_conn)
    dbs0 = dict(disk)
    for d, ss in cat0.items():
        dbs0[d] = sorted(ss, key=lambda x: (x not in BUILTIN, x))
    world0 = [[[S(d), S(ss)] for d, ss in dbs0.items()], S(list(cat0))]
    fs.create_database_on_connect, fs.create_schema_on_connect = flags
    obs, probes = [], []
    for j, (db, sch) in enumerate(cfgs):
        before = catalog(fs.duck_conn)
        try:
            conn = fs.connect(database=db, schema=sch)
        except Exception as e:  # noqa: BLE001
            obs.append([0])
            probes.append(("raised", f"{type(e).__name__}: {str(e)[:120]}", before, None))
            break
        cd, cs = conn._duck_conn.execute("select current_database(), current_schema()").fetchone()  # noqa: SLF001
        duck = [] if (cd, cs) == ("memory", "main") else [S(cd.upper()), S(cs.upper())]
        obs.append([1, [core.opt(conn.database), core.opt(conn.schema), S(bool(conn.database_set)), S(bool(conn.schema_set)), duck]])
        # behavioural probe: the first unqualified statement
        probe = None
        if sch is None or sch.upper() not in BUILTIN:
            try:
                conn.cursor().execute(f"create table c14_t{j} (i int)")
                rows = fs.duck_conn.execute(
                    f"select table_catalog, table_schema from information_schema.tables where table_name = 'C14_T{j}'").fetchall()
                probe = ("created", sorted((a.upper(), b.upper()) for a, b in rows))
            except E.ProgrammingError as e:
                probe = ("error", e.errno)
            except Exception as e:  # noqa: BLE001
                probe = ("exception", type(e).__name__)
        probes.append((probe, None, before, catalog(fs.duck_conn)))
    final = catalog(fs.duck_conn)
    files = sorted(p.name for p in path.iterdir()) if path else []
    stray = [] if path else []
    fs.duck_conn.close()
    return world0, obs, final, files, probes, stray


def canon_model(m):
    """model output ((outcomes) (dbs attached)) -> (outcomes, attached catalog dict, all db names)"""
    outs, (dbs, attached) = m
    att = {unstr(a) for a in attached}
    cat = {unstr(d): {unstr(s) for s in ss} for d, ss in dbs if unstr(d) in att}
    return outs, cat, sorted(unstr(d) for d, _ in dbs)


DISK = {"DB1": {"S1"}, "DA1": {"SA1"}}


def oracle(flags, cfgs, obs, probes, final, mode="memory", prior=0):
    cd, cs = flags
    DISK = {"DB1": set() if prior == 3 else {"S1"}, "DA1": {"SA1"}}     # (prior state 3 dropped DB1.S1 itself)  # noqa: N806
    for (db, sch), o, (probe, err, before, after) in zip(cfgs, obs, probes):
        if o == [0]:
            return f"connect(database={db!r}, schema={sch!r}) raised {err}"
        _, (rdb, rsch, dset, sset, duck) = o
        D = db.upper() if db else None
        Sx = sch.upper() if sch else None
        if (unstr(rdb[0]) if rdb else None) != D or (unstr(rsch[0]) if rsch else None) != Sx:
            return f"connect({db!r},{sch!r}) reports database/schema {rdb}/{rsch}, expected {D}/{Sx}"
        after0 = after if after is not None else final
        for d, ss in before.items():
            if d not in after0 or not ss <= after0[d]:
                return f"connect({db!r},{sch!r}) removed existing objects of {d}"
        for d, ss in after0.items():
            new = ss - before.get(d, set())
            if d not in before:
                if not (cd and d == D):
                    return f"connect({db!r},{sch!r}) with create_database_on_connect={cd} created database {d}"
                new = new - set(BUILTIN) - DISK.get(d, set())   # schemas that come with an existing file
            if new - ({Sx} if (cs and d == D) else set()):
                return f"connect({db!r},{sch!r}) with create_schema_on_connect={cs} created schemas {sorted(new)} in {d}"
        if mode == "path-existing" and D in DISK and D in after0 and not DISK[D] <= after0[D]:
            return (f"connect({db!r},{sch!r}) on a db_path that already holds {D}.db with schema {sorted(DISK[D])}: afterwards {D} has only "
                    f"{sorted(after0[D])} - the existing database was not found (connecting must never disturb or hide existing data)")
        db_exists = D is not None and D in after0
        sch_exists = db_exists and Sx is not None and Sx in after0[D]
        if cd and D is not None and not db_exists:
            return f"connect({db!r},{sch!r}) with create_database_on_connect=True: database {D} does not exist afterwards"
        if cs and db_exists and Sx is not None and not sch_exists:
            return f"connect({db!r},{sch!r}) with create_schema_on_connect=True: schema {D}.{Sx} does not exist afterwards (catalog of {D}: {sorted(after0[D])})"
        if bool(dset) != db_exists:
            return f"connect({db!r},{sch!r}): database_set={bool(dset)} but database exists afterwards={db_exists}"
        if bool(sset) != sch_exists:
            return f"connect({db!r},{sch!r}): schema_set={bool(sset)} but schema exists afterwards={sch_exists}"
        if probe is not None:
            want = ("created", [(D, Sx)]) if sch_exists else (("error", 90106) if db_exists else ("error", 90105))
            if probe != want:
                return f"after connect({db!r},{sch!r}) an unqualified CREATE TABLE gave {probe}, expected {want}"
    return None


def main():
    ck = Check("C14", "Connect", "run_c14")
    ck.prepare()
    ck.trusted.append("modelled, not verified: DuckDB's ATTACH IF NOT EXISTS / CREATE SCHEMA IF NOT EXISTS / SET schema and information_schema.schemata "
                      "(abstract catalog: attached databases -> schema sets, files on disk); a database file that exists but is not attached counts as 'does not exist in this instance'")
    tmp = core.VERIF / "build" / f"c14-{os.getpid()}"
    tmp.mkdir(parents=True, exist_ok=True)
    specs = []
    modes = ["memory", "path-empty", "path-existing"]
    for mode, prior, cd, cs, db, sch in itertools.product(modes, (0, 1, 2, 3), (True, False), (True, False), DBS, SCHEMAS):
        if ck.tier == "quick" and mode != "memory" and ck.rng.random() > 0.3:
            continue
        specs.append((mode, prior, (cd, cs), [(db, sch)]))
    n_single = len(specs)
    for _ in range(100 if ck.tier == "quick" else 3000):
        specs.append((ck.rng.choice(modes), ck.rng.choice((0, 1, 2, 3)), (ck.rng.random() < 0.5, ck.rng.random() < 0.5),
                      [(ck.rng.choice(DBS + ["da1", "DC1"]), ck.rng.choice(SCHEMAS + ["sa1", "s2"])) for _ in range(ck.rng.randint(2, 3))]))
    ck.cov["exhaustive_space"] = (f"{n_single} single connects = storage {modes} x prior state (nothing | DB1,DA1 | DB1.S1,DA1.SA1 | the same, then DROP SCHEMA db1.s1) x 2x2 flags x "
                                  f"database {DBS} x schema {SCHEMAS}" + (" (quick: memory complete, the two db_path modes sampled at 30%)" if ck.tier == "quick" else ""))
    cases, impl, extra = [], [], []
    try:
        for cid, (mode, prior, flags, cfgs) in enumerate(specs):
            world0, obs, final, files, probes, _ = run_case(tmp, mode, prior, flags, cfgs, cid)
            cases.append([world0, [[core.opt(d), core.opt(s), S(flags[0]), S(flags[1])] for d, s in cfgs]])
            impl.append(obs)
            extra.append((final, files, probes))
            ck.count(f"mode={mode}")
            ck.count(f"flags={flags}")
    finally:
        shutil.rmtree(tmp, ignore_errors=True)
    reported = False
    for (mode, prior, flags, cfgs), obs, (final, files, probes) in zip(specs, impl, extra):
        msg = oracle(flags, cfgs, obs, probes, final, mode, prior)
        if msg is None and mode == "memory" and files:
            msg = f"in-memory instance wrote files {files}"
        if msg and not reported:
            reported = True
            ck.violation(f"storage={mode} prior={prior} create_database_on_connect={flags[0]} create_schema_on_connect={flags[1]}: {msg}",
                         {"storage": mode, "prior_state": prior, "flags": flags, "connects": cfgs, "observed": obs, "final_catalog": {k: sorted(v) for k, v in final.items()}, "files": files})
    model = core.model_eval("run_c14", cases)
    ck.cov["evaluations"] += len(cases)
    dis = []
    for i, (m, obs, (final, files, probes)) in enumerate(zip(model, impl, extra)):
        outs, cat, alldbs = canon_model(m)
        want_files = sorted(f"{d}.db" for d in alldbs) if specs[i][0] != "memory" else []
        got_files = sorted(f for f in files if f.endswith(".db"))
        if outs != obs or cat != final or got_files != want_files:
            dis.append(i)
    idx = sorted(set(ck.rng.sample(range(len(cases)), 60)) | set(dis[:20]))
    bad = core.kernel_failing(ck.module, "run_c14", [(cases[i], model[i]) for i in idx], "C14")
    if bad:
        raise core.MachineryError("kernel and extracted model disagree on run_c14")
    ck.kernel_checked += len(idx)
    if dis and not reported:
        i = dis[0]
        outs, cat, alldbs = canon_model(model[i])
        ck.violation(
            f"model and implementation differ on {specs[i]}: model outcomes {outs} catalog {cat} dbs {alldbs}; impl outcomes {impl[i]} catalog {extra[i][0]} files {extra[i][1]}; "
            f"{len(dis)} disagreements; Props_C14.connect_total_and_exact no longer tied to conn.py",
            {"case": specs[i], "model": [outs, {k: sorted(v) for k, v in cat.items()}, alldbs], "impl": [impl[i], {k: sorted(v) for k, v in extra[i][0].items()}, extra[i][1]],
             "theorem": "Props_C14.connect_total_and_exact"}, no_input=True)
    ck.cov["distinct_nontrivial"] = len({core.show(c) for c, s in zip(cases, specs) if s[3][0][0] is not None})
    ck.cov["samples"] += [{"spec": specs[j], "observed": impl[j]} for j in (7, n_single // 2, len(specs) - 1)]
    return ck.finish(rule="complete product of storage mode x prior state x flags x database/schema spellings (incl. '_' names next to look-alikes, INFORMATION_SCHEMA, MAIN) "
                          "+ random sequences of 2-3 connects; non-trivial = a database argument is given; distinct by encoded case")


if __name__ == "__main__":
    sys.exit(main())
