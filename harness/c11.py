"""C11 - VARIANT/OBJECT/ARRAY values behave as JSON documents."""
from __future__ import annotations

import json
import re
import sys

import core
import fsutil
from core import S, Check, unstr

KEYS = ["a", "b", "c", "K", "k y", "k.z", "0", "é", "x_1", "a[0]", "A", "k", "B"]   # case variants: element names are case-sensitive
STRS = ["x", "x y", "Str", "", "it's", 'q"t', "a\\b", "é\U0001F600", " pad ", "1", "true", "null"]
IDENT = re.compile(r"^[A-Za-z_][A-Za-z0-9_]*$")


def gen_doc(rng, depth=0):
    r = rng.random()
    if depth >= 3 or r < 0.35:
        k = rng.random()
        if k < 0.3:
            return rng.randint(-5, 100)
        if k < 0.65:
            return rng.choice(STRS)
        if k < 0.8:
            return rng.random() < 0.5
        if k < 0.9:
            return None
        return [] if rng.random() < 0.5 else {}
    if r < 0.65:
        return [gen_doc(rng, depth + 1) for _ in range(rng.randint(0, 4))]
    ks = rng.sample(KEYS, rng.randint(1, 4))
    return {k: gen_doc(rng, depth + 1) for k in ks}


def enc_json(d):
    if d is None:
        return [0]
    if isinstance(d, bool):
        return [1, int(d)]
    if isinstance(d, int):
        return [2, d]
    if isinstance(d, str):
        return [3, S(d)]
    if isinstance(d, list):
        return [4, [enc_json(x) for x in d]]
    return [5, [[S(k), enc_json(v)] for k, v in d.items()]]


def dec_json(x):
    t = x[0]
    if t == 0:
        return None
    if t == 1:
        return bool(x[1])
    if t == 2:
        return x[1]
    if t == 3:
        return unstr(x[1])
    if t == 4:
        return [dec_json(e) for e in x[1]]
    return {unstr(k): dec_json(v) for k, v in x[1]}


def gen_path(rng, doc):
    """a walk through the document, possibly leaving it; steps as (kind, value, syntax)"""
    p, cur = [], doc
    for _ in range(rng.randint(1, 5)):
        r = rng.random()
        if isinstance(cur, dict) and cur and r < 0.8:
            k = rng.choice(list(cur))
            nxt = cur[k]
        elif isinstance(cur, list) and cur and r < 0.8:
            k = rng.randrange(len(cur))
            nxt = cur[k]
        elif r < 0.9:
            k, nxt = rng.choice(KEYS), None          # missing key / key on a non-object
        else:
            k, nxt = rng.randint(0, 6), None         # index out of range / index on a non-array
        if isinstance(k, int):
            p.append((2, k, "idx"))
        else:
            forms = ["bracket", "quoted"] + (["colon"] * 3 if IDENT.match(k) else [])
            f = rng.choice(forms)
            p.append((1 if f == "quoted" else 0, k, f))
        if nxt is None and not (isinstance(cur, (dict, list)) and cur):
            break
        cur = nxt
        if cur is None:
            break
    return p


def render_path(p):
    out = ""
    for i, (kind, v, form) in enumerate(p):
        if form == "idx":
            out += f"[{v}]"
        elif form == "bracket":
            out += "['" + v.replace("\\", "\\\\").replace("'", "\\'") + "']"
        elif form == "quoted":
            out += (":" if i == 0 else ".") + '"' + v + '"'
        else:
            out += (":" if i == 0 else ".") + v
    return out


def py_nav(doc, p):
    cur = doc
    for kind, v, _ in p:
        if kind == 2:
            if not isinstance(cur, list) or v >= len(cur):
                return None
            cur = cur[v]
        else:
            if not isinstance(cur, dict) or v not in cur:
                return None
            cur = cur[v]
    return cur


def lit_json(doc):
    return "parse_json('" + json.dumps(doc, ensure_ascii=False).replace("\\", "\\\\").replace("'", "\\'") + "')"


def main():
    ck = Check("C11", "Json", "run_c11")
    ck.prepare()
    ck.trusted.append("modelled, not verified: DuckDB's JSON type, -> / ->> operators, JSONPath lexer (modelled as parse_path), json_array_length, to_json(struct), UNNEST(CAST(x AS JSON[])), "
                      "sqlglot's rendering of bracket/colon access into a JSONPath string; decimal printing/parsing of array indices (one token in the model); JSON numbers are integers in the model")
    known = {f["id"]: f for f in ck.findings}
    reported = set()

    def report(key, msg, rep, no_input=False):
        if key not in reported and len(reported) < 4:
            reported.add(key)
            ck.violation(msg, rep, no_input=no_input)

    def known_or_report(fid, msg, rep):
        f = known.get(fid)
        if f:
            ck.known(fid, f["what"])
        else:
            report(fid, msg, rep)

    n = {"quick": 260, "thorough": 4000}[ck.tier]
    fs, conn = fsutil.fresh()
    cur = conn.cursor()
    cur.execute("create table j (id int, v variant)")

    def q(sql):
        try:
            return ("ok", conn.cursor().execute(sql).fetchall())
        except Exception as e:  # noqa: BLE001
            return ("err", f"{type(e).__name__}: {str(e)[:140]}")

    cases, obs, meta = [], [], []
    for i in range(n):
        doc = gen_doc(ck.rng)
        while not isinstance(doc, (dict, list)) or not doc:
            doc = gen_doc(ck.rng)
        p = gen_path(ck.rng, doc)
        if p[0][2] == "idx" and not isinstance(doc, list):
            p[0] = (0, "a", "colon")
        cur.execute("truncate table j")
        ins = q(f"insert into j select {i}, {lit_json(doc)}")
        if ins[0] != "ok":
            report("insert", f"storing the document {json.dumps(doc)} failed: {ins[1]}", {"doc": doc})
            continue
        path = render_path(p)
        o = {
            "json": q(f"select v{path} from j"),
            "text": q(f"select v{path}::varchar from j"),
            "lit": q(f"select {lit_json(doc)}{path}"),
            "size": q(f"select array_size(v{path}) from j"),
        }
        cases.append([enc_json(doc), [[k, S(v) if k != 2 else v] for k, v, _ in p]])
        obs.append(o)
        meta.append((doc, p, path))
        ck.count(f"depth:{len(p)}")
        for _, _, f in p:
            ck.count(f"step:{f}")
    mo = core.model_eval("run_c11", cases)
    ck.cov["evaluations"] += len(cases) * 4
    sample = sorted(ck.rng.sample(range(len(cases)), min(40, len(cases))))
    if core.kernel_failing("Json", "run_c11", [(cases[i], mo[i]) for i in sample], "C11"):
        raise core.MachineryError("kernel and extracted model disagree on run_c11")
    ck.kernel_checked += len(sample)
    n_dom = n_deep = 0
    for (doc, p, path), o, m in zip(meta, obs, mo):
        ptext, casts, dom, nav, extra = m
        rep = {"document": doc, "path": path, "observed": o, "steps": [(k, v) for k, v, _ in p]}
        want = py_nav(doc, p)
        n_dom += dom
        n_deep += len(p) >= 3
        if (nav == [] and want is not None) or (nav != [] and dec_json(nav[0]) != want):
            raise core.MachineryError(f"model's navigate {nav} and the Python oracle {want!r} disagree on {doc} {p}")
        bracket_first = p[0][2] in ("bracket", "idx") and len(p) > 1
        if bracket_first:
            # outside the model and a recorded finding: bracket/index directly on the column followed by further steps
            got0 = o["json"][1][0][0] if o["json"][0] == "ok" else "error"
            if o["json"][0] == "err" or (None if got0 is None else json.loads(got0)) != want:
                known_or_report("C11-bracket-first", f"`select v{path}` on {json.dumps(doc)[:80]}: {got0!r}, Python navigation gives {want!r}", rep)
            continue
        if o["json"][0] == "err":
            if not dom:
                known_or_report("C11-path-special-keys", f"`select v{path}`: {o['json'][1]}", rep)
            else:
                report("patherr", f"`select v{path}` on {json.dumps(doc)} raised {o['json'][1]}", rep)
            continue
        got = o["json"][1][0][0]
        got_v = None if got is None else json.loads(got)
        # (1) the model (renderer + DuckDB lexer + navigation) vs the implementation, inside dom_path (outside it DuckDB's
        #     treatment of '.', '[' and quotes inside keys is richer than the model's lexer; the Python oracle below still applies)
        if casts and dom:
            mj = casts[0]
            m_v = None if mj[0] == 0 else dec_json(mj[1])
            if got_v != m_v:
                report("model", f"`select v{path}` on {json.dumps(doc)}: implementation {got!r}, model {m_v!r} (path text {ptext})", dict(rep, theorem="Props_C11.path_correct_partial"), no_input=(got_v == want))
                continue
        # (2) the property: what navigating the same document in Python gives
        if got_v != want:
            if not dom:
                known_or_report("C11-path-special-keys", f"`select v{path}` gives {got!r}, Python navigation gives {want!r}", rep)
            else:
                report("nav", f"`select v{path}` on {json.dumps(doc)} gives {got!r}, navigating the document in Python gives {want!r}", rep)
            continue
        if o["lit"][0] != "ok" or (None if o["lit"][1][0][0] is None else json.loads(o["lit"][1][0][0])) != want:
            report("lit", f"path access on a literal document differs from the stored one: {o['lit']}", rep)
        # ::varchar: strings lose their quotes, nothing else changes
        if o["text"][0] != "ok":
            report("text", f"`select v{path}::varchar` raised {o['text'][1]}", rep)
        else:
            t = o["text"][1][0][0]
            ok = (t is None) if want is None else (t == want if isinstance(want, str) else (t is not None and json.loads(t) == want and not isinstance(json.loads(t), str)))
            if not ok:
                report("varchar", f"`select v{path}::varchar` on {json.dumps(doc)} gives {t!r}; the document has {want!r} there", rep)
        # ARRAY_SIZE
        if o["size"][0] == "ok":
            sz = o["size"][1][0][0]
            spec = len(want) if isinstance(want, list) else None
            model_sz = extra[0][0] if extra and extra[0] else None
            if not dom:
                # outside dom_path (keys with '.', '[' or quotes) the model's lexer is not DuckDB's: only the Python oracle applies
                if sz != spec and not (sz is None and spec == 0):
                    known_or_report("C11-path-special-keys", f"array_size(v{path}) = {sz}, the document has {want!r} there", rep)
            elif sz != model_sz:
                report("size-model", f"array_size(v{path}) = {sz}, model {model_sz}", dict(rep, theorem="Props_C11.array_size_partial"), no_input=(sz == spec))
            elif sz != spec:
                known_or_report("C11-array-size-empty", f"array_size(v{path}) = {sz} for {want!r}", rep)
        else:
            report("size", f"array_size(v{path}) raised {o['size'][1]}", rep)
    # (3) casts, functions and operator contexts over extracted values: Python is the oracle
    doc = {"a": {"b": [10, {"c": "x y"}, None, True, 7], "s": " Str ", "n": None, "e": {}, "l": []}, "k": "top", "num": 42, "t": True, "f": False, "neg": -3, "arr": ["p", "q r", "s"],
           "payload": json.dumps({"k": "Hi", "n": 7, "t": True})}
    cur.execute("truncate table j")
    cur.execute(f"insert into j select 1, {lit_json(doc)}")
    ctx = [
        ("v:num::int + 1", 43), ("v:num::int * 2 + v:neg::int", 81), ("-v:num::int", -42), ("v:num::int = 42 and v:t::boolean", True), ("not v:t::boolean", False),
        ("v:num::int in (41, 42)", True), ("v:k::varchar = 'top'", True), ("v:k::varchar = 'top' or v:num::int = 0", True), ("v:k::varchar || '!'", "top!"),
        ("upper(v:k)", "TOP"), ("lower(v:a.s::varchar)", " str "), ("trim(v:a.s::varchar)", "Str"), ("upper(v:a.b[1].c::varchar)", "X Y"), ("v:a.b[1].c::varchar = 'x y'", True),
        ("v:a.b[0]::int + v:a.b[4]::int", 17), ("v:a.b[3]::boolean and not v:f::boolean", True), ("v:a.n::varchar is null", True), ("v:missing::varchar is null", True),
        ("v:a.b[9] is null", True), ("v:k.x is null", True), ("v:num::int between 40 and 50", True), ("case when v:t::boolean then v:k::varchar else 'no' end", "top"),
        ("coalesce(v:missing::varchar, v:k::varchar)", "top"), ("v:num::int > 40 and v:num::int < 50", True), ("(v:num::int + 1) * 2", 86), ("v:arr[1]::varchar", "q r"),
        ("get_path(v, 'a.b[1].c')::varchar", "x y"), ("v:a:s::varchar", " Str "), ("v:num::varchar", "42"), ("v:t::varchar", "true"), ("length(v:k::varchar)", 3),
        ("try_parse_json('{bad') is null", True), ("parse_json('[1, 2]')[1]::int", 2), ("array_size(v:arr)", 3), ("array_size(v:a.b)", 5), ("array_size(split('a,b,c', ','))", 3),
        ("split('a,b', ',')[1]::varchar", "b"),
        ("parse_json(v:payload::varchar):k::varchar", "Hi"), ("parse_json(v:payload::varchar):n::int + 1", 8), ("parse_json(v:payload::varchar):t::boolean and v:t::boolean", True),
        ("object_construct('k', v:k::varchar):k::varchar", "top"), ("upper(parse_json(v:payload::varchar):k::varchar)", "HI"),
        ("object_construct('a', object_construct('b', 1, 'c', null))::varchar", '{"a":{"b":1}}'), ("object_construct('a', 1, 'b', null)::varchar", '{"a":1}'), ("object_construct('b', null)::varchar", "{}"),
    ]
    for expr, want in ctx:
        ck.cov["evaluations"] += 2
        r1 = q(f"select {expr} from j")
        r2 = q(f"select id from j where ({expr}) = {('true' if want else 'false') if isinstance(want, bool) else (repr(want) if not isinstance(want, str) else chr(39) + want + chr(39))}")
        if r1[0] != "ok" or r1[1][0][0] != want or type(r1[1][0][0]) is not type(want):
            report(f"ctx:{expr}", f"`select {expr}` on {json.dumps(doc)} gives {r1[1]!r}, expected {want!r}", {"document": doc, "expression": expr})
        elif r2[0] != "ok" or r2[1] != [(1,)]:
            report(f"where:{expr}", f"`where ({expr}) = {want!r}` selects {r2[1]!r}", {"document": doc, "expression": expr})
    # FLATTEN: every element once, in order; ::varchar on the value strips string quotes
    for pth, arr in (("v:a.b", doc["a"]["b"]), ("v:arr", doc["arr"]), ("v:a.l", [])):
        r = q(f"select f.value from j, lateral flatten(input => {pth}) f")
        rt = q(f"select f.value::varchar from j, lateral flatten(input => {pth}) f")
        ck.cov["evaluations"] += 2
        if r[0] != "ok" or [None if x[0] is None else json.loads(x[0]) for x in r[1]] != arr:
            report("flatten", f"lateral flatten(input => {pth}) yields {r[1]!r}, the array is {arr!r}", {"document": doc})
        want_t = [None if x is None else (x if isinstance(x, str) else json.dumps(x, separators=(",", ":"))) for x in arr]
        if rt[0] != "ok" or [x[0] for x in rt[1]] != want_t:
            report("flatten-text", f"f.value::varchar over {pth} yields {rt[1]!r}, expected {want_t!r}", {"document": doc})
    # several FLATTENs in one SELECT (arrays of arrays): every level's VALUE::varchar strips string quotes
    nested = [["a", "b"], ["c"], [], ["x y", 'q"t', 1, True, None]]
    cur.execute("truncate table j")
    cur.execute(f"insert into j select 2, {lit_json({'m': nested})}")
    r = q("select f.value, g.value, g.value::varchar, f.value::varchar from j, lateral flatten(input => v:m) f, lateral flatten(input => f.value) g")
    ck.cov["evaluations"] += 1
    want_rows = [(json.dumps(inner, separators=(",", ":")), None if x is None else json.dumps(x, separators=(",", ":")),
                  None if x is None else (x if isinstance(x, str) else json.dumps(x)), json.dumps(inner, separators=(",", ":"))) for inner in nested for x in inner]
    got_rows = r[1] if r[0] == "ok" else r[1]
    norm = lambda rows: [(json.loads(a), None if b is None else json.loads(b), c, json.loads(d)) for a, b, c, d in rows]  # noqa: E731
    key = lambda rows: sorted(map(repr, norm(rows)))  # noqa: E731  (SQL leaves the order of the joined rows open: compared as a multiset)
    if r[0] != "ok" or key(got_rows) != key(want_rows):
        report("flatten2", f"two LATERAL FLATTENs over {json.dumps(nested)}: got {got_rows!r}, iterating the document gives {want_rows!r}", {"document": nested})
    cur.execute("truncate table j")
    cur.execute(f"insert into j select 1, {lit_json(doc)}")
    # OBJECT_CONSTRUCT: model vs implementation vs specification
    oc_cases, oc_sql = [], []
    for _ in range(60 if ck.tier == "quick" else 600):
        pairs, args = [], []
        for k in ck.rng.sample(["a", "b", "c", "d"], ck.rng.randint(1, 4)):
            r = ck.rng.random()
            if r < 0.3:
                val = ck.rng.randint(0, 9)
                pairs.append([S(k), [0, enc_json(val)]])
                args.append(f"'{k}', {val}")
            elif r < 0.5:
                val = ck.rng.choice(["x", "y z"])
                pairs.append([S(k), [0, enc_json(val)]])
                args.append(f"'{k}', '{val}'")
            elif r < 0.7:
                pairs.append([S(k), [1]])
                args.append(f"'{k}', null")
            elif r < 0.85:
                pairs.append([S(k), [2, [enc_json(42)]]])
                args.append(f"'{k}', v:num")
            else:
                pairs.append([S(k), [2, []]])
                args.append(f"'{k}', v:a.n")
        oc_cases.append(pairs)
        oc_sql.append(f"select object_construct({', '.join(args)}) from j")
    oc_m = core.model_eval("run_c11_oc", oc_cases)
    for sql, m in zip(oc_sql, oc_m):
        ck.cov["evaluations"] += 1
        r = q(sql)
        fake, spec, dom = dec_json(m[0]), dec_json(m[1]), bool(m[2])
        if r[0] != "ok":
            report("oc-err", f"`{sql}` raised {r[1]}", {"sql": sql})
            continue
        got = json.loads(r[1][0][0])
        if got != fake:
            report("oc-model", f"`{sql}` gives {got}, model {fake}", {"sql": sql, "theorem": "Props_C11.object_construct_partial"}, no_input=(got == spec))
        elif got != spec:
            if dom:
                raise core.MachineryError("oc_fake <> oc_spec inside oc_dom")
            known_or_report("C11-object-construct-runtime-null", f"`{sql}` gives {got}; Snowflake drops the NULL-valued pair: {spec}", {"sql": sql})
    # forms recorded as findings
    for fid, sql, want in [("C11-chained-brackets", "select v['a']['s']::varchar from j", " Str "), ("C11-array-construct-mixed", "select array_construct(1, 'x')", '[1,"x"]'),
                           ("C11-table-flatten", "select value from table(flatten(input => parse_json('[1,2]')))", "1"), ("C11-flatten-index", "select f.index from j, lateral flatten(input => v:arr) f", 0),
                           ("C11-variant-string-varchar", "select parse_json('\"x\"')::varchar", "x"), ("C11-compare-variant-string", "select v:k = 'top' from j", True)]:
        r = q(sql)
        ck.cov["evaluations"] += 1
        if r[0] != "ok" or r[1][0][0] != want:
            known_or_report(fid, f"`{sql}`: {r[1] if r[0] == 'err' else r[1][0][0]!r}", {"sql": sql, "expected": want})
    fs.duck_conn.close()
    if n_dom < len(cases) * 0.4:
        raise core.MachineryError(f"only {n_dom}/{len(cases)} generated paths inside dom_path")
    ck.cov["distinct_nontrivial"] = n_deep
    ck.cov["inside_dom"] = n_dom
    ck.cov["samples"] += [{"document": meta[0][0], "path": meta[0][2]}, {"document": meta[1][0], "path": meta[1][2]}]
    return ck.finish(rule="random documents (depth <= 4, tricky keys and strings) x random walks (present, missing, wrong kind; colon / quoted / bracket / index syntax): v<path>, on a stored and on a "
                          "literal document, ::varchar, ARRAY_SIZE vs the model and vs Python navigation; 37 cast/function/operator contexts in the select list and in WHERE vs Python; FLATTEN order and "
                          "text; OBJECT_CONSTRUCT with literal / NULL-keyword / runtime values vs model and spec; non-trivial = paths of depth >= 3")


if __name__ == "__main__":
    sys.exit(main())
