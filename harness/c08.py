"""C08 - bound parameters arrive as data, whatever they contain."""
from __future__ import annotations

import datetime
import decimal
import itertools
import sys

import core
import fsutil
from core import S, Check, unstr

ALPHA = ["'", '"', "\\", "\n", "\r", "\t", "%", "$", "?", ";", "-", "/", "*", " ", "a", "n", "r", "s", "(", ")", ",", "\x08", "\x07", "\x0c", "\x0b",
         "ü", "😀", " ", "{", "}", ":", "@", "#", "=", "0", "1", "x", "X", "_", "."]
NASTY = ["'", "\\", "\n", "%", "$", "?", ";", "-", "s", "n", '"', "/"]


def strings(ck):
    out = [""] + ALPHA + [a + b for a in ALPHA for b in ALPHA]
    for _ in range(300 if ck.tier == "quick" else 20000):
        n = ck.rng.randint(3, 60 if ck.rng.random() < 0.2 else 8)
        out.append("".join(ck.rng.choice(ALPHA) if ck.rng.random() < 0.8 else chr(ck.rng.choice([ck.rng.randint(32, 126), ck.rng.randint(0xA0, 0x2FF), ck.rng.randint(0x1F300, 0x1F64F)]))
                           for _ in range(n)))
    out += ["q'; drop table t; --", "a\\'b", "\\\\", "%s", "%(x)s", "100%", "$V1", "/*c*/", "--c\n", "x''y", "\\n", "\\", "'", "''", "\\'"]
    return out


def lex_result(fn):
    try:
        return fn()
    except Exception:  # noqa: BLE001
        return []


def check_stages(ck: Check, strs):
    import duckdb
    from snowflake.connector.converter import SnowflakeConverter as C
    from sqlglot import exp
    from sqlglot.dialects.snowflake import Snowflake
    from sqlglot.tokens import TokenType

    reported = [False]

    def stage(name, run, cases, impl, kernel=25):
        dis = ck.correspond(cases, impl, label=name, run=run, kernel_sample=kernel)
        if dis and not reported[0]:
            reported[0] = True
            i = min(dis, key=lambda j: len(core.show(cases[j])))
            ck.violation(f"codec stage {name}: model {ck.model_obs[i]} vs implementation {impl[i]} on input {cases[i]} ({len(dis)} disagreements); "
                         f"the theorems of Props_C08 are no longer tied to this stage",
                         {"stage": name, "input": cases[i], "model": ck.model_obs[i], "impl": impl[i], "theorem": "Props_C08.structure_preserved / literal_roundtrip"}, no_input=True)

    enc = [S(s) for s in strs]
    stage("connector quote(escape(s))", "run_c08_quote", enc, [S(C.quote(C.escape(s))) for s in strs])
    # the Snowflake tokenizer on quoted parameters followed by text, and on raw adversarial literal texts
    tails = ["", " x", ", 'y'", ")", "\\", " -- c", ";"]
    texts = [C.quote(C.escape(s)) + tails[i % len(tails)] for i, s in enumerate(strs)]
    texts += ["'" + s + "'" + tails[i % len(tails)] for i, s in enumerate(strs) if len(s) <= 3]

    def sflex(text):
        toks = Snowflake().tokenize(text)
        t0 = toks[0]
        if t0.token_type != TokenType.STRING or t0.start != 0:
            return []
        return [S(t0.text), S(text[t0.end + 1:])]

    model_lex = core.model_eval("run_c08_sflex", [S(t) for t in texts])

    def sflex2(text, m):
        try:
            return sflex(text)
        except Exception:  # noqa: BLE001
            # what follows the first literal does not tokenize: check the literal alone, cut where the model says it ends
            if m:
                prefix = text[: len(text) - len(m[1])]
                r = lex_result(lambda: sflex(prefix))
                return [r[0], m[1]] if r and r[1] == [] else []
            return []

    stage("sqlglot Snowflake tokenizer", "run_c08_sflex", [S(t) for t in texts], [sflex2(t, m) for t, m in zip(texts, model_lex)])
    stage("sqlglot DuckDB generator", "run_c08_duckgen", enc, [S(exp.Literal.string(s).sql(dialect="duckdb")) for s in strs])
    stage("sqlglot Snowflake generator", "run_c08_sfgen", enc, [S(exp.Literal.string(s).sql(dialect="snowflake")) for s in strs])
    duck = duckdb.connect(":memory:")
    no_nul = [s for s in strs if "\x00" not in s][: 1500 if ck.tier == "quick" else None]
    lits = ["'" + s.replace("'", "''") + "'" for s in no_nul]

    def ducklex(text):
        r = duck.execute("select " + text).fetchone()
        return [S(r[0]), S("")]

    stage("DuckDB lexer", "run_c08_ducklex", [S(t) for t in lits], [lex_result(lambda t=t: ducklex(t)) for t in lits])
    # python % through the real cursor method
    fs, conn = fsutil.fresh()
    cur = conn.cursor()
    cmds = ["select %s", "select %s, %s", "select '100%%', %s", "insert into t values (%s, 1, %s)", "select %s%s", "select 1", "select %s -- c", "%s"]
    cases, impl = [], []
    for i, s in enumerate(strs[: 800 if ck.tier == "quick" else None]):
        cmd = cmds[i % len(cmds)]
        n = cmd.replace("%%", "").count("%s")
        params = [s, strs[(i * 7) % len(strs)]][:n]
        cases.append([S(cmd), [S(p) for p in params]])
        try:
            txt, rest = cur._rewrite_with_params(cmd, tuple(params) if params else None)  # noqa: SLF001
            impl.append([S(txt)] if (rest is None or not params) and (params or txt == cmd) else [])
            if not params:
                impl[-1] = []   # no params: the command is not %-formatted at all (python would turn %% into %)
                cases.pop()
                impl.pop()
        except Exception:  # noqa: BLE001
            impl.append([])
    stage("python % (cursor._rewrite_with_params)", "run_c08_bind", cases, impl)
    fs.duck_conn.close()


def hand_literal(v):
    """An independent spelling of the value as a Snowflake literal ('' doubling, raw newlines)."""
    if v is None:
        return "NULL"
    if isinstance(v, bool):
        return "TRUE" if v else "FALSE"
    if isinstance(v, (int, float)):
        return repr(v)
    if isinstance(v, decimal.Decimal):
        return "'" + str(v) + "'"
    if isinstance(v, datetime.datetime):
        return "'" + v.isoformat(sep=" ") + "'"
    if isinstance(v, (datetime.date, datetime.time)):
        return "'" + v.isoformat() + "'"
    if isinstance(v, str):
        return "'" + v.replace("\\", "\\\\").replace("'", "''") + "'"
    raise TypeError(v)


def check_e2e(ck: Check, strs):
    import snowflake.connector

    reported = [False]

    def report(msg, rep):
        if not reported[0]:
            reported[0] = True
            ck.violation(msg, rep)

    fs, conn = fsutil.fresh()
    cur = conn.cursor()
    cur.execute("create table c08_t (id int, v varchar, w varchar)")
    cur.execute("set v1 = 'var'")
    sel = [""] + ALPHA + [a + b for a in NASTY for b in NASTY] + [s for s in strs if len(s) > 2][: 150 if ck.tier == "quick" else 5000]
    # values that look like references to session variables (v1 is defined on this connection): data, never references
    sel = ["$v1", "US$5", "a$v1 b", "$V1% off", "$nope", "$1", "'$v1'", "x$$v1"] + sel
    sel = [s for s in sel if "\x00" not in s]
    rid = 0
    shared = {"i": 0, "v": "", "c": "const'\\q", "n": None, "k": 7}
    for s in sel:
        ck.cov["evaluations"] += 1
        ck.count("e2e:str")
        try:
            r = cur.execute("select %s as a, 7 as b", (s,)).fetchall()
            if r != [(s, 7)]:
                report(f"select %s, 7 with parameter {s!r} returned {r}", {"statement": "select %s as a, 7 as b", "params": [s], "observed": repr(r)})
            rid += 1
            other = sel[(rid * 13) % len(sel)]
            cur.execute("insert into c08_t values (%s, %s, %s)", (rid, s, other))
            # ONE dict object for all these executions, as a program with a 'row' dict does: two keys reassigned, one never (the values bound must
            # be the dict's values each time, and the dict must stay the caller's)
            shared["i"], shared["v"] = rid, s
            r = cur.execute("select v, w from c08_t where id = %(i)s and v = %(v)s", shared).fetchall()
            r2 = cur.execute("select %(v)s as v, %(c)s as c, %(n)s as n, %(k)s as k", shared).fetchall()
            if r != [(s, other)] or r2 != [(s, "const'\\q", None, 7)] or shared != {"i": rid, "v": s, "c": "const'\\q", "n": None, "k": 7}:
                bad_shared = dict(shared)
                shared.clear()
                shared.update({"i": 0, "v": "", "c": "const'\\q", "n": None, "k": 7})     # start again from the caller's values (a changed dict must not feed on itself)
                report(f"insert then select of {s!r}/{other!r} with one reused dict of parameters returned {r} / {r2}; the dict is now {str(bad_shared)[:300]}",
                       {"params": [rid, s, other], "observed": repr(r)[:500], "second": repr(r2)[:500], "dict_after": repr(bad_shared)[:500]})
            r = cur.execute("select id from c08_t where v in (%s) and id = %s", ([s, "zz"], rid)).fetchall()
            if r != [(rid,)]:
                report(f"IN list with {s!r} returned {r}", {"params": [[s, "zz"], rid], "observed": repr(r)})
            r = cur.execute("select $v1, %s", (s,)).fetchall()
            if r != [("var", s)]:
                report(f"`select $v1, %s` with parameter {s!r} returned {r}", {"params": [s], "observed": repr(r)})
        except Exception as e:  # noqa: BLE001
            report(f"binding the string {s!r} raised {type(e).__name__}: {str(e)[:200]}", {"params": [s], "exception": type(e).__name__})
    n = cur.execute("select count(*) from c08_t").fetchall()
    if n != [(rid,)]:
        report(f"{rid} single-row inserts with bound strings left {n} rows", {"observed": repr(n)})
    # other python types: bound == written as a literal
    vals = [0, 1, -5, 2**31, 2**63 - 1, 1.5, -0.25, 1e300, 1e-300, True, False, None, decimal.Decimal("1.50"), decimal.Decimal("-0.001"),
            datetime.date(2020, 1, 2), datetime.date(1969, 12, 31), datetime.datetime(2020, 1, 2, 3, 4, 5, 678), datetime.datetime(1960, 1, 1, 0, 0, 0),
            datetime.time(1, 2, 3), datetime.time(23, 59, 59, 999999)]
    for v in vals:
        for tmpl in ("select {0} as a", "select 1 as a where {0} is not distinct from {0}", "select {0} as a, {0} as b"):
            ck.cov["evaluations"] += 1
            ck.count(f"e2e:{type(v).__name__}")
            k = tmpl.count("{0}")
            try:
                got = cur.execute(tmpl.format("%s"), (v,) * k).fetchall()
                want = cur.execute(tmpl.format(hand_literal(v))).fetchall()
                if [tuple(map(fsutil.pyrepr, r)) for r in got] != [tuple(map(fsutil.pyrepr, r)) for r in want]:
                    report(f"`{tmpl.format('%s')}` with {v!r} returned {got}, the same statement with the literal {hand_literal(v)} returns {want}",
                           {"statement": tmpl.format("%s"), "params": [repr(v)] * k, "observed": repr(got), "literal_form": repr(want)})
            except Exception as e:  # noqa: BLE001
                report(f"binding {v!r} raised {type(e).__name__}: {str(e)[:200]}", {"params": [repr(v)]})
    # executemany = one execute per parameter set, in order
    rows = [(1000 + i, s, "m" if i % 2 else "$v1") for i, s in enumerate(sel[:40])]
    cur.execute("create table c08_m (id int, v varchar, w varchar)")        # its own table: in the thorough tier c08_t already holds ids >= 1000
    try:
        cur.executemany("insert into c08_m values (%s, %s, %s)", rows)
        r = cur.execute("select id, v, w from c08_m order by id").fetchall()
    except Exception as e:  # noqa: BLE001
        r = [f"{type(e).__name__}: {str(e)[:150]}"]
    ck.cov["evaluations"] += 1
    if r != rows:
        report(f"executemany of {len(rows)} rows stored {len(r)} rows / different values", {"rows": repr(rows[:5]), "observed": repr(r[:5])})
    # ... with dict parameter sets, a single set, and INSERT spelled the other way round
    cur.execute("create table c08_m2 (id int, v varchar)")
    try:
        cur.executemany("INSERT INTO c08_m2 (id, v) VALUES (%(i)s, %(v)s)", [{"i": i, "v": s} for i, s in enumerate(sel[:12])])
        cur.executemany("insert into c08_m2 values (%s, %s)", [(100, "$v1")])
        r2 = cur.execute("select id, v from c08_m2 order by id").fetchall()
    except Exception as e:  # noqa: BLE001
        r2 = f"{type(e).__name__}: {str(e)[:120]}"
    ck.cov["evaluations"] += 1
    if r2 != [(i, s) for i, s in enumerate(sel[:12])] + [(100, "$v1")]:
        report(f"executemany with dict parameter sets / a single set stored {str(r2)[:200]}", {"rows": repr(sel[:12]), "observed": repr(r2)[:400]})
    fs.duck_conn.close()
    # paramstyle is the one configured when the connection was made - also for cursors opened later
    old = snowflake.connector.paramstyle
    try:
        for made_with, later in (("qmark", "pyformat"), ("pyformat", "qmark"), ("format", "qmark"), ("numeric", "pyformat")):
            snowflake.connector.paramstyle = made_with
            fs, conn = fsutil.fresh()
            early = conn.cursor()
            snowflake.connector.paramstyle = later
            late = conn.cursor()
            for name, c in (("cursor opened before the change", early), ("cursor opened after the change", late)):
                ck.cov["evaluations"] += 1
                ck.count(f"paramstyle:{made_with}")
                try:
                    if made_with in ("qmark", "numeric"):
                        r = c.execute("select ?, ?" if made_with == "qmark" else "select ?, ?", ("a'b", 2)).fetchall()
                    else:
                        r = c.execute("select %s, %s", ("a'b", 2)).fetchall()
                    ok = r == [("a'b", 2)]
                except Exception as e:  # noqa: BLE001
                    r, ok = f"{type(e).__name__}: {str(e)[:100]}", False
                if not ok and made_with != "numeric":
                    report(f"connection made with paramstyle={made_with}, global changed to {later}: {name} gave {r}",
                           {"made_with": made_with, "changed_to": later, "cursor": name, "observed": repr(r)})
            fs.duck_conn.close()
    finally:
        snowflake.connector.paramstyle = old
    # qmark values go to the engine as prepared-statement values
    snowflake.connector.paramstyle = "qmark"
    try:
        fs, conn = fsutil.fresh()
        cur = conn.cursor()
        for s in [x for x in sel if len(x) <= 2][:200]:
            ck.cov["evaluations"] += 1
            r = cur.execute("select ?, 7", (s,)).fetchall()
            if r != [(s, 7)]:
                report(f"qmark: select ?, 7 with {s!r} returned {r}", {"params": [s], "observed": repr(r)})
        fs.duck_conn.close()
    finally:
        snowflake.connector.paramstyle = old


def check_known(ck: Check):
    fs, conn = fsutil.fresh()
    cur = conn.cursor()
    for fid, v in (("C08-nul", "a\x00b"), ("C08-inf-nan", float("inf")), ("C08-bytes", b"\x01\xab")):
        try:
            r = cur.execute("select %s", (v,)).fetchall()
            bad = not (r and r[0][0] == v and type(r[0][0]) is type(v))
        except Exception:  # noqa: BLE001
            bad = True
        f = ck.finding(fid)
        if bad and f:
            ck.known(fid, f["what"])
        elif bad:
            ck.violation(f"binding {v!r} does not arrive unchanged", {"params": [repr(v)]})
    fs.duck_conn.close()


def main():
    ck = Check("C08", "Codec", "run_c08_quote")
    ck.prepare()
    ck.trusted.append("modelled, not verified: the connector's escape/quote, python's % (only %s and %%), sqlglot's Snowflake tokenizer and both generators for string literals, "
                      "DuckDB's lexer - each compared separately with its model on every run; the rest of sqlglot's parse/transform/generate path is covered end to end only")
    strs = strings(ck)
    check_stages(ck, strs)
    check_e2e(ck, strs)
    check_known(ck)
    ck.cov["distinct_nontrivial"] = len({s for s in strs if any(c in s for c in "'\\\n%$?;")})
    ck.cov["exhaustive_space"] = f"all strings of length <= 2 over a {len(ALPHA)}-symbol alphabet of troublemakers ({1 + len(ALPHA) + len(ALPHA) ** 2}) through every codec stage"
    ck.cov["samples"] += [{"string": s} for s in (strs[50], strs[700], strs[-20])]
    return ck.finish(rule="every codec stage compared with the real function on all short strings over the troublemaker alphabet + random unicode; end to end: select / insert+select / "
                          "IN lists / dict parameters / session variables in the same statement / executemany / qmark / all python types vs hand-written literals / paramstyle snapshot; "
                          "non-trivial = strings containing a quote, backslash, newline, %, $, ? or ;")


if __name__ == "__main__":
    sys.exit(main())
