"""Translator: the integer dataflow of arrow.timestamp_to_sf_struct (pyarrow.compute calls on the timestamp column) read from
/repo/fakesnow/arrow.py with Python's ast and emitted as Coq terms over the combinators of Wire.v. Fails closed."""
import ast
import sys
from pathlib import Path


class Unsupported(Exception):
    pass


BIN = {"divide": "pa_divide", "multiply": "pa_multiply", "subtract": "pa_subtract", "add": "pa_add"}


def is_attr(node, base, name):
    return isinstance(node, ast.Attribute) and node.attr == name and isinstance(node.value, ast.Name) and node.value.id == base


def term(node, env):
    if isinstance(node, ast.Name):
        if node.id in ("ts", "col"):
            return "t"
        if node.id in env:
            return env[node.id]
        raise Unsupported(f"name {node.id}")
    if isinstance(node, ast.Constant) and isinstance(node.value, int) and not isinstance(node.value, bool):
        return str(node.value) if node.value >= 0 else f"({node.value})"
    if isinstance(node, ast.Call):
        f = node.func
        # x.cast(pa.int64()) / x.cast(pa.int32())
        if isinstance(f, ast.Attribute) and f.attr == "cast" and len(node.args) == 1 and not node.keywords:
            a = node.args[0]
            if isinstance(a, ast.Call) and is_attr(a.func, "pa", "int64") and not a.args:
                return term(f.value, env)
            if isinstance(a, ast.Call) and is_attr(a.func, "pa", "int32") and not a.args:
                return f"(pa_int32 {term(f.value, env)})"
            raise Unsupported(f"cast to {ast.unparse(a)}")
        if isinstance(f, ast.Attribute) and isinstance(f.value, ast.Name) and f.value.id == "pc":
            if f.attr == "floor_temporal" and len(node.args) == 1 and [(k.arg, getattr(k.value, "value", None)) for k in node.keywords] == [("unit", "second")]:
                return f"(pa_floor_second {term(node.args[0], env)})"
            if f.attr in BIN and len(node.args) == 2 and not node.keywords:
                return f"({BIN[f.attr]} {term(node.args[0], env)} {term(node.args[1], env)})"
        raise Unsupported(f"call {ast.unparse(node)[:80]}")
    raise Unsupported(f"expression {ast.unparse(node)[:80]}")


def translate(repo):
    tree = ast.parse((Path(repo) / "fakesnow" / "arrow.py").read_text())
    fn = next((n for n in tree.body if isinstance(n, ast.FunctionDef) and n.name == "timestamp_to_sf_struct"), None)
    if fn is None:
        raise Unsupported("timestamp_to_sf_struct not found")
    env = {}
    for st in fn.body:
        if isinstance(st, ast.Assign) and len(st.targets) == 1 and isinstance(st.targets[0], ast.Name):
            name = st.targets[0].id
            if name == "ts":
                continue              # ts = ts.combine_chunks(): the same values
            try:
                env[name] = term(st.value, env)
            except Unsupported:
                if name in ("epoch", "fraction"):
                    raise
    if "epoch" not in env or "fraction" not in env:
        raise Unsupported(f"assignments found: {sorted(env)}")
    # the struct must be built from exactly these two arrays (and the constant timezone)
    src = ast.unparse(fn)
    if "arrays=[epoch, fraction]" not in src or "arrays=[epoch, fraction, timezone]" not in src:
        raise Unsupported("StructArray.from_arrays is not built from [epoch, fraction(, timezone)]")
    # TIME columns: the branch of to_sf.to_sf_col guarded by pa.types.is_time(col.type)
    to_sf = next((n for n in tree.body if isinstance(n, ast.FunctionDef) and n.name == "to_sf"), None)
    inner = next((n for n in (to_sf.body if to_sf else []) if isinstance(n, ast.FunctionDef) and n.name == "to_sf_col"), None)
    time_term = None
    for node in ast.walk(inner) if inner else []:
        if isinstance(node, ast.If) and "is_time(col.type)" in ast.unparse(node.test):
            rets = [x for x in node.body if isinstance(x, ast.Return)]
            if len(rets) == 1:
                time_term = term(rets[0].value, {})
    if time_term is None:
        raise Unsupported("the is_time branch of to_sf_col was not found")
    return env["epoch"], env["fraction"], time_term


def token_slice(repo):
    """server.py: token = auth[<lo>:<hi>] - the two slice bounds"""
    tree = ast.parse((Path(repo) / "fakesnow" / "server.py").read_text())
    for node in ast.walk(tree):
        if isinstance(node, ast.Assign) and len(node.targets) == 1 and isinstance(node.targets[0], ast.Name) and node.targets[0].id == "token":
            v = node.value
            if isinstance(v, ast.Subscript) and isinstance(v.value, ast.Name) and v.value.id == "auth" and isinstance(v.slice, ast.Slice) and v.slice.step is None:
                lo, hi = v.slice.lower, v.slice.upper
                def num(x):
                    if isinstance(x, ast.Constant) and isinstance(x.value, int):
                        return x.value
                    if isinstance(x, ast.UnaryOp) and isinstance(x.op, ast.USub) and isinstance(x.operand, ast.Constant):
                        return -x.operand.value
                    raise Unsupported(f"slice bound {ast.unparse(x)}")
                return num(lo), num(hi)
    raise Unsupported("token = auth[lo:hi] not found in server.py")


def coq(repo):
    e, f, tm = translate(repo)
    lo, hi = token_slice(repo)
    if lo < 0 or hi >= 0:
        raise Unsupported(f"token slice auth[{lo}:{hi}] is not of the form [n:-m]")
    tok = f"(skipn {lo} auth)"
    for _ in range(-hi):
        tok = f"(removelast {tok})"
    return ("From FS Require Import Sexp Wire.\nFrom Coq Require Import Lia.\nOpen Scope Z_scope.\n"
            "Ltac Zify.zify_post_hook ::= Z.to_euclidean_division_equations.\n"
            f"Definition src_epoch (t : Z) : Z := {e}.\nDefinition src_fraction (t : Z) : Z := {f}.\nDefinition src_time (t : Z) : Z := {tm}.\n"
            "Theorem arrow_matches_source : forall t, src_epoch t = epoch t /\\ src_fraction t = fraction t /\\ src_time t = encode_time t.\n"
            "Proof.\n  intros t. repeat split; first [reflexivity | unfold src_epoch, src_fraction, src_time, epoch, fraction, encode_time, pa_divide, pa_multiply, pa_subtract, pa_add, pa_int32, pa_floor_second, M6; lia].\nQed.\n"
            "Print Assumptions arrow_matches_source.\n"
            f"Definition src_extract (auth : str) : str := {tok}.\n"
            "Theorem token_slice_matches_source : forall auth, src_extract auth = extract auth.\nProof. intros auth. reflexivity. Qed.\n"
            "Print Assumptions token_slice_matches_source.\n")


if __name__ == "__main__":
    print(coq(sys.argv[1]))
