"""C15 - session variables substitute exactly, per connection."""
from __future__ import annotations

import decimal
import itertools
import re
import sys

import core
import fsutil
from core import S, Check, unstr

NAMES = ["A", "AB", "ABC", "B", "VAR1", "VAR10", "X_1", "_Y", "A1"]
# (sql text as stored by fakesnow, python value it stands for)
VALUES = [("5", 5), ("-3", -3), ("'x y'", "x y"), ("1 + 2", 3), ("'it''s'", "it's"), ("''", ""), ("'Mixed Case'", "Mixed Case"),
          ("1.50", decimal.Decimal("1.50")), ("(SELECT 7)", 7), ("'10'", "10"), ("'a;b'", "a;b"), ("'--c'", "--c")]
RAW_VALUES = ["5", "'x'", "'a\\1b'", "'a\\\\g<0>b'", "'$5'", "'cost $A'", "$B", "A", "\\n", ""]
MSG = re.compile(r"^Session variable '(\$\w+)' does not exist$")


def respell(rng, s):
    return "".join(c.upper() if rng.random() < 0.5 else c.lower() for c in s)


# ----------------------------------------------------------------------------- unit level

def impl_inline(pairs, text):
    import snowflake.connector.errors as E
    from fakesnow.variables import Variables

    v = Variables()
    for n, val in pairs:
        v._set(n, val)  # noqa: SLF001
    try:
        return [0, S(v.inline_variables(text))]
    except E.ProgrammingError as e:
        m = MSG.match(e.raw_msg or "")
        return [1, S(m.group(1))] if m else [2, S(f"msg:{e.raw_msg}")]
    except Exception as e:  # noqa: BLE001
        return [2, S(type(e).__name__)]


def gen_text(rng, names):
    lits = [" ", ", ", "+", "select ", "'", "x", "1", "(", ")", ".", "a b", "$", "$$", "_", "=", "-- ", "\n", "''", "\\"]
    refs = names + ["C", "ZZ", "VAR", "VAR100", "A_", "1"]
    parts = []
    for _ in range(rng.randint(0, 7)):
        if rng.random() < 0.5:
            parts.append("$" + respell(rng, rng.choice(refs)))
        else:
            parts.append(rng.choice(lits))
    return "".join(parts)


def seg_text(rng, names):
    """A text inside the theorem's domain: literal segments without '$', references followed by a non-word char."""
    seps = [" ", ", ", "+", ")", " = ", "\n", "'", ".", ";", " || 'x$y' || ", " /* $c */ ", ' "q$r" ', " 'it''s $a' ", " $$raw $b$$ ", " -- $zz\n "]
    heads = ["select ", "", "x", "(", "1 ", "'", "select 'a $b', "]
    out = rng.choice(heads)
    refs = []
    for _ in range(rng.randint(1, 5)):
        r = respell(rng, rng.choice(names + ["C", "ZZ", "VAR", "AB1"]))
        refs.append(r)
        out += "$" + r
        if rng.random() < 0.85:
            out += rng.choice(seps) + rng.choice(["", "y", "2", " "])
        else:
            break
    return out, refs


def check_unit(ck: Check):
    cases, meta = [], []
    # exhaustive: all subsets of {A, AB, ABC, B} x all two-reference texts
    base = ["A", "AB", "ABC", "B"]
    refs = ["a", "A", "ab", "AB", "abc", "b", "c"]
    seps = [" ", ",", "+"]
    vals = {"A": "1", "AB": "'two'", "ABC": "3 + 3", "B": "4"}
    for k in range(len(base) + 1):
        for sub in itertools.permutations(base, k) if k <= 2 else itertools.combinations(base, k):
            pairs = [(n, vals[n]) for n in sub]
            for r1, sp, r2 in itertools.product(refs, seps, refs):
                cases.append((pairs, f"${r1}{sp}${r2}"))
                meta.append("exhaustive")
    n_exh = len(cases)
    n_rand = 2500 if ck.tier == "quick" else 60000
    for _ in range(n_rand):
        names = ck.rng.sample(NAMES, ck.rng.randint(0, 5))
        pool = [v[0] for v in VALUES] + (RAW_VALUES if ck.rng.random() < 0.4 else [])
        pairs = [(n, ck.rng.choice(pool)) for n in names]
        if ck.rng.random() < 0.6:
            cases.append((pairs, seg_text(ck.rng, names)[0]))
            meta.append("segments")
        else:
            cases.append((pairs, gen_text(ck.rng, names)))
            meta.append("raw")
    # corpus: the F3 witnesses
    cases += [([("VAR1", "5"), ("VAR10", "7")], "select $var10"), ([("B", "'a\\1b'")], "select $b"), ([("A", "1")], "select $ab, $A")]
    meta += ["corpus"] * 3
    enc = [[[[S(n), S(v)] for n, v in pairs], S(t)] for pairs, t in cases]
    obs = [impl_inline(p, t) for p, t in cases]
    for m in meta:
        ck.count(f"unit:{m}")
    ck.cov["exhaustive_space"] = f"{n_exh} = all ordered variable sets of size<=2 and all subsets of size 3-4 of {base} x all two-reference texts over {refs} x {seps}"
    # independent oracle on the theorem's domain: one-pass expansion in Python
    reported = False
    nontrivial = set()
    # (its own lexer, a regex alternation - not the code's character loop: complete literals, quoted identifiers, $$ strings, comments)
    prot = re.compile(r"""('(?:[^'\\]|\\.|'')*'|"(?:[^"]|"")*"|\$\$.*?\$\$|--[^\n]*|/\*.*?\*/)""", re.S)
    for (pairs, text), o in zip(cases, obs):
        d = dict(pairs)
        pieces = prot.split(text)           # even = SQL text proper, odd = protected
        plain = pieces[0::2]
        well_formed = not any(re.search(r"""['"]|--|/\*|\$\$""", p_) for p_ in plain)
        in_dom = well_formed                      # (any values: since the one-pass fix a value is inserted as it is and never scanned again)
        for p_ in plain:
            toks = re.split(r"(\$\w+)", p_)
            in_dom = in_dom and all(("$" not in t) if i % 2 == 0 else True for i, t in enumerate(toks)) and \
                all(toks[i + 1] != "" or i + 2 >= len(toks) for i in range(1, len(toks), 2) if i + 1 < len(toks))
        if not in_dom:
            ck.count("unit:outside-theorem-domain")
            continue
        ck.count("unit:inside-theorem-domain")
        if len(pieces) > 1:
            ck.count("unit:inside-domain-with-protected-pieces")
        exp, err = "", None
        toks = []
        for j, p_ in enumerate(pieces):
            if j % 2:
                exp += p_               # protected: character for character
                continue
            toks_p = re.split(r"(\$\w+)", p_)
            toks += toks_p
            for i, t in enumerate(toks_p):
                if i % 2 == 0:
                    exp += t
                elif t[1:].upper() in d:
                    exp += d[t[1:].upper()]
                else:
                    err = err or t.upper()
                    exp += t
        want = [1, S(err)] if err else [0, S(exp)]
        if len(toks) >= 5:
            nontrivial.add((tuple(pairs), text))
        if o != want and not reported:
            reported = True
            ck.violation(f"variables {pairs}, text {text!r}: inline_variables gave {show_res(o)}, one-pass expansion gives {show_res(want)}",
                         {"kind": "inline", "variables": pairs, "text": text, "observed": show_res(o), "expected": show_res(want)})
    ck.cov["distinct_nontrivial"] += len(nontrivial)
    dis = ck.correspond(enc, obs, label="inline", run="run_c15_inline")
    if dis and not reported:
        i = min(dis, key=lambda j: len(cases[j][1]) + 10 * len(cases[j][0]))
        ck.violation(
            f"inline_variables: model and implementation differ on variables {cases[i][0]} text {cases[i][1]!r}: "
            f"model {show_res(ck.model_obs[i])} impl {show_res(obs[i])}; {len(dis)} disagreements; Props_C15.inline_is_expand no longer tied to variables.py",
            {"kind": "inline-correspondence", "variables": cases[i][0], "text": cases[i][1], "model": show_res(ck.model_obs[i]),
             "impl": show_res(obs[i]), "theorem": "Props_C15.inline_is_expand"}, no_input=True)
    ck.cov["samples"].append({"variables": cases[n_exh + 5][0], "text": cases[n_exh + 5][1], "impl": show_res(obs[n_exh + 5])})


def show_res(o):
    return {0: "text", 1: "undefined", 2: "exception"}[o[0]] + ":" + unstr(o[1])


# ----------------------------------------------------------------------------- history level

def gen_history(rng):
    nconn = 2
    names = rng.sample(NAMES, rng.randint(2, 5))
    live = [dict() for _ in range(nconn)]
    past = [[] for _ in range(nconn)]
    ops = []
    for _ in range(rng.randint(4, 14)):
        c, k = rng.randrange(nconn), rng.randrange(2)
        x = rng.random()
        if x < 0.4:
            n = rng.choice(names)
            v = rng.choice(VALUES)
            if past[c] and rng.random() < 0.35:
                n, v = rng.choice(past[c])          # the byte-identical SET once more, after other statements changed or removed the variable
            past[c].append((n, v))
            live[c][n] = v
            ops.append(("set", c, k, n, v))
        elif x < 0.5 and live[c]:
            n = rng.choice(sorted(live[c]))
            del live[c][n]
            ops.append(("unset", c, k, n))
        else:
            refs = [rng.choice(names + ["ZZ"]) for _ in range(rng.randint(1, 3))]
            param = rng.choice([None, None, "pay $" + rng.choice(names).lower() + " now", "costs $5", "100%", "$ZZ", "it's"])
            ops.append(("use", c, k, [respell(rng, r) for r in refs], param))
    return nconn, ops


def attempt(cur, text):
    """SET / UNSET of a defined variable succeeds; anything it raises is an observation, not a harness crash"""
    try:
        cur.execute(text)
        return None
    except Exception as e:  # noqa: BLE001
        return ("exception", f"{text}: {type(e).__name__}: {e}"[:300])


def run_history(nconn, ops, mutate=None):
    import snowflake.connector.errors as E

    fs, _ = fsutil.fresh()
    conns = [fs.connect(database="DB1", schema="S1") for _ in range(nconn)]
    clean = fs.connect(database="DB1", schema="S1")
    curs = [[c.cursor(), c.cursor()] for c in conns]
    obs, enc_ops, texts = [], [], []
    for o in ops:
        if o[0] == "set":
            _, c, k, n, (sql, _py) = o
            obs.append(attempt(curs[c][k], f"SET {respell_kw(n)} = {sql}"))
            enc_ops.append([0, c, S(n.upper()), S(sql)])
            texts.append(None)
        elif o[0] == "unset":
            _, c, k, n = o
            obs.append(attempt(curs[c][k], f"UNSET {respell_kw(n)}"))
            enc_ops.append([1, c, S(n.upper())])
            texts.append(None)
        else:
            _, c, k, refs, param = o
            text = "select " + ", ".join(([] if param is None else ["%s"]) + [f"${r}" for r in refs])
            texts.append(text)
            enc_ops.append([2, c, S(text)])
            try:
                rows = curs[c][k].execute(text, None if param is None else (param,)).fetchall()
                obs.append(("rows", [[fsutil.pyrepr(v) for v in r] for r in rows]))
            except E.ProgrammingError as e:
                m = MSG.match(e.raw_msg or "")
                obs.append(("undefined", m.group(1)) if m else ("exception", f"ProgrammingError:{e.raw_msg}"))
            except Exception as e:  # noqa: BLE001
                obs.append(("exception", type(e).__name__))
    # hypothesis of Props_C15.set_then_reference: no connection's store holds two names that differ in letter case only
    stores = [getattr(getattr(c, "variables", None), "_variables", None) for c in conns]
    run_history.noncanon = [sorted(ns) for st in stores if isinstance(st, dict)
                            for ns in [[n for n in st if isinstance(n, str)]] if len({n.upper() for n in ns}) != len(ns)]
    run_history.inspected = sum(isinstance(st, dict) for st in stores)
    return enc_ops, obs, texts, clean


def respell_kw(n):
    return n.lower() if len(n) % 2 else n


def check_histories(ck: Check):
    n_h = 120 if ck.tier == "quick" else 3000
    hists = [gen_history(ck.rng) for _ in range(n_h)]
    # corpus: cross-cursor / cross-connection visibility
    hists.insert(0, (2, [("set", 0, 0, "A", VALUES[0]), ("use", 0, 1, ["a"], None), ("use", 1, 0, ["A"], None), ("set", 0, 1, "A", VALUES[2]),
                         ("use", 0, 0, ["a"], None), ("use", 0, 0, ["a"], "pay $a now"), ("unset", 0, 1, "A"), ("use", 0, 0, ["a"], None)]))
    # byte-identical SET / UNSET texts repeated after the variable was changed or removed by other texts
    hists.insert(1, (2, [("set", 0, 0, "A", VALUES[0]), ("set", 0, 0, "A", VALUES[1]), ("set", 0, 1, "A", VALUES[0]), ("use", 0, 0, ["a"], None), ("unset", 0, 0, "A"),
                         ("set", 0, 0, "A", VALUES[0]), ("use", 0, 1, ["A"], None), ("unset", 0, 0, "A"), ("use", 0, 0, ["a"], None), ("set", 1, 0, "A", VALUES[0]), ("use", 1, 1, ["a"], None)]))
    # the same cursor repeating the same statement text while ANOTHER cursor of the connection changes the variable
    hists.insert(1, (2, [("set", 0, 0, "A", VALUES[0]), ("use", 0, 0, ["a"], None), ("set", 0, 1, "A", VALUES[2]), ("use", 0, 0, ["a"], None), ("use", 0, 0, ["a"], None),
                         ("unset", 0, 1, "A"), ("use", 0, 0, ["a"], None), ("set", 1, 1, "A", VALUES[1]), ("use", 1, 0, ["a"], None), ("use", 0, 0, ["a"], None)]))
    # one variable SET, referenced and UNSET under different spellings of its name: there is one variable, the last SET wins
    hists.insert(1, (1, [("set", 0, 0, "Ab", VALUES[0]), ("set", 0, 1, "aB", VALUES[1]), ("use", 0, 0, ["ab", "AB", "Ab"], None), ("set", 0, 0, "AB", VALUES[2]),
                         ("use", 0, 1, ["aB"], None), ("unset", 0, 0, "ab"), ("use", 0, 0, ["Ab"], None), ("set", 0, 0, "ab", VALUES[1]), ("use", 0, 0, ["AB"], None)]))
    cases, all_obs, reported = [], [], False
    for nconn, ops in hists:
        enc_ops, obs, texts, clean = run_history(nconn, ops)
        case = [nconn, enc_ops]
        ck.count("hist:stores-inspected", run_history.inspected)
        if run_history.noncanon and not reported:
            reported = True
            ck.violation(f"history {ops}: a variable store holds two names that differ in letter case only: {run_history.noncanon}; "
                         "Props_C15.set_then_reference assumes one spelling per variable (a reference finds the first entry, not the last SET)",
                         {"kind": "store-names", "nconn": nconn, "ops": ops, "names": run_history.noncanon, "theorem": "Props_C15.set_then_reference"}, no_input=True)
        model = core.model_eval("run_c15_hist", [case])[0]
        ck.cov["evaluations"] += 1
        # independent oracle: python dictionaries of python values
        live = [dict() for _ in range(nconn)]
        for o, ob, mo, text in zip(ops, obs, model, texts):
            if o[0] in ("set", "unset") and ob is not None and not reported:
                reported = True
                ck.violation(f"history {ops}: {o[0].upper()} of {o[3]} on connection {o[1]} cursor {o[2]} raised {ob[1]}",
                             {"kind": "history-set-raises", "nconn": nconn, "ops": ops, "op": list(o[:4]), "observed": ob[1]})
            if o[0] == "set":
                live[o[1]][o[3].upper()] = o[4][1]
                continue
            if o[0] == "unset":
                del live[o[1]][o[3].upper()]
                continue
            refs, param = o[3], o[4]
            und = next((r for r in refs if r.upper() not in live[o[1]]), None)
            want = ("undefined", "$" + und.upper()) if und else \
                ("rows", [([] if param is None else [fsutil.pyrepr(param)]) + [fsutil.pyrepr(live[o[1]][r.upper()]) for r in refs]])
            ck.count("hist:use-undefined" if und else "hist:use-defined")
            if ob != want and not reported:
                reported = True
                ck.violation(f"history {ops}: `{text}` on connection {o[1]} cursor {o[2]} gave {ob}, expected {want}",
                             {"kind": "history", "nconn": nconn, "ops": ops, "statement": text, "observed": ob, "expected": want})
            # correspondence: the model's inlined text, executed where no variable exists, must give the same answer
            mres = mo[0]
            if mres[0] == 1:
                mob = ("undefined", unstr(mres[1]))
            else:
                try:
                    rows = clean.cursor().execute(unstr(mres[1]), None if o[4] is None else (o[4],)).fetchall()
                    mob = ("rows", [[fsutil.pyrepr(v) for v in r] for r in rows])
                except Exception as e:  # noqa: BLE001
                    mob = ("exception", type(e).__name__)
            if mob != ob and not reported:
                reported = True
                ck.violation(f"history {ops}: `{text}`: implementation gave {ob}; the model's substitution {unstr(mres[1])!r} gives {mob}",
                             {"kind": "history-correspondence", "nconn": nconn, "ops": ops, "statement": text, "impl": ob, "model_text": unstr(mres[1]),
                              "model_result": mob, "theorem": "Props_C15.per_connection / inline_is_expand"}, no_input=True)
        cases.append(case)
        all_obs.append(model)
    ck.cov["distinct_nontrivial"] += len({core.show(c) for c in cases})
    # kernel cross-check of the history model on a sample
    idx = ck.rng.sample(range(len(cases)), min(25, len(cases)))
    bad = core.kernel_failing(ck.module, "run_c15_hist", [(cases[i], all_obs[i]) for i in idx], "C15h")
    if bad:
        raise core.MachineryError("kernel and extracted model disagree on run_c15_hist")
    ck.kernel_checked += len(idx)
    ck.cov["samples"].append({"history": hists[1][1][:6]})


# ----------------------------------------------------------------------------- known findings

def check_known(ck: Check):
    import snowflake.connector.errors as E

    fs, conn = fsutil.fresh()
    cur = conn.cursor()
    f = ck.finding("C15-literal-dollar")
    try:
        rows = cur.execute("select 'cost $5'").fetchall()
        still = rows != [("cost $5",)]
    except E.ProgrammingError:
        still = True
    if still and f:
        ck.known(f["id"], f["what"])
    elif still:
        ck.violation("select 'cost $5' raises / rewrites text inside a string literal", {"kind": "known-class", "statement": "select 'cost $5'"})
    f = ck.finding("C15-backslash-value")
    cur.execute(r"set bsv = 'a\\b'")
    got = cur.execute("select $bsv").fetchall()
    direct = cur.execute(r"select 'a\\b'").fetchall()
    if got != direct:
        if f:
            ck.known(f["id"], f["what"])
        else:
            ck.violation(f"set bsv = 'a\\\\b'; select $bsv gives {got}, the literal itself gives {direct}",
                         {"kind": "known-class", "statements": [r"set bsv = 'a\\b'", "select $bsv"], "observed": got, "expected": direct})


def main():
    ck = Check("C15", "Vars", "run_c15_inline")
    ck.prepare()
    ck.trusted += [
        "modelled, not verified: Python re (leftmost non-overlapping sub, lookahead/lookbehind) on ASCII text; Unicode \\w and case folding are outside the model",
        "the value text a SET stores is sqlglot's re-rendering of the expression (harness uses values whose rendering is the identity)",
    ]
    check_unit(ck)
    check_histories(ck)
    check_known(ck)
    return ck.finish(rule="unit: Variables.inline_variables vs model on exhaustive prefix-name sets x two-reference texts + random segment/raw texts; "
                          "histories: SET/UNSET/use over 2 connections x 2 cursors through the public API; non-trivial = texts with >=2 references inside the "
                          "theorem's domain (distinct by (variables,text)) + distinct histories")


if __name__ == "__main__":
    sys.exit(main())
