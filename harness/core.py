"""Shared machinery of every check: Coq build + proof obligations, model evaluation
(extracted OCaml and kernel vm_compute), S-expression codec, known findings, evidence,
VIOLATION reporting.  Runs under /venv/bin/python (has fakesnow's dependencies)."""
from __future__ import annotations

import json
import os
import random
import re
import shutil
import subprocess
import sys
import time
from pathlib import Path

VERIF = Path(__file__).resolve().parent.parent
COQ = VERIF / "coq"
REPO = Path(os.environ.get("VERIF_REPO", "/repo")).resolve()
FSMODEL = COQ / "extract" / "fsmodel"
PY = "/venv/bin/python"

os.environ.setdefault("PYTHONHASHSEED", "0")
os.environ["FAKESNOW_VERIF"] = "1"


def use_repo() -> None:
    """Make `import fakesnow` resolve to $VERIF_REPO (default /repo), checked, not assumed."""
    p = str(REPO)
    if p in sys.path:
        sys.path.remove(p)
    sys.path.insert(0, p)
    os.environ["PYTHONPATH"] = p + (os.pathsep + os.environ["PYTHONPATH"] if os.environ.get("PYTHONPATH") else "")
    import fakesnow  # noqa: PLC0415

    f = Path(fakesnow.__file__).resolve()
    if REPO not in f.parents:
        raise SystemExit(f"machinery error: fakesnow imported from {f}, not from {REPO}")


# ----------------------------------------------------------------------------- sexp

def S(x):  # python value -> sexp (nested lists of ints)
    if isinstance(x, bool):
        return 1 if x else 0
    if isinstance(x, int):
        return x
    if isinstance(x, str):
        return [ord(c) for c in x]
    if isinstance(x, (list, tuple)):
        return [S(e) for e in x]
    raise TypeError(f"cannot encode {x!r}")


def opt(x):
    return [] if x is None else [S(x)]


def unstr(s) -> str:
    return "".join(chr(c) for c in s)


def show(x) -> str:
    if isinstance(x, int):
        return str(x)
    return "(" + " ".join(show(e) for e in x) + ")"


_tok = re.compile(r"\(|\)|-?\d+")


def parse(text: str):
    stack = [[]]
    for t in _tok.findall(text):
        if t == "(":
            stack.append([])
        elif t == ")":
            x = stack.pop()
            stack[-1].append(x)
        else:
            stack[-1].append(int(t))
    assert len(stack) == 1 and len(stack[0]) == 1, text[:200]
    return stack[0][0]


def coq_term(x) -> str:
    if isinstance(x, int):
        return f"A ({x})" if x < 0 else f"A {x}"
    return "L [" + "; ".join(coq_term(e) for e in x) + "]"


# ----------------------------------------------------------------------------- build

class MachineryError(Exception):
    pass


def sh(cmd, timeout=1200, cwd=None, check=True, env=None):
    r = subprocess.run(cmd, shell=isinstance(cmd, str), cwd=cwd, capture_output=True, text=True, timeout=timeout, env=env)
    if check and r.returncode != 0:
        raise MachineryError(f"command failed ({r.returncode}): {cmd}\n{r.stdout[-3000:]}\n{r.stderr[-3000:]}")
    return r


FORBIDDEN = re.compile(
    r"\b(Admitted|admit|Axiom|Axioms|Parameter|Parameters|Conjecture|Conjectures|Unset\s+Guard|bypass_check|"
    r"Unset\s+Positivity|Unset\s+Universe|Admit\s+Obligations|type-in-type|impredicative-set|native_compute)\b"
)


def grep_forbidden() -> list[str]:
    bad = []
    for f in list(COQ.rglob("*.v")) + [COQ / "_CoqProject"]:
        if "build" in f.parts:
            continue
        txt = f.read_text()
        # strip comments (non-nested is enough for this development's style)
        txt2 = re.sub(r"\(\*.*?\*\)", "", txt, flags=re.S)
        for m in FORBIDDEN.finditer(txt2):
            bad.append(f"{f.relative_to(VERIF)}: {m.group(0)}")
        if re.search(r"^\s*(Variable|Variables|Hypothesis|Hypotheses|Context)\b", txt2, flags=re.M):
            # allowed only inside a Section; cheap structural check
            depth = 0
            for line in txt2.splitlines():
                if re.match(r"\s*Section\b", line):
                    depth += 1
                elif re.match(r"\s*End\b", line) and depth > 0:
                    depth -= 1
                elif re.match(r"\s*(Variable|Variables|Hypothesis|Hypotheses|Context)\b", line) and depth == 0:
                    bad.append(f"{f.relative_to(VERIF)}: section-less {line.strip()[:40]}")
    return bad


def build(force: bool = False) -> None:
    """Full .vo build (coq_makefile, no -vos) + extraction + native driver."""
    lock = VERIF / "build" / ".lock"
    lock.parent.mkdir(exist_ok=True)
    import fcntl  # noqa: PLC0415

    with open(lock, "w") as lf:
        fcntl.flock(lf, fcntl.LOCK_EX)
        bad = grep_forbidden()
        if bad:
            raise MachineryError("forbidden vernacular: " + "; ".join(bad))
        if force or not (COQ / "Makefile").exists() or (COQ / "_CoqProject").stat().st_mtime > (COQ / "Makefile").stat().st_mtime:
            sh("coq_makefile -f _CoqProject -o Makefile", cwd=COQ)
        sh("timeout 1500 make -j16", cwd=COQ, timeout=1600)
        ex = COQ / "extract"
        srcs = [ex / "Extract.v", ex / "driver.ml"] + list((COQ / "theories").glob("*.vo"))
        if force or not FSMODEL.exists() or any(s.stat().st_mtime > FSMODEL.stat().st_mtime for s in srcs):
            sh("timeout 600 coqc -Q ../theories FS Extract.v", cwd=ex)
            names = sorted(set(re.findall(r"\brun_\w+", (ex / "Extract.v").read_text())))
            (ex / "dispatch.ml").write_text(
                "let table = [\n" + "".join(f'  ("{n}", Fsmodel.{n});\n' for n in names) + "]\n")
            sh("ocamlfind ocamlopt -w -a fsmodel.mli fsmodel.ml dispatch.ml driver.ml -o fsmodel", cwd=ex)


def compile_props(pid: str) -> dict:
    """Re-compile Props_<pid>.v from scratch; every theorem must be accepted and every
    Print Assumptions block must be closed (or list only the allowed primitives)."""
    f = COQ / "theories" / "props" / f"Props_{pid}.v"
    src = re.sub(r"\(\*.*?\*\)", "", f.read_text(), flags=re.S)
    theorems = re.findall(r"^\s*(?:Theorem|Lemma|Example|Corollary)\s+(\w+)", src, flags=re.M)
    prints = re.findall(r"Print Assumptions\s+(\w+)", src)
    missing = [t for t in theorems if t not in prints]
    if missing:
        raise MachineryError(f"{f.name}: no Print Assumptions for {missing}")
    out = VERIF / "build" / f"props-{pid}-{os.getpid()}"
    out.mkdir(parents=True, exist_ok=True)
    try:
        shutil.copy(f, out / f.name)
        t0 = time.time()
        r = sh(f"timeout 900 coqc -Q {COQ}/theories FS {f.name}", cwd=out, check=False, timeout=1000)
        if r.returncode != 0:
            raise MachineryError(f"{f.name} does not compile:\n{r.stdout[-2000:]}\n{r.stderr[-2000:]}")
        blocks = re.split(r"(?=Closed under the global context|Axioms:)", r.stdout)
        closed = r.stdout.count("Closed under the global context")
        axioms = []
        for b in blocks:
            if b.startswith("Axioms:"):
                axioms.append(" ".join(b.split())[:400])
        return {
            "file": str(f.relative_to(VERIF)),
            "theorems": theorems,
            "closed": closed,
            "axiom_blocks": axioms,
            "coqc_s": round(time.time() - t0, 1),
        }
    finally:
        shutil.rmtree(out, ignore_errors=True)


# ----------------------------------------------------------------------------- model evaluation

def model_eval(name: str, inputs: list) -> list:
    """Evaluate extracted model `name` on every input (one per line)."""
    if not inputs:
        return []
    data = "\n".join(f"{name} {show(x)}" for x in inputs) + "\n"
    r = subprocess.run([str(FSMODEL)], input=data, capture_output=True, text=True, timeout=3600)
    if r.returncode != 0:
        raise MachineryError(f"fsmodel failed: {r.stderr[-2000:]}")
    lines = r.stdout.splitlines()
    if len(lines) != len(inputs):
        raise MachineryError(f"fsmodel returned {len(lines)} lines for {len(inputs)} inputs")
    return [parse(l) for l in lines]


def kernel_failing(module: str, run: str, pairs: list, tag: str) -> list[int]:
    """Inside coqc: indices i where `run (fst pairs[i]) <> snd pairs[i]` by vm_compute."""
    if not pairs:
        return []
    out = VERIF / "build" / f"kernel-{tag}-{os.getpid()}"
    out.mkdir(parents=True, exist_ok=True)
    try:
        failing: list[int] = []
        CH = 150
        files = []
        for k in range(0, len(pairs), CH):
            chunk = pairs[k : k + CH]
            body = ";\n ".join(f"({coq_term(a)}, {coq_term(b)})" for a, b in chunk)
            fn = out / f"cases_{k}.v"
            fn.write_text(
                f"From FS Require Import Sexp {module}.\nOpen Scope Z_scope.\n"
                f"Definition cases : list (sexp * sexp) := [\n {body}\n].\n"
                f"Eval vm_compute in (failing {run} cases).\n"
            )
            files.append((k, fn))
        procs = []
        for k, fn in files:
            procs.append((k, subprocess.Popen(
                f"ulimit -s unlimited; timeout 900 coqc -Q {COQ}/theories FS {fn.name}", shell=True, cwd=out,
                stdout=subprocess.PIPE, stderr=subprocess.PIPE, text=True)))
            if len(procs) >= 12:
                k0, p0 = procs.pop(0)
                failing += _kernel_collect(k0, p0)
        for k0, p0 in procs:
            failing += _kernel_collect(k0, p0)
        return sorted(failing)
    finally:
        shutil.rmtree(out, ignore_errors=True)


def _kernel_collect(k, p) -> list[int]:
    o, e = p.communicate()
    if p.returncode != 0:
        raise MachineryError(f"kernel evaluation failed: {o[-1500:]}\n{e[-1500:]}")
    m = re.search(r"=\s*\[(.*?)\]\s*:\s*list Z", o, flags=re.S)
    if not m:
        raise MachineryError(f"cannot parse kernel output: {o[-500:]}")
    return [k + int(x) for x in re.findall(r"-?\d+", m.group(1))]


# ----------------------------------------------------------------------------- check driver

TRUSTED_COMMON = [
    "Coq 8.16.1 kernel + vm_compute (no native_compute)",
    "axioms: none declared; Print Assumptions output recorded per theorem in coverage.assumption_blocks",
    "extraction: Require Extraction + ExtrOcamlBasic only (bool/option/unit/list/prod/sumbool natives; no Extract Constant), "
    "driver.ml S-expr reader/printer; cross-checked against kernel vm_compute on a sample and on every disagreement",
    "harness: Python generators, renderers, observation canonicalisers (harness/*.py)",
    "hand-written Gallina model tied to /repo by behavioural correspondence on this run's cases",
]


class Check:
    def __init__(self, pid: str, module: str, run: str):
        self.pid, self.module, self.run = pid, module, run
        self.tier = os.environ.get("VERIF_TIER", "quick")
        self.seed = int(os.environ.get("VERIF_SEED", "20260926"))
        self.replay = None
        self.t0 = time.time()
        self.rng = random.Random(self.seed)
        self.violations: list[dict] = []
        self.known_lines: list[str] = []
        self.cov: dict = {"evaluations": 0, "distinct_nontrivial": 0, "samples": [], "rule": ""}
        self.assumptions: list[str] = []
        self.trusted: list[str] = list(TRUSTED_COMMON)
        self.kernel_checked = 0
        self.findings = json.loads((VERIF / "known_findings.json").read_text()).get("findings", [])
        self.findings = [f for f in self.findings if f["property"] == pid]
        self.props = None
        self.n_replay = 0
        self.dist: dict = {}

    # -- setup
    def prepare(self):
        build()
        self.props = compile_props(self.pid)
        n = len(self.props["theorems"])
        if self.props["closed"] + len(self.props["axiom_blocks"]) != n:
            raise MachineryError(f"Print Assumptions blocks {self.props['closed']}+{len(self.props['axiom_blocks'])} != theorems {n}")
        use_repo()

    def count(self, key, n=1):
        self.dist[key] = self.dist.get(key, 0) + n

    # -- correspondence
    def correspond(self, cases: list, impl_obs: list, label: str = "", run: str | None = None, kernel_sample: int = 60):
        """cases: sexp inputs; impl_obs: sexp observations from the implementation.
        Returns list of indices where model != impl (after kernel confirmation of the model side)."""
        run = run or self.run
        model_obs = model_eval(run, cases)
        self.cov["evaluations"] += len(cases)
        dis = [i for i, (m, o) in enumerate(zip(model_obs, impl_obs)) if m != o]
        # kernel cross-check: a sample of all cases + every disagreement
        idx = list(range(len(cases)))
        sample = self.rng.sample(idx, min(kernel_sample, len(idx)))
        chosen = sorted(set(sample) | set(dis[:40]))
        small = [i for i in chosen if len(show(cases[i])) < 20000]
        bad = kernel_failing(self.module, run, [(cases[i], model_obs[i]) for i in small], f"{self.pid}{label}")
        if bad:
            raise MachineryError(f"extracted model and kernel disagree on {run} case {show(cases[small[bad[0]]])[:300]}")
        self.kernel_checked += len(small)
        self.model_obs = model_obs
        return dis

    # -- reporting
    def known(self, fid: str, what: str):
        line = f"KNOWN-FINDING: property={self.pid} {fid}: {what}"
        if line not in self.known_lines:
            self.known_lines.append(line)
            print(line, flush=True)

    def finding(self, fid: str):
        for f in self.findings:
            if f["id"] == fid:
                return f
        return None

    def violation(self, what: str, replay: dict, no_input: bool = False):
        d = VERIF / "evidence" / "replay"
        d.mkdir(parents=True, exist_ok=True)
        self.n_replay += 1
        p = d / f"{self.pid}-{self.n_replay}.json"
        replay = dict(replay, property=self.pid, what=what, seed=self.seed, tier=self.tier,
                      no_failing_input_found=no_input)
        p.write_text(json.dumps(replay, indent=1, default=str))
        self.violations.append({"what": what, "replay": str(p)})
        tail = " no-failing-input-found" if no_input else ""
        print(f"VIOLATION property={self.pid} replay={p}{tail}", flush=True)
        print(f"  -> {what}"[:600], flush=True)

    def finish(self, rule: str, level_text: str = ""):
        n = len(self.props["theorems"])
        self.cov["rule"] = rule
        self.cov.update(
            obligations=n,
            discharged=self.props["closed"] + len(self.props["axiom_blocks"]),
            checker_cmd=f"coqc -Q coq/theories FS coq/theories/props/Props_{self.pid}.v  (after coq_makefile full .vo build)",
            trusted_base=self.trusted,
            theorems=self.props["theorems"],
            assumption_blocks={"closed_under_global_context": self.props["closed"], "axioms": self.props["axiom_blocks"]},
            kernel_cross_checked=self.kernel_checked,
            input_distribution=self.dist,
            known_findings_reported=self.known_lines,
            props_coqc_s=self.props["coqc_s"],
        )
        self.cov["samples"] = self.cov["samples"][:8]
        ev = {
            "property_id": self.pid,
            "tier": self.tier if self.tier in ("quick", "thorough") else "quick",
            "seed": self.seed,
            "level": "proof",
            "coverage": self.cov,
            "assumptions": self.assumptions,
            "wall_s": round(time.time() - self.t0, 1),
            "violations": len(self.violations),
        }
        p = VERIF / "evidence" / f"{self.pid}.json"
        p.write_text(json.dumps(ev, indent=1, default=str))
        v = subprocess.run(
            ["python3-vt", "-c",
             "import json,sys,jsonschema; jsonschema.validate(json.load(open(sys.argv[1])), json.load(open('/root/.vp/EVIDENCE.schema.json')))",
             str(p)], capture_output=True, text=True)
        if v.returncode != 0 and "No such file" not in v.stderr and "not found" not in v.stderr:
            raise MachineryError(f"evidence does not validate: {v.stderr[-800:]}")
        print(f"{self.pid} {self.tier}: evaluations={self.cov['evaluations']} nontrivial={self.cov['distinct_nontrivial']} "
              f"theorems={n} kernel_checked={self.kernel_checked} violations={len(self.violations)} wall={ev['wall_s']}s", flush=True)
        return 1 if self.violations else 0


def shrink_list(xs: list, still_fails) -> list:
    """Greedy delta-debugging on a list."""
    xs = list(xs)
    n = 2
    while len(xs) >= 2:
        chunk = max(1, len(xs) // n)
        reduced = False
        for i in range(0, len(xs), chunk):
            cand = xs[:i] + xs[i + chunk:]
            if cand and still_fails(cand):
                xs = cand
                n = max(n - 1, 2)
                reduced = True
                break
        if not reduced:
            if chunk == 1:
                break
            n = min(len(xs), n * 2)
    return xs


def source_tie(tag: str, coq_text: str, n_theorems: int) -> tuple[bool, str]:
    """Compile a generated Coq file (definitions re-read from /repo's source + theorems tying them to the model): accepted iff coqc
    succeeds and every Print Assumptions says 'Closed under the global context'. Returns (accepted, tail of coqc's output)."""
    import shutil

    out = VERIF / "build" / f"tie-{tag}-{os.getpid()}"
    out.mkdir(parents=True, exist_ok=True)
    try:
        (out / "Tie.v").write_text(coq_text)
        r = subprocess.run(f"timeout 300 coqc -Q {COQ}/theories FS Tie.v", shell=True, cwd=out, capture_output=True, text=True)
        ok = r.returncode == 0 and r.stdout.count("Closed under the global context") == n_theorems
        return ok, (r.stdout + r.stderr)[-300:].strip()
    finally:
        shutil.rmtree(out, ignore_errors=True)
