"""C03 - names resolve against each connection's own current database and schema.
(The history runner is shared with C07.)"""
from __future__ import annotations

import re
import sys

import core
from core import S, Check, unstr

DBS = ["DB1", "DB2", "DB3"]
SCHEMAS = ["S1", "S2", "S3"]
TABLES = ["T", "U", "V"]
HIDDEN_DB = {"memory", "system", "temp", "_fs_global"}
HIDDEN_SCH = {"information_schema", "pg_catalog"}


def spell(rng, n):
    x = rng.random()
    if x < 0.3:
        return n.lower()
    if x < 0.5:
        return f'"{n}"'
    if x < 0.7:
        return n
    return "".join(ch.lower() if rng.random() < 0.5 else ch for ch in n)


def r_q(rng, q):
    return ".".join(spell(rng, p) for p in q)


def render(rng, op):
    k = op[0]
    kw = (lambda s: s.lower() if rng.random() < 0.5 else s)
    if k == "createdb":
        return kw("CREATE DATABASE ") + spell(rng, op[1])
    if k == "createschema":
        return kw("CREATE SCHEMA ") + r_q(rng, [x for x in (op[1], op[2]) if x])
    if k == "dropschema":
        return kw("DROP SCHEMA ") + r_q(rng, [x for x in (op[1], op[2]) if x])
    if k == "createtable":
        return kw("CREATE TABLE ") + r_q(rng, op[1]) + " (m varchar)"
    if k == "droptable":
        return kw("DROP TABLE ") + r_q(rng, op[1])
    if k == "select":
        v = op[2] if len(op) > 2 else 0
        q = r_q(rng, op[1])
        return [f"SELECT m FROM {q}", f"select m from {q} where m is not null", f"INSERT INTO {q} SELECT m FROM {q} WHERE 1 = 0",
                f"update {q} set m = m where 1 = 0", f"DELETE FROM {q} WHERE 1 = 0", f"select x.m from {q} x join {q} y on x.m = y.m",
                f"select m from (select m from {q})"][v % 7]
    if k == "usedb":
        return kw("USE DATABASE ") + spell(rng, op[1])
    if k == "useschema":
        return kw("USE SCHEMA ") + r_q(rng, [x for x in (op[1], op[2]) if x])
    if k == "current":
        return "SELECT CURRENT_DATABASE(), CURRENT_SCHEMA()"
    if k == "reconnect":
        cs = (lambda n: rng.choice([n.lower(), n, "".join(ch.lower() if rng.random() < 0.5 else ch for ch in n)]))
        return f"-- new session: connect(database='{cs(op[1])}', schema='{cs(op[2])}')"
    raise ValueError(op)


def enc_op(c, op):
    k = op[0]
    if k == "createdb":
        return [c, 0, [], S(op[1])]
    if k == "createschema":
        return [c, 1, core.opt(op[1]), S(op[2])]
    if k == "dropschema":
        return [c, 2, core.opt(op[1]), S(op[2])]
    if k == "createtable":
        return [c, 3, [], [S(p) for p in op[1]]]
    if k == "droptable":
        return [c, 4, [], [S(p) for p in op[1]]]
    if k == "select":
        return [c, 5, [], [S(p) for p in op[1]]]
    if k == "usedb":
        return [c, 6, [], S(op[1])]
    if k == "useschema":
        return [c, 7, core.opt(op[1]), S(op[2])]
    if k == "reconnect":
        return [c, 9, S(op[1]), S(op[2])]
    return [c, 8, [], []]


class Instance:
    def __init__(self):
        from fakesnow.instance import FakeSnow

        self.fs = FakeSnow()
        self.conns = [self.fs.connect(database="db1", schema="s1"), self.fs.connect(database="DB1", schema="S2"), self.fs.connect()]
        # a session that named a database which does not exist (yet) and could not create it
        self.fs.create_database_on_connect = False
        self.conns.append(self.fs.connect(database="db2"))
        self.fs.create_database_on_connect = True
        # a second session without any database: each session has its OWN engine context, also when it started with none
        self.conns.append(self.fs.connect())
        self.admin = self.fs.duck_conn.cursor()

    def ctx(self, c):
        conn = self.conns[c]
        d, s = conn._duck_conn.execute("select current_database(), current_schema()").fetchone()  # noqa: SLF001
        return [core.opt(conn.database), core.opt(conn.schema), S(bool(conn.database_set)), S(bool(conn.schema_set)), S(d.upper()), S(s.upper())]

    def catalog(self):
        cat = {}
        for d, s in self.admin.execute("select catalog_name, schema_name from information_schema.schemata").fetchall():
            if d in HIDDEN_DB or s in HIDDEN_SCH:
                continue
            cat.setdefault(d.upper(), {}).setdefault(s.upper(), [])
        for d, s, t in self.admin.execute("select table_catalog, table_schema, table_name from information_schema.tables where table_type = 'BASE TABLE'").fetchall():
            if d in HIDDEN_DB or s in HIDDEN_SCH or t.startswith("_fs_"):
                continue
            cat[d.upper()][s.upper()].append(t)
        return cat

    def close(self):
        self.fs.duck_conn.close()


def canon_cat(cat):
    return sorted((d, sorted((s, sorted(ts)) for s, ts in ss.items())) for d, ss in cat.items())


def enc_cat(cat):
    return [[S(d), [[S(s), [S(t) for t in ts]] for s, ts in ss.items()]] for d, ss in cat.items()]


def dec_cat(x):
    return sorted((unstr(d), sorted((unstr(s), sorted(unstr(t) for t in ts)) for s, ts in ss)) for d, ss in x)


def in_dom(inst, c, op):
    """Python mirror of CtxProofs.dom, evaluated on the implementation's actual contexts."""
    ctxs = [inst.ctx(k) for k in range(len(inst.conns))]
    cdb, csch, dset, sset, edb, esch = ctxs[c]
    if op[0] == "usedb":
        return not csch and not sset
    if op[0] == "useschema" and op[1] is None:
        return bool(dset)
    if op[0] == "dropschema":
        return all((not k[1] or unstr(k[1][0]) != op[2]) and unstr(k[5]) != op[2] for k in ctxs)
    return True


def run_history(rng, hist, texts=None, gen=0):
    """hist: [(conn, op)] - or, with gen=n, n statements generated adaptively inside the domain;
    returns (world0 sexp, [(result, ctx, catalog)], sql texts)."""
    import snowflake.connector.errors as E

    inst = Instance()
    try:
        cat0 = inst.catalog()
        world0 = [enc_cat(cat0), [inst.ctx(c) for c in range(len(inst.conns))]]
        out, sqls = [], []
        i = -1
        while True:
            i += 1
            if gen:
                if i >= gen:
                    break
                for _ in range(50):
                    c, op = rng.choice((0, 1, 2, 2, 3, 4, 4)), gen_op(rng, inst.catalog())
                    if in_dom(inst, c, op):
                        break
                else:
                    c, op = 0, ("current",)
                hist.append((c, op))
            elif i >= len(hist):
                break
            c, op = hist[i]
            sql = texts[i] if texts else render(rng, op)
            sqls.append(sql)
            before = inst.catalog()
            try:
                if op[0] == "reconnect":
                    # the slot's session is replaced by a new one on the same instance (names as the text spells them)
                    d_, s_ = re.search(r"database='([^']*)', schema='([^']*)'", sql).groups()
                    inst.conns[c] = inst.fs.connect(database=d_, schema=s_)
                    rows = []
                else:
                    cur = inst.conns[c].cursor().execute(sql)
                    rows = cur.fetchall()
                if op[0] == "select":
                    v = op[2] if len(op) > 2 else 0
                    if v % 7 in (0, 1, 5, 6):
                        res = [1] + [S(p) for p in rows[0][0].split(".")] if len(rows) == 1 and rows[0][0] else [9, S(repr(rows))]
                    else:
                        # DML forms reach the table but return a status row: identify the table through a plain select
                        r2 = inst.conns[c].cursor().execute(f"select m from {sql_q(sql)}").fetchall()
                        res = [1] + [S(p) for p in r2[0][0].split(".")]
                elif op[0] == "current":
                    res = [2, S(rows[0][0].upper() if rows[0][0] else ""), S(rows[0][1].upper() if rows[0][1] else "")]
                else:
                    res = [0]
            except E.ProgrammingError as e:
                res = [3, e.errno, S(e.sqlstate or "")]
            except Exception as e:  # noqa: BLE001
                res = [8, S(type(e).__name__)]
            after = inst.catalog()
            if op[0] == "createtable" and res == [0]:
                # mark the new table with its own identity, through the admin cursor and a fully qualified name
                new = [(d, s, t) for d, ss in after.items() for s, ts in ss.items() for t in ts if t not in before.get(d, {}).get(s, [])]
                for d, s, t in new:
                    inst.admin.execute(f"insert into \"{d}\".\"{s if s != 'MAIN' else 'main'}\".\"{t}\" values ('{d}.{s}.{t}')")
            out.append((res, inst.ctx(c), canon_cat(after)))
        return world0, out, sqls
    finally:
        inst.close()


def sql_q(sql):
    import re

    m = re.search(r"(?:INTO|update|FROM)\s+((?:\"?\w+\"?\.){0,2}\"?\w+\"?)", sql, flags=re.I)
    return m.group(1)


def gen_op(rng, cat=None):
    cat = cat or {}

    def pick_db():
        return rng.choice(sorted(cat)) if cat and rng.random() < 0.75 else rng.choice(DBS)

    def pick_sch(d=None):
        ss = [s for s in (cat.get(d) or {}) if s != "MAIN"] if d else sorted({s for v in cat.values() for s in v if s != "MAIN"})
        return rng.choice(ss) if ss and rng.random() < 0.75 else rng.choice(SCHEMAS)

    def q():
        x = rng.random()
        t = rng.choice(TABLES)
        if x < 0.4:
            return [t]
        if x < 0.7:
            return [pick_sch(), t]
        d = pick_db()
        return [d, pick_sch(d), t]

    x = rng.random()
    if x < 0.06:
        return ("createdb", rng.choice(DBS))
    if x < 0.2:
        return ("createschema", rng.choice([None, None, pick_db()]), rng.choice(SCHEMAS))
    if x < 0.26:
        return ("dropschema", rng.choice([None, None, pick_db()]), pick_sch())
    if x < 0.44:
        return ("createtable", q())
    if x < 0.5:
        return ("droptable", q())
    if x < 0.72:
        return ("select", q(), rng.randrange(7))
    if x < 0.78:
        return ("usedb", pick_db())
    if x < 0.9:
        d = rng.choice([None, None, pick_db()])
        return ("useschema", d, pick_sch(d))
    if x < 0.95:
        d = pick_db()
        return ("reconnect", d, pick_sch(d))
    return ("current",)


def model_expect(world0, hist):
    case = [world0[0], world0[1], [enc_op(c, op) for c, op in hist]]
    return case


def oracle(hist, out):
    """Coherence on the implementation's own observations + guards + shared objects."""
    for (c, op), (res, ctx, cat) in zip(hist, out):
        cdb, csch, dset, sset, edb, esch = ctx
        cdb = unstr(cdb[0]) if cdb else None
        csch = unstr(csch[0]) if csch else None
        edb, esch = unstr(edb), unstr(esch)
        if res[0] == 8:
            return f"connection {c}: {op} raised engine exception {unstr(res[1])}"
        if op[0] == "reconnect" and (res != [0] or not dset or not sset or (cdb, csch, edb, esch) != (op[1], op[2], op[1], op[2])):
            return (f"slot {c}: a new session connect(database={op[1]}, schema={op[2]}) gave result {res}, conn.database/schema={cdb}/{csch} "
                    f"(set: {bool(dset)}/{bool(sset)}), CURRENT_DATABASE()/CURRENT_SCHEMA()={edb}/{esch}: the context must be set at connect")
        if op[0] == "usedb" and res == [0] and (not dset or cdb != op[1]):
            return f"connection {c}: USE DATABASE {op[1]} succeeded but conn.database={cdb}, database_set={bool(dset)}"
        if op[0] == "useschema" and res == [0] and (not sset or csch != op[2]):
            return f"connection {c}: USE SCHEMA {op[2]} succeeded but conn.schema={csch}, schema_set={bool(sset)}"
        if dset and cdb != edb:
            return f"connection {c} after {op}: conn.database={cdb} but CURRENT_DATABASE()={edb}"
        if sset and (not dset or csch != esch):
            return f"connection {c} after {op}: conn.schema={csch} (database_set={bool(dset)}) but CURRENT_SCHEMA()={esch}"
        if op[0] == "select" and res[0] == 1 and dset:
            got = [unstr(p) for p in res[1:]]
            q = op[1]
            want = [cdb, csch, q[0]] if len(q) == 1 else ([cdb] + q if len(q) == 2 else q)
            if got != want:
                return f"connection {c} (context {cdb}.{csch}): {'.'.join(q)} reached table {'.'.join(got)}, the qualified name is {'.'.join(map(str, want))}"
        if op[0] == "current" and res[0] == 2 and dset and sset and [unstr(res[1]), unstr(res[2])] != [cdb, csch]:
            return f"connection {c}: CURRENT_DATABASE()/CURRENT_SCHEMA() = {unstr(res[1])}.{unstr(res[2])} but conn reports {cdb}.{csch}"
    return None


KNOWN = [
    ("C03-use-database-stale-schema", [(0, ("usedb", "DB1")), (0, ("current",))], ["use database db1", "select current_database(), current_schema()"]),
    ("C03-drop-current-schema", [(0, ("useschema", None, "S2")), (0, ("dropschema", None, "S2")), (0, ("createtable", ["ZZ"]))],
     ["use schema s2", "drop schema s2", "create table zz (m varchar)"]),
]


def check_known(ck):
    for fid, hist, texts in KNOWN:
        _, out, _ = run_history(ck.rng, hist, texts)
        msg = oracle(hist, out)
        if fid == "C03-drop-current-schema" and msg is None:
            res = out[-1][0]
            msg = None if res == [3, 90106, S("22000")] else f"after dropping the current schema an unqualified CREATE TABLE gave {res}, expected 90106"
        f = ck.finding(fid)
        if msg and f:
            ck.known(fid, f["what"])
        elif msg:
            ck.violation(f"{texts}: {msg}", {"statements": texts, "observed": out})
    # kind-less USE and DROP DATABASE
    import snowflake.connector.errors as E

    inst = Instance()
    try:
        cur = inst.conns[0].cursor()
        cur.execute("create database dbx")
        cur.execute("use dbx")
        ctx = inst.ctx(0)
        if unstr(ctx[0][0]) != unstr(ctx[4]):
            f = ck.finding("C03-use-without-kind")
            ck.known(f["id"], f["what"]) if f else ck.violation("`use dbx` changed the engine's database but not conn.database", {"statements": ["use dbx"], "ctx": ctx})
        try:
            cur.execute("drop database dbx")
        except E.ProgrammingError:
            pass
        except Exception as e:  # noqa: BLE001
            f = ck.finding("C03-drop-database-unsupported")
            ck.known(f["id"], f["what"]) if f else ck.violation(f"drop database raised {type(e).__name__}", {"statements": ["drop database dbx"]})
        cur.execute("use schema db1.s1")
        cur.execute("create table db1.main.tm (m varchar)")
        try:
            cur.execute("select * from tm")
            f = ck.finding("C03-main-fallback")
            ck.known(f["id"], f["what"]) if f else ck.violation("unqualified TM resolved to DB1.MAIN.TM from context DB1.S1", {"statements": ["create table db1.main.tm (m varchar)", "select * from tm"]})
        except E.ProgrammingError:
            pass
    finally:
        inst.close()


def main():
    ck = Check("C03", "Ctx", "run_c03")
    ck.prepare()
    ck.trusted.append("modelled, not verified: DuckDB's catalog, name resolution (search path = the SET schema; the fallback to <db>.main is outside the domain), "
                      "error classes (Binder for unknown catalog, Catalog otherwise), sqlglot's parsing of the rendered names")
    n_h = 90 if ck.tier == "quick" else 2500
    hists = [None] * n_h
    # corpus: qualified USE SCHEMA (fix c952ca0), a session without database
    hists.insert(0, [(0, ("useschema", "DB1", "S2")), (2, ("useschema", "DB1", "S1")), (2, ("select", ["T"], 0)), (2, ("createtable", ["T"])), (2, ("select", ["T"], 0)),
                     (0, ("createdb", "DB2")), (0, ("createschema", "DB2", "S1")), (0, ("useschema", "DB2", "S1")), (0, ("current",)), (0, ("createtable", ["T"])),
                     (1, ("select", ["DB2", "S1", "T"], 0)), (0, ("select", ["S1", "T"], 2)), (2, ("select", ["S1", "T"], 0)),
                     (3, ("select", ["S1", "T"], 0)), (3, ("usedb", "DB2")), (3, ("select", ["S1", "T"], 0)), (3, ("useschema", None, "S1")), (3, ("select", ["T"], 0))])
    # corpus: byte-identical statement texts repeated on one connection after its context changed in between
    fixed_texts = {1: ["use schema s1", "create database db2", "create schema db2.s2", "create schema db2.s1", "use schema db2.s2", "use schema s1",
                       "SELECT CURRENT_DATABASE(), CURRENT_SCHEMA()", "create table t9 (m varchar)", "SELECT m FROM t9", "SELECT m FROM DB2.S1.T9", "use schema db1.s2",
                       "use schema s1", "SELECT CURRENT_DATABASE(), CURRENT_SCHEMA()", "SELECT m FROM t9", "create table t9 (m varchar)", "SELECT m FROM t9", "SELECT m FROM DB1.S1.T9"]}
    hists.insert(1, [(0, ("useschema", None, "S1")), (1, ("createdb", "DB2")), (1, ("createschema", "DB2", "S2")), (1, ("createschema", "DB2", "S1")), (0, ("useschema", "DB2", "S2")),
                     (0, ("useschema", None, "S1")), (0, ("current",)), (0, ("createtable", ["T9"])), (0, ("select", ["T9"], 0)), (1, ("select", ["DB2", "S1", "T9"], 0)),
                     (0, ("useschema", "DB1", "S2")), (0, ("useschema", None, "S1")), (0, ("current",)), (0, ("select", ["T9"], 0)), (0, ("createtable", ["T9"])), (0, ("select", ["T9"], 0)),
                     (1, ("select", ["DB1", "S1", "T9"], 0))])
    # corpus: new sessions opened in the middle of the history - after the instance has seen connects, creations and drops
    hists.insert(2, [(2, ("reconnect", "DB3", "S9")), (2, ("createtable", ["T"])), (3, ("reconnect", "DB1", "S2")), (0, ("dropschema", "DB3", "S9")), (2, ("reconnect", "DB1", "S1")),
                     (3, ("reconnect", "DB3", "S9")), (3, ("current",)), (3, ("createtable", ["T"])), (3, ("select", ["T"], 0)), (2, ("select", ["DB3", "S9", "T"], 0)),
                     (1, ("dropschema", "DB3", "S9")), (1, ("reconnect", "DB3", "S9")), (1, ("current",)), (1, ("createtable", ["U"])), (3, ("select", ["DB3", "S9", "U"], 0))])
    # corpus: two sessions that started without a database go to different places
    hists.insert(3, [(2, ("usedb", "DB1")), (2, ("useschema", None, "S1")), (0, ("createdb", "DB2")), (0, ("createschema", "DB2", "S2")), (4, ("usedb", "DB2")), (4, ("useschema", None, "S2")),
                     (2, ("current",)), (4, ("current",)), (2, ("createtable", ["TA"])), (4, ("createtable", ["TB"])), (2, ("select", ["TA"], 0)), (4, ("select", ["TB"], 0)),
                     (0, ("select", ["DB1", "S1", "TA"], 0)), (0, ("select", ["DB2", "S2", "TB"], 0)), (2, ("current",))])
    cases, impl = [], []
    reported = False
    for hi, h in enumerate(hists):
        if h is None:
            h = hists[hi] = []
            world0, out, sqls = run_history(ck.rng, h, gen=ck.rng.randint(12, 30))
        else:
            world0, out, sqls = run_history(ck.rng, h, texts=fixed_texts.get(hi))
        cases.append([world0[0], world0[1], [enc_op(c, op) for c, op in h]])
        impl.append((out, sqls))
        for (c, op), (res, _, _) in zip(h, out):
            ck.count(f"op:{op[0]}")
            ck.count(f"result:{'ok' if res[0] in (0, 1, 2) else res[1] if res[0] == 3 else 'exc'}")
        msg = oracle(h, out)
        if msg and not reported:
            reported = True
            ck.violation(f"history {sqls}: {msg}", {"history": [(c, s) for (c, _), s in zip(h, sqls)], "observed": [o[:2] for o in out]})
    model = core.model_eval("run_c03", cases)
    ck.cov["evaluations"] += len(cases)
    dis = []
    for i, (m, (out, sqls)) in enumerate(zip(model, impl)):
        for j, (ms, (res, ctx, cat)) in enumerate(zip(m, out)):
            mres, mctx, mcat = ms
            ires = res[:2] if res[0] == 3 else res
            if mres != ires or mctx != ctx or dec_cat(mcat) != [(d, ss) for d, ss in cat]:
                dis.append((i, j))
                break
    idx = sorted(set(ck.rng.sample(range(len(cases)), min(30, len(cases)))) | {i for i, _ in dis[:10]})
    if core.kernel_failing(ck.module, "run_c03", [(cases[i], model[i]) for i in idx], "C03"):
        raise core.MachineryError("kernel and extracted model disagree on run_c03")
    ck.kernel_checked += len(idx)
    if dis and not reported:
        i, j = dis[0]
        out, sqls = impl[i]
        ms = model[i][j]
        ck.violation(
            f"model and implementation differ at step {j} `{sqls[j]}` (connection {hists[i][j][0]}) of history {sqls[:j + 1]}: model result {ms[0]} ctx {ms[1]} catalog {dec_cat(ms[2])}; "
            f"impl result {out[j][0]} ctx {out[j][1]} catalog {out[j][2]}; {len(dis)} histories disagree; Props_C03 theorems no longer tied to the code",
            {"history": [(c, s) for (c, _), s in zip(hists[i], sqls[:j + 1])], "model": [ms[0], ms[1], dec_cat(ms[2])], "impl": list(out[j]),
             "theorem": "Props_C03.coh_reachable_partial / resolve_coherent / guards_exact"}, no_input=True)
    check_known(ck)
    ck.cov["distinct_nontrivial"] = len({core.show(c[2]) for c in cases})
    ck.cov["samples"].append({"history": [(c, s) for (c, _), s in zip(hists[1], impl[1][1])][:10], "results": [o[0] for o in impl[1][0]][:10]})
    return ck.finish(rule="random multi-connection histories with new sessions opened at any point (5 connection slots: DB1.S1, DB1.S2, two without database, one that named a database that did not exist; 3 databases x 3 schemas x 3 tables; "
                          "names rendered with random case/quoting; seven statement forms per table reference) kept inside the theorem's domain by a generator-side mirror of `dom`; "
                          "after EVERY statement the result, the reported context, the engine's current schema and the full catalog are compared; distinct by encoded history")


if __name__ == "__main__":
    sys.exit(main())
