"""Helpers to drive the real fakesnow from /repo."""
from __future__ import annotations

import datetime
import decimal


def fresh(database="DB1", schema="S1", **kw):
    from fakesnow.instance import FakeSnow

    fs = FakeSnow(**kw)
    conn = fs.connect(database=database, schema=schema)
    return fs, conn


def dict_cursor_class():
    from snowflake.connector.cursor import DictCursor

    return DictCursor


def pyrepr(v):
    """Canonical, type-carrying text of a fetched Python value."""
    if v is None:
        return "None"
    if isinstance(v, bool):
        return f"bool:{v}"
    if isinstance(v, int):
        return f"int:{v}"
    if isinstance(v, float):
        return f"float:{v.hex()}"
    if isinstance(v, decimal.Decimal):
        return f"Decimal:{v}"
    if isinstance(v, str):
        return f"str:{v}"
    if isinstance(v, (bytes, bytearray)):
        return f"bytes:{bytes(v).hex()}"
    if isinstance(v, datetime.datetime):
        return f"datetime:{v.isoformat()}"
    if isinstance(v, datetime.date):
        return f"date:{v.isoformat()}"
    if isinstance(v, datetime.time):
        return f"time:{v.isoformat()}"
    return f"{type(v).__name__}:{v!r}"
