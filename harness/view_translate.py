"""Translator: the CASE arms of the view _fs_columns_snowflake, read from /repo/fakesnow/info_schema.py with sqlglot. Fails closed."""
import ast
import sys
from pathlib import Path

import sqlglot
from sqlglot import exp


class Unsupported(Exception):
    pass


def view_sql(repo):
    tree = ast.parse((Path(repo) / "fakesnow" / "info_schema.py").read_text())
    for node in tree.body:
        if isinstance(node, ast.Assign) and any(isinstance(t, ast.Name) and t.id == "SQL_CREATE_INFORMATION_SCHEMA_COLUMNS_VIEW" for t in node.targets):
            call = node.value
            if isinstance(call, ast.Call) and len(call.args) == 1 and isinstance(call.args[0], ast.Constant):
                return call.args[0].value.replace("${catalog}", "cat")
    raise Unsupported("SQL_CREATE_INFORMATION_SCHEMA_COLUMNS_VIEW = Template('...') not found")


def tests_of(cond):
    """a condition = OR of starts_with(columns.data_type, 'lit') / columns.data_type = 'lit' tests"""
    if isinstance(cond, exp.Or):
        return tests_of(cond.left) + tests_of(cond.right)
    if isinstance(cond, exp.Paren):
        return tests_of(cond.this)
    if isinstance(cond, exp.StartsWith) and isinstance(cond.this, exp.Column) and cond.this.name.lower() == "data_type" and isinstance(cond.expression, exp.Literal):
        return [(True, cond.expression.this)]
    if isinstance(cond, exp.EQ) and isinstance(cond.left, exp.Column) and cond.left.name.lower() == "data_type" and isinstance(cond.right, exp.Literal) and cond.right.is_string:
        return [(False, cond.right.this)]
    raise Unsupported(f"condition {cond.sql()}")


def arms(case, kind):
    if not isinstance(case, exp.Case) or case.this is not None:
        raise Unsupported(f"{kind}: not a searched CASE")
    out = []
    for i in case.args["ifs"]:
        res = i.args["true"]
        if kind == "name":
            if not (isinstance(res, exp.Literal) and res.is_string):
                raise Unsupported(f"name result {res.sql()}")
            r = res.this
        else:
            if isinstance(res, exp.Null):
                r = None
            elif isinstance(res, exp.Literal) and not res.is_string:
                r = int(res.this)
            else:
                raise Unsupported(f"numeric result {res.sql()}")
        for pre, pat in tests_of(i.this):
            out.append((pre, pat, r))
    d = case.args.get("default")
    return out, (d.sql() if d is not None else None)


def translate(repo):
    e = sqlglot.parse_one(view_sql(repo), read="duckdb")
    sel = e.find(exp.Select)
    got = {}
    for x in sel.expressions:
        if isinstance(x, exp.Alias) and x.alias.lower() in ("data_type", "numeric_precision", "numeric_scale"):
            got[x.alias.lower()] = x.this
    if set(got) != {"data_type", "numeric_precision", "numeric_scale"}:
        raise Unsupported(f"columns found: {sorted(got)}")
    name, dflt = arms(got["data_type"], "name")
    if dflt is None or "data_type" not in dflt.lower():
        raise Unsupported(f"data_type default {dflt}")
    prec, d2 = arms(got["numeric_precision"], "num")
    scale, d3 = arms(got["numeric_scale"], "num")
    if d2 is None or "numeric_precision" not in d2.lower() or d3 is None or "numeric_scale" not in d3.lower():
        raise Unsupported(f"numeric defaults {d2} {d3}")
    if any(pre for pre, _, _ in prec + scale):
        raise Unsupported("prefix test in a numeric CASE")
    return name, [(p, r) for _, p, r in prec], [(p, r) for _, p, r in scale]


if __name__ == "__main__":
    print(translate(sys.argv[1]))
