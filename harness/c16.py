"""C16 - execute_string equals one-by-one execution; nop_regexes only no-op matches."""
from __future__ import annotations

import logging
import re
import sys

import core
import fsutil
from core import S, Check, unstr

LIT_ALPHA = ["'", "\\", ";", "-", "-", "/", "*", "$", "\n", " ", "a", "b", '"', "%", "ü", "😀", "n", "(", ")", ","]


def g_lit(rng):
    return "".join(rng.choice(LIT_ALPHA) for _ in range(rng.randint(0, 7)))


def sf_quote(s):
    return "'" + s.replace("\\", "\\\\").replace("'", "''") + "'"


def g_comment(rng):
    body = "".join(rng.choice([" ", "c", ";", "'", "x", "*", "-"]) for _ in range(rng.randint(0, 5)))
    x = rng.random()
    if x < 0.4:
        return f"-- {body}\n"
    if x < 0.55:
        return f"// {body}\n"
    return "/* " + body.replace("*/", "* /") + " */"


def g_stmt(rng, k):
    """(text, intended statement text without decoration, expected kind)"""
    x = rng.random()
    lit = g_lit(rng)
    if x < 0.45:
        core_sql = f"select {sf_quote(lit)} as v, {k} as k"
    elif x < 0.6:
        raw = lit.replace("$$", "$ $")
        core_sql = f"select $${raw}$$ as v, {k} as k" if not raw.endswith("$") and "\\" not in raw else f"select {sf_quote(lit)} as v, {k} as k"
    elif x < 0.8:
        core_sql = f"insert into c16_t values ({k}, {sf_quote(lit)})"
    elif x < 0.9:
        core_sql = f'select {k} as "a;b", {sf_quote(lit)} as v'
    else:
        core_sql = f"select {k} - 1 as k, 6 / 2 as h, {sf_quote(lit)} as v"
    return core_sql


def decorate(rng, stmts):
    parts = []
    for s in stmts:
        t = s
        if rng.random() < 0.3:
            t = g_comment(rng) + " " + t
        if rng.random() < 0.3:
            t = t + " " + g_comment(rng)
        t = rng.choice(["", " ", "\n", "\n  "]) + t + rng.choice(["", " ", "\n"])
        parts.append(t)
        x = rng.random()
        if x < 0.15:
            parts.append(rng.choice(["", " ", "\n"]))          # empty statement
        elif x < 0.25:
            parts.append(" " + g_comment(rng).rstrip("\n") + "\n")   # comment-only statement
    text = ";".join(parts)
    if rng.random() < 0.5:
        text += ";"
    return text


def real_split(text, comments=True):
    import sqlglot
    from sqlglot import exp

    return [e.sql(dialect="snowflake", comments=comments) for e in sqlglot.parse(text, read="snowflake") if e and not isinstance(e, exp.Semicolon)]


def check_split(ck: Check):
    import sqlglot.errors

    n = 500 if ck.tier == "quick" else 15000
    texts = []
    for _ in range(n):
        stmts = [g_stmt(ck.rng, k) for k in range(ck.rng.randint(1, 5))]
        texts.append(decorate(ck.rng, stmts))
    texts += ["select 1; select '", "select 1 /* open ; select 2", "select $$a;b; select 2", "", ";", " ; ;", "select 1", "select ';'", "select 1;-- c", "select 'a\\';b';select 2",
              'select "x;y" from (select 1 as "x;y"); select 2', "select 1 -- c ; x\n; select 2", "select 1 // c ; x\r; select 2", "select /* a /* b */ 1; select 2"]
    cases, impl = [], []
    for t in texts:
        try:
            impl.append(real_split(t, comments=False))
            cases.append(t)
        except sqlglot.errors.TokenError:
            impl.append(None)
            cases.append(t)
        except sqlglot.errors.ParseError:
            continue
    model = core.model_eval("run_c16_split", [S(t) for t in cases])
    ck.cov["evaluations"] += len(cases)
    dis = []
    for i, (m, real, t) in enumerate(zip(model, impl, cases)):
        if not m:
            if real is not None:
                dis.append(i)
            continue
        try:
            pieces = [x for p in m[0] for x in real_split(unstr(p), comments=False)]
        except Exception:  # noqa: BLE001
            pieces = ["<model piece does not parse>"]
        if real is None or pieces != real:
            dis.append(i)
        ck.count(f"split:pieces={min(len(real or []), 6)}")
    idx = sorted(set(ck.rng.sample(range(len(cases)), 40)) | set(dis[:10]))
    if core.kernel_failing("Codec Split", "run_c16_split", [(S(cases[i]), model[i]) for i in idx], "C16"):
        raise core.MachineryError("kernel and extracted model disagree on run_c16_split")
    ck.kernel_checked += len(idx)
    # the fallback splitter of execute_string (conn._split_statements, fix 62d0ba5: used when a statement does not parse) cuts at the same
    # places as the model - compared token by token, on every text that tokenizes (whether or not it parses)
    import sqlglot

    from fakesnow.conn import _split_statements

    def toks(t_):
        return [(x.token_type.name, x.text) for x in sqlglot.tokenize(t_, read="snowflake")]

    bad_fb = None
    extra = ["select 1; delete from t wher k = 1; select 2", "select 1 +; select 2", "select (1; select 2", "select 1;;; select 'a;b' +", "-- c\n; select 1 +"]
    fb_cases = list(cases) + extra
    fb_model = list(model) + core.model_eval("run_c16_split", [S(t_) for t_ in extra])
    for t, m in zip(fb_cases, fb_model):
        if not m:
            continue
        try:
            fb = [toks(x) for x in _split_statements(t)]
            want_fb = [tk for tk in (toks(unstr(p_)) for p_ in m[0]) if tk]
        except Exception:  # noqa: BLE001  (texts that do not tokenize are outside both)
            continue
        ck.cov["evaluations"] += 1
        ck.count("split:fallback")
        if fb != want_fb and bad_fb is None:
            bad_fb = (t, _split_statements(t), [unstr(p_) for p_ in m[0]])
    if bad_fb:
        ck.violation(f"execute_string's fallback splitter cuts {bad_fb[0]!r} into {bad_fb[1]}, the model into {bad_fb[2]}; Props_C16.split_join no longer covers the fallback path",
                     {"text": bad_fb[0], "impl": bad_fb[1], "model": bad_fb[2], "theorem": "Props_C16.split_join"}, no_input=True)
    if dis:
        i = min(dis, key=lambda j: len(cases[j]))
        ck.violation(f"statement splitting: sqlglot gives {impl[i]} for {cases[i]!r}, the model cuts it into {[unstr(p) for p in model[i][0]] if model[i] else None}; "
                     f"{len(dis)} disagreements; Props_C16.split_join no longer tied to the code",
                     {"text": cases[i], "impl": impl[i], "model": [unstr(p) for p in model[i][0]] if model[i] else None, "theorem": "Props_C16.split_join"}, no_input=True)
    ck.cov["samples"].append({"text": cases[3], "statements": impl[3]})


def snapshot(fs):
    a = fs.duck_conn.cursor()
    return sorted(map(repr, a.execute("select * from DB1.S1.C16_T").fetchall()))


def new_instance(**kw):
    fs, conn = fsutil.fresh(**kw)
    conn.cursor().execute("create table c16_t (k int, v varchar)")
    return fs, conn


def rows_of(cur):
    try:
        return [tuple(map(fsutil.pyrepr, (r.values() if isinstance(r, dict) else r))) for r in cur.fetchall()]
    except Exception as e:  # noqa: BLE001
        return f"fetch raised {type(e).__name__}"


def check_exec(ck: Check):
    """execute_string(text) on one instance == execute(statement) one by one on another."""
    reported = False
    n = 120 if ck.tier == "quick" else 4000
    for it in range(n):
        stmts = [g_stmt(ck.rng, k) for k in range(ck.rng.randint(1, 5))]
        fail_at = None
        if ck.rng.random() < 0.3:
            fail_at = ck.rng.randrange(len(stmts))
            # failing at run time (unknown objects) or because the statement is not SQL at all (its turn comes after the earlier ones ran)
            stmts[fail_at] = ck.rng.choice(["select * from c16_missing", "insert into c16_t values (1, 2, 3)", "select nocol from c16_t",
                                            "delete from c16_t wher k = 1", "update c16_t set v = 'x' were k = 1", "delete from c16_t where k = 0 3",
                                            "delete from c16_t where k in (0, 1", "select 1 +", "select k from c16_t where k = 1 group k, v"])
        text = decorate(ck.rng, stmts)
        dictc = ck.rng.random() < 0.3
        fs1, c1 = new_instance()
        fs2, c2 = new_instance()
        kw = {"cursor_class": fsutil.dict_cursor_class()} if dictc else {}
        ck.cov["evaluations"] += 1
        ck.count(f"exec:{'fails' if fail_at is not None else 'ok'}")
        try:
            curs = list(c1.execute_string(text, **kw))
            got = [rows_of(c) for c in curs]
            err1 = None
        except Exception as e:  # noqa: BLE001
            got, err1 = None, type(e).__name__
        want, err2 = [], None
        for s in stmts:
            try:
                cur = c2.cursor(fsutil.dict_cursor_class()) if dictc else c2.cursor()
                want.append(rows_of(cur.execute(s)))
            except Exception as e:  # noqa: BLE001
                err2 = type(e).__name__
                break
        s1, s2 = snapshot(fs1), snapshot(fs2)
        bad = None
        if err1 != err2:
            bad = f"execute_string raised {err1}, one-by-one execution raised {err2}"
        elif err1 is None and got != want:
            bad = f"per-statement results differ: execute_string {got} vs one by one {want}"
        elif s1 != s2:
            bad = f"table contents differ: after execute_string {s1}, after one-by-one {s2}"
        if bad and err1 == "ProgrammingError" and err2 is None and any(re.search(r"\$\$[^$]*\$\w", st_) or re.search(r"\$\$\$\w", st_) for st_ in stmts) and ck.finding("C16-dollar-quoted-dollar"):
            ck.known("C16-dollar-quoted-dollar", ck.finding("C16-dollar-quoted-dollar")["what"])
            bad = None
        if bad and not reported:
            reported = True
            ck.violation(f"execute_string({text!r}) [intended statements {stmts}]: {bad}", {"text": text, "statements": stmts, "dict_cursor": dictc, "finding": bad})
        fs1.duck_conn.close()
        fs2.duck_conn.close()


NOP_SETS = [
    [r"^CALL.*"], [r"^call\s+\w+", r"^grant\b"], [r"^(call|grant)\b.*", r"^insert into (\w+) select \* from \1\b"], [r"(?x) ^insert \s into \s audit_log"],
    [r"^alter session", r"(?i)^create\s+stage"], [r".*\bpurge\b"], [r"^SELECT 'skip'"], [r"^insert into c16_t values \(9"], [r"alter\s+session\s", r"^CALL.*"], [],
]
NOP_STMTS = ["call refresh_stats()", "CALL x(1)", "grant select on t to r", "insert into c16_t select * from c16_t", "insert into audit_log values (1)",
             "alter session set x = 1", "create stage s1", "select 1 as purge", "select 'skip'", "insert into c16_t values (9, 'nine')", "insert into c16_t values (8, 'eight')",
             "select k from c16_t", "  call padded()", "\n    call refresh_stats();\n", "select 'call'", "-- c\ncall after_comment()",
             "insert into c16_t values (7, 'line one\nCall me maybe')", "insert into c16_t values (6, 'please alter session now')"]
SUCCESS = [("str:Statement executed successfully.",)]


def check_nop(ck: Check):
    import sqlglot

    reported = False
    for pats in NOP_SETS:
        for stmt in NOP_STMTS:
            for via in ("execute", "execute_string"):
                if via == "execute" and stmt.strip().endswith(";"):
                    continue
                ck.cov["evaluations"] += 1
                try:
                    fs1, c1 = new_instance(nop_regexes=pats or None)
                except Exception as e:  # noqa: BLE001
                    if not reported:
                        reported = True
                        ck.violation(f"connecting with nop_regexes={pats} raised {type(e).__name__}: {str(e)[:150]}", {"nop_regexes": pats, "exception": type(e).__name__})
                    continue
                fs2, c2 = new_instance()
                for c in (c1, c2):
                    c.cursor().execute("insert into c16_t values (1, 'one')")
                # the text the fake matches against: the command itself, or - through execute_string - sqlglot's re-rendering of it
                try:
                    cmd = stmt if via == "execute" else real_split(stmt)[0]
                except Exception:  # noqa: BLE001
                    cmd = None
                should = cmd is not None and any(re.match(p, cmd, re.IGNORECASE) for p in pats)
                ck.count(f"nop:{'match' if should else 'no-match'}")

                def run(conn):
                    try:
                        if via == "execute":
                            cur_ = conn.cursor()
                            if len(stmt) % 2:
                                # a cursor that has been used before and has handed out rows: the statement's result replaces the old one completely
                                cur_.execute("select k, v from c16_t union all select 2, 'two'")
                                cur_.fetchmany(2)
                            return rows_of(cur_.execute(stmt))
                        cs = list(conn.execute_string(stmt))
                        return rows_of(cs[0]) if len(cs) == 1 else f"{len(cs)} cursors"
                    except Exception as e:  # noqa: BLE001
                        return f"raised {type(e).__name__}"

                r1, r2 = run(c1), run(c2)
                s1, s2 = snapshot(fs1), snapshot(fs2)
                before = ["(1, 'one')"]
                bad = None
                if should:
                    if r1 != SUCCESS:
                        bad = f"matches a pattern but returned {r1} instead of the success status"
                    elif s1 != before:
                        bad = f"matches a pattern but changed the table to {s1}"
                elif r1 != r2 or s1 != s2:
                    bad = f"matches no pattern but behaves differently from an instance without nop_regexes: {r1} / {s1} vs {r2} / {s2}"
                if bad and not reported:
                    reported = True
                    ck.violation(f"nop_regexes={pats}, {via}({stmt!r}): {bad}", {"nop_regexes": pats, "via": via, "statement": stmt, "finding": bad})
                fs1.duck_conn.close()
                fs2.duck_conn.close()


def main():
    logging.getLogger("sqlglot").setLevel(logging.ERROR)
    ck = Check("C16", "Codec Split", "run_c16_split")
    ck.prepare()
    ck.trusted.append("modelled, not verified: sqlglot's Snowflake tokenizer as a 14-state character automaton (strings, quoted identifiers, --, //, /* */, $$ strings; "
                      "$$ adjacent to identifier characters and nested comments are outside the model), python's re (the nop matcher is an abstract function in the theorems, "
                      "python's own re.match is the oracle in the harness); sqlglot's re-rendering of non-literal syntax is covered by the differential runs only")
    check_split(ck)
    check_exec(ck)
    check_nop(ck)
    ck.cov["distinct_nontrivial"] = ck.dist.get("exec:fails", 0) + ck.dist.get("exec:ok", 0) + ck.dist.get("nop:match", 0)
    return ck.finish(rule="split: generated multi-statement texts (literals over a troublemaker alphabet, $$ strings, quoted identifiers, comments and empty statements in every position) "
                          "- sqlglot's statements vs the model's pieces; execute_string vs one-by-one execution on twin instances (results per statement, table contents, exception, "
                          "DictCursor, failing statement in any position); nop_regexes: pattern sets (backreferences, inline flags, anchors) x statements x both entry points on twin instances; "
                          "non-trivial = differential runs + matching nop cases")


if __name__ == "__main__":
    sys.exit(main())
