"""C19 - concurrent sessions behave as if their statements ran one at a time."""
from __future__ import annotations

import sys
import threading

import core
import sched
from core import S, Check, unstr


def K(d, s, t):
    return [S(d), S(s), S(t)]


def kname(k):
    return ".".join('"main"' if unstr(x) == "main" else unstr(x) for x in k)


class Session:
    """Runs a list of model ops against the real fakesnow and records one canonical result per op."""

    def __init__(self, fs, ops, conn=None):
        self.fs, self.ops, self.conn, self.results = fs, ops, conn, []

    def __call__(self, _i):
        for o in self.ops:
            try:
                self.results.append(self.do(o))
            except Exception as e:  # noqa: BLE001
                errno = getattr(e, "errno", None)
                self.results.append([2, errno if errno is not None else -1, type(e).__name__, str(e)[:160]])
                if o[0] == 0:
                    break       # no connection: the rest of the script cannot run

    def do(self, o):
        k = o[0]
        if k == 0:
            self.conn = self.fs.connect(database=unstr(o[1]), schema=unstr(o[2]))
            return [1]
        cur = self.conn.cursor()
        if k == 1:
            cur.execute(f"create database {unstr(o[1])}")
            return [1]
        if k == 2:
            cm = f" comment = '{unstr(o[2][0])}'" if o[2] else ""
            cur.execute(f"create table {kname(o[1])} (v int){cm}")
            return [1]
        if k == 3:
            cur.execute(f"insert into {kname(o[1])} values ({o[2]})")
            return [1]
        if k == 4:
            return [3, sorted(r[0] for r in cur.execute(f"select * from {kname(o[1])}").fetchall())]
        if k == 7:
            t, src = unstr(o[2][2]), unstr(o[3][2])      # MERGE cannot take qualified names (C12 finding): the session's current schema holds both
            rows = cur.execute(f"merge into {t} using {src} on {t}.v = {src}.v when not matched then insert (v) values ({src}.v)").fetchall()
            return [3, [int(rows[0][0])]]
        d, s, t = (unstr(x) for x in o[1])
        rows = cur.execute(f"select comment from information_schema.tables where table_catalog = '{d}' and table_schema = '{s}' and table_name = '{t}'").fetchall()
        return [4, int(bool(rows)), core.opt(rows[0][0]) if rows else []]


def canon_model(o, a):
    """model answer -> the canonical result Session.do records"""
    if a[0] == 2:
        return [2, a[1]]
    if a[0] == 3:
        return [3, sorted(a[1])]
    if a[0] == 4:
        return [4, a[1], a[2]]
    return [1]


def dump_engine(fs):
    cur = fs.duck_conn.cursor()
    dbs = [r[0] for r in cur.execute("select distinct catalog_name from information_schema.schemata where catalog_name not in ('memory', 'system', 'temp', '_fs_global') order by 1").fetchall()]
    out_d, out_s, out_t, out_c = [], [], [], []
    for d in dbs:
        boot = bool(cur.execute(f"select 1 from information_schema.tables where table_catalog = '{d}' and table_name = '_fs_tables_ext'").fetchall())
        out_d.append([S(d), int(boot)])
        for (s,) in cur.execute(f"select schema_name from information_schema.schemata where catalog_name = '{d}' and schema_name not in ('information_schema', 'pg_catalog') order by 1").fetchall():
            out_s.append([S(d), S(s)])
        for s, t in cur.execute(f"select table_schema, table_name from information_schema.tables where table_catalog = '{d}' and table_schema not in ('information_schema') and table_type = 'BASE TABLE' order by 1, 2").fetchall():
            rows = sorted(r[0] for r in cur.execute(f'select * from "{d}"."{s}"."{t}"').fetchall())
            out_t.append([[S(d), S(s), S(t)], rows])
        if boot:
            for a, b, c, cm in cur.execute(f"select * from {d}.information_schema._fs_tables_ext order by 1, 2, 3").fetchall():
                out_c.append([[S(a), S(b), S(c)], S(cm)])
    return [sorted(out_d), sorted(out_s), sorted(out_t), sorted(out_c)]


def canon_engine(e):
    return [sorted(e[0]), sorted(e[1]), sorted([[k, sorted(r)] for k, r in e[2]]), sorted(e[3])]


def experiment(setup_ops, scripts, schedule):
    """Run set-up (one session, alone) then the sessions under the schedule; returns everything observed."""
    from fakesnow.instance import FakeSnow

    fs = FakeSnow()
    try:
        su = Session(fs, setup_ops)
        tr0, err0, _ = sched.run_sessions(fs, [su], [])
        if err0:
            raise core.MachineryError(f"set-up failed: {err0}")
        sessions = [Session(fs, ops) for ops in scripts]
        trace, errors, had_lock = sched.run_sessions(fs, sessions, schedule)
        # model schedule = the observed interleaving projected on the calls the model has (session 0 = set-up)
        msch, classes = [], []
        for sid, sql in [(0, q) for _, q in tr0] + [(i + 1, q) for i, q in trace]:
            c = sched.classify(sql)
            if c is not None:
                msch.append(sid)
                classes.append(c)
        results = [su.results] + [s.results for s in sessions]
        return {"schedule": msch, "classes": classes, "results": results, "engine": dump_engine(fs), "had_lock": had_lock, "thread_errors": {i: repr(e) for i, e in errors.items()},
                "trace": [(i, " ".join(q.split())[:90]) for i, q in trace]}
    finally:
        fs.duck_conn.close()


def stress(ck, rounds):
    """Free-running threads. Only scenarios that are clean on the unchanged tree; any failure is a concrete failing history."""
    from fakesnow.instance import FakeSnow

    bad = []
    old_interval = sys.getswitchinterval()
    sys.setswitchinterval(2e-4)          # more thread switches inside fakesnow's own Python code
    try:
        return _stress(ck, rounds, FakeSnow, bad)
    finally:
        sys.setswitchinterval(old_interval)


def _stress(ck, rounds, FakeSnow, bad):  # noqa: N803
    for r in range(rounds):
        fs = FakeSnow()
        errs = []
        n = 4
        bar = threading.Barrier(n)
        c0 = fs.connect(database="db0", schema="s0")
        c0.cursor().execute("create table shared (sid int, v int)")
        for i_ in range(n):
            c0.cursor().execute(f"create table src{i_} (v int)")
            c0.cursor().execute(f"create table tgt{i_} (v int)")
        got = {}

        def w(i):
            try:
                bar.wait()
                # (i) connects that auto-create the same new database and schema; (ii) connects to an existing one
                c = fs.connect(database="dbn", schema="sn") if i % 2 == 0 else fs.connect(database="db0", schema="s0")
                c2 = fs.connect(database="db0", schema="s0")
                cur = c2.cursor()
                for j in range(12):
                    # (iii) every session must get its own values back; (iv) no insert is lost
                    for rep_ in range(3):
                        tags = [f"s{i}n{j}r{rep_}c{c_}" for c_ in range(12)]
                        row = cur.execute(f"select {i} as sid, {j} as j, " + ", ".join(f"'{t_}' as c{c_}" for c_, t_ in enumerate(tags))).fetchall()
                        if row != [(i, j, *tags)]:
                            errs.append(f"session {i} statement {j}.{rep_} returned {str(row)[:120]}")
                    cur.execute(f"insert into shared values ({i}, {j})")
                    if j % 3 == 0:
                        # (v) MERGE is several engine calls around a staging table: each session's must stay its own
                        cur.execute(f"insert into src{i} values ({100 * i + j})")
                        st = cur.execute(f"merge into tgt{i} using src{i} on tgt{i}.v = src{i}.v when not matched then insert (v) values (src{i}.v)").fetchall()
                        if [tuple(map(int, r_)) for r_ in st] != [(1,)]:
                            errs.append(f"session {i} merge {j} reported {st}, one row was new")
                got[i] = c.database
            except Exception as e:  # noqa: BLE001
                errs.append(f"session {i}: {type(e).__name__}: {str(e)[:120]}")

        ts = [threading.Thread(target=w, args=(i,)) for i in range(n)]
        for t in ts:
            t.start()
        for t in ts:
            t.join(timeout=120)
        rows = c0.cursor().execute("select sid, v from shared order by 1, 2").fetchall()
        if rows != [(i, j) for i in range(n) for j in range(12)]:
            errs.append(f"shared table holds {len(rows)} rows, expected {n * 12}: inserts lost or duplicated")
        for i_ in range(n):
            trows = sorted(r_[0] for r_ in c0.cursor().execute(f"select v from tgt{i_}").fetchall())
            if trows != [100 * i_ + j_ for j_ in range(0, 12, 3)]:
                errs.append(f"tgt{i_} holds {trows} after its session's merges, expected {[100 * i_ + j_ for j_ in range(0, 12, 3)]}")
        fs.duck_conn.close()
        ck.cov["evaluations"] += n * 57
        if errs:
            bad.append((r, errs[:4]))
    return bad


def tx_interleavings(ck):
    """Two sessions with explicit transactions writing the same primary key, every statement-level interleaving (statements are
    atomic, so one thread alternating between the two connections realises them all). Oracle only: a session all of whose statements
    reported success has all its rows in the table, and the table holds nothing else."""
    import itertools

    from fakesnow.instance import FakeSnow

    bad = []
    for ida, idb in ((1, 1), (1, 2)):
        for order in sorted(set(itertools.permutations([0] * 4 + [1] * 4))):
            fs = FakeSnow()
            a, b = fs.connect(database="db1", schema="s1"), fs.connect(database="db1", schema="s1")
            a.cursor().execute("create table pk (id int primary key, who varchar)")
            scripts = {0: [(a, "begin"), (a, f"insert into pk values ({ida}, 'a')"), (a, "insert into pk values (100, 'a')"), (a, "commit")],
                       1: [(b, "begin"), (b, f"insert into pk values ({idb}, 'b')"), (b, "insert into pk values (200, 'b')"), (b, "commit")]}
            pos, ok = {0: 0, 1: 0}, {0: True, 1: True}
            log = []
            for s_ in order:
                c, sql = scripts[s_][pos[s_]]
                pos[s_] += 1
                try:
                    c.cursor().execute(sql)
                    log.append(f"{'AB'[s_]}: {sql} -> ok")
                except Exception as e:  # noqa: BLE001
                    ok[s_] = False
                    log.append(f"{'AB'[s_]}: {sql} -> {type(e).__name__}")
            rows = sorted(fs.duck_conn.cursor().execute("select id, who from DB1.S1.PK").fetchall())
            fs.duck_conn.close()
            ck.cov["evaluations"] += 1
            want = sorted(([(ida, "a"), (100, "a")] if ok[0] else []) + ([(idb, "b"), (200, "b")] if ok[1] else []))
            if rows != want:
                bad.append({"statements": log, "table": rows, "rows_of_sessions_whose_statements_all_succeeded": want})
    return bad


def ddl_interleavings(ck):
    """Statements that take several engine calls (RENAME TO / RENAME COLUMN / CREATE OR REPLACE ... COMMENT move or rewrite recorded metadata after the DDL
    call) against a DROP / RENAME of ANOTHER table of the same schema by a second session, interleaved at every engine-call boundary of the first.
    Oracle only (the Steps model has no such operations): every statement succeeds and the metadata of every table is what the serial execution gives."""
    from fakesnow.instance import FakeSnow

    def meta(fs):
        cur = fs.duck_conn.cursor()
        out = []
        for (t,) in cur.execute("select table_name from information_schema.tables where table_catalog = 'DB1' and table_schema = 'S1' and table_type = 'BASE TABLE' order by 1").fetchall():
            out.append((t, cur.execute(f"select comment from DB1.information_schema._fs_tables_ext where ext_table_name = '{t}' and comment is not null").fetchall(),
                        cur.execute(f"select ext_column_name, ext_character_maximum_length from DB1.information_schema._fs_columns_ext where ext_table_name = '{t}' "
                                    "and ext_character_maximum_length is not null order by 1").fetchall()))
        return out

    def fresh():
        fs = FakeSnow()
        c0 = fs.connect(database="db1", schema="s1")
        for q in ("create table ra (v varchar(7), n int) comment = 'c-ra'", "create table scratch (x varchar(3)) comment = 'c-s'"):
            c0.cursor().execute(q)
        return fs, [fs.connect(database="db1", schema="s1"), fs.connect(database="db1", schema="s1")]

    bad = []
    pairs = [("alter table ra rename to rb", "drop table scratch"), ("alter table ra rename column v to w", "drop table scratch"),
             ("create or replace table ra (v varchar(9)) comment = 'new'", "alter table scratch rename to scratch2"), ("alter table ra rename to rb", "alter table scratch rename column x to y")]
    for sa, sb in pairs:
        fs, cs = fresh()
        cs[0].cursor().execute(sa)
        cs[1].cursor().execute(sb)
        want = meta(fs)
        fs.duck_conn.close()
        for k in range(0, 13):
            fs, _cs = fresh()

            def script(sql, fs=fs):
                # (the session connects inside the scheduled run: only then do its engine calls go through the scheduler's proxy)
                return lambda _i: fs.connect(database="db1", schema="s1").cursor().execute(sql)

            scripts = [script(sa), script(sb)]
            trace, errors, _ = sched.run_sessions(fs, scripts, [0] * k + [1] * 40 + [0] * 40)
            if k == 12 and not any(i == 0 for i, _q in trace):
                raise core.MachineryError("ddl_interleavings: the scheduler saw no engine call of session A")
            got = meta(fs)
            fs.duck_conn.close()
            ck.cov["evaluations"] += 1
            ck.count("scenario:ddl-vs-ddl")
            if errors or got != want:
                bad.append({"statements": [f"A: {sa}", f"B: {sb}"], "schedule": f"A is preempted at its switch point {k} (connect included), B runs completely, then A finishes", "errors": {i: repr(e)[:160] for i, e in errors.items()},
                            "metadata": got, "serial_metadata": want, "engine_calls": [(i, " ".join(q.split())[:80]) for i, q in trace]})
    return bad


def main():
    ck = Check("C19", "Steps", "run_c19")
    ck.prepare()
    ck.trusted.append("modelled, not verified: DuckDB executes each engine call atomically (the model's only switch points are engine calls and the connect lock); preemption INSIDE an engine call, "
                      "DuckDB's internal catalog/MVCC conflicts, the GIL and the server's thread pool are outside the model - they are exercised only by the free-running stress runs, which are tests, not proofs")
    known = {f["id"]: f for f in ck.findings}
    reported = set()

    def report(key, msg, rep, no_input=False):
        if key not in reported and len(reported) < 4:
            reported.add(key)
            ck.violation(msg, rep, no_input=no_input)

    def known_or_report(fid, msg, rep):
        f = known.get(fid)
        if f:
            ck.known(fid, f["what"])
        else:
            report(fid, msg, rep)

    thorough = ck.tier == "thorough"
    T = K("DB1", "S1", "T")
    setup = [[0, S("db1"), S("s1")], [2, K("DB1", "S1", "SHARED"), []]]
    scenarios = {
        "connect-same-new": ([], [[[0, S("dbn"), S("sn")], [2, K("DBN", "SN", "TA"), [S("ca")]], [3, K("DBN", "SN", "TA"), 1], [5, K("DBN", "SN", "TA")]],
                                  [[0, S("dbn"), S("sn")], [2, K("DBN", "SN", "TB"), [S("cb")]], [3, K("DBN", "SN", "TB"), 2], [5, K("DBN", "SN", "TB")]]]),
        "inserts-shared": (setup, [[[0, S("db1"), S("s1")], [3, K("DB1", "S1", "SHARED"), 10], [3, K("DB1", "S1", "SHARED"), 11], [4, K("DB1", "S1", "SHARED")]],
                                   [[0, S("db1"), S("s1")], [3, K("DB1", "S1", "SHARED"), 20], [3, K("DB1", "S1", "SHARED"), 21], [4, K("DB1", "S1", "SHARED")]]]),
        "torn-create-table": (setup, [[[0, S("db1"), S("s1")], [2, T, [S("cmt")]]],
                                      [[0, S("db1"), S("s1")], [5, T], [5, T], [5, T]]]),
        "torn-create-database": (setup, [[[0, S("db1"), S("s1")], [1, S("DBX")]],
                                         [[0, S("db1"), S("s1")], [2, K("DBX", "main", "TX"), [S("cx")]], [2, K("DBX", "main", "TY"), [S("cy")]]]]),
        # two sessions of the same schema MERGE into their own tables: the staging table must be private to each (Props_C19.merge_staging_private)
        "merges-private": (setup + [[2, K("DB1", "S1", "MT1"), []], [2, K("DB1", "S1", "MS1"), []], [2, K("DB1", "S1", "MT2"), []], [2, K("DB1", "S1", "MS2"), []],
                                    [3, K("DB1", "S1", "MS1"), 1], [3, K("DB1", "S1", "MS1"), 5], [3, K("DB1", "S1", "MT1"), 5],
                                    [3, K("DB1", "S1", "MS2"), 2], [3, K("DB1", "S1", "MS2"), 6], [3, K("DB1", "S1", "MS2"), 7], [3, K("DB1", "S1", "MT2"), 6]],
                           [[[0, S("db1"), S("s1")], [7, 1, K("DB1", "S1", "MT1"), K("DB1", "S1", "MS1")], [4, K("DB1", "S1", "MT1")]],
                            [[0, S("db1"), S("s1")], [7, 2, K("DB1", "S1", "MT2"), K("DB1", "S1", "MS2")], [4, K("DB1", "S1", "MT2")]]]),
        "three-connects": ([], [[[0, S("dba"), S("s1")], [2, K("DBA", "S1", "T1"), []], [3, K("DBA", "S1", "T1"), 1]],
                                [[0, S("dba"), S("s2")], [2, K("DBA", "S2", "T1"), [S("c2")]]],
                                [[0, S("dbb"), S("s1")], [2, K("DBB", "S1", "T1"), [S("c3")]], [5, K("DBB", "S1", "T1")]]]),
    }
    cases, impl, labels = [], [], []
    span = range(0, 16, 1 if thorough else 4)
    for name, (su, scripts) in scenarios.items():
        n = len(scripts)
        scheds = [[0] * 60, [1] * 60]
        if n == 2:
            # every schedule with at most two preemptions: A runs a calls, B runs b calls, A the rest (and the mirror image)
            for a in span:
                for b in span:
                    scheds.append([0] * a + [1] * b + [0] * 60)
                    scheds.append([1] * a + [0] * b + [1] * 60)
            for _ in range(40 if thorough else 6):
                scheds.append([ck.rng.randrange(2) for _ in range(80)])
        else:
            for _ in range(120 if thorough else 25):
                scheds.append([ck.rng.randrange(n) for _ in range(120)])
        for sc in scheds:
            ob = experiment(su, scripts, sc)
            up = lambda o: [0, S(unstr(o[1]).upper()), S(unstr(o[2]).upper())] if o[0] == 0 else o  # noqa: E731  (connect upper-cases its arguments)
            cases.append([[[up(o) for o in ops] for ops in [su] + scripts], ob["schedule"]])
            impl.append(ob)
            labels.append(name)
            ck.count(f"scenario:{name}")
    mo = core.model_eval("run_c19", cases)
    ck.cov["evaluations"] += len(cases)
    sample = sorted(ck.rng.sample(range(len(cases)), min(30, len(cases))))
    if core.kernel_failing("Steps", "run_c19", [(cases[i], mo[i]) for i in sample], "C19"):
        raise core.MachineryError("kernel and extracted model disagree on run_c19")
    ck.kernel_checked += len(sample)
    distinct = set()
    for case, ob, m, name in zip(cases, impl, mo, labels):
        m_results, m_classes, m_eng, m_done, m_viol = m
        scripts = case[0]
        want = [[canon_model(o, a) for o, a in zip(ops, res)] for ops, res in zip(scripts, m_results)]
        got = [[r[:2] if r[0] == 2 else r for r in res] for res in ob["results"]]
        rep = {"scenario": name, "scripts": scripts, "model_schedule": ob["schedule"], "impl_results": ob["results"], "model_results": want, "impl_engine": ob["engine"], "model_engine": canon_engine(m_eng),
               "engine_calls": ob["trace"]}
        distinct.add((name, tuple(ob["schedule"])))
        if ob["thread_errors"]:
            report("thread", f"{name}: a session thread died: {ob['thread_errors']}", rep)
            continue
        # (1) the model follows the same interleaving: same call classes, same results, same final engine state
        if m_classes != ob["classes"]:
            report("classes", f"{name}: under the observed interleaving the implementation issued engine calls {ob['classes']} but the model's automata issue {m_classes}: "
                              "the correspondence behind Props_C19.connects_all_succeed no longer holds", dict(rep, theorem="Props_C19.connects_all_succeed"), no_input=True)
            continue
        if m_viol and ob["had_lock"]:
            raise core.MachineryError("the implementation interleaved two connects although it has a connect lock (scheduler broken)")
        if not ob["had_lock"] or m_viol:
            report("lock", f"{name}: two connects interleaved at engine-call granularity (no connect lock): the schedule is outside what Props_C19 is about; "
                           "free-running connects to the same new database fail with catalog write-write conflicts", rep, no_input=True)
            continue
        if got != want or canon_engine(m_eng) != ob["engine"] or not m_done:
            report("model", f"{name}: schedule {ob['schedule']}: implementation results {got} engine {ob['engine']}; model results {want} engine {canon_engine(m_eng)}",
                   dict(rep, theorem="Props_C19 (correspondence of the step automata)"), no_input=True)
            continue
        # (2) the property on the implementation's own observations
        for ops, res in zip(scripts[1:], ob["results"][1:]):
            for o, r in zip(ops, res):
                if r[0] == 2:
                    if name == "torn-create-database" and o[0] == 2:
                        known_or_report("C19-torn-create-database", f"{name}: `create table {kname(o[1])} ... comment` failed with {r[1:]} while another session was half-way through CREATE DATABASE", rep)
                    else:
                        report("fails", f"{name}: operation {o} failed with {r[1:]} under schedule {ob['schedule']}", rep)
                if o[0] == 5 and r[0] == 4 and r[1] == 1 and r[2] == [] and any(p[0] == 2 and p[1] == o[1] and p[2] for s_ in scripts for p in s_):
                    known_or_report("C19-torn-create-table", f"{name}: another session saw table {kname(o[1])} without its comment (CREATE TABLE ... COMMENT observed half-done)", rep)
        if name == "merges-private":
            want_t = {"MT1": [1, 5], "MT2": [2, 6, 7]}
            got_t = {unstr(k[2]): r for k, r in ob["engine"][2] if unstr(k[2]) in want_t}
            counts = [res[1] for res in ob["results"][1:]]
            if got_t != want_t or counts != [[3, [1]], [3, [2]]]:
                report("merge-cross", f"{name}: two sessions merging into their own tables: targets {got_t} (serial: {want_t}), status rows {counts} (serial: 1 and 2 rows inserted)", rep)
        if name == "inserts-shared":
            rows = [r for k, r in ob["engine"][2] if unstr(k[2]) == "SHARED"]
            if rows != [[10, 11, 20, 21]]:
                report("lost", f"{name}: shared table holds {rows}, inserts lost", rep)
            for res in ob["results"][1:]:
                seen = res[-1][1] if res and res[-1][0] == 3 else None
                if seen is None or not set(seen) <= {10, 11, 20, 21} or len(seen) != len(set(seen)):
                    report("read", f"{name}: a session read {seen} from the shared table", rep)
    # (2b) explicit transactions colliding on a key, every statement-level interleaving
    badtx = tx_interleavings(ck)
    ck.count("scenario:tx-key-conflict", 140)
    if badtx:
        b0 = badtx[0]
        report("tx", f"two sessions with explicit transactions: {b0['statements']}: the table holds {b0['table']} but the sessions whose statements all reported success wrote "
                     f"{b0['rows_of_sessions_whose_statements_all_succeeded']} (inserts lost or phantom rows); {len(badtx)} interleavings fail", b0)
    # (2c) multi-call DDL of two sessions on different tables of one schema, every engine-call split point
    badddl = ddl_interleavings(ck)
    if badddl:
        b0 = badddl[0]
        report("ddl", f"{b0['statements']} ({b0['schedule']}): errors {b0['errors']}, recorded metadata {b0['metadata']}; executed one after the other they leave {b0['serial_metadata']}; "
                      f"{len(badddl)} interleavings differ", b0)
    # (3) free-running threads (a test, not a proof): scenarios that are clean on the unchanged tree
    bad = stress(ck, 40 if thorough else 6)
    if bad:
        r, errs = bad[0]
        report("stress", f"free-running threads, round {r}: {errs}; {len(bad)} rounds failed", {"rounds_failed": len(bad), "errors": errs,
               "scenario": "4 threads: connect (same new database / existing database) then 12 x (select own literals, insert into shared table, every third round insert + MERGE into own table)"})
    # known finding probes under free-running threads are not run: torn statements are shown deterministically above
    ck.cov["distinct_nontrivial"] = len(distinct)
    ck.cov["exhaustive_space"] = "2-session scenarios: every schedule with <= 2 preemptions at engine-call granularity " + ("(all split points 0..15)" if thorough else "(split points 0,4,8,12)")
    ck.cov["samples"] += [{"scenario": labels[5], "model_schedule": impl[5]["schedule"]}]
    return ck.finish(rule="real fakesnow sessions in real threads under a deterministic scheduler (switch points = engine calls + the connect lock): 6 scenarios (connects auto-creating the same database, two MERGEs of one schema into their own tables, "
                          "inserts into a shared table, CREATE TABLE ... COMMENT vs an observer, CREATE DATABASE vs a user of the new database, three connects) x schedules; the model follows the "
                          "observed interleaving and must issue the same engine-call classes, the same per-operation results and the same final engine state; independent oracle: nothing fails, "
                          "no insert lost, observers see only serial states; plus free-running stress; non-trivial = distinct (scenario, interleaving) pairs")


if __name__ == "__main__":
    sys.exit(main())
