"""C01 - stored values read back unchanged, in the connector's Python types."""
from __future__ import annotations

import datetime
import json
import re
import sys
from decimal import Decimal as D

import core
import fsutil
from core import Check

UTC = datetime.timezone.utc
EPOCH = datetime.datetime(1970, 1, 1)

# every type spelling -> the model's sftype (what Snowflake documents the spelling to mean)
SPELL = {
    "boolean": [0], "number": [1, 38, 0], "decimal": [1, 38, 0], "numeric": [1, 38, 0],
    "int": [2], "integer": [2], "bigint": [2], "smallint": [2], "tinyint": [2], "byteint": [2],
    "float": [3], "float4": [3], "float8": [3], "double": [3], "double precision": [3], "real": [3],
    "varchar": [4], "varchar(10)": [4], "varchar(16777216)": [4], "char": [4], "char(5)": [4], "character": [4], "character(3)": [4], "string": [4], "text": [4],
    "date": [5], "time": [6], "time(9)": [6], "timestamp": [7], "timestamp_ntz": [7], "timestamp_ntz(9)": [7], "datetime": [7], "timestamp without time zone": [7],
    "timestamp_tz": [8], "timestamp_tz(9)": [8], "timestamp with time zone": [8], "binary": [9], "varbinary": [9], "variant": [10], "object": [10], "array": [10],
}
DUCK = {"BIGINT": [0], "INTEGER": [1], "DOUBLE": [3], "VARCHAR": [4], "BOOLEAN": [5], "DATE": [6], "TIME": [7], "TIMESTAMP": [8], "TIMESTAMP_NS": [9],
        "TIMESTAMP WITH TIME ZONE": [10], "BLOB": [11], "JSON": [12]}
PATHS = ["literal", "param", "qmark", "insel", "ctas", "clone", "pandas", "pandas_multi", "var"]


def duck_enc(s):
    m = re.fullmatch(r"DECIMAL\((\d+),(\d+)\)", s)
    if m:
        return [2, int(m.group(1)), int(m.group(2))]
    return DUCK.get(s, [13, 99])


def val_enc(t, v):
    """python value -> the model's value (representability content only)"""
    if v is None:
        return []
    k = t[0]
    if k == 0:
        return [[0, int(v)]]
    if k in (1, 2):
        if isinstance(v, int):
            return [[1, v, 0]]
        sign, digits, exp = v.as_tuple()
        u = int("".join(map(str, digits))) * (-1 if sign else 1)
        return [[1, u, -exp]]
    if k == 3:
        return [[2]]
    if k == 4:
        return [[3]]
    if k == 9:
        return [[4]]
    if k == 10:
        return [[5]]
    if k == 5:
        return [[6, (v - datetime.date(1970, 1, 1)).days]]
    if k == 6:
        return [[7, ((v.hour * 60 + v.minute) * 60 + v.second) * 10**6 + v.microsecond]]
    d = v.replace(tzinfo=None) - EPOCH
    return [[8, (d.days * 86400 + d.seconds) * 10**6 + d.microseconds]]


def pykind(v):
    import c06

    return c06.pykind(v)


def oc_eligible(d):
    return isinstance(d, dict) and d and all(isinstance(x, (str, int, bool)) or oc_eligible(x) for x in d.values())


def oc_sql(d):
    """the document as an OBJECT_CONSTRUCT call: string values as casts / in parentheses / bare, in turn"""
    parts = []
    for i, (k, x) in enumerate(d.items()):
        if isinstance(x, dict):
            xs = oc_sql(x)
        elif isinstance(x, bool):
            xs = "TRUE" if x else "FALSE"
        elif isinstance(x, int):
            xs = str(x)
        else:
            q = "'" + x.replace("\\", "\\\\").replace("'", "''") + "'"
            xs = [f"{q}::varchar", f"({q})", q, f"cast({q} as varchar)"][i % 4]
        parts.append("'" + k.replace("'", "''") + "', " + xs)
    return "object_construct(" + ", ".join(parts) + ")"


def lit(t, v, staged=False):
    if staged and isinstance(v, float):
        return f"'{v!r}'::float"         # text -> double is correctly rounded; the numeric-literal route is exercised by the literal path
    if v is None:
        return "NULL"
    if isinstance(v, bool):
        return "TRUE" if v else "FALSE"
    if isinstance(v, (int, D)):
        return str(v)
    if isinstance(v, float):
        return repr(v) + "::float"
    if isinstance(v, str):
        q = "'" + v.replace("\\", "\\\\").replace("'", "''") + "'"
        if t[0] == 10 and v.startswith("{") and oc_eligible(json.loads(v)):
            return oc_sql(json.loads(v))          # objects built by OBJECT_CONSTRUCT, the other way to write a VARIANT
        return f"parse_json({q})" if t[0] == 10 else q
    if isinstance(v, datetime.datetime):
        return "'" + v.replace(tzinfo=None).isoformat(sep=" ") + ("+00:00'" if v.tzinfo else "'")
    if isinstance(v, (datetime.date, datetime.time)):
        return "'" + v.isoformat() + "'"
    if isinstance(v, bytes):
        return "'" + v.hex() + "'::binary"
    raise TypeError(v)


def same(t, a, b):
    """the property's equality: equal Python value of the same Python type (JSON: same document, as str)"""
    if a is None or b is None:
        return a is None and b is None
    if t[0] == 10:
        try:
            return isinstance(a, str) and isinstance(b, str) and json.loads(a) == json.loads(b)
        except ValueError:
            return False
    if type(a) is not type(b) and not (isinstance(a, (bytes, bytearray)) and isinstance(b, (bytes, bytearray))):
        return False
    if isinstance(a, float):
        return a.hex() == b.hex()
    if isinstance(a, datetime.datetime):
        return a == b and (a.tzinfo is None) == (b.tzinfo is None) and (a.tzinfo is None or a.utcoffset() == b.utcoffset())
    return a == b


def sftype_of(name):
    if name in SPELL:
        return SPELL[name]
    base = name.split("(")[0].strip()
    if base in ("number", "decimal", "numeric"):
        return [1] + [int(x) for x in re.findall(r"\d+", name)]
    return SPELL[base]


def dec(u, s):
    """exact Decimal u * 10^-s (no context rounding)"""
    return D((1 if u < 0 else 0, tuple(int(c) for c in str(abs(u))), -s))


def values_for(name, t, rng, n_rand):
    k = t[0]
    if k == 0:
        return [True, False]
    if k == 1:
        p, s = t[1], t[2]
        top = 10**p - 1
        us = [0, 1, -1, top, -top] + [rng.randint(-top, top) for _ in range(n_rand)]
        return [u if s == 0 else dec(u, s) for u in us]
    if k == 2:
        return [0, 1, -1, 2**31, 2**63 - 1, -(2**63), 40000] + [rng.randint(-(2**63), 2**63 - 1) for _ in range(n_rand)]
    if k == 3:
        return [0.0, -0.0, 0.1, 5e-324, 2.2250738585072014e-308, 1.7976931348623157e308, -1.7976931348623157e308, 1e22, 123456789.125] + [rng.uniform(-1e6, 1e6) for _ in range(n_rand)]
    if k == 4:
        base = ["", "a", "a'b\\c", "\U0001F600x", "line\nbreak", 'q"uo"te', "  pad  ", "%s ? $x ; --", "é"]
        if "(" in name:
            ln = int(name[name.index("(") + 1:-1])
            return [b for b in base if len(b) <= ln] + ["x" * min(ln, 40)]
        if name in ("char", "character"):
            return ["", "a"]
        return base + ["".join(rng.choice("ab'\\ \n;%$é\U0001F600") for _ in range(rng.randint(1, 30))) for _ in range(n_rand)]
    if k == 5:
        return [datetime.date(1, 1, 1), datetime.date(1969, 12, 31), datetime.date(1970, 1, 1), datetime.date(2024, 2, 29), datetime.date(9999, 12, 31)] + \
            [datetime.date.fromordinal(rng.randint(1, 3652059)) for _ in range(n_rand)]
    if k == 6:
        return [datetime.time(0, 0, 0), datetime.time(23, 59, 59, 999999), datetime.time(12, 0, 0, 1)] + \
            [datetime.time(rng.randint(0, 23), rng.randint(0, 59), rng.randint(0, 59), rng.randint(0, 999999)) for _ in range(n_rand)]
    if k in (7, 8):
        tz = UTC if k == 8 else None
        lo, hi = (datetime.datetime(1, 1, 1), datetime.datetime(9999, 12, 31, 23, 59, 59, 999999))
        span = int((hi - lo).total_seconds())
        vs = [lo, hi, datetime.datetime(1969, 12, 31, 23, 59, 59, 500000), datetime.datetime(1970, 1, 1), datetime.datetime(2020, 1, 2, 3, 4, 5, 123456),
              datetime.datetime(1900, 1, 1, 0, 0, 0, 1)] + [lo + datetime.timedelta(seconds=rng.randint(0, span), microseconds=rng.randint(0, 999999)) for _ in range(n_rand)]
        return [v.replace(tzinfo=tz) for v in vs]
    if k == 9:
        return [b"", b"\x00\xff", b"abc", bytes(range(256))] + [bytes(rng.randrange(256) for _ in range(rng.randint(1, 20))) for _ in range(n_rand)]
    docs = ['{"a":1}', '{"status":"null","t":"NULL","n":3,"u":"Null","v":"x"}', '{"o":{"p":"null","q":true},"r":"it\'s"}', '[1,"x",null]', '"s"', "1.5", "true", '{"k":{"n":[1,2,{"z":"q\\"uote"}]}}', "[]", "{}"]
    if name == "object":
        return [d for d in docs if d.startswith("{")]
    if name == "array":
        return [d for d in docs if d.startswith("[")]
    return docs


def main():
    ck = Check("C01", "Store", "run_c01")
    ck.prepare()
    ck.trusted.append("modelled, not verified: DuckDB's storage and casts, pandas/Arrow ingestion, Arrow's to_pylist; the Snowflake meaning of each type spelling "
                      "(INT = NUMBER(38,0), FLOAT4 = double, CHAR = VARCHAR ...) is encoded by hand in harness/c01.py SPELL and coq/theories/Store.v sf_dom")
    import pandas as pd
    from fakesnow import pandas_tools as pt

    known = {f["id"]: f for f in ck.findings}
    reported = set()

    def report(key, msg, rep, no_input=False):
        if key not in reported and len(reported) < 3:
            reported.add(key)
            ck.violation(msg, rep, no_input=no_input)

    def known_or_report(fid, key, msg, rep):
        f = known.get(fid)
        if f:
            ck.known(fid, f["what"])
        else:
            report(key, msg, rep)

    thorough = ck.tier == "thorough"
    n_rand = 12 if thorough else 3
    fs, conn = fsutil.fresh()
    cur = conn.cursor()
    import snowflake.connector

    old_style = snowflake.connector.paramstyle
    snowflake.connector.paramstyle = "qmark"
    try:
        connq = fs.connect(database="DB1", schema="S1")          # the paramstyle is captured at connect (conn.py:51)
    finally:
        snowflake.connector.paramstyle = old_style
    curq = connq.cursor()
    duck = fs.duck_conn.cursor()
    cur.execute("create table bystander (id int, c varchar)")
    cur.execute("insert into bystander values (1, 'keep'), (2, null)")
    BY = [(1, "keep"), (2, None)]

    # ---- (1) type mapping: every spelling (+ the NUMBER(p,s) grid) -> the real DuckDB column type vs map_type
    spell = dict(SPELL)
    grid = [(p, s) for p in range(1, 39) for s in range(0, p + 1)]
    if not thorough:
        grid = [(p, s) for p, s in grid if s in (0, 1, p // 2, p - 1, p) and p in (1, 2, 5, 9, 10, 18, 19, 37, 38)]
    for p, s in grid:
        spell[f"{ck.rng.choice(['number', 'decimal', 'numeric'])}({p},{s})"] = [1, p, s]
    cases, impl, names = [], [], []
    for i, (name, t) in enumerate(spell.items()):
        cur.execute(f"create or replace table tm (c {name})")
        got = duck.execute("select data_type from information_schema.columns where table_catalog='DB1' and table_name='TM'").fetchall()[0][0]
        cases.append([t, []])
        impl.append(duck_enc(got))
        names.append(name)
        ck.count("type-spelling")
    dis = ck.correspond(cases, [[d, [], m[2]] for d, m in zip(impl, core.model_eval("run_c01", cases))], label="t")
    for i in dis:
        report("map", f"column declared `{names[i]}` becomes DuckDB type {impl[i]} but the model's map_type gives {ck.model_obs[i][0]}: Props_C01.stored_partial is no longer about this code",
               {"declared": names[i], "impl_duckdb_type": impl[i], "model": ck.model_obs[i], "theorem": "Props_C01.stored_partial"}, no_input=True)
    cur.execute("drop table tm")

    # ---- (2) values x ingestion paths
    vtypes = ["boolean", "number", "number(10,2)", "number(38,37)", "number(10,0)", "decimal(5,1)", "number(1,0)", "number(38,19)", "int", "bigint", "smallint", "byteint",
              "float", "real", "double precision", "varchar", "varchar(3)", "char(5)", "string", "text", "date", "time", "timestamp_ntz", "timestamp", "datetime",
              "timestamp_tz", "binary", "varbinary", "variant", "object", "array"]
    vcases, vimpl, vinfo = [], [], []
    n = 0
    for name in vtypes:
        t = sftype_of(name)
        vals = values_for(name, t, ck.rng, n_rand)
        # out-of-domain probes: the model says whether the mapped column can hold them
        extra = []
        if t[0] == 2:
            extra = [2**63, -(2**63) - 1, 10**38 - 1]
        if t[0] == 1:
            extra = [10 ** t[1] if t[2] == 0 else dec(10 ** t[1], t[2])]
        n += 1
        stored_by = {}
        for path in PATHS:
            tbl = f"w{n}_{path}"
            written = []
            try:
                cur.execute(f"create table {tbl} (id int, c {name})")
                if path in ("insel", "ctas", "clone"):
                    src = f"w{n}_src"
                    cur.execute(f"create or replace table {src} (id int, c {name})")
            except Exception as e:  # noqa: BLE001
                report("ddl", f"create table with column type `{name}` raised {type(e).__name__}: {str(e)[:100]}", {"type": name})
                continue
            multi = []
            for j, v in enumerate([None] + vals + [None] + extra):
                ident = j + 1
                ck.cov["evaluations"] += 1
                ck.count(f"path:{path}")
                try:
                    if path == "pandas_multi":
                        # one DataFrame holding every value the single-row path is expected to store (NULL first and last)
                        skip = j > len(vals) + 1 or (t[0] in (1, 2) and isinstance(v, int) and abs(v) >= 2**53) or (t[0] == 10 and v is not None and v[0] not in "{[")
                        if skip:
                            stored_by.setdefault(path, {})[j] = ("skip", [])
                            continue
                        multi.append((ident, json.loads(v) if (t[0] == 10 and v is not None) else v))
                    elif path == "qmark":
                        if t[0] == 10:
                            curq.execute(f"insert into {tbl} select ?, parse_json(?)", (ident, v))
                        else:
                            curq.execute(f"insert into {tbl} (id, c) values (?, ?)", (ident, v))
                    elif path == "var":
                        # through a session variable: SET holds the literal, the INSERT refers to it (the first and the last SET have the same text)
                        if (t[0] == 9 and v is not None) or (isinstance(v, str) and "\\" in v):
                            stored_by.setdefault(path, {})[j] = ("skip", [])     # binary literals / backslashes in SET values: findings of their own (C01-binary-sql, C15-backslash-value)
                            continue
                        vlit = lit(t, v) if not (t[0] == 10 and v is not None) else "parse_json('" + v.replace("'", "''") + "')"
                        cur.execute(f"set c01_v = {vlit}")
                        cur.execute(f"insert into {tbl} select {ident}, $c01_v")
                    elif path == "literal":
                        cur.execute(f"insert into {tbl} values ({ident}, {lit(t, v)})")
                    elif path == "param":
                        if t[0] == 10:
                            cur.execute(f"insert into {tbl} select %s, parse_json(%s)", (ident, v))
                        else:
                            cur.execute(f"insert into {tbl} (id, c) values (%s, %s)", (ident, v))
                    elif path == "pandas":
                        cell = json.loads(v) if (t[0] == 10 and v is not None) else v
                        df = pd.DataFrame({"ID": [ident], "C": pd.Series([cell], dtype=object if (t[0] in (1, 2, 10, 9) or v is None) else None)})
                        ok, _, cnt, _ = pt.write_pandas(conn, df, tbl.upper())
                        if not ok or cnt != 1:
                            report("wp", f"write_pandas reported {ok, cnt} for one row", {"type": name, "value": repr(v)})
                    else:
                        if t[0] == 9 and v is not None:      # binary has no working SQL literal (known finding): stage through pandas
                            pt.write_pandas(conn, pd.DataFrame({"ID": [ident], "C": pd.Series([v], dtype=object)}), src.upper())
                        elif t[0] == 4:                       # text is staged through a bound parameter ($word in a literal is a known finding)
                            cur.execute(f"insert into {src} values (%s, %s)", (ident, v))
                        else:
                            cur.execute(f"insert into {src} values ({ident}, {lit(t, v, staged=True)})")
                    written.append((ident, v))
                except Exception as e:  # noqa: BLE001
                    stored_by.setdefault(path, {})[j] = f"{type(e).__name__}: {str(e)[:80]}"
            try:
                if path == "pandas_multi" and multi:
                    df = pd.DataFrame({"ID": [i_ for i_, _ in multi], "C": pd.Series([c_ for _, c_ in multi], dtype=object if t[0] in (1, 2, 10, 9, 0, 4) else None)})
                    ok, _, cnt, _ = pt.write_pandas(conn, df, tbl.upper())
                    if not ok or cnt != len(multi):
                        report("wp", f"write_pandas reported {ok, cnt} for {len(multi)} rows", {"type": name})
                if path == "insel":
                    cur.execute(f"insert into {tbl} select id, c from {src}")
                elif path == "ctas":
                    cur.execute(f"create or replace table {tbl} as select * from {src}")
                elif path == "clone":
                    cur.execute(f"create or replace table {tbl} clone {src}")
                back = cur.execute(f"select id, c from {tbl} order by id").fetchall()
            except Exception as e:  # noqa: BLE001
                report("path", f"{path} into a `{name}` column raised {type(e).__name__}: {str(e)[:120]}", {"type": name, "path": path})
                continue
            if path in ("ctas", "clone"):
                a = duck.execute(f"select data_type from information_schema.columns where table_catalog='DB1' and table_name='{tbl.upper()}' and column_name='C'").fetchall()
                b = duck.execute(f"select data_type from information_schema.columns where table_catalog='DB1' and table_name='{src.upper()}' and column_name='C'").fetchall()
                if a != b:
                    report("ctype", f"{path} of a `{name}` column changed its type from {b} to {a}", {"type": name, "path": path})
            backd = {}
            for i_, v_ in back:
                backd.setdefault(i_, []).append(v_)
            stored_by.setdefault(path, {})
            for j, v in enumerate([None] + vals + [None] + extra):
                ident = j + 1
                if j in stored_by[path] and isinstance(stored_by[path][j], str):
                    continue
                got = backd.get(ident, [])
                if path in ("pandas_multi", "var") and isinstance(stored_by[path].get(j), tuple):
                    continue
                # a bound -0.0 is the text `-0.0`, a fixed-point zero in Snowflake too: its sign is not part of the written value
                zero = path == "param" and isinstance(v, float) and v == 0.0 and len(got) == 1 and isinstance(got[0], float) and got[0] == 0.0
                stored_by[path][j] = ("ok", got[0]) if len(got) == 1 and (same(t, v, got[0]) or zero) else ("bad", got)
            if sorted(i_ for i_, _ in back) != sorted(i_ for i_, _ in written):
                ids_b, ids_w = sorted(i_ for i_, _ in back), sorted(i_ for i_, _ in written)
                report("once", f"`{name}` via {path}: wrote ids {ids_w[:12]} but read back {ids_b[:12]} - rows lost or duplicated", {"type": name, "path": path, "written": ids_w, "read": ids_b})
        if cur.execute("select * from bystander order by id").fetchall() != BY:
            report("frame", f"writing `{name}` values changed the bystander table", {"type": name})
        # per value: model vs implementation, and the property's oracle
        allv = [None] + vals + [None] + extra
        for j, v in enumerate(allv):
            in_dom = j <= len(vals) + 1
            res = {p: stored_by.get(p, {}).get(j) for p in PATHS}
            oks = [p for p, r in res.items() if isinstance(r, tuple) and r[0] == "ok"]
            anyback = [r[1][0] for r in res.values() if isinstance(r, tuple) and r[1] and r[0] == "bad" and len(r[1]) == 1]
            # the value really stored, whatever Python type it comes back as
            held = bool(oks) or any(x is not None and (x == v if t[0] != 10 else True) for x in anyback)
            kinds = {pykind(r[1]) for r in res.values() if isinstance(r, tuple) and r[0] == "ok" and r[1] is not None} | {pykind(x) for x in anyback if x is not None}
            if v is not None:
                vcases.append([t, val_enc(t, v)])
                vimpl.append([None, [int(held)], sorted(kinds)[:1]])
                vinfo.append((name, v, res))
            if not in_dom:
                continue
            for p, r in res.items():
                if isinstance(r, tuple) and r[0] in ("ok", "skip"):
                    continue
                rep = {"type": name, "value": repr(v), "path": p, "result": repr(r)[:300]}
                what = f"`{name}` value {v!r} written by {p}: " + (f"read back {r[1]!r}" if isinstance(r, tuple) else f"{r}")
                if t[0] == 2 and isinstance(v, int) and not -(2**63) <= v < 2**63:
                    known_or_report("C01-int-family-int64", "int64", what, rep)
                elif t[0] == 1 and t[2] == 0 and isinstance(r, tuple) and len(r[1]) == 1 and isinstance(r[1][0], D) and r[1][0] == v and not (p == "pandas" and abs(v) >= 2**63):
                    known_or_report("C01-fixed0-decimal", "fixed0", what, rep)
                elif t[0] == 9 and v is not None and ((p == "literal" and v) or p == "param"):
                    known_or_report("C01-binary-sql", "binsql", what, rep)
                elif t[0] == 4 and p == "var" and re.search(r"\$\w", v or "") and isinstance(r, str) and "Session variable" in r:
                    known_or_report("C01-var-dollar-value", "vardollar", what, rep)
                elif t[0] == 3 and p in ("literal", "param", "var") and isinstance(r, tuple) and len(r[1]) == 1 and isinstance(r[1][0], float) and "e" not in repr(v) \
                        and len(repr(v).replace("-", "").replace(".", "").lstrip("0")) >= 16 and abs(r[1][0] - v) <= abs(v) * 2.3e-16:
                    known_or_report("C01-float-decimal-literal", "fltlit", what, rep)
                elif t[0] == 4 and p == "literal" and re.search(r"\$\w", v or "") and isinstance(r, str) and "Session variable" in r:
                    known_or_report("C01-literal-dollar", "dollar", what, rep)
                elif p == "qmark" and t[0] in (1, 2) and isinstance(v, int) and v >= 2**64:
                    known_or_report("C01-qmark-bigint", "qmbig", what, rep)
                elif p == "pandas" and t[0] == 1 and isinstance(v, int) and abs(v) >= 2**53:
                    known_or_report("C01-pandas-bigint", "pdbig", what, rep)
                elif p == "pandas" and t[0] == 10 and isinstance(v, str) and v.startswith('"'):
                    known_or_report("C01-pandas-variant-string", "pdstr", what, rep)
                else:
                    report(f"val:{name}:{p}", what, rep)
        for p in PATHS:
            for x in (f"w{n}_{p}", f"w{n}_src"):
                cur.execute(f"drop table if exists {x}")
    # a value BUILT in the SET statement (recorded finding: the stored text is the re-rendered transformed expression)
    try:
        cur.execute("set c01_o = object_construct('a', 1)")
        got_o = cur.execute("select $c01_o").fetchall()[0][0]
    except Exception as e:  # noqa: BLE001
        got_o = f"{type(e).__name__}"
    ck.cov["evaluations"] += 1
    if not (isinstance(got_o, str) and got_o.replace(" ", "") == '{"a":1}'):
        known_or_report("C01-var-rerendered-value", "varoc", f"set c01_o = object_construct('a', 1); select $c01_o gives {got_o!r}", {"statements": ["set c01_o = object_construct('a', 1)", "select $c01_o"], "observed": repr(got_o)})
    # text values on an instance configured with nop_regexes: a VALUE that looks like a no-op'd statement is still data
    fsn, connn = fsutil.fresh(nop_regexes=["^CALL.*", r"ALTER\s+SESSION\s", "^USE ROLE"])
    curn = connn.cursor()
    curn.execute("create table nv (id int, c varchar)")
    nvals = ["line one\nCall me maybe", "please alter session timezone now", "x\nUSE ROLE admin", "call it a day", "CALL", "a\n\ncall proc()"]
    for j, v in enumerate(nvals):
        ck.cov["evaluations"] += 2
        curn.execute(f"insert into nv values ({j}, {lit([4], v)})")
        curn.execute("insert into nv (id, c) values (%s, %s)", (100 + j, v))
    backn = curn.execute("select id, c from nv order by id").fetchall()
    wantn = [(j, v) for j, v in enumerate(nvals)] + [(100 + j, v) for j, v in enumerate(nvals)]
    if backn != wantn:
        missing = [w for w in wantn if w not in backn]
        report("nop-values", f"instance with nop_regexes ['^CALL.*', 'ALTER\\s+SESSION\\s', '^USE ROLE']: wrote {len(wantn)} text rows, read back {len(backn)}; not stored: {missing[:3]!r}",
               {"nop_regexes": ["^CALL.*", "ALTER\\s+SESSION\\s", "^USE ROLE"], "written": wantn, "read": backn})
    fsn.duck_conn.close()
    # int-family finding's own witness (so that it is reported iff it still fails)
    try:
        cur.execute("create or replace table w_int (c int)")
        cur.execute("insert into w_int values (9223372036854775808)")
        if cur.execute("select c from w_int").fetchall() != [(9223372036854775808,)]:
            raise ValueError("read back differently")
    except Exception as e:  # noqa: BLE001
        known_or_report("C01-int-family-int64", "int64", f"insert 9223372036854775808 into an INT column: {type(e).__name__}", {"statement": "insert into w_int values (9223372036854775808)"})
    # model vs implementation on (type, value): column type, storability, python kind
    mo = core.model_eval("run_c01", vcases)
    vi = [[m[0], o[1], o[2] if o[2] else m[2]] for m, o in zip(mo, vimpl)]
    dis = ck.correspond(vcases, vi, label="v")
    for i in dis[:1]:
        name, v, res = vinfo[i]
        report("model", f"`{name}` value {v!r}: model (duck type, storable, python kind) {mo[i]} vs implementation {vi[i]}; per path {res}"[:500],
               {"type": name, "value": repr(v), "model": mo[i], "impl": vi[i], "theorem": "Props_C01.stored_partial / pykind_partial"}, no_input=True)
    fs.duck_conn.close()
    ck.cov["distinct_nontrivial"] = len({(a, repr(b)) for a, b, _ in vinfo})
    ck.cov["exhaustive_space"] = f"{len(spell)} type spellings incl. NUMBER(p,s) grid of {len(grid)} (all 741 in thorough)"
    ck.cov["samples"] += [{"type": a, "value": repr(b)} for a, b, _ in vinfo[5:9]]
    return ck.finish(rule="(1) every type spelling -> real DuckDB column type = map_type; (2) per type: edge + random values and NULLs written by literal / bound parameter / INSERT..SELECT / CTAS / "
                          "CLONE / write_pandas, read back: same ids once each, equal value of the written Python type, bystander unchanged, CTAS/CLONE keep the column type; "
                          "model's storability and python kind vs observed; non-trivial = distinct (type, non-NULL value) pairs")


if __name__ == "__main__":
    sys.exit(main())
