#!/usr/bin/env python3
"""Confirm a seeded change (tests still pass, demo fails with / passes without) and run the check against it.
usage: seedtest.py <pid> <worktree> <variant> [--keep]   -> writes /verif/seeded/<pid>-<variant>/"""
import json, os, re, shutil, subprocess, sys, time
from pathlib import Path

pid, wt, var = sys.argv[1], Path(sys.argv[2]), sys.argv[3]
src = wt / "_seed" / var
env = dict(os.environ, PYTHONPATH=str(wt))
def sh(cmd, **kw):
    return subprocess.run(cmd, shell=True, capture_output=True, text=True, **kw)
sh(f"git -C {wt} reset -q --hard")
head = sh("git -C /repo rev-parse HEAD").stdout.strip()
sh(f"git -C {wt} checkout -q --detach {head}")
r = sh(f"git -C {wt} apply {src}/patch.diff")
if r.returncode != 0:
    r = sh(f"git -C {wt} apply -3 {src}/patch.diff")
if r.returncode != 0:
    print(json.dumps({"pid": pid, "var": var, "confirmed": False, "detected": False, "lines": ["PATCH DOES NOT APPLY to current /repo HEAD: " + r.stderr[-300:]], "stderr": ""}))
    sh(f"git -C {wt} reset -q --hard {head}")
    sys.exit(0)
try:
    t = sh(f"cd {wt} && /venv/bin/python -m pytest -q -p no:cacheprovider -x --deselect tests/test_fakes.py::test_get_result_batches --deselect tests/test_fakes.py::test_get_result_batches_dict 2>&1 | tail -3", env=env)
    tests_ok = bool(re.search(r"\b196 passed", t.stdout)) and not re.search(r"\b\d+ (failed|error)", t.stdout)
    d1 = sh(f"cd {src} && /venv/bin/python demo.py", env=env, timeout=600)
    t0 = time.time()
    c = sh(f"cd /verif && /venv/bin/python checks/run.py {pid} --tier quick", env=dict(os.environ, VERIF_REPO=str(wt)), timeout=3600)
    lines = [l for l in c.stdout.splitlines() if l.startswith(("VIOLATION", "  ->", "KNOWN", pid))]
    detected = c.returncode == 1 and any(l.startswith("VIOLATION") for l in lines)
    wall = round(time.time() - t0)
finally:
    sh(f"git -C {wt} reset -q --hard {head}")      # (a patch that applied only by 3-way merge is staged: checkout alone would keep it)
d0 = sh(f"cd {src} && /venv/bin/python demo.py", env=env, timeout=600)
confirmed = tests_ok and d1.returncode != 0 and d0.returncode == 0
out = Path("/verif/seeded") / f"{pid}-{var}"
if confirmed:
    out.mkdir(parents=True, exist_ok=True)
    for f in ("patch.diff", "demo.py", "notes.md"):
        if (src / f).exists():
            shutil.copy(src / f, out / f)
    notes = (src / "notes.md").read_text() if (src / "notes.md").exists() else ""
    meta = {"property": pid, "variant": var, "needs_to_manifest": notes[:1500],
            "confirmed": {"tests": t.stdout.strip().splitlines()[-1:], "demo_with_patch_rc": d1.returncode, "demo_without_patch_rc": d0.returncode,
                          "demo_with_patch_out": d1.stdout[-400:]},
            "ran": f"VERIF_REPO=<worktree with patch> /venv/bin/python checks/run.py {pid} --tier quick",
            "check": {"detected": detected, "exit": c.returncode, "wall_s": wall, "lines": lines[:6]}}
    (out / "meta.json").write_text(json.dumps(meta, indent=1))
print(json.dumps({"pid": pid, "var": var, "tests_ok": tests_ok, "demo_fails_with": d1.returncode != 0, "demo_passes_without": d0.returncode == 0,
                  "confirmed": confirmed, "detected": detected, "check_rc": c.returncode, "lines": lines[:4], "stderr": c.stderr[-300:] if c.returncode == 2 else ""}, indent=1))
