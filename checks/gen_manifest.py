#!/usr/bin/env python3
"""Regenerates MANIFEST.json from checks/claims.json (per-property texts) - keeps it valid at all times."""
import json
from pathlib import Path

V = Path(__file__).resolve().parent.parent
claims = json.loads((V / "checks" / "claims.json").read_text())
props = [json.loads(l) for l in (V / "properties.jsonl").read_text().splitlines() if l.strip()]
checks, na = [], []
for p in props:
    pid = p["id"]
    c = claims.get(pid)
    if not c or c.get("not_applicable"):
        na.append({"property_id": pid, "reason": (c or {}).get("not_applicable", "check not built yet in this development; no claim is made")})
        continue
    checks.append({
        "property_id": pid,
        "quick_cmd": f"/venv/bin/python checks/run.py {pid} --tier quick",
        "thorough_cmd": f"/venv/bin/python checks/run.py {pid} --tier thorough",
        "evidence_file": f"/verif/evidence/{pid}.json",
        "replay_cmd_template": f"/venv/bin/python checks/run.py {pid} --replay {{path}}",
        "engine": "coq-model+correspondence",
        "level_claimed": {"category": "proof", "text": c["text"], "design_ref": c.get("design_ref", f"DESIGN.md section 6, {pid}")},
        "level_note": c["note"],
        "technique": c["technique"],
    })
m = {
    "version": 1,
    "setup_cmd": "/venv/bin/python checks/setup.py",
    "hooks": {
        "guard": "FAKESNOW_VERIF",
        "enable": "no source hooks: all instrumentation lives in /verif/harness (engine proxy replacing FakeSnow.duck_conn, mocks at the runpy/patch boundary); checks import fakesnow from /repo (or $VERIF_REPO) via PYTHONPATH and assert fakesnow.__file__ is under it",
        "baseline_off_cmd": "cd /repo && /venv/bin/python -m pytest -ra -q -p no:cacheprovider --timeout=900 --continue-on-collection-errors",
        "source_commits": [],
        "add_only": True,
    },
    "engines": [{
        "name": "coq-model+correspondence",
        "path": "/verif/coq, /verif/harness",
        "serves_properties": [c["property_id"] for c in checks],
        "kind_free_text": "Rocq/Coq 8.16.1 development (hand-written Gallina models of fakesnow's glue, theorems in coq/theories/props/Props_Cxx.v re-compiled on every run with Print Assumptions) + behavioural correspondence: the same generated inputs are run on /repo's working tree and on the model (extracted OCaml, cross-checked by kernel vm_compute), observations compared; an independent Python oracle states the property on the implementation's own observations to turn a disagreement into a concrete failing input",
    }],
    "checks": checks,
    "not_applicable": na,
    "notes": "exit 2 from a check means the machinery itself failed (build, extraction, evidence) and is never a verdict. Fix commits in /repo are listed in known_findings.json under 'fixed'.",
}
(V / "MANIFEST.json").write_text(json.dumps(m, indent=1) + "\n")
print(f"{len(checks)} checks, {len(na)} not claimed")
