#!/usr/bin/env python3
"""Behaviour-preserving rewrites of fakesnow (harmless/*.diff): every listed check must stay green on them.
usage: harmless.py <scratch worktree of /repo>   (not a registered command; result summarised in DESIGN.md)"""
import json, subprocess, sys, os
from pathlib import Path
wt = Path(sys.argv[1])
PLAN = {"h1-conn-timezone-first.diff": ["C14", "C19", "C18", "C03"], "h2-merge-cosmetic.diff": ["C12", "C02"], "h3-fetchall-remaining.diff": ["C05", "C06"],
        "h4-refactor-locals.diff": ["C09", "C11", "C19"], "h5-variables-splitter-restructured.diff": ["C15", "C16", "C08", "C01"]}
def sh(c, **kw): return subprocess.run(c, shell=True, capture_output=True, text=True, **kw)
head = sh("git -C /repo rev-parse HEAD").stdout.strip()
out = {}
for diff, pids in PLAN.items():
    sh(f"git -C {wt} checkout -- fakesnow"); sh(f"git -C {wt} checkout -q --detach {head}")
    r = sh(f"git -C {wt} apply /verif/harmless/{diff}")
    if r.returncode: out[diff] = "DOES NOT APPLY " + r.stderr[-200:]; continue
    t = sh(f"cd {wt} && /venv/bin/python -m pytest -q -p no:cacheprovider 2>&1 | tail -1", env=dict(os.environ, PYTHONPATH=str(wt)))
    res = {"tests": t.stdout.strip()}
    for pid in pids:
        c = sh(f"cd /verif && /venv/bin/python checks/run.py {pid} --tier quick", env=dict(os.environ, VERIF_REPO=str(wt)))
        res[pid] = c.returncode
    out[diff] = res
    sh(f"git -C {wt} checkout -- fakesnow")
print(json.dumps(out, indent=1))
