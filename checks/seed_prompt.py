#!/usr/bin/env python3
"""Prints the prompt for a seeding sub-agent (property text only; nothing from /verif's machinery)."""
import json, sys
pid = sys.argv[1]; wt = sys.argv[2]
for l in open('/verif/properties.jsonl'):
    p = json.loads(l)
    if p['id'] == pid:
        break
print(f"""You are helping to evaluate a verification effort by acting as an adversarial developer.

Repository: a git worktree of the Python project tekumara/fakesnow (a fake Snowflake connector built on DuckDB + sqlglot) at {wt}. Work ONLY inside {wt}. Never touch /repo or /verif, never commit, never push. Python is /venv/bin/python (all dependencies installed; no network). Run the test suite with:
  cd {wt} && PYTHONPATH={wt} /venv/bin/python -m pytest -q -p no:cacheprovider
(196 tests pass; tests/test_fakes.py::test_get_result_batches and test_get_result_batches_dict always fail, ignore those two). IMPORTANT: always set PYTHONPATH={wt} when running python so that `import fakesnow` uses your worktree, and verify with `python -c "import fakesnow; print(fakesnow.__file__)"`.

The semantic property under study ({pid}): "{p['title']}"
Statement: {p['statement']}
Quantified over: {p['quantifier']['text']}
Relevant files: {', '.join(p['anchors']['files'])}

Task: produce TWO different, independent, realistic changes (call them a and b) to the fakesnow source (under {wt}/fakesnow only, not the tests) that each BREAK this property while the package still imports and the existing test suite still passes exactly as before (same 196 passing). Each change should look like a plausible refactor/optimisation/bug a developer could introduce (a few lines), and should need something specific to manifest - a particular multi-step sequence of operations, an unusual input, a particular interleaving or crash point, or two cooperating sites that each look fine alone - not something ordinary use would expose at once. a and b should break the property through different mechanisms/code sites.

For each change X in (a, b) write into {wt}/_seed/X/ :
  - patch.diff : `git diff` output of ONLY that change relative to the worktree's HEAD (apply with `git apply`); make sure the worktree is clean (git checkout -- fakesnow) before starting the other change so the two diffs are independent.
  - demo.py : a small standalone program (run as `PYTHONPATH=<tree> /venv/bin/python demo.py`) that exits 0 and prints OK on the unmodified tree and exits non-zero (printing what went wrong) with the change applied. It must demonstrate a violation of the property as stated, through the public API only.
  - notes.md : what the change is, why the tests do not catch it, what exactly is needed for it to manifest.
Verify yourself, for each change: (1) with the patch applied the full test suite gives the same result as without it; (2) demo.py fails with the patch and passes without it. When finished leave the worktree's fakesnow/ directory clean (unmodified) and reply with a short summary of the two changes and your verification results.""")
