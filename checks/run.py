#!/venv/bin/python
"""Entry point of every registered check:  run.py Cxx [--tier quick|thorough] [--replay FILE]
exit 0 = property held on everything explored; exit 1 + VIOLATION line = violation;
exit 2 = the machinery itself is broken (never a verdict about the property)."""
import argparse
import importlib
import os
import sys
import traceback
from pathlib import Path

HERE = Path(__file__).resolve().parent.parent
sys.path.insert(0, str(HERE / "harness"))


def main():
    ap = argparse.ArgumentParser()
    ap.add_argument("pid")
    ap.add_argument("--tier", default=os.environ.get("VERIF_TIER", "quick"))
    ap.add_argument("--replay")
    a = ap.parse_args()
    os.environ["VERIF_TIER"] = a.tier
    if a.replay:
        os.environ["VERIF_REPLAY"] = a.replay
    os.chdir(HERE)
    import core

    try:
        mod = importlib.import_module(a.pid.lower())
        rc = mod.main()
    except core.MachineryError as e:
        print(f"MACHINERY-ERROR {a.pid}: {e}", file=sys.stderr)
        return 2
    except Exception:  # noqa: BLE001
        traceback.print_exc()
        print(f"MACHINERY-ERROR {a.pid}: unexpected exception", file=sys.stderr)
        return 2
    return rc


if __name__ == "__main__":
    sys.exit(main())
