#!/venv/bin/python
"""MANIFEST.setup_cmd: full offline build of the Coq development (coq_makefile + make, full .vo),
extraction + native driver, forbidden-vernacular grep."""
import sys
from pathlib import Path

sys.path.insert(0, str(Path(__file__).resolve().parent.parent / "harness"))
import core

try:
    core.build(force=True)
except core.MachineryError as e:
    print(f"SETUP FAILED: {e}", file=sys.stderr)
    sys.exit(1)
print("setup ok")
