(* S-expression driver for the extracted models: one case per line, "<name> <sexp>". *)
module F = Fsmodel

let rec pos_of_int n = if n = 1 then F.XH else if n land 1 = 0 then F.XO (pos_of_int (n lsr 1)) else F.XI (pos_of_int (n lsr 1))
let z_of_small n = if n = 0 then F.Z0 else if n > 0 then F.Zpos (pos_of_int n) else F.Zneg (pos_of_int (-n))
let rec int_of_pos = function F.XH -> 1 | F.XO p -> 2 * int_of_pos p | F.XI p -> 2 * int_of_pos p + 1
let int_of_small = function F.Z0 -> 0 | F.Zpos p -> int_of_pos p | F.Zneg p -> - (int_of_pos p)

let chunk = 1_000_000_000_000_000 (* 10^15 *)
let zchunk = z_of_small chunk

(* decimal digits (no sign) -> Z *)
let z_of_digits (s : string) : F.z =
  let n = String.length s in
  if n <= 15 then z_of_small (int_of_string s)
  else begin
    let first = n mod 15 in
    let acc = ref (if first = 0 then F.Z0 else z_of_small (int_of_string (String.sub s 0 first))) in
    let i = ref first in
    while !i < n do
      acc := F.drv_add (F.drv_mul !acc zchunk) (z_of_small (int_of_string (String.sub s !i 15)));
      i := !i + 15
    done; !acc
  end

let z_of_string s =
  if String.length s > 0 && s.[0] = '-' then F.drv_opp (z_of_digits (String.sub s 1 (String.length s - 1)))
  else z_of_digits s

let rec digits_of_nonneg (z : F.z) : string =
  let (q, r) = F.drv_quotrem z zchunk in
  match q with
  | F.Z0 -> string_of_int (int_of_small r)
  | _ -> digits_of_nonneg q ^ Printf.sprintf "%015d" (int_of_small r)

let string_of_z z = match z with
  | F.Zneg p -> "-" ^ digits_of_nonneg (F.Zpos p)
  | _ -> digits_of_nonneg z

let parse_sexp (s : string) (start : int) : F.sexp =
  let n = String.length s in
  let pos = ref start in
  let rec skip () = if !pos < n && (s.[!pos] = ' ' || s.[!pos] = '\t') then (incr pos; skip ()) in
  let rec item () : F.sexp =
    skip ();
    if s.[!pos] = '(' then begin
      incr pos;
      let acc = ref [] in
      let fin = ref false in
      while not !fin do
        skip ();
        if s.[!pos] = ')' then (incr pos; fin := true) else acc := item () :: !acc
      done;
      F.L (List.rev !acc)
    end else begin
      let b = !pos in
      while !pos < n && s.[!pos] <> ' ' && s.[!pos] <> ')' && s.[!pos] <> '(' do incr pos done;
      F.A (z_of_string (String.sub s b (!pos - b)))
    end in
  item ()

let rec print_sexp buf = function
  | F.A z -> Buffer.add_string buf (string_of_z z)
  | F.L l -> Buffer.add_char buf '(';
      List.iteri (fun i x -> if i > 0 then Buffer.add_char buf ' '; print_sexp buf x) l;
      Buffer.add_char buf ')'

let () =
  let buf = Buffer.create 65536 in
  (try
    while true do
      let line = input_line stdin in
      let sp = String.index line ' ' in
      let name = String.sub line 0 sp in
      let x = parse_sexp line (sp + 1) in
      let f = try List.assoc name Dispatch.table with Not_found -> failwith ("unknown model " ^ name) in
      Buffer.clear buf;
      print_sexp buf (f x);
      print_string (Buffer.contents buf); print_newline ()
    done
  with End_of_file -> ())
