(* Extraction of the executable models. Only ExtrOcamlBasic directives are used. *)
Require Extraction.
Require Import ExtrOcamlBasic.
From FS Require Import Sexp Cli Patch Fetch Vars Connect Tx Dml Ctx Errs Codec Split Wire Types Store Merge Ident Meta Steps Json Expr.

Definition drv_add := Z.add.
Definition drv_mul := Z.mul.
Definition drv_opp := Z.opp.
Definition drv_quotrem := Z.quotrem.

Extraction "fsmodel.ml" drv_add drv_mul drv_opp drv_quotrem
  run_c20_split run_c20_main run_c20_patch
  run_c05 run_c15_inline run_c15_hist run_c14 run_c13 run_c04 run_c04_ddl run_c03 run_c07_code run_c07_sqlstate
  run_c08_quote run_c08_sflex run_c08_duckgen run_c08_ducklex run_c08_sfgen run_c08_bind run_c16_split run_c17_ts run_c06_type run_c06_table run_c01 run_c12 run_c12_prefix run_c02_norm run_c02_eq run_c09 run_c19 run_c18 run_c11 run_c11_oc run_c10 run_c10_cal run_c09_types run_c09_arms.
