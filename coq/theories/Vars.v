(* Model of fakesnow/variables.py (Variables._set/_unset/inline_variables/_split_protected, after fixes 054ef98, 83dbaa3 and 7b219e4)
   and of the per-connection variable store (conn.py:52, cursor.py:138,448).
   Texts are ASCII; \w is [A-Za-z0-9_] (Unicode \w and case folding are outside the model). *)
From FS Require Import Sexp.

Definition is_digit (c : Z) : bool := (48 <=? c) && (c <=? 57).
Definition is_word (c : Z) : bool :=
  is_ascii_lower c || is_ascii_upper c || is_digit c || (c =? 95).
Definition dollar : Z := 36.

Definition ci_eqc (a b : Z) : bool := lo_c a =? lo_c b.

Definition boundary (s : str) : bool := match s with [] => true | c :: _ => negb (is_word c) end.
Fixpoint take_word (s : str) : str :=
  match s with c :: r => if is_word c then c :: take_word r else [] | [] => [] end.

Definition vars := list (str * str).   (* insertion-ordered dict: name -> value text *)

(* name lookup in any letter case; the first variable whose name matches wins *)
Fixpoint ci_eqs (a b : str) : bool :=
  match a, b with
  | [], [] => true
  | x :: a', y :: b' => ci_eqc x y && ci_eqs a' b'
  | _, _ => false
  end.
Definition lookup (vs : vars) (w : str) : option str :=
  match find (fun nv => ci_eqs (fst nv) w) vs with Some (_, v) => Some v | None => None end.

(* Variables._inline: re.sub(r"(?<!\$)\$(\w+)", value_of, sql) - ONE pass, leftmost, non-overlapping: a '$' that does not follow
   another '$' and is followed by a word is a reference to the variable of that name; its value is inserted verbatim and NOT
   scanned again; the first reference to an undefined variable raises (inr = the error's variable text, upper-cased) *)
Fixpoint xgo (vs : vars) (skip : nat) (prev_dollar : bool) (s : str) : str + str :=
  match s with
  | [] => inl []
  | c :: r =>
      match skip with
      | S k => xgo vs k false r
      | O =>
          if (c =? dollar) && negb prev_dollar && negb (boundary r)
          then let w := take_word r in
               match lookup vs w with
               | Some v => match xgo vs (length w) false r with inl o => inl (v ++ o) | inr e => inr e end
               | None => inr (upper (c :: w))
               end
          else match xgo vs O (c =? dollar) r with inl o => inl (c :: o) | inr e => inr e end
      end
  end.
Definition inline_text (vs : vars) (sql : str) : str + str := xgo vs O false sql.

(* ---- variables.py:_split_protected (fix 83dbaa3): the text is cut into pieces; complete 'string literals' (with ''
   and backslash escapes), "quoted identifiers" (with ""), $$dollar-quoted strings$$, -- comments and /* comments */ are protected;
   an unterminated one is ordinary text ---- *)
Definition c_sq : Z := 39.  Definition c_dq : Z := 34.  Definition c_bs : Z := 92.  Definition c_nl : Z := 10.
Definition c_dash : Z := 45.  Definition c_slash : Z := 47.  Definition c_star : Z := 42.

(* after the opening quote q: the rest of the literal (with its closing quote) and what follows it *)
Fixpoint scan_quoted (q : Z) (bs : bool) (s acc : str) : option (str * str) :=
  match s with
  | [] => None
  | x :: r =>
      if bs && (x =? c_bs) then match r with y :: r' => scan_quoted q bs r' (acc ++ [x; y]) | [] => None end
      else if negb (x =? q) then scan_quoted q bs r (acc ++ [x])
      else match r with
           | y :: r' => if y =? q then scan_quoted q bs r' (acc ++ [x; y]) else Some (acc ++ [x], r)
           | [] => Some (acc ++ [x], [])
           end
  end.
(* str.find of the two-character terminator a b *)
Fixpoint find2 (a b : Z) (s acc : str) : option (str * str) :=
  match s with
  | [] => None
  | x :: r => match r with
              | y :: r' => if (x =? a) && (y =? b) then Some (acc ++ [x; y], r') else find2 a b r (acc ++ [x])
              | [] => None
              end
  end.
Fixpoint to_eol (s acc : str) : str * str :=
  match s with
  | [] => (acc, [])
  | x :: r => if x =? c_nl then (acc, s) else to_eol r (acc ++ [x])
  end.

(* a complete protected piece starting at the head of s, and the text after it *)
Definition protect_here (s : str) : option (str * str) :=
  match s with
  | [] => None
  | c :: r =>
      if c =? c_sq then scan_quoted c_sq true r [c]
      else if c =? c_dq then scan_quoted c_dq false r [c]
      else match r with
           | d :: r' =>
               if (c =? dollar) && (d =? dollar) then find2 dollar dollar r' [c; d]
               else if (c =? c_dash) && (d =? c_dash) then Some (to_eol r' [c; d])
               else if (c =? c_slash) && (d =? c_star) then find2 c_star c_slash r' [c; d]
               else None
           | [] => None
           end
  end.

Fixpoint split_fuel (fuel : nat) (s acc : str) : list (bool * str) :=
  match fuel with
  | O => [(false, acc ++ s)]
  | S f =>
      match s with
      | [] => [(false, acc)]
      | c :: r =>
          match protect_here s with
          | Some (p, rest) => (false, acc) :: (true, p) :: split_fuel f rest []
          | None => split_fuel f r (acc ++ [c])
          end
      end
  end.
Definition split_protected (s : str) : list (bool * str) := split_fuel (S (length s)) s [].

(* "".join(text if protected else self._inline(text) ...): pieces in order, the first undefined variable raises *)
Fixpoint inline_pieces (vs : vars) (ps : list (bool * str)) : str + str :=
  match ps with
  | [] => inl []
  | (true, t) :: r => match inline_pieces vs r with inl o => inl (t ++ o) | inr e => inr e end
  | (false, t) :: r => match inline_text vs t with
                       | inr e => inr e
                       | inl t' => match inline_pieces vs r with inl o => inl (t' ++ o) | inr e => inr e end
                       end
  end.
Definition inline_variables (vs : vars) (sql : str) : str + str := inline_pieces vs (split_protected sql).

(* dict semantics *)
Fixpoint vset (vs : vars) (n v : str) : vars :=
  match vs with
  | [] => [(n, v)]
  | (n', v') :: r => if str_eqb n' n then (n', v) :: r else (n', v') :: vset r n v
  end.
Fixpoint vunset (vs : vars) (n : str) : vars :=
  match vs with
  | [] => []
  | (n', v') :: r => if str_eqb n' n then r else (n', v') :: vunset r n
  end.

(* ---- connections: one store per connection, shared by its cursors ---- *)
Inductive vop :=
| VSet (conn : nat) (name value : str)     (* name as stored, i.e. upper-cased by the first transform *)
| VUnset (conn : nat) (name : str)
| VUse (conn : nat) (sql : str).

Definition stores := list vars.             (* index = connection *)
Definition sget (st : stores) (c : nat) : vars := nth c st [].
Fixpoint sset (st : stores) (c : nat) (v : vars) : stores :=
  match st, c with
  | [], _ => []
  | _ :: r, O => v :: r
  | x :: r, S c' => x :: sset r c' v
  end.

Definition vstep (st : stores) (o : vop) : stores * option (str + str) :=
  match o with
  | VSet c n v => (sset st c (vset (sget st c) n v), None)
  | VUnset c n => (sset st c (vunset (sget st c) n), None)
  | VUse c sql => (st, Some (inline_variables (sget st c) sql))
  end.

Fixpoint vrun (st : stores) (ops : list vop) : list (option (str + str)) :=
  match ops with
  | [] => []
  | o :: r => let '(st', x) := vstep st o in x :: vrun st' r
  end.

(* ---- sexp ---- *)
Definition enc_res (r : str + str) : sexp :=
  match r with inl s => L [A 0; enc_str s] | inr e => L [A 1; enc_str e] end.

(* input: ((name value) ...) sql *)
Definition run_c15_inline (x : sexp) : sexp :=
  match x with
  | L [vs; sql] =>
      match dec_list (fun p => match p with
                               | L [n; v] => match dec_str n, dec_str v with
                                             | Some n, Some v => Some (n, v) | _, _ => None end
                               | _ => None end) vs, dec_str sql with
      | Some vs, Some sql => enc_res (inline_variables vs sql)
      | _, _ => bad
      end
  | _ => bad
  end.

Definition dec_vop (x : sexp) : option vop :=
  match x with
  | L [A 0; c; n; v] => match dec_nat c, dec_str n, dec_str v with
                        | Some c, Some n, Some v => Some (VSet c n v) | _, _, _ => None end
  | L [A 1; c; n] => match dec_nat c, dec_str n with Some c, Some n => Some (VUnset c n) | _, _ => None end
  | L [A 2; c; s] => match dec_nat c, dec_str s with Some c, Some s => Some (VUse c s) | _, _ => None end
  | _ => None
  end.

(* input: nconn (op ...) ; output: per op () or (result) *)
Definition run_c15_hist (x : sexp) : sexp :=
  match x with
  | L [n; ops] =>
      match dec_nat n, dec_list dec_vop ops with
      | Some n, Some ops => enc_list (enc_opt enc_res) (vrun (repeat [] n) ops)
      | _, _ => bad
      end
  | _ => bad
  end.
