(* Model for C16: how conn.execute_string (conn.py:128-141) cuts a text into statements - the
   sqlglot Snowflake tokenizer's view of strings, quoted identifiers, comments and $$ strings,
   as a character-level automaton - and execute_string / nop_regexes as folds over an abstract
   statement executor (cursor.py:140-143). *)
From FS Require Import Sexp.

Inductive state :=
| Code | Dash | Slash | Dol            (* code; just saw - / $ *)
| SQ | SQEsc | SQQ                     (* '...' ; after \ ; just saw a ' inside (closing unless doubled) *)
| DQ | DQQ                             (* "..." *)
| Line | Block | BlockStar             (* -- or // comment ; /* comment *)
| Raw | RawD.                          (* $$...$$ *)

Definition code_delta (c : Z) : state * bool :=
  if c =? 39 then (SQ, false) else if c =? 34 then (DQ, false) else if c =? 45 then (Dash, false)
  else if c =? 47 then (Slash, false) else if c =? 36 then (Dol, false)
  else if c =? 59 then (Code, true) else (Code, false).

Definition delta (s : state) (c : Z) : state * bool :=
  match s with
  | Code => code_delta c
  | Dash => if c =? 45 then (Line, false) else code_delta c
  | Slash => if c =? 42 then (Block, false) else if c =? 47 then (Line, false) else code_delta c
  | Dol => if c =? 36 then (Raw, false) else code_delta c
  | SQ => if c =? 92 then (SQEsc, false) else if c =? 39 then (SQQ, false) else (SQ, false)
  | SQEsc => (SQ, false)
  | SQQ => if c =? 39 then (SQ, false) else code_delta c
  | DQ => if c =? 34 then (DQQ, false) else (DQ, false)
  | DQQ => if c =? 34 then (DQ, false) else code_delta c
  | Line => if (c =? 10) || (c =? 13) then (Code, false) else (Line, false)
  | Block => if c =? 42 then (BlockStar, false) else (Block, false)
  | BlockStar => if c =? 47 then (Code, false) else if c =? 42 then (BlockStar, false) else (Block, false)
  | Raw => if c =? 36 then (RawD, false) else (Raw, false)
  | RawD => if c =? 36 then (Code, false) else (Raw, false)
  end.

Record acc := { stt : state; cur : str; done : list str }.
Definition feed (a : acc) (c : Z) : acc :=
  let '(s', sp) := delta (stt a) c in
  if sp then {| stt := s'; cur := []; done := done a ++ [cur a] |}
  else {| stt := s'; cur := cur a ++ [c]; done := done a |}.
Definition scan (a : acc) (text : str) : acc := fold_left feed text a.

Definition closed (s : state) : bool :=
  match s with SQ | SQEsc | DQ | Block | BlockStar | Raw | RawD => false | _ => true end.

(* None = the tokenizer rejects the whole text (unterminated string / comment): nothing is executed *)
Definition split (text : str) : option (list str) :=
  let a := scan {| stt := Code; cur := []; done := [] |} text in
  if closed (stt a) then Some (done a ++ [cur a]) else None.

(* ---- execute_string and nop_regexes over an abstract executor ---- *)
Section Exec.
  Variables world stmt result pat : Type.
  Variable exec : world -> stmt -> world * option result.     (* None = the statement raises *)
  Variable matches : pat -> stmt -> bool.                     (* re.match(p, command, re.IGNORECASE) *)
  Variable success : result.                                  (* the one-row success status *)

  Definition exec_nop (pats : list pat) (w : world) (s : stmt) : world * option result :=
    if existsb (fun p => matches p s) pats then (w, Some success) else exec w s.

  (* one cursor per statement; stops at the first failing statement, the earlier ones applied *)
  Fixpoint execute_string (pats : list pat) (w : world) (ss : list stmt) : world * list result * bool :=
    match ss with
    | [] => (w, [], true)
    | s :: r =>
        match exec_nop pats w s with
        | (w', Some x) => let '(wf, xs, ok) := execute_string pats w' r in (wf, x :: xs, ok)
        | (w', None) => (w', [], false)
        end
    end.
End Exec.

(* ---- sexp ---- *)
Definition run_c16_split (x : sexp) : sexp :=
  match dec_str x with
  | Some t => enc_opt (enc_list enc_str) (split t)
  | None => bad
  end.
