(* Model for C01: declared Snowflake column types, the DuckDB type each becomes (sqlglot's mapping
   followed by float_to_double / integer_precision / timestamp_ntz / semi_structured_types,
   transforms.py:524,625,1205,1262), value domains, and the Python kind read back. *)
From FS Require Import Sexp Types.

Inductive sftype :=
| TBoolean
| TNumber (p s : Z)          (* NUMBER/DECIMAL/NUMERIC (p,s); bare NUMBER = (38,0) *)
| TIntFamily                 (* INT INTEGER BIGINT SMALLINT TINYINT BYTEINT *)
| TFloat                     (* FLOAT FLOAT4 FLOAT8 DOUBLE [PRECISION] REAL *)
| TText                      (* VARCHAR CHAR CHARACTER STRING TEXT, any length *)
| TDate | TTime | TTsNtz | TTsTz
| TBinary                    (* BINARY VARBINARY *)
| TVariant.                  (* VARIANT OBJECT ARRAY *)

Definition map_type (t : sftype) : dtype :=
  match t with
  | TBoolean => DBoolean | TNumber p s => DDecimal p s | TIntFamily => DBigint | TFloat => DDouble
  | TText => DVarchar | TDate => DDate | TTime => DTime | TTsNtz => DTimestamp | TTsTz => DTimestampTz
  | TBinary => DBlob | TVariant => DJson
  end.

(* values, as far as representability is concerned *)
Inductive value :=
| VBool (b : bool)
| VNum (unscaled scale : Z)       (* unscaled * 10^-scale *)
| VDouble                          (* any IEEE double *)
| VText | VBytes | VJson
| VDate (days : Z)                 (* days since 1970-01-01 *)
| VTime (us : Z)                   (* microseconds since midnight *)
| VTs (us : Z).                    (* microseconds since the epoch (NTZ and TZ/UTC) *)

Definition abs_lt_pow10 (u p : Z) : bool := (Z.abs u <? 10 ^ p).

(* what Snowflake accepts for a column of the declared type (microsecond precision for temporal types) *)
Definition sf_dom (t : sftype) (v : value) : bool :=
  match t, v with
  | TBoolean, VBool _ => true
  | TNumber p s, VNum u s' => (s' =? s) && abs_lt_pow10 u p && (0 <=? s) && (s <=? p) && (1 <=? p) && (p <=? 38)
  | TIntFamily, VNum u s' => (s' =? 0) && abs_lt_pow10 u 38
  | TFloat, VDouble => true
  | TText, VText => true | TBinary, VBytes => true | TVariant, VJson => true
  | TDate, VDate d => (-719162 <=? d) && (d <=? 2932896)                    (* 0001-01-01 .. 9999-12-31 *)
  | TTime, VTime us => (0 <=? us) && (us <? 86400000000)
  | (TTsNtz | TTsTz), VTs us => (-62135596800000000 <=? us) && (us <? 253402300800000000)
  | _, _ => false
  end.

(* what the DuckDB column type can hold *)
Definition duck_dom (d : dtype) (v : value) : bool :=
  match d, v with
  | DBoolean, VBool _ => true
  | DDecimal p s, VNum u s' => (s' =? s) && abs_lt_pow10 u p
  | DBigint, VNum u s' => (s' =? 0) && (- 2 ^ 63 <=? u) && (u <? 2 ^ 63)
  | DDouble, VDouble => true
  | DVarchar, VText => true | DBlob, VBytes => true | DJson, VJson => true
  | DDate, VDate d => (-2000000 <=? d) && (d <=? 3000000)
  | DTime, VTime us => (0 <=? us) && (us <? 86400000000)
  | (DTimestamp | DTimestampTz), VTs us => (- 2 ^ 62 <=? us) && (us <? 2 ^ 62)
  | _, _ => false
  end.

(* the Python kind the Snowflake connector uses for a column of the declared type *)
Definition connector_kind (t : sftype) : pykind :=
  match t with
  | TBoolean => PBool
  | TNumber _ s => if s =? 0 then PInt else PDecimal
  | TIntFamily => PInt | TFloat => PFloat | TText | TVariant => PStr
  | TDate => PDate | TTime => PTime | TTsNtz => PNaive | TTsTz => PAware | TBinary => PBytes
  end.

(* ---- sexp ---- *)
Definition dec_sftype (x : sexp) : option sftype :=
  match x with
  | L [A 0] => Some TBoolean | L [A 1; A p; A s] => Some (TNumber p s) | L [A 2] => Some TIntFamily | L [A 3] => Some TFloat
  | L [A 4] => Some TText | L [A 5] => Some TDate | L [A 6] => Some TTime | L [A 7] => Some TTsNtz | L [A 8] => Some TTsTz
  | L [A 9] => Some TBinary | L [A 10] => Some TVariant | _ => None
  end.
Definition enc_dtype (d : dtype) : sexp :=
  match d with
  | DBigint => L [A 0] | DInteger => L [A 1] | DDecimal p s => L [A 2; A p; A s] | DDouble => L [A 3] | DVarchar => L [A 4]
  | DBoolean => L [A 5] | DDate => L [A 6] | DTime => L [A 7] | DTimestamp => L [A 8] | DTimestampNs => L [A 9]
  | DTimestampTz => L [A 10] | DBlob => L [A 11] | DJson => L [A 12] | DOther c => L [A 13; A c]
  end.
Definition dec_value (x : sexp) : option value :=
  match x with
  | L [A 0; b] => option_map VBool (dec_bool b) | L [A 1; A u; A s] => Some (VNum u s) | L [A 2] => Some VDouble
  | L [A 3] => Some VText | L [A 4] => Some VBytes | L [A 5] => Some VJson | L [A 6; A d] => Some (VDate d)
  | L [A 7; A us] => Some (VTime us) | L [A 8; A us] => Some (VTs us) | _ => None
  end.

(* input: (sftype value?) ; output: (duckdb-type storable? python-kind?) *)
Definition run_c01 (x : sexp) : sexp :=
  match x with
  | L [t; v] =>
      match dec_sftype t, dec_opt dec_value v with
      | Some t, Some v =>
          L [enc_dtype (map_type t);
             match v with Some v => L [enc_bool (duck_dom (map_type t) v)] | None => L [] end;
             enc_opt enc_py (py_kind (map_type t))]
      | _, _ => bad
      end
  | _ => bad
  end.
