(* Model for C11: JSON documents, navigation, and the pieces of fakesnow's semi-structured rewrites that
   are its own logic:
   - path access  v:a.b[1].''k y''['x']  becomes  v -> '$.a.b[1].''k y''.x'  : sqlglot renders the steps into
     a JSONPath TEXT (transforms.py:553 indices_to_json_extract + generator) which DuckDB parses again; the model
     has the renderer, DuckDB's path lexer, and navigation;
   - ::varchar turns -> into ->> (json_extract_cast_as_varchar, transforms.py:668): strings lose their quotes;
   - ARRAY_SIZE = CASE WHEN json_array_length(x) THEN json_array_length(x) END (transforms.py:49);
   - OBJECT_CONSTRUCT drops pairs whose value is a NULL LITERAL (transforms.py:738);
   - LATERAL FLATTEN = UNNEST(CAST(x AS JSON[])) (transforms.py:469).
   Path text is a list of characters, except that an array index is one token [N i]: decimal printing and
   parsing of naturals is not what the codec can get wrong (trusted). *)
From FS Require Import Sexp.

Inductive json :=
| JNull | JBool (b : bool) | JNum (z : Z) | JStr (s : str)
| JArr (l : list json) | JObj (l : list (str * json)).

Inductive step := KeyU (s : str) | KeyQ (s : str) | Idx (i : nat).   (* :a or ['a']  |  :''a''  |  [i] *)

Fixpoint jassoc (l : list (str * json)) (k : str) : option json :=
  match l with [] => None | (k', v) :: r => if str_eqb k' k then Some v else jassoc r k end.

Definition get1 (d : json) (st : step) : option json :=
  match st, d with
  | KeyU k, JObj l | KeyQ k, JObj l => jassoc l k
  | Idx i, JArr l => nth_error l i
  | _, _ => None
  end.
(* navigating the document in Python: None when a key is missing or the kind does not match *)
Fixpoint navigate (d : json) (p : list step) : option json :=
  match p with
  | [] => Some d
  | st :: r => match get1 d st with Some d' => navigate d' r | None => None end
  end.

(* ---- the path text ---- *)
Inductive pchar := C (c : Z) | N (i : nat).
Definition c_dollar : Z := 36.  Definition c_dot : Z := 46.  Definition c_quote : Z := 34.
Definition c_lb : Z := 91.      Definition c_rb : Z := 93.

Definition render_step (st : step) : list pchar :=
  match st with
  | KeyU s => C c_dot :: map C s
  | KeyQ s => C c_dot :: C c_quote :: map C s ++ [C c_quote]
  | Idx i => [C c_lb; N i; C c_rb]
  end.
Definition render_path (p : list step) : list pchar := C c_dollar :: flat_map render_step p.

(* DuckDB's JSONPath lexer: after '.', a quoted key runs to the next '''', an unquoted one to the next '.' or '[' *)
Fixpoint take_until_quote (l : list pchar) (acc : str) : option (str * list pchar) :=
  match l with
  | [] => None
  | C c :: r => if c =? c_quote then Some (acc, r) else take_until_quote r (acc ++ [c])
  | N _ :: _ => None
  end.
Fixpoint take_plain (l : list pchar) (acc : str) : str * list pchar :=
  match l with
  | C c :: r => if (c =? c_dot) || (c =? c_lb) then (acc, l) else take_plain r (acc ++ [c])
  | _ => (acc, l)
  end.
Fixpoint parse_steps (fuel : nat) (l : list pchar) : option (list step) :=
  match fuel with
  | O => None
  | S f =>
      match l with
      | [] => Some []
      | C c :: r =>
          if c =? c_dot then
            match r with
            | C q :: r' =>
                if q =? c_quote then
                  match take_until_quote r' [] with
                  | Some (k, rest) => option_map (cons (KeyQ k)) (parse_steps f rest)
                  | None => None
                  end
                else
                  let '(k, rest) := take_plain r [] in
                  match k with [] => None | _ => option_map (cons (KeyU k)) (parse_steps f rest) end
            | _ => None
            end
          else if c =? c_lb then
            match r with
            | N i :: C c2 :: rest => if c2 =? c_rb then option_map (cons (Idx i)) (parse_steps f rest) else None
            | _ => None
            end
          else None
      | N _ :: _ => None
      end
  end.
Definition parse_path (l : list pchar) : option (list step) :=
  match l with
  | C c :: r => if c =? c_dollar then parse_steps (S (length r)) r else None
  | _ => None
  end.

(* what the rewritten SQL computes: DuckDB parses the rendered text and navigates (a malformed path is an error) *)
Definition fake_extract (d : json) (p : list step) : option (option json) :=
  option_map (navigate d) (parse_path (render_path p)).

(* keys for which the text is unambiguous *)
Definition plain_char (c : Z) : bool := negb ((c =? c_dot) || (c =? c_lb) || (c =? c_quote)).
Definition dom_step (st : step) : bool :=
  match st with
  | KeyU s => match s with [] => false | _ => forallb plain_char s end
  | KeyQ s => forallb (fun c => negb (c =? c_quote)) s
  | Idx _ => true
  end.
Definition dom_path (p : list step) : bool := forallb dom_step p.

(* ---- casts of extracted values ---- *)
Inductive sqlv := VNull | VText (s : str) | VJson (j : json) | VInt (z : Z) | VBool (b : bool) | VErr.
(* -> : JSON value (a JSON null and a missing path both read back as NULL) *)
Definition as_json (o : option json) : sqlv := match o with Some JNull | None => VNull | Some j => VJson j end.
(* ->> then CAST AS TEXT: strings lose their quotes, everything else keeps its JSON text *)
Definition as_text (o : option json) : sqlv :=
  match o with Some JNull | None => VNull | Some (JStr s) => VText s | Some j => VJson j end.
Definition as_int (o : option json) : sqlv :=
  match o with Some JNull | None => VNull | Some (JNum z) => VInt z | Some (JBool b) => VInt (if b then 1 else 0) | Some _ => VErr end.
Definition as_bool (o : option json) : sqlv :=
  match o with Some JNull | None => VNull | Some (JBool b) => VBool b | Some (JNum z) => VBool (negb (z =? 0)) | Some _ => VErr end.

(* ---- ARRAY_SIZE ---- *)
Definition array_size_spec (o : option json) : option Z := match o with Some (JArr l) => Some (Z.of_nat (length l)) | _ => None end.
Definition array_size_fake (o : option json) : option Z :=
  match o with Some (JArr l) => let n := Z.of_nat (length l) in if n =? 0 then None else Some n | _ => None end.

(* ---- OBJECT_CONSTRUCT ---- *)
Inductive ocarg := OLit (j : json) | ONullLit | OExpr (v : option json).     (* literal | the NULL keyword | a column / expression value *)
Definition oc_fake (pairs : list (str * ocarg)) : json :=
  JObj (flat_map (fun p => match snd p with
                           | ONullLit => []
                           | OLit j => [(fst p, j)]
                           | OExpr (Some j) => [(fst p, j)]
                           | OExpr None => [(fst p, JNull)]       (* struct field with a NULL value: kept as ''k'':null *)
                           end) pairs).
Definition oc_spec (pairs : list (str * ocarg)) : json :=
  JObj (flat_map (fun p => match snd p with
                           | ONullLit | OExpr None => []
                           | OLit j => [(fst p, j)]
                           | OExpr (Some j) => [(fst p, j)]
                           end) pairs).
Definition oc_dom (pairs : list (str * ocarg)) : bool :=
  forallb (fun p => match snd p with OExpr None => false | _ => true end) pairs.

(* ---- FLATTEN ---- *)
Definition flatten (o : option json) : option (list json) := match o with Some (JArr l) => Some l | _ => None end.

(* ---- sexp ---- *)
Fixpoint dec_json (fuel : nat) (x : sexp) : option json :=
  match fuel with
  | O => None
  | S f =>
      match x with
      | L [A 0] => Some JNull
      | L [A 1; b] => option_map JBool (dec_bool b)
      | L [A 2; A z] => Some (JNum z)
      | L [A 3; s] => option_map JStr (dec_str s)
      | L [A 4; L l] => option_map JArr (dec_all (dec_json f) l)
      | L [A 5; L l] => option_map JObj (dec_all (fun p => match p with
                                                           | L [k; v] => match dec_str k, dec_json f v with Some k, Some v => Some (k, v) | _, _ => None end
                                                           | _ => None end) l)
      | _ => None
      end
  end.
Fixpoint enc_json (j : json) : sexp :=
  match j with
  | JNull => L [A 0] | JBool b => L [A 1; enc_bool b] | JNum z => L [A 2; A z] | JStr s => L [A 3; enc_str s]
  | JArr l => L [A 4; L (map enc_json l)]
  | JObj l => L [A 5; L (map (fun p => L [enc_str (fst p); enc_json (snd p)]) l)]
  end.
Definition dec_step (x : sexp) : option step :=
  match x with
  | L [A 0; s] => option_map KeyU (dec_str s) | L [A 1; s] => option_map KeyQ (dec_str s) | L [A 2; i] => option_map Idx (dec_nat i)
  | _ => None
  end.
Definition enc_sqlv (v : sqlv) : sexp :=
  match v with
  | VNull => L [A 0] | VText s => L [A 1; enc_str s] | VJson j => L [A 2; enc_json j] | VInt z => L [A 3; A z]
  | VBool b => L [A 4; enc_bool b] | VErr => L [A 5]
  end.
Definition enc_pchar (c : pchar) : sexp := match c with C c => A c | N i => L [enc_nat i] end.

(* input: (doc path) ; output: (path-text  fake-extract as (json text int bool)  dom  python-navigation array-size-fake array-size-spec flatten) *)
Definition run_c11 (x : sexp) : sexp :=
  match x with
  | L [d; p] =>
      match dec_json 64 d, dec_list dec_step p with
      | Some d, Some p =>
          let r := fake_extract d p in
          L [enc_list enc_pchar (render_path p);
             match r with
             | Some o => L [enc_sqlv (as_json o); enc_sqlv (as_text o); enc_sqlv (as_int o); enc_sqlv (as_bool o)]
             | None => L []
             end;
             enc_bool (dom_path p);
             enc_opt enc_json (navigate d p);
             match r with Some o => L [enc_opt A (array_size_fake o); enc_opt A (array_size_spec o); enc_opt (enc_list enc_json) (flatten o)] | None => L [] end]
      | _, _ => bad
      end
  | _ => bad
  end.
Definition dec_ocarg (x : sexp) : option ocarg :=
  match x with
  | L [A 0; j] => option_map OLit (dec_json 64 j)
  | L [A 1] => Some ONullLit
  | L [A 2; o] => option_map OExpr (dec_opt (dec_json 64) o)
  | _ => None
  end.
(* input: ((key arg) ...) ; output: (fake spec dom) *)
Definition run_c11_oc (x : sexp) : sexp :=
  match dec_list (fun p => match p with L [k; a] => match dec_str k, dec_ocarg a with Some k, Some a => Some (k, a) | _, _ => None end | _ => None end) x with
  | Some pairs => L [enc_json (oc_fake pairs); enc_json (oc_spec pairs); enc_bool (oc_dom pairs)]
  | None => bad
  end.
