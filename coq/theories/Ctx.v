(* Model for C03/C07: a shared catalog (database -> schema -> tables), one context per connection
   (conn.database/schema/database_set/schema_set + the engine's SET schema), fakesnow's guards and
   context bookkeeping (cursor.py:225-240,272-283,304-327; transforms.set_schema) and the engine's
   name resolution and error classes (abstract DuckDB). Names arrive upper-cased. *)
From FS Require Import Sexp.

Definition name := str.
Definition catalog := list (name * list (name * list name)).

Definition s_main : name := Eval compute in lit "MAIN".
Definition s_memory : name := Eval compute in lit "MEMORY".
Definition s_missing_db : name := Eval compute in lit "MISSING_DATABASE".

Fixpoint assoc {X} (l : list (name * X)) (k : name) : option X :=
  match l with [] => None | (k', v) :: r => if str_eqb k' k then Some v else assoc r k end.
Fixpoint put {X} (l : list (name * X)) (k : name) (v : X) : list (name * X) :=
  match l with
  | [] => [(k, v)]
  | (k', v') :: r => if str_eqb k' k then (k', v) :: r else (k', v') :: put r k v
  end.
Fixpoint del {X} (l : list (name * X)) (k : name) : list (name * X) :=
  match l with [] => [] | (k', v') :: r => if str_eqb k' k then r else (k', v') :: del r k end.
Definition mem (x : name) (l : list name) : bool := existsb (str_eqb x) l.

Record conn := {
  cdb : option name; csch : option name; dset : bool; sset : bool;   (* what the fake reports *)
  edb : name; esch : name                                            (* the engine's current schema *)
}.
Record world := { cat : catalog; conns : list conn }.

Inductive qname := Q1 (t : name) | Q2 (s t : name) | Q3 (d s t : name).

Inductive op :=
| CreateDb (d : name)
| CreateSchema (d : option name) (s : name)
| DropSchema (d : option name) (s : name)
| CreateTable (q : qname)
| DropTable (q : qname)
| Select (q : qname)              (* also stands for INSERT/UPDATE/DELETE: any statement that must find the table *)
| UseDb (d : name)
| UseSchema (d : option name) (s : name)
| Current                         (* SELECT CURRENT_DATABASE(), CURRENT_SCHEMA() *)
| Reconnect (d s : name).         (* the slot's session is replaced by a NEW one: fs.connect(database=d, schema=s), default flags *)

Inductive res :=
| RUnit
| RTable (d s t : name)           (* identity of the table the statement reached *)
| RCtx (d s : name)
| RErr (code : Z).                (* ProgrammingError errno: 2003, 2043, 90105, 90106 *)

(* ---- engine ---- *)
Definition e_lookup (k : catalog) (d s t : name) : res :=
  match assoc k d with
  | None => RErr 2043
  | Some ss => match assoc ss s with
               | None => RErr 2003
               | Some ts => if mem t ts then RTable d s t else RErr 2003
               end
  end.

Definition locate (c : conn) (q : qname) : name * name * name :=
  match q with
  | Q1 t => (edb c, esch c, t)
  | Q2 s t => (edb c, s, t)
  | Q3 d s t => (d, s, t)
  end.

Definition e_create_table (k : catalog) (d s t : name) : catalog + Z :=
  match assoc k d with
  | None => inr 2043
  | Some ss => match assoc ss s with
               | None => inr 2003
               | Some ts => if mem t ts then inr 2003 else inl (put k d (put ss s (ts ++ [t])))
               end
  end.
Definition e_drop_table (k : catalog) (d s t : name) : catalog + Z :=
  match assoc k d with
  | None => inr 2043
  | Some ss => match assoc ss s with
               | None => inr 2003
               | Some ts => if mem t ts then inl (put k d (put ss s (filter (fun x => negb (str_eqb x t)) ts)))
                            else inr 2003
               end
  end.
Definition e_create_schema (k : catalog) (d s : name) : catalog + Z :=
  match assoc k d with
  | None => inr 2043
  | Some ss => match assoc ss s with Some _ => inr 2003 | None => inl (put k d (ss ++ [(s, [])])) end
  end.
Definition e_drop_schema (k : catalog) (d s : name) : catalog + Z :=
  match assoc k d with
  | None => inr 2043
  | Some ss => match assoc ss s with None => inr 2003 | Some _ => inl (put k d (del ss s)) end
  end.
Definition e_create_db (k : catalog) (d : name) : catalog + Z :=
  match assoc k d with Some _ => inr 2043 | None => inl (k ++ [(d, [(s_main, [])])]) end.
Definition e_set_schema (k : catalog) (d s : name) : option Z :=
  match assoc k d with
  | None => Some 2043
  | Some ss => match assoc ss s with None => Some 2003 | Some _ => None end
  end.

(* ---- the fake ---- *)
(* checks.is_unqualified_table_expression on the transformed statement *)
Definition needs (o : op) : bool * bool :=
  match o with
  | CreateSchema None _ | DropSchema None _ => (true, false)
  | CreateTable (Q1 _) | DropTable (Q1 _) | Select (Q1 _) => (true, true)
  | CreateTable (Q2 _ _) | DropTable (Q2 _ _) | Select (Q2 _ _) => (true, false)
  | _ => (false, false)
  end.

Definition cget (l : list conn) (c : nat) : option conn := nth_error l c.
Fixpoint cset (l : list conn) (c : nat) (x : conn) : list conn :=
  match l, c with
  | [], _ => []
  | _ :: r, O => x :: r
  | y :: r, S c' => y :: cset r c' x
  end.

Definition with_cat (w : world) (r : catalog + Z) : world * res :=
  match r with
  | inl k => ({| cat := k; conns := conns w |}, RUnit)
  | inr e => (w, RErr e)
  end.

Definition orelse (o : option name) (d : name) : name := match o with Some x => x | None => d end.

(* what happens once the guards have been passed *)
Definition exec (w : world) (ci : nat) (c : conn) (o : op) : world * res :=
  match o with
  | CreateDb d => with_cat w (e_create_db (cat w) d)
  | CreateSchema d s => with_cat w (e_create_schema (cat w) (orelse d (edb c)) s)
  | DropSchema d s =>
      match e_drop_schema (cat w) (orelse d (edb c)) s with
      | inr e => (w, RErr e)
      | inl k =>
          (* cursor.py:326: the name alone is compared with conn.schema *)
          let c' := if match csch c with Some x => str_eqb s x | None => false end
                    then {| cdb := cdb c; csch := None; dset := dset c; sset := sset c; edb := edb c; esch := esch c |}
                    else c in
          ({| cat := k; conns := cset (conns w) ci c' |}, RUnit)
      end
  | CreateTable q => let '(d, s, t) := locate c q in with_cat w (e_create_table (cat w) d s t)
  | DropTable q => let '(d, s, t) := locate c q in with_cat w (e_drop_table (cat w) d s t)
  | Select q => let '(d, s, t) := locate c q in (w, e_lookup (cat w) d s t)
  | UseDb d =>
      match e_set_schema (cat w) d s_main with
      | Some e => (w, RErr e)
      | None => ({| cat := cat w;
                    conns := cset (conns w) ci {| cdb := Some d; csch := csch c; dset := true; sset := sset c;
                                                  edb := d; esch := s_main |} |}, RUnit)
      end
  | UseSchema None s =>
      let d := orelse (cdb c) s_missing_db in
      match e_set_schema (cat w) d s with
      | Some e => (w, RErr e)
      | None => ({| cat := cat w;
                    conns := cset (conns w) ci {| cdb := cdb c; csch := Some s; dset := dset c; sset := true;
                                                  edb := d; esch := s |} |}, RUnit)
      end
  | UseSchema (Some d) s =>
      match e_set_schema (cat w) d s with
      | Some e => (w, RErr e)
      | None => ({| cat := cat w;
                    conns := cset (conns w) ci {| cdb := Some d; csch := Some s; dset := true; sset := true;
                                                  edb := d; esch := s |} |}, RUnit)
      end
  | Current => (w, RCtx (edb c) (esch c))
  | Reconnect d s =>
      (* conn.py:55-104 with create_database_on_connect = create_schema_on_connect = True (the general case is Connect.v): what is
         missing is created NOW - whatever earlier sessions of the instance created or dropped - and the context is set *)
      let k1 := match assoc (cat w) d with Some _ => cat w | None => cat w ++ [(d, [(s_main, [])])] end in
      let k2 := match assoc k1 d with
                | Some ss => match assoc ss s with Some _ => k1 | None => put k1 d (ss ++ [(s, [])]) end
                | None => k1 end in
      ({| cat := k2; conns := cset (conns w) ci {| cdb := Some d; csch := Some s; dset := true; sset := true; edb := d; esch := s |} |}, RUnit)
  end.

Definition step (w : world) (ci : nat) (o : op) : world * res :=
  match cget (conns w) ci with
  | None => (w, RErr 0)
  | Some c =>
      if fst (needs o) && negb (dset c) then (w, RErr 90105)
      else if snd (needs o) && negb (sset c) then (w, RErr 90106)
      else exec w ci c o
  end.

(* ---- sexp ---- *)
Definition enc_on (o : option name) : sexp := enc_opt enc_str o.
Definition enc_conn (c : conn) : sexp :=
  L [enc_on (cdb c); enc_on (csch c); enc_bool (dset c); enc_bool (sset c); enc_str (edb c); enc_str (esch c)].
Definition dec_conn (x : sexp) : option conn :=
  match x with
  | L [a; b; c; d; e; f] =>
      match dec_opt dec_str a, dec_opt dec_str b, dec_bool c, dec_bool d, dec_str e, dec_str f with
      | Some a, Some b, Some c, Some d, Some e, Some f =>
          Some {| cdb := a; csch := b; dset := c; sset := d; edb := e; esch := f |}
      | _, _, _, _, _, _ => None
      end
  | _ => None
  end.
Definition enc_res (r : res) : sexp :=
  match r with
  | RUnit => L [A 0]
  | RTable d s t => L [A 1; enc_str d; enc_str s; enc_str t]
  | RCtx d s => L [A 2; enc_str d; enc_str s]
  | RErr e => L [A 3; A e]
  end.
Definition dec_q (x : sexp) : option qname :=
  match x with
  | L [t] => option_map Q1 (dec_str t)
  | L [s; t] => match dec_str s, dec_str t with Some s, Some t => Some (Q2 s t) | _, _ => None end
  | L [d; s; t] => match dec_str d, dec_str s, dec_str t with Some d, Some s, Some t => Some (Q3 d s t) | _, _, _ => None end
  | _ => None
  end.
Definition dec_op (x : sexp) : option (nat * op) :=
  match x with
  | L [c; A k; a; b] =>
      match dec_nat c with
      | None => None
      | Some c =>
          match k with
          | 0 => option_map (fun d => (c, CreateDb d)) (dec_str b)
          | 1 => match dec_opt dec_str a, dec_str b with Some d, Some s => Some (c, CreateSchema d s) | _, _ => None end
          | 2 => match dec_opt dec_str a, dec_str b with Some d, Some s => Some (c, DropSchema d s) | _, _ => None end
          | 3 => option_map (fun q => (c, CreateTable q)) (dec_q b)
          | 4 => option_map (fun q => (c, DropTable q)) (dec_q b)
          | 5 => option_map (fun q => (c, Select q)) (dec_q b)
          | 6 => option_map (fun d => (c, UseDb d)) (dec_str b)
          | 7 => match dec_opt dec_str a, dec_str b with Some d, Some s => Some (c, UseSchema d s) | _, _ => None end
          | 9 => match dec_str a, dec_str b with Some d, Some s => Some (c, Reconnect d s) | _, _ => None end
          | _ => Some (c, Current)
          end
      end
  | _ => None
  end.
Definition enc_cat (k : catalog) : sexp :=
  enc_list (fun p => L [enc_str (fst p); enc_list (fun q => L [enc_str (fst q); enc_list enc_str (snd q)]) (snd p)]) k.
Definition dec_cat (x : sexp) : option catalog :=
  dec_list (fun p => match p with
                     | L [d; ss] =>
                         match dec_str d, dec_list (fun q => match q with
                                                            | L [s; ts] => match dec_str s, dec_list dec_str ts with
                                                                           | Some s, Some ts => Some (s, ts) | _, _ => None end
                                                            | _ => None end) ss with
                         | Some d, Some ss => Some (d, ss) | _, _ => None end
                     | _ => None end) x.

Fixpoint run (w : world) (h : list (nat * op)) : list sexp * world :=
  match h with
  | [] => ([], w)
  | (c, o) :: r =>
      let '(w', x) := step w c o in
      let '(out, wf) := run w' r in
      (L [enc_res x; match cget (conns w') c with Some k => enc_conn k | None => L [] end; enc_cat (cat w')] :: out, wf)
  end.

(* input: (catalog (conn ...) (op ...)) ; output: ((result conn-after catalog-after) ...) *)
Definition run_c03 (x : sexp) : sexp :=
  match x with
  | L [k; cs; h] =>
      match dec_cat k, dec_list dec_conn cs, dec_list dec_op h with
      | Some k, Some cs, Some h => L (fst (run {| cat := k; conns := cs |} h))
      | _, _, _ => bad
      end
  | _ => bad
  end.
