(* Model of fakesnow/cli.py: split (cli.py:26-44), the part of argparse that arg_parser()
   (cli.py:9-23, allow_abbrev=False) exercises on split's output, and main (cli.py:47-70). *)
From FS Require Import Sexp.

Definition s_m : str := Eval compute in lit "-m".
Definition s_module : str := Eval compute in lit "--module".
Definition s_d : str := Eval compute in lit "-d".
Definition s_db : str := Eval compute in lit "--db_path".
Definition s_h : str := Eval compute in lit "-h".
Definition s_help : str := Eval compute in lit "--help".
Definition s_module_eq : str := Eval compute in lit "--module=".

Definition starts_dash (a : str) : bool := match a with c :: _ => c =? 45 | [] => false end.
Definition starts_ddash (a : str) : bool :=
  match a with c :: d :: _ => (c =? 45) && (d =? 45) | _ => false end.
Definition is_m (a : str) : bool := str_eqb a s_m || str_eqb a s_module.
Definition is_d (a : str) : bool := str_eqb a s_d || str_eqb a s_db.
Definition is_h (a : str) : bool := str_eqb a s_h || str_eqb a s_help.
(* value attached to the module flag: --module=x, -mx, -m=x *)
Definition glued_m (a : str) : bool :=
  prefixb s_module_eq a || (prefixb s_m a && negb (starts_ddash a)).

(* cli.py split(): number of leading tokens that belong to fakesnow *)
Fixpoint cut (in_flag : bool) (args : list str) : nat :=
  match args with
  | [] => 0%nat
  | a :: rest =>
      if is_m a then match rest with [] => 1%nat | _ => 2%nat end
      else if glued_m a then 1%nat
      else if starts_dash a then S (cut (is_d a) rest)
      else if in_flag then S (cut false rest)
      else 1%nat
  end.

Definition split (args : list str) : list str * list str :=
  (firstn (cut false args) args, skipn (cut false args) args).

(* ---- argparse, as far as arg_parser() with allow_abbrev=False uses it ---- *)
Inductive tok :=
| TPos | TD | TM | TH | TDv (v : str) | TMv (v : str) | THErr | TUnknown.

(* split at the first '=' *)
Fixpoint split_eq (s : str) : option (str * str) :=
  match s with
  | [] => None
  | c :: r =>
      if c =? 61 then Some ([], r)
      else match split_eq r with
           | Some (p, q) => Some (c :: p, q)
           | None => None
           end
  end.

Definition short_form (a : str) : tok :=
  match a with
  | _ :: c :: rest =>
      if c =? 45 then TUnknown
      else if c =? 100 then TDv rest
      else if c =? 109 then TMv rest
      else if c =? 104 then THErr
      else TUnknown
  | _ => TUnknown
  end.

Definition classify (a : str) : tok :=
  if negb (starts_dash a) then TPos
  else if is_d a then TD
  else if is_m a then TM
  else if is_h a then TH
  else match a with
       | [_] => TPos
       | _ =>
           match split_eq a with
           | Some (o, e) =>
               if is_d o then TDv e
               else if is_m o then TMv e
               else if is_h o then THErr
               else short_form a
           | None => short_form a
           end
       end.

Inductive presult :=
| PExit (code : Z)
| POk (db md path : option str) (unknown : bool).

(* an argument string that argparse's pattern marks 'A' (usable as an option value) *)
Definition looks_positional (a : str) : bool :=
  match classify a with TPos => true | _ => false end.

Fixpoint parse (toks : list str) (db md path : option str) (extra unk : bool) : presult :=
  match toks with
  | [] => if unk || extra then PExit 2 else POk db md path unk
  | t :: r =>
      match classify t with
      | TPos => match path with
                | None => parse r db md (Some t) extra unk
                | Some _ => parse r db md path extra unk
                end
      | TD => match r with
              | v :: r' => if looks_positional v then parse r' (Some v) md path extra unk else PExit 2
              | [] => PExit 2
              end
      | TM => match r with
              | v :: r' => if looks_positional v then parse r' db (Some v) path extra unk else PExit 2
              | [] => PExit 2
              end
      | TDv v => parse r (Some v) md path extra unk
      | TMv v => parse r db (Some v) path extra unk
      | TH => PExit 0
      | THErr => PExit 2
      | TUnknown => parse r db md path extra true
      end
  end.

Inductive outcome :=
| OExit (code : Z)
| OUsage
| ORun (is_module : bool) (name : str) (argv : list str) (db : option str).

Definition nonempty (o : option str) : option str :=
  match o with Some (c :: s) => Some (c :: s) | _ => None end.

Definition main (args : list str) : outcome :=
  let '(fs, targs) := split args in
  match parse fs None None None false false with
  | PExit c => OExit c
  | POk db md path _ =>
      match nonempty md with
      | Some m => ORun true m (m :: targs) db
      | None => match nonempty path with
                | Some p => ORun false p (p :: targs) db
                | None => OUsage
                end
      end
  end.

(* ---- sexp interface ---- *)
Definition enc_outcome (o : outcome) : sexp :=
  match o with
  | OExit c => L [A 0; A c]
  | OUsage => L [A 1]
  | ORun im n argv db => L [A 2; enc_bool im; enc_str n; enc_list enc_str argv; enc_opt enc_str db]
  end.

Definition run_c20_split (x : sexp) : sexp :=
  match dec_list dec_str x with
  | Some args => let '(a, b) := split args in L [enc_list enc_str a; enc_list enc_str b]
  | None => bad
  end.

Definition run_c20_main (x : sexp) : sexp :=
  match dec_list dec_str x with
  | Some args => enc_outcome (main args)
  | None => bad
  end.
