(* Interchange format shared by every model: S-expressions over Z.
   Strings are lists of Unicode code points (as Z). *)
From Coq Require Export ZArith List Bool.
From Coq Require String Ascii.
Export ListNotations.
Export String.StringSyntax.
Open Scope Z_scope.

Inductive sexp := A (z : Z) | L (l : list sexp).

Fixpoint sexp_eqb (a b : sexp) {struct a} : bool :=
  match a, b with
  | A x, A y => Z.eqb x y
  | L xs, L ys =>
      (fix go (xs ys : list sexp) {struct xs} : bool :=
         match xs, ys with
         | [], [] => true
         | x :: xs', y :: ys' => sexp_eqb x y && go xs' ys'
         | _, _ => false
         end) xs ys
  | _, _ => false
  end.

Definition str := list Z.

Fixpoint str_eqb (a b : str) : bool :=
  match a, b with
  | [], [] => true
  | x :: a', y :: b' => Z.eqb x y && str_eqb a' b'
  | _, _ => false
  end.

(* string constants in models: [lit "abc"] (ASCII only) *)
Definition lit (s : String.string) : str :=
  map (fun a => Z.of_N (Ascii.N_of_ascii a)) (String.list_ascii_of_string s).
Arguments lit s%string_scope.

Definition bad : sexp := A (-999).

Definition enc_str (s : str) : sexp := L (map A s).
Definition enc_bool (b : bool) : sexp := A (if b then 1 else 0).
Definition enc_nat (n : nat) : sexp := A (Z.of_nat n).
Definition enc_list {X} (f : X -> sexp) (l : list X) : sexp := L (map f l).
Definition enc_opt {X} (f : X -> sexp) (o : option X) : sexp :=
  match o with None => L [] | Some x => L [f x] end.

Definition dec_z (s : sexp) : option Z := match s with A z => Some z | _ => None end.
Definition dec_bool (s : sexp) : option bool :=
  match s with A 0 => Some false | A 1 => Some true | _ => None end.
Definition dec_nat (s : sexp) : option nat :=
  match s with A z => if z <? 0 then None else Some (Z.to_nat z) | _ => None end.

Fixpoint dec_all {X} (f : sexp -> option X) (l : list sexp) : option (list X) :=
  match l with
  | [] => Some []
  | x :: r => match f x, dec_all f r with
              | Some a, Some b => Some (a :: b)
              | _, _ => None
              end
  end.
Definition dec_list {X} (f : sexp -> option X) (s : sexp) : option (list X) :=
  match s with L l => dec_all f l | _ => None end.
Definition dec_str : sexp -> option str := dec_list dec_z.
Definition dec_opt {X} (f : sexp -> option X) (s : sexp) : option (option X) :=
  match s with
  | L [] => Some None
  | L [x] => match f x with Some a => Some (Some a) | None => None end
  | _ => None
  end.

(* used by the kernel cross-check: indices (as Z) of the cases on which [run] differs *)
Fixpoint failing_from (i : Z) (run : sexp -> sexp) (cases : list (sexp * sexp)) : list Z :=
  match cases with
  | [] => []
  | (x, y) :: r =>
      if sexp_eqb (run x) y then failing_from (i + 1) run r
      else i :: failing_from (i + 1) run r
  end.
Definition failing := failing_from 0.

(* ASCII helpers *)
Definition is_ascii_lower (c : Z) : bool := (97 <=? c) && (c <=? 122).
Definition is_ascii_upper (c : Z) : bool := (65 <=? c) && (c <=? 90).
Definition up_c (c : Z) : Z := if is_ascii_lower c then c - 32 else c.
Definition lo_c (c : Z) : Z := if is_ascii_upper c then c + 32 else c.
Definition upper (s : str) : str := map up_c s.
Definition lower (s : str) : str := map lo_c s.

Fixpoint prefixb (p s : str) : bool :=
  match p, s with
  | [], _ => true
  | x :: p', y :: s' => Z.eqb x y && prefixb p' s'
  | _, [] => false
  end.
