(* Model for C02: identifiers as written (text + whether double-quoted), their normal form
   (transforms.upper_case_unquoted_identifiers, transforms.py:1288 - the first transform of every
   statement, cursor.py:157), re-spelling of unquoted identifiers and keywords, the surface statements
   of the context state machine of C03 (Ctx.v), identifier equality (checks.py:73) and the keyword
   comparisons fakesnow does itself on the spelling (x.upper() == "KW"). ASCII case mapping. *)
From FS Require Import Sexp.
From FS Require Ctx Dml.

Record ident := { itext : str; iquoted : bool }.
Definition norm (i : ident) : str := if iquoted i then itext i else upper (itext i).

Definition flip_c (c : Z) : Z := if is_ascii_lower c then c - 32 else if is_ascii_upper c then c + 32 else c.
(* a re-spelling flips the case of the letters the mask selects *)
Fixpoint recase (mask : list bool) (s : str) : str :=
  match s, mask with
  | [], _ => []
  | c :: s', [] => c :: s'
  | c :: s', b :: m' => (if b then flip_c c else c) :: recase m' s'
  end.
Definition respell (mask : list bool) (i : ident) : ident :=
  if iquoted i then i else {| itext := recase mask (itext i); iquoted := false |}.

(* checks.equal *)
Definition ident_eq (a b : ident) : bool := str_eqb (norm a) (norm b).

(* keyword tests on the spelling as written: x.upper() == "KW" (expr.py:22-30, checks.py:34-59, transforms.py, transforms_merge.py:71,119,185) *)
Definition kw_is (kw spelling : str) : bool := str_eqb (upper spelling) kw.
(* a comparison without .upper() *)
Definition kw_is_exact (kw spelling : str) : bool := str_eqb spelling kw.

(* ---- surface statements of the context machine (Ctx.op with identifiers as written) ---- *)
Inductive sq := SQ1 (t : ident) | SQ2 (s t : ident) | SQ3 (d s t : ident).
Inductive sop :=
| SCreateDb (d : ident)
| SCreateSchema (d : option ident) (s : ident)
| SDropSchema (d : option ident) (s : ident)
| SCreateTable (q : sq)
| SDropTable (q : sq)
| SSelect (q : sq)
| SUseDb (d : ident)
| SUseSchema (d : option ident) (s : ident)
| SCurrent.

Definition norm_q (q : sq) : Ctx.qname :=
  match q with
  | SQ1 t => Ctx.Q1 (norm t) | SQ2 s t => Ctx.Q2 (norm s) (norm t) | SQ3 d s t => Ctx.Q3 (norm d) (norm s) (norm t)
  end.
Definition norm_op (o : sop) : Ctx.op :=
  match o with
  | SCreateDb d => Ctx.CreateDb (norm d)
  | SCreateSchema d s => Ctx.CreateSchema (option_map norm d) (norm s)
  | SDropSchema d s => Ctx.DropSchema (option_map norm d) (norm s)
  | SCreateTable q => Ctx.CreateTable (norm_q q)
  | SDropTable q => Ctx.DropTable (norm_q q)
  | SSelect q => Ctx.Select (norm_q q)
  | SUseDb d => Ctx.UseDb (norm d)
  | SUseSchema d s => Ctx.UseSchema (option_map norm d) (norm s)
  | SCurrent => Ctx.Current
  end.

Definition respell_q (m : list bool) (q : sq) : sq :=
  match q with
  | SQ1 t => SQ1 (respell m t) | SQ2 s t => SQ2 (respell m s) (respell m t) | SQ3 d s t => SQ3 (respell m d) (respell m s) (respell m t)
  end.
Definition respell_op (m : list bool) (o : sop) : sop :=
  match o with
  | SCreateDb d => SCreateDb (respell m d)
  | SCreateSchema d s => SCreateSchema (option_map (respell m) d) (respell m s)
  | SDropSchema d s => SDropSchema (option_map (respell m) d) (respell m s)
  | SCreateTable q => SCreateTable (respell_q m q)
  | SDropTable q => SDropTable (respell_q m q)
  | SSelect q => SSelect (respell_q m q)
  | SUseDb d => SUseDb (respell m d)
  | SUseSchema d s => SUseSchema (option_map (respell m) d) (respell m s)
  | SCurrent => SCurrent
  end.

(* every statement starts with upper_case_unquoted_identifiers *)
Definition sstep (w : Ctx.world) (c : nat) (o : sop) : Ctx.world * Ctx.res := Ctx.step w c (norm_op o).
Definition srun (w : Ctx.world) (h : list (nat * sop)) : list sexp * Ctx.world :=
  Ctx.run w (map (fun co => (fst co, norm_op (snd co))) h).
(* an independent re-spelling of every statement of a history *)
Fixpoint respell_hist (ms : list (list bool)) (h : list (nat * sop)) : list (nat * sop) :=
  match h, ms with
  | [], _ => []
  | co :: h', [] => co :: h'
  | co :: h', m :: ms' => (fst co, respell_op m (snd co)) :: respell_hist ms' h'
  end.

(* ---- sexp ---- *)
Definition dec_ident (x : sexp) : option ident :=
  match x with L [t; q] => match dec_str t, dec_bool q with Some t, Some q => Some {| itext := t; iquoted := q |} | _, _ => None end | _ => None end.
(* input: (ident-text quoted mask) ; output: (reported-name reported-name-after-respelling status-text-of-CREATE-TABLE) *)
Definition run_c02_norm (x : sexp) : sexp :=
  match x with
  | L [t; q; m] =>
      match dec_str t, dec_bool q, dec_list dec_bool m with
      | Some t, Some q, Some m =>
          let i := {| itext := t; iquoted := q |} in
          L [enc_str (norm i); enc_str (norm (respell m i)); enc_str (Dml.ddl_status Dml.CreateTable (itext (respell m i)) q)]
      | _, _, _ => bad
      end
  | _ => bad
  end.
(* input: (a b) identifiers ; output: checks.equal *)
Definition run_c02_eq (x : sexp) : sexp :=
  match x with
  | L [a; b] => match dec_ident a, dec_ident b with Some a, Some b => enc_bool (ident_eq a b) | _, _ => bad end
  | _ => bad
  end.
