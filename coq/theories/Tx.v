(* Model of transactions as fakesnow exposes them (instance.py:75-92 one engine connection per
   connect(); conn.py:121-126,146-147; cursor.py:259-266) over an abstract MVCC engine:
   snapshot isolation, snapshot taken by the first statement after BEGIN, insert-only
   (non-conflicting) writes.  Rows are identified by integers. *)
From FS Require Import Sexp.

Inductive txs :=
| NoTx
| Begun                                  (* BEGIN issued, no statement yet: no snapshot *)
| Active (snap own : list Z).            (* snapshot of the committed store + own pending writes *)

Record world := { committed : list Z; conns : list txs }.

Inductive op :=
| Begin | Commit | Rollback
| Insert (r : Z)
| Select
| Fail       (* a statement that fails with a catalog/binder error (reference failure) *)
| FailEarly. (* one that names an unknown DATABASE: it fails before the engine has started the statement, so it does not even fix the snapshot *)

Inductive obs :=
| ORows (l : list Z)
| OInserted          (* status row: number of rows inserted = 1 *)
| OStatus            (* one-row 'Statement executed successfully.' *)
| OEmpty             (* empty result (BEGIN, and COMMIT/ROLLBACK that end a transaction) *)
| OErr               (* ProgrammingError *)
| OTxErr.            (* engine TransactionException: BEGIN inside a transaction - outside the model's domain *)

(* what one connection does, given the committed store and its own state *)
Definition local (cm : list Z) (t : txs) (o : op) : list Z * txs * obs :=
  match o, t with
  | Begin, NoTx => (cm, Begun, OEmpty)
  | Begin, _ => (cm, t, OTxErr)
  | Commit, NoTx => (cm, NoTx, OStatus)
  | Commit, Begun => (cm, NoTx, OEmpty)
  | Commit, Active _ own => (cm ++ own, NoTx, OEmpty)
  | Rollback, NoTx => (cm, NoTx, OStatus)
  | Rollback, _ => (cm, NoTx, OEmpty)
  | Insert r, NoTx => (cm ++ [r], NoTx, OInserted)
  | Insert r, Begun => (cm, Active cm [r], OInserted)
  | Insert r, Active sn own => (cm, Active sn (own ++ [r]), OInserted)
  | Select, NoTx => (cm, NoTx, ORows cm)
  | Select, Begun => (cm, Active cm [], ORows cm)
  | Select, Active sn own => (cm, t, ORows (sn ++ own))
  | Fail, NoTx => (cm, NoTx, OErr)
  | Fail, Begun => (cm, Active cm [], OErr)
  | Fail, Active _ _ => (cm, t, OErr)
  | FailEarly, _ => (cm, t, OErr)
  end.

Definition cget (l : list txs) (c : nat) : txs := nth c l NoTx.
Fixpoint cset (l : list txs) (c : nat) (t : txs) : list txs :=
  match l, c with
  | [], _ => []
  | _ :: r, O => t :: r
  | x :: r, S c' => x :: cset r c' t
  end.

Definition step (w : world) (co : nat * op) : world * obs :=
  let '(c, o) := co in
  let '(cm, t, x) := local (committed w) (cget (conns w) c) o in
  ({| committed := cm; conns := cset (conns w) c t |}, x).

Fixpoint run (w : world) (h : list (nat * op)) : list obs :=
  match h with [] => [] | co :: r => let '(w', x) := step w co in x :: run w' r end.
Fixpoint final (w : world) (h : list (nat * op)) : world :=
  match h with [] => w | co :: r => final (fst (step w co)) r end.

Definition init (n : nat) : world := {| committed := []; conns := repeat NoTx n |}.

(* ---- sexp ---- *)
Definition enc_obs (o : obs) : sexp :=
  match o with
  | ORows l => L [A 0; L (map A l)]
  | OInserted => L [A 1] | OStatus => L [A 2] | OEmpty => L [A 3] | OErr => L [A 4] | OTxErr => L [A 5]
  end.
Definition dec_op (x : sexp) : option (nat * op) :=
  match x with
  | L [c; A 0] => option_map (fun c => (c, Begin)) (dec_nat c)
  | L [c; A 1] => option_map (fun c => (c, Commit)) (dec_nat c)
  | L [c; A 2] => option_map (fun c => (c, Rollback)) (dec_nat c)
  | L [c; A 3; A r] => option_map (fun c => (c, Insert r)) (dec_nat c)
  | L [c; A 4] => option_map (fun c => (c, Select)) (dec_nat c)
  | L [c; A 5] => option_map (fun c => (c, Fail)) (dec_nat c)
  | L [c; A 6] => option_map (fun c => (c, FailEarly)) (dec_nat c)
  | _ => None
  end.

(* input: nconn ((conn op) ...) ; output: ((obs ...) committed) *)
Definition run_c13 (x : sexp) : sexp :=
  match x with
  | L [n; h] =>
      match dec_nat n, dec_list dec_op h with
      | Some n, Some h => L [enc_list enc_obs (run (init n) h); L (map A (committed (final (init n) h)))]
      | _, _ => bad
      end
  | _ => bad
  end.
