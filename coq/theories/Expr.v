(* Model for C10: a nested expression fragment with the Snowflake-specific functions fakesnow rewrites,
   the rewrite itself (transforms.py: to_decimal 1161, try_to_decimal 1176, _get_to_number_args 1070,
   dateadd_quarter, dateadd_date_cast 262, dateadd_string_literal_timestamp_cast 300, datediff_string_literal_timestamp_cast 338,
   to_date 1069 and sqlglot's own DATEADD/DATEDIFF/TO_DECIMAL generation for DuckDB, macros.py equal_null),
   Snowflake's documented meaning (sem_sf) and DuckDB's meaning of the target nodes (sem_duck).
   Decimals are (unscaled, scale); dates are day numbers, timestamps microseconds since the epoch; a text
   that spells a number or a date is a value of its own (VNumText, VDateText): parsing is not what the
   rewrite can get wrong. The civil calendar (days_from_civil / civil_from_days) is shared by both semantics. *)
From FS Require Import Sexp.

Inductive value :=
| VNull | VInt (z : Z) | VDec (u s : Z) | VBool (b : bool) | VText (t : str)
| VNumText (u s : Z)            (* a string spelling the decimal u * 10^-s *)
| VDateText (d : Z)             (* a string 'YYYY-MM-DD' spelling day number d *)
| VDate (d : Z) | VTs (us : Z).
Inductive res := Ok (v : value) | Fail.

(* ---- civil calendar (proleptic Gregorian; Hinnant's algorithms on Z with floor division) ---- *)
Definition days_from_civil (y m d : Z) : Z :=
  let y' := if m <=? 2 then y - 1 else y in
  let era := y' / 400 in
  let yoe := y' - era * 400 in
  let mp := (m + 9) mod 12 in
  let doy := (153 * mp + 2) / 5 + d - 1 in
  let doe := yoe * 365 + yoe / 4 - yoe / 100 + doy in
  era * 146097 + doe - 719468.
Definition civil_from_days (z : Z) : Z * Z * Z :=
  let z' := z + 719468 in
  let era := z' / 146097 in
  let doe := z' - era * 146097 in
  let yoe := (doe - doe / 1460 + doe / 36524 - doe / 146096) / 365 in
  let y := yoe + era * 400 in
  let doy := doe - (365 * yoe + yoe / 4 - yoe / 100) in
  let mp := (5 * doy + 2) / 153 in
  let d := doy - (153 * mp + 2) / 5 + 1 in
  let m := if mp <? 10 then mp + 3 else mp - 9 in
  (if m <=? 2 then y + 1 else y, m, d).
Definition is_leap (y : Z) : bool := ((y mod 4 =? 0) && negb (y mod 100 =? 0)) || (y mod 400 =? 0).
Definition month_len (y m : Z) : Z :=
  if m =? 2 then (if is_leap y then 29 else 28)
  else if (m =? 4) || (m =? 6) || (m =? 9) || (m =? 11) then 30 else 31.
(* add n months, clamping the day to the end of the month *)
Definition add_months (dn n : Z) : Z :=
  let '(y, m, d) := civil_from_days dn in
  let t := y * 12 + (m - 1) + n in
  let y2 := t / 12 in
  let m2 := t mod 12 + 1 in
  days_from_civil y2 m2 (Z.min d (month_len y2 m2)).
Definition day_us : Z := 86400000000.
Definition hour_us : Z := 3600000000.

Inductive unit_ := UDay | UWeek | UMonth | UQuarter | UYear | UHour.

(* date/timestamp + n units, on day numbers / microseconds *)
Definition shift_days (u : unit_) (n dn : Z) : option Z :=
  match u with
  | UDay => Some (dn + n) | UWeek => Some (dn + 7 * n)
  | UMonth => Some (add_months dn n) | UQuarter => Some (add_months dn (3 * n)) | UYear => Some (add_months dn (12 * n))
  | UHour => None
  end.
Definition shift_us (u : unit_) (n us : Z) : Z :=
  match u with
  | UHour => us + n * hour_us
  | _ => let dn := us / day_us in
         let tod := us mod day_us in
         match shift_days u n dn with Some dn' => dn' * day_us + tod | None => us end
  end.
(* number of unit boundaries crossed (DATEDIFF in Snowflake, date_diff in DuckDB) *)
Definition month_index (dn : Z) : Z := let '(y, m, _) := civil_from_days dn in y * 12 + (m - 1).
Definition year_of (dn : Z) : Z := let '(y, _, _) := civil_from_days dn in y.
Definition diff_units (u : unit_) (us1 us2 : Z) : Z :=
  let d1 := us1 / day_us in let d2 := us2 / day_us in
  match u with
  | UDay => d2 - d1
  | UWeek => (d2 + 3) / 7 - (d1 + 3) / 7            (* weeks start on Monday; day 0 is a Thursday *)
  | UMonth => month_index d2 - month_index d1
  | UQuarter => month_index d2 / 3 - month_index d1 / 3
  | UYear => year_of d2 - year_of d1
  | UHour => us2 / hour_us - us1 / hour_us
  end.

(* DuckDB 1.0: epoch seconds of the week's Monday divided by the seconds of a week, with C++ division that truncates
   towards zero - so every week before 1969-12-29 is numbered one too high *)
Definition monday_of (d : Z) : Z := d - (d + 3) mod 7.
Definition diff_units_duck (u : unit_) (us1 us2 : Z) : Z :=
  match u with
  | UWeek => Z.quot (monday_of (us2 / day_us)) 7 - Z.quot (monday_of (us1 / day_us)) 7
  | UHour => Z.quot us2 hour_us - Z.quot us1 hour_us       (* epoch hours, truncated towards zero *)
  | _ => diff_units u us1 us2
  end.

(* ---- decimals ---- *)
Definition rescale_half_away (u s0 s : Z) : Z :=        (* Snowflake; DuckDB for text -> DECIMAL *)
  if s0 <=? s then u * 10 ^ (s - s0)
  else let k := 10 ^ (s0 - s) in
       let q := Z.abs u / k in let r := Z.abs u mod k in
       let q' := if 2 * r >=? k then q + 1 else q in
       if u <? 0 then - q' else q'.
Definition rescale_trunc (u s0 s : Z) : Z :=             (* DuckDB 1.0 for DECIMAL -> narrower DECIMAL *)
  if s0 <=? s then u * 10 ^ (s - s0) else Z.quot u (10 ^ (s0 - s)).
Definition fits (u p : Z) : bool := Z.abs u <? 10 ^ p.

Inductive expr :=
| ELit (v : value) | ECol (i : nat)
| EAdd (a b : expr) | ESub (a b : expr) | EMul (a b : expr)
| EEq (a b : expr) | ELt (a b : expr)
| EAnd (a b : expr) | EOr (a b : expr) | ENot (a : expr) | EIsNull (a : expr)
| ECase (c a b : expr) | ECoalesce (a b : expr)
| ECastDate (a : expr)                                   (* a::date *)
(* Snowflake-only *)
| EEqualNull (a b : expr)
| EToDecimal (try : bool) (a : expr) (p s : Z)           (* [TRY_]TO_DECIMAL / TO_NUMBER / TO_NUMERIC (a, p, s) *)
| EToDate (a : expr)
| EDateAdd (u : unit_) (n d : expr)
| EDateDiff (u : unit_) (a b : expr)
(* DuckDB-only (targets of the rewrite) *)
| ENotDistinct (a b : expr)                              (* equal_null macro: a IS NOT DISTINCT FROM b *)
| ECastDec (try : bool) (a : expr) (p s : Z)             (* [TRY_]CAST(a AS DECIMAL(p,s)) *)
| ECastTs (a : expr)                                     (* CAST(a AS TIMESTAMP) *)
| EPlusInterval (u : unit_) (k : Z) (n d : expr)         (* d + (k * INTERVAL n u) *)
| EDuckDiff (u : unit_) (a b : expr).                    (* DATE_DIFF('u', a, b) *)

Definition env := list value.

(* ---- shared scalar semantics ---- *)
Definition lift2i (f : Z -> Z -> Z) (a b : res) : res :=
  match a, b with
  | Ok (VInt x), Ok (VInt y) => Ok (VInt (f x y))
  | Ok VNull, Ok (VInt _) | Ok (VInt _), Ok VNull | Ok VNull, Ok VNull => Ok VNull
  | _, _ => Fail
  end.
Definition veq (a b : value) : option bool :=
  match a, b with
  | VInt x, VInt y => Some (x =? y) | VBool x, VBool y => Some (Bool.eqb x y) | VText x, VText y => Some (str_eqb x y)
  | VDate x, VDate y => Some (x =? y) | VTs x, VTs y => Some (x =? y)
  | VDate x, VTs y => Some (x * 86400000000 =? y) | VTs x, VDate y => Some (x =? y * 86400000000)     (* a DATE is promoted to midnight *)
  | VDec u s, VDec u' s' => if s =? s' then Some (u =? u') else None
  | _, _ => None
  end.
Definition vlt (a b : value) : option bool :=
  match a, b with
  | VInt x, VInt y => Some (x <? y) | VDate x, VDate y => Some (x <? y) | VTs x, VTs y => Some (x <? y)
  | VDate x, VTs y => Some (x * 86400000000 <? y) | VTs x, VDate y => Some (x <? y * 86400000000)
  | _, _ => None
  end.
Definition cmp (f : value -> value -> option bool) (a b : res) : res :=
  match a, b with
  | Ok VNull, Ok _ | Ok _, Ok VNull => Ok VNull
  | Ok x, Ok y => match f x y with Some r => Ok (VBool r) | None => Fail end
  | _, _ => Fail
  end.
Definition and3 (a b : res) : res :=
  match a, b with
  | Ok (VBool false), Ok (VBool _) | Ok (VBool false), Ok VNull | Ok (VBool _), Ok (VBool false) | Ok VNull, Ok (VBool false) => Ok (VBool false)
  | Ok (VBool true), Ok (VBool true) => Ok (VBool true)
  | Ok (VBool true), Ok VNull | Ok VNull, Ok (VBool true) | Ok VNull, Ok VNull => Ok VNull
  | _, _ => Fail
  end.
Definition or3 (a b : res) : res :=
  match a, b with
  | Ok (VBool true), Ok (VBool _) | Ok (VBool true), Ok VNull | Ok (VBool _), Ok (VBool true) | Ok VNull, Ok (VBool true) => Ok (VBool true)
  | Ok (VBool false), Ok (VBool false) => Ok (VBool false)
  | Ok (VBool false), Ok VNull | Ok VNull, Ok (VBool false) | Ok VNull, Ok VNull => Ok VNull
  | _, _ => Fail
  end.
Definition not3 (a : res) : res := match a with Ok (VBool b) => Ok (VBool (negb b)) | Ok VNull => Ok VNull | _ => Fail end.
Definition isnull (a : res) : res := match a with Ok VNull => Ok (VBool true) | Ok _ => Ok (VBool false) | Fail => Fail end.
Definition case3 (c a b : res) : res :=
  match c with Ok (VBool true) => a | Ok (VBool false) | Ok VNull => b | _ => Fail end.
Definition coalesce2 (a b : res) : res := match a with Ok VNull => b | _ => a end.
Definition to_date_v (a : res) : res :=
  match a with
  | Ok VNull => Ok VNull | Ok (VDate d) | Ok (VDateText d) => Ok (VDate d) | Ok (VTs us) => Ok (VDate (us / day_us))
  | _ => Fail
  end.
(* IS NOT DISTINCT FROM / EQUAL_NULL: NULLs compare equal, never NULL *)
Definition not_distinct (a b : res) : res :=
  match a, b with
  | Ok VNull, Ok VNull => Ok (VBool true)
  | Ok VNull, Ok _ | Ok _, Ok VNull => Ok (VBool false)
  | Ok x, Ok y => match veq x y with Some r => Ok (VBool r) | None => Fail end
  | _, _ => Fail
  end.
Definition to_us (v : value) : option Z := match v with VDate d => Some (d * day_us) | VTs us => Some us | _ => None end.

(* TO_DECIMAL (x, p, s): Snowflake rounds half away from zero; out of range is an error (NULL for TRY_) *)
Definition to_decimal_with (round : Z -> Z -> Z -> Z) (text_check : Z -> Z -> Z -> Z) (try : bool) (a : res) (p s : Z) : res :=
  let finish_with c u := if fits c p then Ok (VDec u s) else if try then Ok VNull else Fail in
  let finish u := finish_with u u in
  match a with
  | Ok VNull => Ok VNull
  | Ok (VInt z) => finish (z * 10 ^ s)
  | Ok (VDec u s0) => finish (round u s0 s)
  (* text is rounded half away from zero by both; DuckDB tests the range on the digits BEFORE rounding *)
  | Ok (VNumText u s0) => finish_with (text_check u s0 s) (rescale_half_away u s0 s)
  | Ok (VText _) | Ok (VDateText _) => if try then Ok VNull else Fail
  | _ => Fail
  end.

(* ---- Snowflake's documented semantics ---- *)
Fixpoint sem_sf (en : env) (e : expr) : res :=
  match e with
  | ELit v => Ok v
  | ECol i => Ok (nth i en VNull)
  | EAdd a b => lift2i Z.add (sem_sf en a) (sem_sf en b)
  | ESub a b => lift2i Z.sub (sem_sf en a) (sem_sf en b)
  | EMul a b => lift2i Z.mul (sem_sf en a) (sem_sf en b)
  | EEq a b => cmp veq (sem_sf en a) (sem_sf en b)
  | ELt a b => cmp vlt (sem_sf en a) (sem_sf en b)
  | EAnd a b => and3 (sem_sf en a) (sem_sf en b)
  | EOr a b => or3 (sem_sf en a) (sem_sf en b)
  | ENot a => not3 (sem_sf en a)
  | EIsNull a => isnull (sem_sf en a)
  | ECase c a b => case3 (sem_sf en c) (sem_sf en a) (sem_sf en b)
  | ECoalesce a b => coalesce2 (sem_sf en a) (sem_sf en b)
  | ECastDate a | EToDate a => to_date_v (sem_sf en a)
  | EEqualNull a b => not_distinct (sem_sf en a) (sem_sf en b)
  | EToDecimal try a p s => to_decimal_with rescale_half_away rescale_half_away try (sem_sf en a) p s
  | EDateAdd u n d =>
      match sem_sf en n, sem_sf en d with
      | Ok VNull, Ok _ | Ok _, Ok VNull => Ok VNull
      | Ok (VInt k), Ok (VDate dn) => match shift_days u k dn with Some dn' => Ok (VDate dn') | None => Ok (VTs (shift_us u k (dn * day_us))) end
      | Ok (VInt k), Ok (VTs us) => Ok (VTs (shift_us u k us))
      | _, _ => Fail
      end
  | EDateDiff u a b =>
      match sem_sf en a, sem_sf en b with
      | Ok VNull, Ok _ | Ok _, Ok VNull => Ok VNull
      | Ok x, Ok y => match to_us x, to_us y with Some p, Some q => Ok (VInt (diff_units u p q)) | _, _ => Fail end
      | _, _ => Fail
      end
  | _ => Fail           (* DuckDB-only nodes are not Snowflake expressions *)
  end.

(* ---- DuckDB's semantics of what the rewrite produces ---- *)
Fixpoint sem_duck (en : env) (e : expr) : res :=
  match e with
  | ELit v => Ok v
  | ECol i => Ok (nth i en VNull)
  | EAdd a b => lift2i Z.add (sem_duck en a) (sem_duck en b)
  | ESub a b => lift2i Z.sub (sem_duck en a) (sem_duck en b)
  | EMul a b => lift2i Z.mul (sem_duck en a) (sem_duck en b)
  | EEq a b => cmp veq (sem_duck en a) (sem_duck en b)
  | ELt a b => cmp vlt (sem_duck en a) (sem_duck en b)
  | EAnd a b => and3 (sem_duck en a) (sem_duck en b)
  | EOr a b => or3 (sem_duck en a) (sem_duck en b)
  | ENot a => not3 (sem_duck en a)
  | EIsNull a => isnull (sem_duck en a)
  | ECase c a b => case3 (sem_duck en c) (sem_duck en a) (sem_duck en b)
  | ECoalesce a b => coalesce2 (sem_duck en a) (sem_duck en b)
  | ECastDate a => to_date_v (sem_duck en a)
  | ENotDistinct a b => not_distinct (sem_duck en a) (sem_duck en b)
  | ECastDec try a p s => to_decimal_with rescale_trunc rescale_trunc try (sem_duck en a) p s
  | ECastTs a => match sem_duck en a with
                 | Ok VNull => Ok VNull | Ok (VTs us) => Ok (VTs us) | Ok (VDate d) | Ok (VDateText d) => Ok (VTs (d * day_us)) | _ => Fail end
  | EPlusInterval u k n d =>       (* DATE + INTERVAL is a TIMESTAMP in DuckDB, whatever the unit *)
      match sem_duck en n, sem_duck en d with
      | Ok VNull, Ok _ | Ok _, Ok VNull => Ok VNull
      | Ok (VInt j), Ok x => match to_us x with Some us => Ok (VTs (shift_us u (k * j) us)) | None => Fail end
      | _, _ => Fail
      end
  | EDuckDiff u a b =>
      match sem_duck en a, sem_duck en b with
      | Ok VNull, Ok _ | Ok _, Ok VNull => Ok VNull
      | Ok x, Ok y => match to_us x, to_us y with Some p, Some q => Ok (VInt (diff_units_duck u p q)) | _, _ => Fail end
      | _, _ => Fail
      end
  | _ => Fail           (* Snowflake-only nodes are unknown to DuckDB *)
  end.

(* ---- the rewrite ---- *)
Definition is_text_lit (e : expr) : bool := match e with ELit (VDateText _) | ELit (VText _) | ELit (VNumText _ _) => true | _ => false end.
(* TO_DATE('literal') is a CAST already when sqlglot has parsed it; TO_DATE(<expression>) becomes one only at generation time,
   after dateadd_date_cast has looked *)
Definition is_cast_date (e : expr) : bool := match e with ECastDate _ => true | EToDate a => is_text_lit a | _ => false end.
(* a quarter has become MONTH by the time dateadd_date_cast looks at the unit *)
Definition date_unit (u : unit_) : bool := match u with UDay | UWeek | UMonth | UQuarter | UYear => true | _ => false end.

Fixpoint rewrite (e : expr) : expr :=
  match e with
  | ELit _ | ECol _ => e
  | EAdd a b => EAdd (rewrite a) (rewrite b) | ESub a b => ESub (rewrite a) (rewrite b) | EMul a b => EMul (rewrite a) (rewrite b)
  | EEq a b => EEq (rewrite a) (rewrite b) | ELt a b => ELt (rewrite a) (rewrite b)
  | EAnd a b => EAnd (rewrite a) (rewrite b) | EOr a b => EOr (rewrite a) (rewrite b)
  | ENot a => ENot (rewrite a) | EIsNull a => EIsNull (rewrite a)
  | ECase c a b => ECase (rewrite c) (rewrite a) (rewrite b) | ECoalesce a b => ECoalesce (rewrite a) (rewrite b)
  | ECastDate a => ECastDate (rewrite a)
  | EEqualNull a b => ENotDistinct (rewrite a) (rewrite b)
  | EToDecimal try a p s => ECastDec try (rewrite a) p s
  | EToDate a => ECastDate (rewrite a)
  | EDateAdd u n d =>
      let d' := if is_text_lit d then ECastTs (rewrite d) else rewrite d in      (* dateadd_string_literal_timestamp_cast *)
      let body := match u with
                  | UWeek => EPlusInterval UDay 7 (rewrite n) d'
                  | UQuarter => EPlusInterval UMonth 3 (rewrite n) d'         (* dateadd_quarter (fix): 3 n months *)
                  | _ => EPlusInterval u 1 (rewrite n) d'
                  end in
      if is_cast_date d && date_unit u then ECastDate body else body              (* dateadd_date_cast *)
  | EDateDiff u a b =>
      EDuckDiff u (if is_text_lit a then ECastTs (rewrite a) else rewrite a) (if is_text_lit b then ECastTs (rewrite b) else rewrite b)
  | ENotDistinct _ _ | ECastDec _ _ _ _ | ECastTs _ | EPlusInterval _ _ _ _ | EDuckDiff _ _ _ => e
  end.

(* ---- the domain on which the rewrite is right ---- *)
(* static type of an expression, as far as the date functions need it *)
Inductive ety := TDateT | TTsT | TOtherT.
Definition ety_lit (v : value) : ety := match v with VDate _ => TDateT | VTs _ => TTsT | _ => TOtherT end.
Fixpoint supported (en : env) (e : expr) : bool :=
  match e with
  | ELit _ | ECol _ => true
  | EAdd a b | ESub a b | EMul a b | EEq a b | ELt a b | EAnd a b | EOr a b | ECoalesce a b | EEqualNull a b => supported en a && supported en b
  | ENot a | EIsNull a | ECastDate a | EToDate a => supported en a
  | ECase c a b => supported en c && supported en a && supported en b
  | EToDecimal try a p s =>
      supported en a && (0 <=? s) && (s <=? p) && (p <=? 38) &&
      match sem_sf en a with
      | Ok (VDec _ s0) => s0 <=? s                      (* DuckDB truncates when it narrows a DECIMAL *)
      | Ok (VInt _) => negb try                         (* TRY_TO_DECIMAL takes a string *)
      | Ok (VNumText u s0) => Bool.eqb (fits (rescale_trunc u s0 s) p) (fits (rescale_half_away u s0 s) p)   (* rounding must not carry to 10^p *)
      | _ => true
      end
  | EDateAdd u n d =>
      supported en n && supported en d && negb (is_text_lit d) &&
      match sem_sf en d with
      | Ok (VDate _) => (is_cast_date d && date_unit u) || match u with UHour => true | _ => false end
      | _ => true
      end
  | EDateDiff u a b =>
      supported en a && supported en b && negb (is_text_lit a) && negb (is_text_lit b) &&
      match u, sem_sf en a, sem_sf en b with
      | UWeek, Ok x, Ok y =>                      (* both dates on the same side of Monday 1969-12-29 *)
          match to_us x, to_us y with
          | Some p, Some q => Bool.eqb (monday_of (p / day_us) <? 0) (monday_of (q / day_us) <? 0)
          | _, _ => true
          end
      | UHour, Ok x, Ok y =>                      (* not before 1970 *)
          match to_us x, to_us y with
          | Some p, Some q => (0 <=? p) && (0 <=? q)
          | _, _ => true
          end
      | _, _, _ => true
      end
  | _ => false
  end.

(* ---- sexp ---- *)
Definition dec_unit (x : sexp) : option unit_ :=
  match x with A 0 => Some UDay | A 1 => Some UWeek | A 2 => Some UMonth | A 3 => Some UQuarter | A 4 => Some UYear | A 5 => Some UHour | _ => None end.
Definition dec_value (x : sexp) : option value :=
  match x with
  | L [A 0] => Some VNull | L [A 1; A z] => Some (VInt z) | L [A 2; A u; A s] => Some (VDec u s) | L [A 3; b] => option_map VBool (dec_bool b)
  | L [A 4; t] => option_map VText (dec_str t) | L [A 5; A u; A s] => Some (VNumText u s) | L [A 6; A d] => Some (VDateText d)
  | L [A 7; A d] => Some (VDate d) | L [A 8; A us] => Some (VTs us) | _ => None
  end.
Definition enc_value (v : value) : sexp :=
  match v with
  | VNull => L [A 0] | VInt z => L [A 1; A z] | VDec u s => L [A 2; A u; A s] | VBool b => L [A 3; enc_bool b]
  | VText t => L [A 4; enc_str t] | VNumText u s => L [A 5; A u; A s] | VDateText d => L [A 6; A d]
  | VDate d => L [A 7; A d] | VTs us => L [A 8; A us]
  end.
Definition enc_res (r : res) : sexp := match r with Ok v => L [enc_value v] | Fail => L [] end.
Fixpoint dec_expr (fuel : nat) (x : sexp) : option expr :=
  match fuel with
  | O => None
  | S f =>
      let d := dec_expr f in
      let bin (k : expr -> expr -> expr) a b := match d a, d b with Some a, Some b => Some (k a b) | _, _ => None end in
      match x with
      | L [A 0; v] => option_map ELit (dec_value v)
      | L [A 1; i] => option_map ECol (dec_nat i)
      | L [A 2; a; b] => bin EAdd a b | L [A 3; a; b] => bin ESub a b | L [A 4; a; b] => bin EMul a b
      | L [A 5; a; b] => bin EEq a b | L [A 6; a; b] => bin ELt a b | L [A 7; a; b] => bin EAnd a b | L [A 8; a; b] => bin EOr a b
      | L [A 9; a] => option_map ENot (d a) | L [A 10; a] => option_map EIsNull (d a)
      | L [A 11; c; a; b] => match d c, d a, d b with Some c, Some a, Some b => Some (ECase c a b) | _, _, _ => None end
      | L [A 12; a; b] => bin ECoalesce a b
      | L [A 13; a] => option_map ECastDate (d a)
      | L [A 14; a; b] => bin EEqualNull a b
      | L [A 15; t; a; A p; A s] => match dec_bool t, d a with Some t, Some a => Some (EToDecimal t a p s) | _, _ => None end
      | L [A 16; a] => option_map EToDate (d a)
      | L [A 17; u; n; e] => match dec_unit u, d n, d e with Some u, Some n, Some e => Some (EDateAdd u n e) | _, _, _ => None end
      | L [A 18; u; a; b] => match dec_unit u, d a, d b with Some u, Some a, Some b => Some (EDateDiff u a b) | _, _, _ => None end
      | _ => None
      end
  end.
(* input: (env expr) ; output: (sem_duck(rewrite e)  sem_sf e  supported) *)
Definition run_c10 (x : sexp) : sexp :=
  match x with
  | L [en; e] =>
      match dec_list dec_value en, dec_expr 40 e with
      | Some en, Some e => L [enc_res (sem_duck en (rewrite e)); enc_res (sem_sf en e); enc_bool (supported en e)]
      | _, _ => bad
      end
  | _ => bad
  end.
(* input: (y m d) ; output: (day-number civil-of-day-number) - the calendar against Python's datetime *)
Definition run_c10_cal (x : sexp) : sexp :=
  match x with
  | L [A y; A m; A d] => let dn := days_from_civil y m d in let '(y', m', d') := civil_from_days dn in L [A dn; A y'; A m'; A d']
  | _ => bad
  end.
