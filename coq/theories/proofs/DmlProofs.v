From FS Require Import Sexp Dml.
From Coq Require Import Lia.

Definition norm (t : nat) : nat := match t with O => 0%nat | S O => 1%nat | _ => 2%nat end.

Lemma tget_tset_same d t x : tget (tset d t x) t = x.
Proof. destruct d as [[t0 t1] t2]. destruct t as [|[|t]]; reflexivity. Qed.
Lemma tget_tset_other d t t' x : norm t <> norm t' -> tget (tset d t x) t' = tget d t'.
Proof. destruct d as [[t0 t1] t2]. destruct t as [|[|t]], t' as [|[|t']]; cbn; intros H; try reflexivity; congruence. Qed.

Definition target (s : stmt) : nat :=
  match s with InsertValues t _ _ | InsertSelect t _ _ _ | Update t _ _ _ | Delete t _ | Truncate t => t end.

(* nothing but the target table changes *)
Theorem bystanders_unchanged_l : forall d s t', norm (target s) <> norm t' ->
  tget (fst (engine d s)) t' = tget d t'.
Proof. intros d s t' H. destruct s; cbn [engine fst target] in *; apply tget_tset_other; assumption. Qed.

(* the status row and cursor.rowcount both carry the engine's affected count - zero included *)
Theorem count_reported_l : forall d s, (forall t, s <> Truncate t) ->
  let n := snd (engine d s) in
  rowcount (snd (fake d s)) = n /\
  (stat (snd (fake d s)) = SInserted n \/ stat (snd (fake d s)) = SUpdated n \/ stat (snd (fake d s)) = SDeleted n) /\
  fst (fake d s) = fst (engine d s).
Proof.
  intros d s NT. unfold fake. destruct (engine d s) as [d' n] eqn:E. cbn [snd fst].
  destruct s; cbn; auto. exfalso. eapply NT. reflexivity.
Qed.

Lemma filter_partition {X} (f : X -> bool) (l : list X) :
  length l = (length (filter f l) + length (filter (fun x => negb (f x)) l))%nat.
Proof. induction l as [|x l IH]; cbn; [reflexivity|]. destruct (f x); cbn; lia. Qed.

Lemma filter_filter_neg {X} (f : X -> bool) (l : list X) : filter f (filter (fun x => negb (f x)) l) = [].
Proof. induction l as [|x l IH]; cbn; [reflexivity|]. destruct (f x) eqn:E; cbn; rewrite ?E; exact IH. Qed.

(* DELETE: exactly the rows whose predicate is TRUE go; the count is their number *)
Theorem delete_exact_l : forall d t p,
  let d' := fst (engine d (Delete t p)) in let n := snd (engine d (Delete t p)) in
  tget d' t = filter (fun r => negb (holds p r)) (tget d t) /\
  length (tget d t) = (n + length (tget d' t))%nat /\
  filter (holds p) (tget d' t) = [] /\
  (forall r, In r (tget d t) -> holds p r = false -> In r (tget d' t)).
Proof.
  intros d t p. cbn [engine fst snd]. rewrite tget_tset_same. repeat split.
  - apply filter_partition.
  - apply filter_filter_neg.
  - intros r H1 H2. apply filter_In. split; [exact H1|]. rewrite H2. reflexivity.
Qed.

(* UPDATE: same number of rows, position by position either updated (predicate TRUE) or untouched;
   the count is the number of rows whose predicate is TRUE *)
Theorem update_exact_l : forall d t sb e p,
  let d' := fst (engine d (Update t sb e p)) in let n := snd (engine d (Update t sb e p)) in
  tget d' t = map (fun r => if holds p r then upd sb e r else r) (tget d t) /\
  length (tget d' t) = length (tget d t) /\
  n = length (filter (holds p) (tget d t)) /\
  (forall r, In r (tget d t) -> holds p r = false -> In r (tget d' t)).
Proof.
  intros d t sb e p. cbn [engine fst snd]. rewrite tget_tset_same. repeat split.
  - apply map_length.
  - intros r H1 H2. apply in_map_iff. exists r. rewrite H2. auto.
Qed.

(* INSERT: the old rows stay, the new ones are appended; the count is their number *)
Theorem insert_exact_l : forall d t c rows,
  let d' := fst (engine d (InsertValues t c rows)) in let n := snd (engine d (InsertValues t c rows)) in
  tget d' t = tget d t ++ map (place c) rows /\ n = length rows /\
  length (tget d' t) = (length (tget d t) + n)%nat.
Proof.
  intros d t c rows. cbn [engine fst snd]. rewrite tget_tset_same. repeat split.
  rewrite app_length, map_length. reflexivity.
Qed.
Theorem insert_select_exact_l : forall d t c src p,
  let d' := fst (engine d (InsertSelect t c src p)) in let n := snd (engine d (InsertSelect t c src p)) in
  tget d' t = tget d t ++ map (place c) (filter (holds p) (tget d src)) /\
  n = length (filter (holds p) (tget d src)) /\
  length (tget d' t) = (length (tget d t) + n)%nat.
Proof.
  intros d t c src p. cbn [engine fst snd]. rewrite tget_tset_same. repeat split.
  rewrite app_length, map_length. reflexivity.
Qed.
Theorem truncate_exact_l : forall d t, tget (fst (engine d (Truncate t))) t = [].
Proof. intros d t. cbn [engine fst]. apply tget_tset_same. Qed.

(* three-valued logic: a row whose predicate is UNKNOWN is selected neither by p nor by NOT p *)
Theorem unknown_not_selected_l : forall p r,
  (eval p r = None -> holds p r = false /\ holds (Not p) r = false) /\
  (holds p r = true -> holds (Not p) r = false) /\
  (holds (Not p) r = true <-> eval p r = Some false).
Proof.
  intros p r. unfold holds. cbn [eval]. unfold not3. destruct (eval p r) as [[|]|]; cbn; repeat split; intros; try discriminate; auto.
Qed.

Theorem ddl_status_names_object_l : forall k i q,
  exists pre post, ddl_status k i q = pre ++ reported_name i q ++ post.
Proof.
  intros k i q. destruct k; cbn [ddl_status].
  - exists (lit "Table "), (lit " successfully created."). reflexivity.
  - exists (lit "Schema "), (lit " successfully created."). reflexivity.
  - exists (lit "View "), (lit " successfully created."). reflexivity.
  - exists (lit "Database "), (lit " successfully created."). reflexivity.
  - exists [], (lit " successfully dropped."). reflexivity.
Qed.

Example dml_nonvacuous :
  let d := ([(Some 1, Some 2); (None, Some 3); (Some 2, None)], [], []) in
  fake d (Update 0 true (Plus true 1) (Not (Eq (Col false) (Const (Some 1))))) =
    (([(Some 1, Some 2); (None, Some 3); (Some 2, None)], [], []), {| stat := SUpdated 1; rowcount := 1 |}) /\
  fake d (Delete 0 (Eq (Col false) (Const None))) = (d, {| stat := SDeleted 0; rowcount := 0 |}) /\
  snd (fake d (Delete 0 (Or (IsNull (Col true)) (Lt (Col false) (Const (Some 2)))))) = {| stat := SDeleted 2; rowcount := 2 |}.
Proof. vm_compute. repeat split. Qed.
