From FS Require Import Sexp Merge.
From Coq Require Import Lia Arith.

(* ------------------------------------------------------------------ generic list facts *)
Lemma find_all_false {X} (f : X -> bool) l : (forall x, In x l -> f x = false) -> find f l = None.
Proof.
  induction l as [|a l IH]; intros H; cbn; [reflexivity|].
  rewrite (H a (or_introl eq_refl)). apply IH. intros x Hx. apply H. right. exact Hx.
Qed.

Lemma find_exists {X} (f : X -> bool) l x : In x l -> f x = true -> exists y, find f l = Some y.
Proof.
  induction l as [|a l IH]; intros Hin Hf; [destruct Hin|].
  cbn. destruct (f a) eqn:Ea; [eexists; reflexivity|].
  destruct Hin as [->|Hin]; [congruence|]. apply IH; assumption.
Qed.

Lemma flat_map_singleton {X} (l : list X) : flat_map (fun x => [x]) l = l.
Proof. induction l as [|a l IH]; cbn; [reflexivity|]. rewrite IH. reflexivity. Qed.

(* ------------------------------------------------------------------ matched clauses act row by row *)
Definition mut_row (m : merge) (cs : list cand) (w : nat) (cl : clause) (t : row) : list row :=
  match cl with
  | MDelete _ => match hit (on m) cs w t with Some _ => [] | None => [t] end
  | MUpdate _ asg => [match hit (on m) cs w t with Some s => apply_asg asg t s | None => t end]
  | NInsert _ _ _ => [t]
  end.

Lemma mutate_flat m cs w cl cur : is_matched cl = true -> mutate m cs w cl cur = flat_map (mut_row m cs w cl) cur.
Proof.
  intros Hm. destruct cl as [c asg|c|c cols vals]; cbn in Hm; try discriminate; cbn [mutate mut_row].
  - induction cur as [|t cur IH]; cbn; [reflexivity|]. rewrite IH. reflexivity.
  - induction cur as [|t cur IH]; cbn; [reflexivity|]. rewrite IH. destruct (hit (on m) cs w t); reflexivity.
Qed.

Lemma run_app_cur m cs cls : forallb is_matched cls = true -> forall w l1 l2,
  run_clauses m cs w cls (l1 ++ l2) = run_clauses m cs w cls l1 ++ run_clauses m cs w cls l2.
Proof.
  induction cls as [|cl cls IH]; intros Hm w l1 l2; cbn; [reflexivity|].
  cbn in Hm. apply andb_true_iff in Hm. destruct Hm as [H1 H2].
  rewrite !(mutate_flat _ _ _ _ _ H1). rewrite flat_map_app. apply IH. exact H2.
Qed.

Lemma run_nil m cs cls : forallb is_matched cls = true -> forall w, run_clauses m cs w cls [] = [].
Proof.
  induction cls as [|cl cls IH]; intros Hm w; cbn; [reflexivity|].
  cbn in Hm. apply andb_true_iff in Hm. destruct Hm as [H1 H2].
  rewrite (mutate_flat _ _ _ _ _ H1). cbn. apply IH. exact H2.
Qed.

Lemma run_flat m cs cls : forallb is_matched cls = true -> forall w cur,
  run_clauses m cs w cls cur = flat_map (fun t => run_clauses m cs w cls [t]) cur.
Proof.
  intros Hm w cur. induction cur as [|t cur IH]; cbn.
  - apply run_nil. exact Hm.
  - change (t :: cur) with ([t] ++ cur). rewrite (run_app_cur _ _ _ Hm). rewrite IH. reflexivity.
Qed.

Lemma run_app_cls m cs c1 : forall c2 w cur,
  run_clauses m cs w (c1 ++ c2) cur = run_clauses m cs (w + length c1) c2 (run_clauses m cs w c1 cur).
Proof.
  induction c1 as [|cl c1 IH]; intros c2 w cur; cbn.
  - rewrite Nat.add_0_r. reflexivity.
  - rewrite IH. replace (S w + length c1)%nat with (w + S (length c1))%nat by lia. reflexivity.
Qed.

(* ------------------------------------------------------------------ keys survive SET when no key column is assigned *)
Lemma col_set_nth r : forall i j v, i <> j -> col (set_nth r i v) j = col r j.
Proof.
  unfold col. induction r as [|x r IH]; intros i j v Hij; cbn; [reflexivity|].
  destruct i as [|i]; destruct j as [|j]; cbn; try reflexivity; try congruence.
  apply IH. congruence.
Qed.

Definition not_key (o : list (nat * nat)) (i : nat) : bool := negb (existsb (fun p => Nat.eqb (fst p) i) o).

Lemma joins_set_nth o r i v s : not_key o i = true -> joins o (set_nth r i v) s = joins o r s.
Proof.
  unfold not_key, joins. intros H. apply negb_true_iff in H.
  induction o as [|p o IH]; cbn; [reflexivity|].
  cbn in H. apply orb_false_iff in H. destruct H as [H1 H2].
  rewrite IH by exact H2. rewrite col_set_nth; [reflexivity|].
  apply Nat.eqb_neq in H1. congruence.
Qed.

Lemma joins_apply_asg o asg : forall t s0 s,
  forallb (fun a => not_key o (fst a)) asg = true -> joins o (apply_asg asg t s0) s = joins o t s.
Proof.
  unfold apply_asg. induction asg as [|a asg IH]; intros t s0 s H; cbn; [reflexivity|].
  cbn in H. apply andb_true_iff in H. destruct H as [H1 H2].
  rewrite IH by exact H2. apply joins_set_nth. exact H1.
Qed.

Lemma hit_ext o cs w r t : (forall s, joins o r s = joins o t s) -> hit o cs w r = hit o cs w t.
Proof.
  intros H. unfold hit. f_equal. induction cs as [|c cs IH]; cbn; [reflexivity|].
  rewrite H, IH. reflexivity.
Qed.

(* ------------------------------------------------------------------ what is in merge_candidates *)
Lemma first_op_spec kind cls : forall w t s k, first_op kind cls w t s = Some k ->
  exists cl, (w <= k)%nat /\ nth_error cls (k - w) = Some cl /\ is_matched cl = kind.
Proof.
  induction cls as [|c cls IH]; intros w t s k H; cbn in H; [discriminate|].
  destruct (Bool.eqb (is_matched c) kind && holds (ccond c) t s) eqn:E.
  - injection H as <-. exists c. rewrite Nat.sub_diag. cbn. apply andb_true_iff in E. destruct E as [E _].
    apply Bool.eqb_prop in E. auto.
  - destruct (IH _ _ _ _ H) as (cl & Hle & Hn & Hk). exists cl. split; [lia|]. split; [|exact Hk].
    replace (k - w)%nat with (S (k - S w)) by lia. exact Hn.
Qed.

Lemma in_cands_m m tgt src s w : In (s, w) (cands_m m tgt src) <->
  exists t, In t tgt /\ In s src /\ joins (on m) t s = true /\ op_m m t s = Some w.
Proof.
  unfold cands_m. rewrite in_flat_map. split.
  - intros (t & Ht & H). apply in_flat_map in H. destruct H as (s' & Hs' & H).
    destruct (joins (on m) t s') eqn:J; [|destruct H]. destruct (op_m m t s') eqn:O; [|destruct H].
    destruct H as [H|[]]. injection H as <- <-. exists t. auto.
  - intros (t & Ht & Hs & J & O). exists t. split; [exact Ht|]. apply in_flat_map. exists s. split; [exact Hs|].
    rewrite J, O. left. reflexivity.
Qed.

Lemma in_cands_n m tgt src s w : In (s, w) (cands_n m tgt src) <->
  In s src /\ unmatched m tgt s = true /\ op_n m s = Some w.
Proof.
  unfold cands_n. rewrite in_flat_map. split.
  - intros (s' & Hs' & H). destruct (unmatched m tgt s') eqn:U; [|destruct H]. destruct (op_n m s') eqn:O; [|destruct H].
    destruct H as [H|[]]. injection H as <- <-. auto.
  - intros (Hs & U & O). exists s. split; [exact Hs|]. rewrite U, O. left. reflexivity.
Qed.

Lemma unmatched_false m tgt s t : In t tgt -> joins (on m) t s = true -> unmatched m tgt s = false.
Proof.
  intros Ht J. unfold unmatched. apply negb_false_iff. apply existsb_exists. exists t. auto.
Qed.

(* ------------------------------------------------------------------ the re-join finds exactly the row's own clause *)
Section Row.
  Variables (m : merge) (tgt src : list row).
  Hypothesis Hdet : deterministic m tgt src = true.
  Hypothesis Hcons : op_consistent m tgt src = true.

  Lemma det_unique t s s' : In t tgt -> In s src -> In s' src -> joins (on m) t s = true -> joins (on m) t s' = true ->
    filter (joins (on m) t) src = [s] /\ filter (joins (on m) t) src = [s'].
  Proof.
    intros Ht Hs Hs' J J'. unfold deterministic in Hdet. rewrite forallb_forall in Hdet. specialize (Hdet t Ht).
    apply Nat.leb_le in Hdet.
    assert (I : In s (filter (joins (on m) t) src)) by (apply filter_In; auto).
    assert (I' : In s' (filter (joins (on m) t) src)) by (apply filter_In; auto).
    destruct (filter (joins (on m) t) src) as [|a [|b l]]; cbn in Hdet; try lia; [destruct I|].
    destruct I as [->|[]]. destruct I' as [->|[]]. auto.
  Qed.

  Lemma cons_ops t t' s : In t tgt -> In t' tgt -> In s src -> joins (on m) t s = true -> joins (on m) t' s = true ->
    op_m m t s = op_m m t' s.
  Proof.
    intros Ht Ht' Hs J J'. unfold op_consistent in Hcons. rewrite forallb_forall in Hcons. specialize (Hcons s Hs).
    rewrite forallb_forall in Hcons. specialize (Hcons t Ht). rewrite forallb_forall in Hcons. specialize (Hcons t' Ht').
    rewrite J, J' in Hcons. cbn in Hcons.
    destruct (op_m m t s), (op_m m t' s); try discriminate; try reflexivity.
    apply Nat.eqb_eq in Hcons. congruence.
  Qed.

  Lemma hit_char t s w s' : In t tgt -> In s src -> joins (on m) t s = true ->
    hit (on m) (cands m tgt src) w t = Some s' -> s' = s /\ op_m m t s = Some w.
  Proof.
    intros Ht Hs J H. unfold hit in H.
    destruct (find (fun c : row * nat => (snd c =? w)%nat && joins (on m) t (fst c)) (cands m tgt src)) as [[s1 w1]|] eqn:F; [|discriminate]. cbn in H. injection H as <-.
    apply find_some in F. destruct F as [Hin Hb]. cbn in Hb. apply andb_true_iff in Hb. destruct Hb as [Hw J1].
    apply Nat.eqb_eq in Hw. subst w1. unfold cands in Hin. apply in_app_or in Hin. destruct Hin as [Hin|Hin].
    - apply in_cands_m in Hin. destruct Hin as (t' & Ht' & Hs1 & J' & O).
      destruct (det_unique t s s1 Ht Hs Hs1 J J1) as [E1 E2]. rewrite E1 in E2. injection E2 as <-.
      split; [reflexivity|]. rewrite (cons_ops t t' s Ht Ht' Hs J J'). exact O.
    - apply in_cands_n in Hin. destruct Hin as (Hs1 & U & _).
      rewrite (unmatched_false m tgt s1 t Ht J1) in U. discriminate.
  Qed.

  Lemma hit_found t s w : In t tgt -> In s src -> joins (on m) t s = true -> op_m m t s = Some w ->
    hit (on m) (cands m tgt src) w t = Some s.
  Proof.
    intros Ht Hs J O.
    assert (Hin : In (s, w) (cands m tgt src)).
    { unfold cands. apply in_or_app. left. apply in_cands_m. exists t. auto. }
    destruct (find_exists (fun c => Nat.eqb (snd c) w && joins (on m) t (fst c)) _ _ Hin) as [y Hy].
    { cbn. rewrite Nat.eqb_refl, J. reflexivity. }
    assert (H : hit (on m) (cands m tgt src) w t = Some (fst y)) by (unfold hit; rewrite Hy; reflexivity).
    destruct (hit_char t s w (fst y) Ht Hs J H) as [E _]. rewrite H, E. reflexivity.
  Qed.

  Lemma hit_none_nojoin t w : (forall s, In s src -> joins (on m) t s = false) -> hit (on m) (cands m tgt src) w t = None.
  Proof.
    intros H. unfold hit. rewrite find_all_false; [reflexivity|].
    intros [s1 w1] Hin. cbn. assert (Hs1 : In s1 src).
    { unfold cands in Hin. apply in_app_or in Hin. destruct Hin as [Hin|Hin].
      - apply in_cands_m in Hin. destruct Hin as (? & ? & ? & _). assumption.
      - apply in_cands_n in Hin. destruct Hin as (? & _). assumption. }
    rewrite (H s1 Hs1). apply andb_false_r.
  Qed.

  Lemma hit_none_other t s w : In t tgt -> In s src -> joins (on m) t s = true -> op_m m t s <> Some w ->
    hit (on m) (cands m tgt src) w t = None.
  Proof.
    intros Ht Hs J O. destruct (hit (on m) (cands m tgt src) w t) as [s'|] eqn:H; [|reflexivity].
    destruct (hit_char t s w s' Ht Hs J H) as [_ E]. contradiction.
  Qed.
End Row.

(* a row that no remaining clause hits passes through unchanged *)
Lemma run_row_nohit m cs cls : forallb is_matched cls = true -> forall w r,
  (forall k, (k < length cls)%nat -> hit (on m) cs (w + k) r = None) -> run_clauses m cs w cls [r] = [r].
Proof.
  induction cls as [|cl cls IH]; intros Hm w r H; cbn; [reflexivity|].
  cbn in Hm. apply andb_true_iff in Hm. destruct Hm as [H1 H2].
  assert (H0 : hit (on m) cs w r = None) by (rewrite <- (Nat.add_0_r w); apply H; cbn; lia).
  assert (E : mutate m cs w cl [r] = [r]).
  { destruct cl as [c asg|c|c cols vals]; cbn in H1; try discriminate; cbn; rewrite H0; reflexivity. }
  rewrite E. apply IH; [exact H2|]. intros k Hk. replace (S w + k)%nat with (w + S k)%nat by lia. apply H. cbn. lia.
Qed.

Lemma inserts_last_split cls : inserts_last cls = true ->
  exists ms ns, cls = ms ++ ns /\ forallb is_matched ms = true /\ forallb (fun c => negb (is_matched c)) ns = true.
Proof.
  induction cls as [|c cls IH]; intros H.
  - exists [], []. auto.
  - cbn in H. destruct (is_matched c) eqn:Mc.
    + destruct (IH H) as (ms & ns & E & H1 & H2). exists (c :: ms), ns. subst cls. cbn. rewrite Mc. auto.
    + exists [], (c :: cls). cbn. rewrite Mc. auto.
Qed.

Lemma nth_error_matched_prefix ms ns w cl : forallb (fun c => negb (is_matched c)) ns = true ->
  nth_error (ms ++ ns) w = Some cl -> is_matched cl = true -> nth_error ms w = Some cl.
Proof.
  intros Hn H Hm. destruct (Nat.lt_ge_cases w (length ms)) as [Hlt|Hge].
  - rewrite nth_error_app1 in H by exact Hlt. exact H.
  - rewrite nth_error_app2 in H by exact Hge. apply nth_error_In in H.
    rewrite forallb_forall in Hn. specialize (Hn cl H). rewrite Hm in Hn. discriminate.
Qed.

(* ------------------------------------------------------------------ phase 1: the matched clauses *)
Section Phase1.
  Variables (m : merge) (tgt src : list row) (ms ns : list clause).
  Hypothesis Hdet : deterministic m tgt src = true.
  Hypothesis Hcons : op_consistent m tgt src = true.
  Hypothesis Hnka : no_key_assign m = true.
  Hypothesis Hcls : clauses m = ms ++ ns.
  Hypothesis Hms : forallb is_matched ms = true.
  Hypothesis Hns : forallb (fun c => negb (is_matched c)) ns = true.

  Lemma asg_keeps_keys c asg w : nth_error (clauses m) w = Some (MUpdate c asg) ->
    forall t s0 s, joins (on m) (apply_asg asg t s0) s = joins (on m) t s.
  Proof.
    intros H t s0 s. apply joins_apply_asg. apply nth_error_In in H.
    unfold no_key_assign in Hnka. rewrite forallb_forall in Hnka. specialize (Hnka _ H). cbn in Hnka.
    unfold not_key. exact Hnka.
  Qed.

  Lemma row_phase1 t : In t tgt -> run_clauses m (cands m tgt src) 0 ms [t] = spec_row m src t.
  Proof.
    intros Ht. unfold spec_row.
    destruct (filter (joins (on m) t) src) as [|s rest] eqn:F.
    - (* joins nothing *)
      apply run_row_nohit; [exact Hms|]. intros k _. apply hit_none_nojoin.
      intros s Hs. destruct (joins (on m) t s) eqn:J; [|reflexivity].
      assert (I : In s (filter (joins (on m) t) src)) by (apply filter_In; auto). rewrite F in I. destruct I.
    - assert (I : In s (filter (joins (on m) t) src)) by (rewrite F; left; reflexivity).
      apply filter_In in I. destruct I as [Hs J].
      destruct (op_m m t s) as [w0|] eqn:O.
      + destruct (first_op_spec _ _ _ _ _ _ O) as (cl & _ & Hn & Hk). rewrite Nat.sub_0_r in Hn.
        rewrite Hn. pose proof Hn as Hn'. rewrite Hcls in Hn'.
        pose proof (nth_error_matched_prefix _ _ _ _ Hns Hn' Hk) as Hpre.
        destruct (nth_error_split _ _ Hpre) as (pre & post & Ems & Elen).
        assert (Mpre : forallb is_matched pre = true /\ forallb is_matched post = true).
        { rewrite Ems in Hms. rewrite forallb_app in Hms. apply andb_true_iff in Hms. destruct Hms as [A B].
          cbn in B. apply andb_true_iff in B. destruct B as [_ B]. auto. }
        destruct Mpre as [Mpre Mpost].
        rewrite Ems. rewrite run_app_cls. cbn [run_clauses]. rewrite Nat.add_0_l, Elen.
        rewrite (run_row_nohit _ _ _ Mpre).
        2:{ intros k Hk'. cbn. apply (hit_none_other m tgt src Hdet Hcons t s k Ht Hs J). rewrite O. intros E. injection E as E. lia. }
        pose proof (hit_found m tgt src Hdet Hcons t s w0 Ht Hs J O) as Hh.
        destruct cl as [c asg|c|c cols vals]; cbn in Hk; try discriminate; cbn [mutate]; cbn [map filter]; rewrite Hh.
        * (* update *)
          apply run_row_nohit; [exact Mpost|]. intros k _.
          rewrite (hit_ext _ _ _ _ t (asg_keeps_keys _ _ _ Hn t s)).
          apply (hit_none_other m tgt src Hdet Hcons t s _ Ht Hs J). rewrite O. intros E. injection E as E. lia.
        * (* delete *)
          apply run_nil. exact Mpost.
      + apply run_row_nohit; [exact Hms|]. intros k _.
        apply (hit_none_other m tgt src Hdet Hcons t s k Ht Hs J). rewrite O. discriminate.
  Qed.

  Lemma phase1 : run_clauses m (cands m tgt src) 0 ms tgt = flat_map (spec_row m src) tgt.
  Proof.
    rewrite (run_flat _ _ _ Hms).
    assert (G : forall l, (forall t, In t l -> In t tgt) ->
                flat_map (fun t => run_clauses m (cands m tgt src) 0 ms [t]) l = flat_map (spec_row m src) l).
    { induction l as [|t l IH]; intros Hl; cbn; [reflexivity|].
      rewrite row_phase1 by (apply Hl; left; reflexivity). rewrite IH; [reflexivity|].
      intros t' Ht'. apply Hl. right. exact Ht'. }
    apply G. auto.
  Qed.
End Phase1.

(* ------------------------------------------------------------------ phase 2: the not-matched clauses append *)
Fixpoint ins_from (m : merge) (cs : list cand) (w : nat) (cls : list clause) : list row :=
  match cls with
  | [] => []
  | cl :: rest =>
      match cl with
      | NInsert _ cols vals => map (fun c => mkrow (width m) cols vals (fst c)) (filter (fun c => Nat.eqb (snd c) w) cs)
      | _ => []
      end ++ ins_from m cs (S w) rest
  end.

Lemma run_inserts m cs ns : forallb (fun c => negb (is_matched c)) ns = true -> forall w cur,
  run_clauses m cs w ns cur = cur ++ ins_from m cs w ns.
Proof.
  induction ns as [|cl ns IH]; intros Hn w cur; cbn; [rewrite app_nil_r; reflexivity|].
  cbn in Hn. apply andb_true_iff in Hn. destruct Hn as [H1 H2].
  destruct cl as [c asg|c|c cols vals]; cbn in H1; try discriminate.
  rewrite IH by exact H2. cbn [mutate]. rewrite app_assoc. reflexivity.
Qed.

Lemma filter_cands_n m tgt src w :
  filter (fun c => Nat.eqb (snd c) w) (cands_n m tgt src) =
  map (fun s => (s, w)) (filter (fun s => unmatched m tgt s && match op_n m s with Some w' => Nat.eqb w' w | None => false end) src).
Proof.
  unfold cands_n. induction src as [|s src IH]; cbn; [reflexivity|].
  rewrite filter_app, IH. destruct (unmatched m tgt s); cbn; [|reflexivity].
  destruct (op_n m s) as [w'|]; cbn; [|reflexivity].
  destruct (Nat.eqb w' w) eqn:E; cbn; [|reflexivity]. apply Nat.eqb_eq in E. subst. reflexivity.
Qed.

Lemma filter_cands_m m tgt src w cl : nth_error (clauses m) w = Some cl -> is_matched cl = false ->
  filter (fun c => Nat.eqb (snd c) w) (cands_m m tgt src) = [].
Proof.
  intros Hn Hm. destruct (filter (fun c => Nat.eqb (snd c) w) (cands_m m tgt src)) as [|[s w'] l] eqn:F; [reflexivity|].
  assert (I : In (s, w') (filter (fun c => Nat.eqb (snd c) w) (cands_m m tgt src))) by (rewrite F; left; reflexivity).
  apply filter_In in I. destruct I as [I E]. cbn in E. apply Nat.eqb_eq in E. subst w'.
  apply in_cands_m in I. destruct I as (t & _ & _ & _ & O).
  destruct (first_op_spec _ _ _ _ _ _ O) as (cl' & _ & Hn' & Hk). rewrite Nat.sub_0_r in Hn'. congruence.
Qed.

Lemma ins_from_spec m tgt src pre : forall ns w, clauses m = pre ++ ns -> w = length pre ->
  ins_from m (cands m tgt src) w ns = spec_inserts m tgt src w ns.
Proof.
  intros ns. revert pre. induction ns as [|cl ns IH]; intros pre w Hc Hw; cbn; [reflexivity|].
  rewrite (IH (pre ++ [cl]) (S w)).
  2:{ rewrite <- app_assoc. exact Hc. }
  2:{ rewrite app_length. cbn. lia. }
  f_equal. destruct cl as [c asg|c|c cols vals]; try reflexivity.
  assert (Hn : nth_error (clauses m) w = Some (NInsert c cols vals)).
  { rewrite Hc, Hw. rewrite nth_error_app2 by lia. rewrite Nat.sub_diag. reflexivity. }
  unfold cands. rewrite filter_app. rewrite (filter_cands_m _ _ _ _ _ Hn eq_refl). cbn [app].
  rewrite filter_cands_n. rewrite map_map. cbn. reflexivity.
Qed.

Lemma spec_inserts_matched m tgt src ms : forallb is_matched ms = true -> forall ns w,
  spec_inserts m tgt src w (ms ++ ns) = spec_inserts m tgt src (w + length ms) ns.
Proof.
  induction ms as [|cl ms IH]; intros Hm ns w; cbn.
  - rewrite Nat.add_0_r. reflexivity.
  - cbn in Hm. apply andb_true_iff in Hm. destruct Hm as [H1 H2].
    rewrite IH by exact H2. replace (S w + length ms)%nat with (w + S (length ms))%nat by lia.
    destruct cl; cbn in H1; try discriminate; reflexivity.
Qed.

(* ------------------------------------------------------------------ the main theorem *)
Theorem merge_correct_partial_l : forall m tgt src, dom m tgt src = true -> fake_target m tgt src = spec_target m tgt src.
Proof.
  intros m tgt src D. unfold dom in D. repeat (apply andb_true_iff in D; destruct D as [D ?]).
  rename D into Hdet. rename H1 into Hcons. rename H0 into Hnka. rename H into Hil.
  destruct (inserts_last_split _ Hil) as (ms & ns & Hcls & Hms & Hns).
  unfold fake_target, spec_target. rewrite Hcls. rewrite run_app_cls. rewrite Nat.add_0_l.
  rewrite (phase1 m tgt src ms ns Hdet Hcons Hnka Hcls Hms Hns).
  rewrite (run_inserts _ _ _ Hns). f_equal.
  rewrite (ins_from_spec m tgt src ms ns (length ms) Hcls eq_refl).
  rewrite (spec_inserts_matched _ _ _ _ Hms). reflexivity.
Qed.

(* ------------------------------------------------------------------ when is op_consistent guaranteed? *)
Fixpoint src_only (c : cond) : bool :=
  match c with
  | CTrue => true
  | CCmp Src _ _ _ | CIsNull Src _ => true
  | CCmp Tgt _ _ _ | CIsNull Tgt _ | CCol _ _ _ => false
  | CAnd a b | COr a b => src_only a && src_only b
  | CNot a => src_only a
  end.

Lemma src_only_eval c : src_only c = true -> forall t t' s, ceval c t s = ceval c t' s.
Proof.
  induction c as [|sd i op k|i j op|sd i|a IHa b IHb|a IHa b IHb|a IHa]; intros H t t' s; cbn in *; try reflexivity; try discriminate.
  - destruct sd; [discriminate|reflexivity].
  - destruct sd; [discriminate|reflexivity].
  - apply andb_true_iff in H. destruct H as [Ha Hb]. rewrite (IHa Ha t t' s), (IHb Hb t t' s). reflexivity.
  - apply andb_true_iff in H. destruct H as [Ha Hb]. rewrite (IHa Ha t t' s), (IHb Hb t t' s). reflexivity.
  - rewrite (IHa H t t' s). reflexivity.
Qed.

Definition conds_src_only (m : merge) : bool :=
  forallb (fun cl => negb (is_matched cl) || src_only (ccond cl)) (clauses m).

Lemma first_op_src_only cls : forallb (fun cl => negb (is_matched cl) || src_only (ccond cl)) cls = true ->
  forall w t t' s, first_op true cls w t s = first_op true cls w t' s.
Proof.
  induction cls as [|c cls IH]; intros H w t t' s; cbn; [reflexivity|].
  cbn in H. apply andb_true_iff in H. destruct H as [H1 H2]. rewrite (IH H2 (S w) t t' s).
  destruct (is_matched c) eqn:Mc; cbn in *; [|reflexivity].
  unfold holds. rewrite (src_only_eval _ H1 t t' s). reflexivity.
Qed.

Lemma src_only_consistent_l m tgt src : conds_src_only m = true -> op_consistent m tgt src = true.
Proof.
  intros H. unfold op_consistent. apply forallb_forall. intros s _. apply forallb_forall. intros t1 _.
  apply forallb_forall. intros t2 _. destruct (joins (on m) t1 s && joins (on m) t2 s); [|reflexivity].
  unfold op_m. rewrite (first_op_src_only _ H 0%nat t1 t2 s). destruct (first_op true (clauses m) 0 t2 s); [apply Nat.eqb_refl|reflexivity].
Qed.

(* no two target rows share a source partner *)
Definition uniq_keys (m : merge) (tgt src : list row) : bool :=
  forallb (fun s => Nat.leb (length (filter (fun t => joins (on m) t s) tgt)) 1) src.

Lemma uniq_keys_consistent_l m tgt src : uniq_keys m tgt src = true -> op_consistent m tgt src = true.
Proof.
  intros H. unfold op_consistent. apply forallb_forall. intros s Hs. apply forallb_forall. intros t1 H1.
  apply forallb_forall. intros t2 H2. destruct (joins (on m) t1 s) eqn:J1; [|reflexivity]. destruct (joins (on m) t2 s) eqn:J2; [|reflexivity]. cbn.
  unfold uniq_keys in H. rewrite forallb_forall in H. specialize (H s Hs). apply Nat.leb_le in H.
  assert (I1 : In t1 (filter (fun t => joins (on m) t s) tgt)) by (apply filter_In; auto).
  assert (I2 : In t2 (filter (fun t => joins (on m) t s) tgt)) by (apply filter_In; auto).
  destruct (filter (fun t => joins (on m) t s) tgt) as [|a [|b l]]; cbn in H; try lia; [destruct I1|].
  destruct I1 as [<-|[]]. destruct I2 as [<-|[]]. destruct (op_m m a s); [apply Nat.eqb_refl|reflexivity].
Qed.

(* ------------------------------------------------------------------ witnesses: the full statement is false outside dom *)
Definition r3 (a b c : Z) : row := [Some a; Some b; Some c].
Definition m_of (cls : list clause) : merge := {| on := [(0, 0)]%nat; clauses := cls; width := 3 |}.

(* two target rows with key 2, only the first satisfies the target-side condition: both are deleted *)
Lemma dupkey_refuted_l : exists m tgt src, deterministic m tgt src = true /\ no_key_assign m = true /\ inserts_last (clauses m) = true /\
  fake_target m tgt src <> spec_target m tgt src.
Proof.
  exists (m_of [MDelete (CCmp Tgt 1 0 20)]), [r3 2 20 200; r3 2 22 222], [r3 2 21 201].
  repeat split; try (vm_compute; reflexivity). vm_compute. discriminate.
Qed.

(* the first clause moves key 2 to key 3; the DELETE clause then re-joins the moved row with the candidate of key 3 *)
Lemma key_assign_refuted_l : exists m tgt src, deterministic m tgt src = true /\ op_consistent m tgt src = true /\ inserts_last (clauses m) = true /\
  fake_target m tgt src <> spec_target m tgt src.
Proof.
  exists (m_of [MUpdate (CCmp Src 1 0 3) [(0%nat, SCol 1)]; MDelete CTrue]), [r3 2 20 200; r3 3 30 300], [r3 2 3 201; r3 3 31 301].
  repeat split; try (vm_compute; reflexivity). vm_compute. discriminate.
Qed.

(* the row inserted for source key 4 carries key 2 and is deleted by the later WHEN MATCHED THEN DELETE *)
Lemma insert_first_refuted_l : exists m tgt src, deterministic m tgt src = true /\ op_consistent m tgt src = true /\ no_key_assign m = true /\
  fake_target m tgt src <> spec_target m tgt src.
Proof.
  exists (m_of [NInsert CTrue [0; 1]%nat [SCol 1; SCol 2]; MDelete CTrue]), [r3 2 20 200], [r3 2 21 201; r3 4 2 401].
  repeat split; try (vm_compute; reflexivity). vm_compute. discriminate.
Qed.

(* nothing to do: Snowflake reports 0, COUNT_IF over the empty merge_candidates reports NULL *)
Lemma counts_null_refuted_l : exists m tgt src, dom m tgt src = true /\ fake_counts m tgt src <> spec_counts m tgt src.
Proof.
  exists (m_of [MDelete CTrue]), [r3 1 10 100], []. split; [vm_compute; reflexivity|]. vm_compute. discriminate.
Qed.

(* a failure after the first exploded statement leaves a state that is neither the old nor the new target *)
Lemma not_atomic_refuted_l : exists m tgt src k, dom m tgt src = true /\
  fake_prefix m tgt src k <> tgt /\ fake_prefix m tgt src k <> fake_target m tgt src.
Proof.
  exists (m_of [MDelete CTrue; NInsert CTrue [0; 1; 2]%nat [SCol 0; SCol 1; SConst None]]), [r3 1 10 100; r3 2 20 200], [r3 2 21 201; r3 4 41 401], 1%nat.
  split; [vm_compute; reflexivity|]. split; vm_compute; discriminate.
Qed.

(* a non-trivial merge inside dom: duplicate target keys, NULL keys, three clause kinds, a target-side condition *)
Definition ex_m : merge := m_of [MDelete (CCmp Src 1 0 21); MUpdate (CCmp Tgt 2 1 1000) [(1%nat, SCol 1); (2%nat, SConst (Some 7))];
                                 NInsert (CCmp Src 1 2 40) [0; 1]%nat [SCol 0; SCol 1]; NInsert CTrue [0; 1; 2]%nat [SCol 0; SConst None; SCol 2]].
Definition ex_tgt : list row := [r3 1 10 100; r3 2 20 200; r3 2 22 222; r3 3 30 300; [None; Some 1; Some 1]].
Definition ex_src : list row := [r3 2 21 201; r3 3 31 301; r3 4 41 401; r3 5 5 5; [None; Some 2; Some 2]].
Lemma merge_nonvacuous_l : dom ex_m ex_tgt ex_src = true /\
  fake_target ex_m ex_tgt ex_src =
    [r3 1 10 100; r3 3 31 7; [None; Some 1; Some 1]; [Some 4; Some 41; None]; [Some 5; None; Some 5]; [None; None; Some 2]].
Proof. split; vm_compute; reflexivity. Qed.

(* ------------------------------------------------------------------ counts *)
Definition kindP (m : merge) (k : kind) (c : cand) : bool :=
  match op_kind m (snd c) with Some k' => kind_eqb k k' | None => false end.

Lemma count_kind_app m a b k : count_kind m (a ++ b) k = (count_kind m a k + count_kind m b k)%nat.
Proof. unfold count_kind. rewrite filter_app, app_length. reflexivity. Qed.

Lemma filter_none {X} (P : X -> bool) l : (forall x, In x l -> P x = false) -> filter P l = [].
Proof.
  induction l as [|a l IH]; intros H; cbn; [reflexivity|]. rewrite (H a (or_introl eq_refl)). apply IH. intros x Hx. apply H. right. exact Hx.
Qed.
Lemma filter_all {X} (P : X -> bool) l : (forall x, In x l -> P x = true) -> filter P l = l.
Proof.
  induction l as [|a l IH]; intros H; cbn; [reflexivity|]. rewrite (H a (or_introl eq_refl)). f_equal. apply IH. intros x Hx. apply H. right. exact Hx.
Qed.

Lemma cands_n_kind m tgt src c : In c (cands_n m tgt src) -> op_kind m (snd c) = Some KIns.
Proof.
  destruct c as [s w]. intros H. apply in_cands_n in H. destruct H as (_ & _ & O).
  destruct (first_op_spec _ _ _ _ _ _ O) as (cl & _ & Hn & Hk). rewrite Nat.sub_0_r in Hn. cbn. unfold op_kind. rewrite Hn. cbn.
  destruct cl; cbn in Hk; try discriminate. reflexivity.
Qed.
Lemma cands_m_kind m tgt src c : In c (cands_m m tgt src) -> op_kind m (snd c) = Some KUpd \/ op_kind m (snd c) = Some KDel.
Proof.
  destruct c as [s w]. intros H. apply in_cands_m in H. destruct H as (t & _ & _ & _ & O).
  destruct (first_op_spec _ _ _ _ _ _ O) as (cl & _ & Hn & Hk). rewrite Nat.sub_0_r in Hn. cbn. unfold op_kind. rewrite Hn. cbn.
  destruct cl; cbn in Hk; try discriminate; auto.
Qed.

Lemma length_cands_n m tgt src :
  length (cands_n m tgt src) = length (filter (fun s => unmatched m tgt s && match op_n m s with Some _ => true | None => false end) src).
Proof.
  unfold cands_n, cand. induction src as [|s src IH]; [reflexivity|]. cbn [flat_map filter]. rewrite app_length. rewrite IH.
  destruct (unmatched m tgt s); cbn; [|reflexivity]. destruct (op_n m s); cbn; reflexivity.
Qed.

Definition inner (m : merge) (src : list row) (t : row) : list cand :=
  flat_map (fun s => if joins (on m) t s then match op_m m t s with Some w => [(s, w)] | None => [] end else []) src.

Lemma inner_filter m src t :
  inner m src t = flat_map (fun s => match op_m m t s with Some w => [(s, w)] | None => [] end) (filter (joins (on m) t) src).
Proof.
  unfold inner. induction src as [|s src IH]; cbn; [reflexivity|]. rewrite IH. destruct (joins (on m) t s); cbn; reflexivity.
Qed.

Lemma count_inner m tgt src k t : deterministic m tgt src = true -> In t tgt -> k <> KIns ->
  length (filter (kindP m k) (inner m src t)) =
  if match row_kind m src t with Some k' => kind_eqb k k' | None => false end then 1%nat else 0%nat.
Proof.
  intros Hdet Ht Hk. rewrite inner_filter. unfold row_kind.
  unfold deterministic in Hdet. rewrite forallb_forall in Hdet. specialize (Hdet t Ht). apply Nat.leb_le in Hdet.
  destruct (filter (joins (on m) t) src) as [|s [|s2 l]]; cbn in Hdet; try lia; cbn; [reflexivity|].
  destruct (op_m m t s) as [w|]; cbn; [|reflexivity]. unfold kindP. cbn.
  destruct (op_kind m w) as [k'|]; [|reflexivity]. destruct (kind_eqb k k'); reflexivity.
Qed.

Lemma count_cands_m m tgt src k : deterministic m tgt src = true -> k <> KIns ->
  count_kind m (cands_m m tgt src) k = length (filter (fun t => match row_kind m src t with Some k' => kind_eqb k k' | None => false end) tgt).
Proof.
  intros Hdet Hk. unfold count_kind. change (fun c : cand => match op_kind m (snd c) with Some k' => kind_eqb k k' | None => false end) with (kindP m k).
  unfold cands_m. change (fun t : row => flat_map _ src) with (inner m src).
  assert (G : forall l, (forall t, In t l -> In t tgt) ->
     length (filter (kindP m k) (flat_map (inner m src) l)) =
     length (filter (fun t => match row_kind m src t with Some k' => kind_eqb k k' | None => false end) l)).
  { induction l as [|t l IH]; intros Hl; cbn; [reflexivity|].
    rewrite filter_app, app_length. rewrite (count_inner m tgt src k t Hdet (Hl t (or_introl eq_refl)) Hk).
    rewrite IH by (intros t' Ht'; apply Hl; right; exact Ht').
    destruct (match row_kind m src t with Some k' => kind_eqb k k' | None => false end); cbn; reflexivity. }
  apply G. auto.
Qed.

Lemma count_kind_spec m tgt src k : deterministic m tgt src = true ->
  count_kind m (cands m tgt src) k = spec_count m tgt src k.
Proof.
  intros Hdet. unfold cands. rewrite count_kind_app. destruct k.
  - (* inserted *)
    unfold count_kind at 1. rewrite filter_none.
    2:{ intros c Hc. destruct (cands_m_kind _ _ _ _ Hc) as [E|E]; rewrite E; reflexivity. }
    unfold count_kind. rewrite filter_all.
    2:{ intros c Hc. rewrite (cands_n_kind _ _ _ _ Hc). reflexivity. }
    cbn. apply length_cands_n.
  - unfold count_kind at 2. rewrite filter_none.
    2:{ intros c Hc. rewrite (cands_n_kind _ _ _ _ Hc). reflexivity. }
    cbn. rewrite Nat.add_0_r. apply count_cands_m; [exact Hdet|discriminate].
  - unfold count_kind at 2. rewrite filter_none.
    2:{ intros c Hc. rewrite (cands_n_kind _ _ _ _ Hc). reflexivity. }
    cbn. rewrite Nat.add_0_r. apply count_cands_m; [exact Hdet|discriminate].
Qed.

(* whenever there is at least one candidate row, the status row holds the numbers of rows Snowflake's MERGE affects *)
Theorem counts_correct_partial_l : forall m tgt src, deterministic m tgt src = true -> cands m tgt src <> [] ->
  fake_counts m tgt src = spec_counts m tgt src.
Proof.
  intros m tgt src Hdet Hne. unfold fake_counts, spec_counts.
  destruct (cands m tgt src) as [|c cs] eqn:E; [contradiction|]. rewrite <- E.
  cbn [flat_map]. rewrite !(count_kind_spec m tgt src _ Hdet). reflexivity.
Qed.

(* the number of rows the INSERT statements add is the reported "inserted" count's specification *)
Lemma ins_count_example : spec_count ex_m ex_tgt ex_src KIns = 3%nat /\ spec_count ex_m ex_tgt ex_src KUpd = 1%nat /\ spec_count ex_m ex_tgt ex_src KDel = 2%nat.
Proof. vm_compute. auto. Qed.
