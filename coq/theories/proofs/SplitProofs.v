From FS Require Import Sexp Codec Split.
From Coq Require Import Lia.

(* statements built from plain text (no quote, double quote, -, /, $ or ;) and string literals with
   ARBITRARY content, spelled the way sqlglot's Snowflake generator spells them *)
Inductive chunk := Plain (l : str) | Str (s : str).

Definition plain_c (c : Z) : bool :=
  negb ((c =? 39) || (c =? 34) || (c =? 45) || (c =? 47) || (c =? 36) || (c =? 59)).
Definition chunk_ok (k : chunk) : bool := match k with Plain l => forallb plain_c l | Str _ => true end.
Definition render1 (k : chunk) : str := match k with Plain l => l | Str s => sf_gen s end.
Definition render (st : list chunk) : str := concat (map render1 st).

(* at a chunk boundary the automaton is in code, possibly just after a closing quote *)
Definition boundary (s : state) : Prop := s = Code \/ s = SQQ.

Lemma plain_code c : plain_c c = true -> code_delta c = (Code, false).
Proof.
  unfold plain_c, code_delta. intros H. apply negb_true_iff in H.
  repeat (apply orb_false_iff in H; destruct H as [H ?]).
  repeat match goal with E : (_ =? _) = false |- _ => rewrite E; clear E end. reflexivity.
Qed.

Lemma feed_plain a c : boundary (stt a) -> plain_c c = true ->
  feed a c = {| stt := Code; cur := cur a ++ [c]; done := done a |}.
Proof.
  intros B P. unfold feed. destruct B as [-> | ->]; cbn [delta].
  - rewrite (plain_code _ P). reflexivity.
  - assert (E : (c =? 39) = false).
    { unfold plain_c in P. apply negb_true_iff in P. repeat (apply orb_false_iff in P; destruct P as [P ?]). assumption. }
    rewrite E, (plain_code _ P). reflexivity.
Qed.

Lemma scan_plain l : forall a, boundary (stt a) -> forallb plain_c l = true ->
  boundary (stt (scan a l)) /\ cur (scan a l) = cur a ++ l /\ done (scan a l) = done a.
Proof.
  induction l as [|c l IH]; intros a B P.
  - cbn. rewrite app_nil_r. auto.
  - cbn [forallb] in P. apply andb_true_iff in P as [P1 P2]. unfold scan in *. cbn [fold_left].
    rewrite (feed_plain a c B P1).
    destruct (IH {| stt := Code; cur := cur a ++ [c]; done := done a |} (or_introl eq_refl) P2) as (A1 & A2 & A3).
    cbn [stt cur done] in *. rewrite A2, A3, <- app_assoc. auto.
Qed.

(* inside a literal: whatever its content - semicolons, quotes, backslashes, comment markers - the
   automaton stays inside the literal and cuts nothing *)
Lemma feed_esc a x : stt a = SQ ->
  fold_left feed [92; x] a = {| stt := SQ; cur := cur a ++ [92; x]; done := done a |}.
Proof.
  intros E. cbn [fold_left].
  assert (F1 : feed a 92 = {| stt := SQEsc; cur := cur a ++ [92]; done := done a |}) by (unfold feed; rewrite E; reflexivity).
  rewrite F1. unfold feed. cbn [stt delta cur done]. rewrite <- app_assoc. reflexivity.
Qed.
Lemma feed_ord a c : stt a = SQ -> (c =? 92) = false -> (c =? 39) = false ->
  fold_left feed [c] a = {| stt := SQ; cur := cur a ++ [c]; done := done a |}.
Proof. intros E H1 H2. cbn [fold_left]. unfold feed. rewrite E. cbn [delta]. rewrite H1, H2. reflexivity. Qed.

Lemma scan_sq_char c a : stt a = SQ ->
  fold_left feed (sf_gen_c c) a = {| stt := SQ; cur := cur a ++ sf_gen_c c; done := done a |}.
Proof.
  intros E. unfold sf_gen_c. change Codec.bs with 92. change Codec.q with 39.
  destruct (c =? 7); [apply feed_esc; exact E|].
  destruct (c =? 8); [apply feed_esc; exact E|].
  destruct (c =? 12); [apply feed_esc; exact E|].
  destruct (c =? 10); [apply feed_esc; exact E|].
  destruct (c =? 13); [apply feed_esc; exact E|].
  destruct (c =? 9); [apply feed_esc; exact E|].
  destruct (c =? 11); [apply feed_esc; exact E|].
  destruct (c =? 92) eqn:E8; [apply feed_esc; exact E|].
  destruct (c =? 39) eqn:E9; [apply feed_esc; exact E|].
  apply feed_ord; assumption.
Qed.

Lemma scan_sq_body s : forall a, stt a = SQ ->
  stt (scan a (flat_map sf_gen_c s)) = SQ /\ cur (scan a (flat_map sf_gen_c s)) = cur a ++ flat_map sf_gen_c s /\
  done (scan a (flat_map sf_gen_c s)) = done a.
Proof.
  induction s as [|c s IH]; intros a E.
  - cbn. rewrite app_nil_r. auto.
  - cbn [flat_map]. unfold scan in *. rewrite fold_left_app. rewrite (scan_sq_char c a E).
    destruct (IH {| stt := SQ; cur := cur a ++ sf_gen_c c; done := done a |} eq_refl) as (A1 & A2 & A3).
    cbn [stt cur done] in *. rewrite A2, A3, <- app_assoc. auto.
Qed.

Lemma scan_str s a : boundary (stt a) ->
  stt (scan a (sf_gen s)) = SQQ /\ cur (scan a (sf_gen s)) = cur a ++ sf_gen s /\ done (scan a (sf_gen s)) = done a.
Proof.
  intros B. unfold sf_gen. change Codec.q with 39. unfold scan. cbn [fold_left].
  assert (F : feed a 39 = {| stt := SQ; cur := cur a ++ [39]; done := done a |}).
  { unfold feed. destruct B as [-> | ->]; reflexivity. }
  rewrite F. rewrite fold_left_app.
  destruct (scan_sq_body s {| stt := SQ; cur := cur a ++ [39]; done := done a |} eq_refl) as (A1 & A2 & A3).
  unfold scan in *. cbn [stt cur done] in *.
  set (a1 := fold_left feed (flat_map sf_gen_c s) {| stt := SQ; cur := cur a ++ [39]; done := done a |}) in *.
  cbn [fold_left]. unfold feed. rewrite A1. cbn [delta stt cur done].
  rewrite A2, A3. rewrite <- !app_assoc. cbn [app]. auto.
Qed.

Lemma scan_stmt st : forall a, boundary (stt a) -> forallb chunk_ok st = true ->
  boundary (stt (scan a (render st))) /\ cur (scan a (render st)) = cur a ++ render st /\
  done (scan a (render st)) = done a.
Proof.
  induction st as [|k st IH]; intros a B Ok.
  - cbn. rewrite app_nil_r. auto.
  - cbn [forallb] in Ok. apply andb_true_iff in Ok as [O1 O2]. unfold render in *. cbn [map concat].
    unfold scan in *. rewrite fold_left_app. destruct k as [l|s]; cbn [render1 chunk_ok] in *.
    + destruct (scan_plain l a B O1) as (A1 & A2 & A3). unfold scan in *.
      destruct (IH _ A1 O2) as (B1 & B2 & B3). rewrite B2, B3, A2, A3, <- app_assoc. auto.
    + destruct (scan_str s a B) as (A1 & A2 & A3). unfold scan in *.
      destruct (IH _ (or_intror A1) O2) as (B1 & B2 & B3). rewrite B2, B3, A2, A3, <- app_assoc. auto.
Qed.

Lemma feed_semicolon a : boundary (stt a) -> feed a 59 = {| stt := Code; cur := []; done := done a ++ [cur a] |}.
Proof. intros [E|E]; unfold feed; rewrite E; reflexivity. Qed.

Definition join (stmts : list (list chunk)) : str := concat (map (fun st => render st ++ [59]) stmts).

Lemma scan_join stmts : forall a, boundary (stt a) -> cur a = [] -> forallb (forallb chunk_ok) stmts = true ->
  stt (scan a (join stmts)) = (match stmts with [] => stt a | _ => Code end) /\ cur (scan a (join stmts)) = [] /\
  done (scan a (join stmts)) = done a ++ map render stmts.
Proof.
  induction stmts as [|st stmts IH]; intros a B C Ok.
  - cbn. rewrite app_nil_r. auto.
  - cbn [forallb] in Ok. apply andb_true_iff in Ok as [O1 O2]. unfold join in *. cbn [map concat].
    unfold scan in *. rewrite fold_left_app, fold_left_app. cbn [fold_left].
    destruct (scan_stmt st a B O1) as (A1 & A2 & A3). unfold scan in *.
    rewrite (feed_semicolon _ A1). rewrite A2, A3, C. cbn [app].
    destruct (IH {| stt := Code; cur := []; done := done a ++ [render st] |} (or_introl eq_refl) eq_refl O2) as (B1 & B2 & B3).
    cbn [stt cur done] in *. rewrite B2, B3, <- app_assoc. cbn [map app]. repeat split.
    destruct stmts; [exact B1|exact B1].
Qed.

(* cutting the joined text gives back exactly the statements (plus the empty piece after the last ;) *)
Theorem split_join_l : forall stmts, forallb (forallb chunk_ok) stmts = true ->
  split (join stmts) = Some (map render stmts ++ [[]]).
Proof.
  intros stmts Ok. unfold split.
  destruct (scan_join stmts {| stt := Code; cur := []; done := [] |} (or_introl eq_refl) eq_refl Ok) as (A1 & A2 & A3).
  rewrite A1, A2, A3. cbn [stt done app]. destruct stmts; reflexivity.
Qed.

(* ---- execute_string / nop_regexes ---- *)
Section ExecFacts.
  Variables world stmt result pat : Type.
  Variable exec : world -> stmt -> world * option result.
  Variable matches : pat -> stmt -> bool.
  Variable success : result.
  Notation exec_nop := (exec_nop world stmt result pat exec matches success).
  Notation execute_string := (execute_string world stmt result pat exec matches success).

  (* a matching statement returns the success status and has no effect *)
  Theorem nop_exact_l : forall pats w s, (exists p, In p pats /\ matches p s = true) ->
    exec_nop pats w s = (w, Some success).
  Proof.
    intros pats w s (p & Hin & Hm). unfold Split.exec_nop.
    assert (E : existsb (fun p => matches p s) pats = true) by (apply existsb_exists; eauto).
    rewrite E. reflexivity.
  Qed.

  (* every other statement behaves exactly as without the option *)
  Theorem nop_transparent_l : forall pats w s, (forall p, In p pats -> matches p s = false) ->
    exec_nop pats w s = exec w s.
  Proof.
    intros pats w s H. unfold Split.exec_nop.
    assert (E : existsb (fun p => matches p s) pats = false).
    { apply not_true_is_false. intros C. apply existsb_exists in C as (p & Hin & Hm). rewrite (H p Hin) in Hm. discriminate. }
    rewrite E. reflexivity.
  Qed.

  (* one by one, in order *)
  Fixpoint one_by_one (pats : list pat) (w : world) (ss : list stmt) : world * list result :=
    match ss with
    | [] => (w, [])
    | s :: r => match exec_nop pats w s with
                | (w', Some x) => let '(wf, xs) := one_by_one pats w' r in (wf, x :: xs)
                | (w', None) => (w', [])
                end
    end.

  Theorem exec_string_is_fold_l : forall pats ss w,
    fst (execute_string pats w ss) = one_by_one pats w ss.
  Proof.
    induction ss as [|s ss IH]; intros w; cbn; [reflexivity|].
    destruct (exec_nop pats w s) as [w' [x|]]; [|reflexivity].
    specialize (IH w'). destruct (execute_string pats w' ss) as [[wf xs] ok]. cbn in *. rewrite <- IH. reflexivity.
  Qed.

  (* it stops at the first failing statement: the earlier ones are applied, the later ones are not run *)
  Theorem stops_at_first_failure_l : forall pats pre s post w,
    snd (execute_string pats w pre) = true ->
    snd (exec_nop pats (fst (fst (execute_string pats w pre))) s) = None ->
    execute_string pats w (pre ++ s :: post) =
      (fst (exec_nop pats (fst (fst (execute_string pats w pre))) s), snd (fst (execute_string pats w pre)), false).
  Proof.
    induction pre as [|p pre IH]; intros s post w Ok F.
    - cbn in *. destruct (exec_nop pats w s) as [w' [x|]]; cbn in *; [discriminate|reflexivity].
    - cbn [app Split.execute_string] in *. fold execute_string in *.
      destruct (exec_nop pats w p) as [w' [x|]] eqn:E; [|discriminate].
      specialize (IH s post w'). destruct (execute_string pats w' pre) as [[wf xs] ok] eqn:E2. cbn [fst snd] in *.
      rewrite (IH Ok F). reflexivity.
  Qed.
End ExecFacts.

Example split_nonvacuous :
  split (lit "select 'a;b\';c' ; select 2 -- x;y" ++ [10] ++ lit "; select $$q;r$$; /* ; */ select ""i;j""") =
  Some [lit "select 'a;b\';c' "; lit " select 2 -- x;y" ++ [10]; lit " select $$q;r$$"; lit " /* ; */ select ""i;j"""].
Proof. vm_compute. reflexivity. Qed.
