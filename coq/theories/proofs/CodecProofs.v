From FS Require Import Sexp Codec.
From Coq Require Import Lia.

Definition starts_q (s : str) : bool := match s with c :: _ => c =? q | [] => false end.

Ltac zeq := repeat match goal with
  | H : (_ =? _) = true |- _ => apply Z.eqb_eq in H; subst
  end.

(* ---- connector escape+quote, read back by the Snowflake tokenizer ---- *)
Lemma sf_body_end rest : starts_q rest = false -> sf_body (q :: rest) = Some ([], rest).
Proof. destruct rest as [|p r]; cbn; intros H; [reflexivity|]. rewrite H. reflexivity. Qed.

Lemma sf_body_escape : forall s rest, starts_q rest = false ->
  sf_body (escape s ++ q :: rest) = Some (s, rest).
Proof.
  induction s as [|c s IH]; intros rest H; [apply sf_body_end; exact H|].
  unfold escape in *. cbn [flat_map]. rewrite <- app_assoc. unfold esc_c.
  destruct (c =? bs) eqn:E1; [zeq; cbn [app]; change (sf_body (bs :: bs :: ?x)) with (cons_res bs (sf_body x)); rewrite IH by exact H; reflexivity|].
  destruct (c =? 10) eqn:E2; [zeq; cbn [app]; change (sf_body (bs :: 110 :: ?x)) with (cons_res 10 (sf_body x)); rewrite IH by exact H; reflexivity|].
  destruct (c =? 13) eqn:E3; [zeq; cbn [app]; change (sf_body (bs :: 114 :: ?x)) with (cons_res 13 (sf_body x)); rewrite IH by exact H; reflexivity|].
  destruct (c =? q) eqn:E4; [zeq; cbn [app]; change (sf_body (bs :: q :: ?x)) with (cons_res q (sf_body x)); rewrite IH by exact H; reflexivity|].
  cbn [app sf_body]. rewrite E1, E4. rewrite IH by exact H. reflexivity.
Qed.

Theorem sf_lex_quote_escape_l : forall s rest, starts_q rest = false ->
  sf_lex (quote (escape s) ++ rest) = Some (s, rest).
Proof.
  intros s rest H. unfold quote, sf_lex. cbn [app]. rewrite Z.eqb_refl. rewrite <- app_assoc. cbn [app].
  apply sf_body_escape. exact H.
Qed.

(* ---- DuckDB generator, read back by DuckDB's lexer ---- *)
Lemma duck_body_gen : forall s rest, starts_q rest = false ->
  duck_body (flat_map (fun c => if c =? q then [q; q] else [c]) s ++ q :: rest) = Some (s, rest).
Proof.
  induction s as [|c s IH]; intros rest H.
  - cbn. destruct rest as [|p r]; [reflexivity|]. cbn in H. rewrite H. reflexivity.
  - cbn [flat_map]. rewrite <- app_assoc. destruct (c =? q) eqn:E.
    + zeq. cbn [app]. change (duck_body (q :: q :: ?x)) with (cons_res q (duck_body x)). rewrite IH by exact H. reflexivity.
    + cbn [app duck_body]. rewrite E. rewrite IH by exact H. reflexivity.
Qed.

Theorem duck_lex_gen_l : forall s rest, starts_q rest = false -> duck_lex (duck_gen s ++ rest) = Some (s, rest).
Proof.
  intros s rest H. unfold duck_gen, duck_lex. cbn [app]. rewrite Z.eqb_refl. rewrite <- app_assoc. cbn [app].
  apply duck_body_gen. exact H.
Qed.

(* the whole path of a string parameter: every string arrives unchanged *)
Theorem literal_roundtrip_l : forall s,
  exists lit_, sf_lex (quote (escape s)) = Some (lit_, []) /\ duck_lex (duck_gen lit_) = Some (s, []).
Proof.
  intros s. exists s. split.
  - rewrite <- (app_nil_r (quote (escape s))). apply sf_lex_quote_escape_l. reflexivity.
  - rewrite <- (app_nil_r (duck_gen s)). apply duck_lex_gen_l. reflexivity.
Qed.

(* ---- Snowflake generator, read back by the Snowflake tokenizer (execute_string's re-rendering) ---- *)
Lemma sf_body_gen : forall s rest, starts_q rest = false ->
  sf_body (flat_map sf_gen_c s ++ q :: rest) = Some (s, rest).
Proof.
  induction s as [|c s IH]; intros rest H; [apply sf_body_end; exact H|].
  cbn [flat_map]. rewrite <- app_assoc. unfold sf_gen_c.
  destruct (c =? 7) eqn:E1; [zeq; cbn [app]; change (sf_body (bs :: 97 :: ?x)) with (cons_res 7 (sf_body x)); rewrite IH by exact H; reflexivity|].
  destruct (c =? 8) eqn:E2; [zeq; cbn [app]; change (sf_body (bs :: 98 :: ?x)) with (cons_res 8 (sf_body x)); rewrite IH by exact H; reflexivity|].
  destruct (c =? 12) eqn:E3; [zeq; cbn [app]; change (sf_body (bs :: 102 :: ?x)) with (cons_res 12 (sf_body x)); rewrite IH by exact H; reflexivity|].
  destruct (c =? 10) eqn:E4; [zeq; cbn [app]; change (sf_body (bs :: 110 :: ?x)) with (cons_res 10 (sf_body x)); rewrite IH by exact H; reflexivity|].
  destruct (c =? 13) eqn:E5; [zeq; cbn [app]; change (sf_body (bs :: 114 :: ?x)) with (cons_res 13 (sf_body x)); rewrite IH by exact H; reflexivity|].
  destruct (c =? 9) eqn:E6; [zeq; cbn [app]; change (sf_body (bs :: 116 :: ?x)) with (cons_res 9 (sf_body x)); rewrite IH by exact H; reflexivity|].
  destruct (c =? 11) eqn:E7; [zeq; cbn [app]; change (sf_body (bs :: 118 :: ?x)) with (cons_res 11 (sf_body x)); rewrite IH by exact H; reflexivity|].
  destruct (c =? bs) eqn:E8; [zeq; cbn [app]; change (sf_body (bs :: bs :: ?x)) with (cons_res bs (sf_body x)); rewrite IH by exact H; reflexivity|].
  destruct (c =? q) eqn:E9; [zeq; cbn [app]; change (sf_body (bs :: q :: ?x)) with (cons_res q (sf_body x)); rewrite IH by exact H; reflexivity|].
  cbn [app sf_body]. rewrite E8, E9. rewrite IH by exact H. reflexivity.
Qed.

Theorem sf_lex_gen_l : forall s rest, starts_q rest = false -> sf_lex (sf_gen s ++ rest) = Some (s, rest).
Proof.
  intros s rest H. unfold sf_gen, sf_lex. cbn [app]. rewrite Z.eqb_refl. rewrite <- app_assoc. cbn [app].
  apply sf_body_gen. exact H.
Qed.

(* ---- python % ---- *)
Inductive seg := Lit (l : str) | Pct | Hole.
Definition pct_free (l : str) : bool := forallb (fun c => negb (c =? 37)) l.
Definition seg_ok (g : seg) : bool := match g with Lit l => pct_free l | _ => true end.
Definition render1 (g : seg) : str := match g with Lit l => l | Pct => [37; 37] | Hole => [37; 115] end.
Definition render (segs : list seg) : str := concat (map render1 segs).
Fixpoint holes (segs : list seg) : nat :=
  match segs with [] => 0%nat | Hole :: r => S (holes r) | _ :: r => holes r end.
Fixpoint fill (segs : list seg) (vals : list str) : str :=
  match segs with
  | [] => []
  | Lit l :: r => l ++ fill r vals
  | Pct :: r => 37 :: fill r vals
  | Hole :: r => match vals with v :: vs => v ++ fill r vs | [] => [] end
  end.

Lemma pyfmt_lit l : forall rest vals, pct_free l = true ->
  pyfmt (l ++ rest) vals = option_map (app l) (pyfmt rest vals).
Proof.
  induction l as [|c l IH]; intros rest vals H.
  - cbn. destruct (pyfmt rest vals); reflexivity.
  - cbn [pct_free forallb] in H. apply andb_true_iff in H as [H1 H2]. apply negb_true_iff in H1.
    cbn [app pyfmt]. rewrite H1. rewrite IH by exact H2. destruct (pyfmt rest vals); reflexivity.
Qed.

(* the values are inserted verbatim at the placeholders, in order; nothing else changes; a value is
   never re-scanned (it may contain %s, %%, anything) *)
Theorem pyfmt_positional_l : forall segs vals, forallb seg_ok segs = true -> holes segs = length vals ->
  pyfmt (render segs) vals = Some (fill segs vals).
Proof.
  induction segs as [|g segs IH]; intros vals Ok Hn.
  - destruct vals; [reflexivity|discriminate].
  - cbn [forallb] in Ok. apply andb_true_iff in Ok as [O1 O2]. unfold render in *. cbn [map concat].
    destruct g as [l| |].
    + cbn [render1 fill holes] in *. rewrite pyfmt_lit by exact O1. rewrite IH by assumption. reflexivity.
    + cbn [render1 fill holes app] in *. cbn [pyfmt]. cbn. rewrite IH by assumption. reflexivity.
    + cbn [render1 fill holes app] in *. destruct vals as [|v vs]; [discriminate|]. cbn [pyfmt]. cbn.
      rewrite IH; [reflexivity|assumption|]. cbn in Hn. lia.
Qed.

Example codec_nonvacuous :
  let s := [97; q; bs; 10; 37; 115; 36; 120; 59; 45; 45] in    (* a'\<newline>%s$x;-- *)
  bind (lit "select %s, '100%%' from t where c = %s") [s; lit "it's"] =
    Some (lit "select " ++ quote (escape s) ++ lit ", '100%' from t where c = " ++ quote (escape (lit "it's"))) /\
  sf_lex (quote (escape s) ++ lit ", '100%'") = Some (s, lit ", '100%'") /\
  duck_lex (duck_gen s) = Some (s, []) /\ sf_lex (sf_gen s) = Some (s, []).
Proof. vm_compute. repeat split. Qed.
