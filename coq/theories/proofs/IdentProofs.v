From FS Require Import Sexp Ident.
From FS Require Ctx Dml.
From Coq Require Import Lia ZifyBool.

Lemma up_flip c : up_c (flip_c c) = up_c c.
Proof.
  unfold up_c, flip_c, is_ascii_lower, is_ascii_upper.
  destruct ((97 <=? c) && (c <=? 122)) eqn:E1.
  - destruct ((97 <=? c - 32) && (c - 32 <=? 122)) eqn:E2; lia.
  - destruct ((65 <=? c) && (c <=? 90)) eqn:E3.
    + destruct ((97 <=? c + 32) && (c + 32 <=? 122)) eqn:E4; lia.
    + rewrite E1. reflexivity.
Qed.

Lemma upper_recase_l : forall mask s, upper (recase mask s) = upper s.
Proof.
  intros mask s. revert mask. induction s as [|c s IH]; intros mask; [destruct mask; reflexivity|].
  destruct mask as [|b m]; [reflexivity|]. cbn. rewrite IH. destruct b; [rewrite up_flip|]; reflexivity.
Qed.

Lemma norm_respell_l : forall m i, norm (respell m i) = norm i.
Proof.
  intros m [t q]. unfold respell, norm. cbn. destruct q; cbn; [reflexivity|]. apply upper_recase_l.
Qed.

Lemma quoted_verbatim_l : forall t, norm {| itext := t; iquoted := true |} = t.
Proof. reflexivity. Qed.

Lemma up_idem c : up_c (up_c c) = up_c c.
Proof.
  unfold up_c, is_ascii_lower. destruct ((97 <=? c) && (c <=? 122)) eqn:E1; [|rewrite E1; reflexivity].
  destruct ((97 <=? c - 32) && (c - 32 <=? 122)) eqn:E2; lia.
Qed.
Lemma upper_idem s : upper (upper s) = upper s.
Proof. unfold upper. rewrite map_map. apply map_ext. intros c. apply up_idem. Qed.

(* the reported form of an unquoted identifier is in upper case: upper-casing it again changes nothing, and it
   contains no ASCII lower-case letter *)
Lemma unquoted_reported_upper_l : forall t, let n := norm {| itext := t; iquoted := false |} in
  upper n = n /\ forallb (fun c => negb (is_ascii_lower c)) n = true.
Proof.
  intros t. cbn. split; [apply upper_idem|].
  unfold upper. rewrite forallb_forall. intros c Hc. apply in_map_iff in Hc. destruct Hc as (x & <- & _).
  unfold up_c, is_ascii_lower. destruct ((97 <=? x) && (x <=? 122)) eqn:E1; [|rewrite E1; reflexivity].
  apply negb_true_iff. lia.
Qed.

Lemma ident_eq_respell_l : forall m m' a b, ident_eq (respell m a) (respell m' b) = ident_eq a b.
Proof. intros. unfold ident_eq. rewrite !norm_respell_l. reflexivity. Qed.

Lemma kw_is_recase_l : forall kw m s, kw_is kw (recase m s) = kw_is kw s.
Proof. intros. unfold kw_is. rewrite upper_recase_l. reflexivity. Qed.

Lemma kw_exact_refuted_l : exists kw m s, kw_is_exact kw (recase m s) <> kw_is_exact kw s.
Proof. exists (lit "UNSET"), [true], (lit "UNSET"). vm_compute. discriminate. Qed.

Lemma norm_q_respell m q : norm_q (respell_q m q) = norm_q q.
Proof. destruct q; cbn; rewrite ?norm_respell_l; reflexivity. Qed.

Lemma option_norm_respell m d : option_map norm (option_map (respell m) d) = option_map norm d.
Proof. destruct d; cbn; rewrite ?norm_respell_l; reflexivity. Qed.

Lemma norm_op_respell_l : forall m o, norm_op (respell_op m o) = norm_op o.
Proof.
  intros m o. destruct o; cbn; rewrite ?norm_respell_l, ?norm_q_respell, ?option_norm_respell; reflexivity.
Qed.

(* the complete outcome of a statement - new world (catalog, every connection's reported and engine context) and
   result (table reached, context, error code) - does not depend on the spelling *)
Lemma step_respell_l : forall w c o m, sstep w c (respell_op m o) = sstep w c o.
Proof. intros. unfold sstep. rewrite norm_op_respell_l. reflexivity. Qed.

Lemma run_respell_l : forall h ms w, srun w (respell_hist ms h) = srun w h.
Proof.
  intros h ms w. unfold srun. f_equal. revert ms. induction h as [|co h IH]; intros ms; [destruct ms; reflexivity|].
  destruct ms as [|m ms]; [reflexivity|]. cbn. rewrite norm_op_respell_l, IH. reflexivity.
Qed.

Lemma ddl_status_respell_l : forall k m s, Dml.ddl_status k (recase m s) false = Dml.ddl_status k s false.
Proof. intros. unfold Dml.ddl_status, Dml.reported_name. rewrite upper_recase_l. reflexivity. Qed.

Lemma ddl_status_quoted_l : forall s, Dml.ddl_status Dml.CreateTable s true = lit "Table " ++ s ++ lit " successfully created.".
Proof. reflexivity. Qed.

(* non-trivial instance: three connections' worth of mixed-case statements *)
Definition ex_id (s : String.string) (q : bool) : ident := {| itext := lit s; iquoted := q |}.
Arguments ex_id s%string_scope q.
Lemma respell_nonvacuous_l :
  respell [true; false; true; true] (ex_id "myTab_1" false) = ex_id "MytAb_1" false /\
  norm (ex_id "myTab_1" false) = lit "MYTAB_1" /\ norm (ex_id "myTab_1" true) = lit "myTab_1" /\
  respell [true; true] (ex_id "myTab_1" true) = ex_id "myTab_1" true /\
  ident_eq (ex_id "t2" false) (ex_id "T2" true) = true /\ ident_eq (ex_id "t2" true) (ex_id "T2" false) = false.
Proof. vm_compute. repeat split. Qed.
