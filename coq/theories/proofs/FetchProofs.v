From FS Require Import Sexp Fetch.
From Coq Require Import Lia.

Definition is_fetch (o : op) : bool := match o with Execute _ _ _ => false | _ => true end.

Definition rows_of (o : out) : list row :=
  match o with ORows l => l | OOne (Some r) => [r] | _ => [] end.
Definition dicts_of (o : out) : list (list (str * value)) :=
  match o with ODicts l => l | OOneDict (Some r) => [r] | _ => [] end.

(* number of rows an operation asks for in state s *)
Definition req (s : st) (o : op) : nat :=
  match res s with
  | None => 0%nat
  | Some (rows, _) =>
      match o with
      | Fetchone => 1%nat
      | Fetchmany k => eff_size s k
      | Fetchall => eff_size s (Some (length rows))
      | _ => 0%nat
      end
  end.

Fixpoint requested (s : st) (ops : list op) : nat :=
  match ops with [] => 0%nat | o :: r => (req s o + requested (fst (step s o)) r)%nat end.

Lemma firstn_add {X} (a b : nat) (l : list X) : firstn a l ++ firstn b (skipn a l) = firstn (a + b) l.
Proof.
  revert l. induction a as [|a IH]; intros l; cbn; [reflexivity|].
  destruct l as [|x l]; cbn; [destruct b; reflexivity|]. f_equal. apply IH.
Qed.

Lemma hd_firstn1 {X} (l : list X) :
  match hd_error (firstn 1 l) with Some r => [r] | None => [] end = firstn 1 l.
Proof. destruct l; reflexivity. Qed.

Lemma step_fetch s o rows names : res s = Some (rows, names) -> is_fetch o = true ->
  res (fst (step s o)) = Some (rows, names) /\ (dictc (fst (step s o)) = dictc s /\ rc (fst (step s o)) = rc s) /\
  off (fst (step s o)) = (off s + req s o)%nat /\
  (dictc s = false -> rows_of (snd (step s o)) = firstn (req s o) (skipn (off s) rows)
                      /\ dicts_of (snd (step s o)) = []) /\
  (dictc s = true -> dicts_of (snd (step s o)) = map (mkdict names) (firstn (req s o) (skipn (off s) rows))
                     /\ rows_of (snd (step s o)) = []).
Proof.
  intros R F. unfold req. rewrite R.
  destruct o; try discriminate; cbn [step]; rewrite ?R; cbn [fst snd res dictc off idx advance];
    try change (eff_size s (Some 1%nat)) with 1%nat;
    (split; [first [exact R|reflexivity]|split; [split; reflexivity|split; [try reflexivity; unfold off; cbn [idx]; lia|split]]]); intros D; rewrite ?D;
    cbn [rows_of dicts_of]; unfold slice; try (split; reflexivity).
  - destruct (skipn (off s) rows); split; reflexivity.
  - destruct (skipn (off s) rows); split; reflexivity.
Qed.

Lemma skipn_add {X} (a b : nat) (l : list X) : skipn (a + b) l = skipn b (skipn a l).
Proof.
  revert l. induction a as [|a IH]; intros l; cbn; [reflexivity|].
  destruct l as [|x l]; [destruct b; reflexivity|]. apply IH.
Qed.

Theorem fetch_in_order_l : forall ops s rows names,
  res s = Some (rows, names) -> forallb is_fetch ops = true ->
  (dictc s = false ->
     concat (map rows_of (run s ops)) = firstn (requested s ops) (skipn (off s) rows)) /\
  (dictc s = true ->
     concat (map dicts_of (run s ops)) = map (mkdict names) (firstn (requested s ops) (skipn (off s) rows))).
Proof.
  induction ops as [|o ops IH]; intros s rows names R F.
  - cbn. split; reflexivity.
  - cbn [forallb] in F. apply andb_true_iff in F as [Fo Fr].
    destruct (step_fetch s o rows names R Fo) as (R' & [D' _] & O' & HT & HD).
    cbn [run requested]. destruct (step s o) as [s' x] eqn:E. cbn [fst snd] in *.
    destruct (IH s' rows names R' Fr) as [IT ID]. split; intros D; cbn [map concat].
    + destruct (HT D) as [H1 _]. rewrite H1, IT by congruence. rewrite O', skipn_add. apply firstn_add.
    + destruct (HD D) as [H1 _]. rewrite H1, ID by congruence. rewrite O', skipn_add.
      rewrite <- map_app. f_equal. apply firstn_add.
Qed.

(* once the cumulative request has reached the size of the result, nothing more is ever returned *)
Theorem drained_l : forall ops s rows names,
  res s = Some (rows, names) -> forallb is_fetch ops = true -> (length rows <= off s)%nat ->
  concat (map rows_of (run s ops)) = [] /\ concat (map dicts_of (run s ops)) = [].
Proof.
  intros ops s rows names R F Hd.
  destruct (fetch_in_order_l ops s rows names R F) as [HT HD].
  assert (K : skipn (off s) rows = []) by (apply skipn_all2; exact Hd).
  rewrite K in *. rewrite firstn_nil in *.
  destruct (dictc s) eqn:D.
  - split; [|rewrite HD by reflexivity; reflexivity].
    clear HT HD. revert s R Hd K D. induction ops as [|o ops IH]; intros s R Hd K D; [reflexivity|].
    cbn [forallb] in F. apply andb_true_iff in F as [Fo Fr].
    destruct (step_fetch s o rows names R Fo) as (R' & [D' _] & O' & _ & HD).
    cbn [run]. destruct (step s o) as [s' x] eqn:E. cbn [fst snd map concat] in *.
    destruct (HD D) as [_ H2]. rewrite H2. cbn. apply IH; auto; try congruence; try lia.
    apply skipn_all2. lia.
  - split; [rewrite HT by reflexivity; reflexivity|].
    clear HT HD. revert s R Hd K D. induction ops as [|o ops IH]; intros s R Hd K D; [reflexivity|].
    cbn [forallb] in F. apply andb_true_iff in F as [Fo Fr].
    destruct (step_fetch s o rows names R Fo) as (R' & [D' _] & O' & HT & _).
    cbn [run]. destruct (step s o) as [s' x] eqn:E. cbn [fst snd map concat] in *.
    destruct (HT D) as [_ H2]. rewrite H2. cbn. apply IH; auto; try congruence; try lia.
    apply skipn_all2. lia.
Qed.

(* from a fresh result set: exactly the first `requested` rows, in order; all of them once the
   request covers the result *)
Theorem exactly_once_l : forall ops s rows names,
  res s = Some (rows, names) -> idx s = None -> dictc s = false -> forallb is_fetch ops = true ->
  concat (map rows_of (run s ops)) = firstn (requested s ops) rows /\
  ((length rows <= requested s ops)%nat -> concat (map rows_of (run s ops)) = rows).
Proof.
  intros ops s rows names R I D F.
  destruct (fetch_in_order_l ops s rows names R F) as [HT _].
  specialize (HT D). unfold off in HT. rewrite I in HT. cbn [skipn] in HT.
  split; [exact HT|]. intros Hl. rewrite HT. apply firstn_all2. exact Hl.
Qed.

Lemma fetchall_drains s rows names : res s = Some (rows, names) ->
  (length rows <= off (fst (step s Fetchall)))%nat /\
  (dictc s = false -> rows_of (snd (step s Fetchall)) = skipn (off s) rows).
Proof.
  intros R. cbn [step]. rewrite R. cbn [fst snd off idx advance]. unfold eff_size, slice.
  destruct (length rows) eqn:L.
  - split; [lia|]. intros ->. cbn [rows_of]. destruct rows; [|discriminate].
    rewrite skipn_nil, firstn_nil. reflexivity.
  - split; [lia|]. intros ->. cbn [rows_of]. apply firstn_all2. rewrite skipn_length. lia.
Qed.

(* ---- dict rows ---- *)
Lemma str_eqb_refl a : str_eqb a a = true.
Proof. induction a as [|c a IH]; cbn; [reflexivity|]. rewrite Z.eqb_refl. exact IH. Qed.
Lemma str_eqb_eq a b : str_eqb a b = true -> a = b.
Proof.
  revert b. induction a as [|c a IH]; intros [|d b] H; cbn in H; try discriminate; [reflexivity|].
  apply andb_true_iff in H as [H1 H2]. apply Z.eqb_eq in H1. f_equal; auto.
Qed.

Lemma dict_set_fresh d k v : ~ In k (map fst d) -> dict_set d k v = d ++ [(k, v)].
Proof.
  induction d as [|[k' v'] d IH]; cbn; intros H; [reflexivity|].
  destruct (str_eqb k' k) eqn:E.
  - apply str_eqb_eq in E. subst. tauto.
  - f_equal. apply IH. tauto.
Qed.

Lemma mkdict_nodup_gen names : forall r d,
  NoDup (map fst d ++ names) ->
  fold_left (fun d kv => dict_set d (fst kv) (snd kv)) (combine names r) d = d ++ combine names r.
Proof.
  induction names as [|n names IH]; intros r d ND; cbn; [rewrite app_nil_r; reflexivity|].
  destruct r as [|v r]; cbn; [rewrite app_nil_r; reflexivity|].
  rewrite dict_set_fresh.
  - rewrite IH.
    + rewrite <- app_assoc. reflexivity.
    + rewrite map_app. cbn. rewrite <- app_assoc. exact ND.
  - apply NoDup_remove_2 in ND. intros Hc. apply ND. apply in_or_app. auto.
Qed.

Theorem dict_values_agree_l : forall names r, NoDup names -> mkdict names r = combine names r.
Proof. intros names r ND. unfold mkdict. rewrite mkdict_nodup_gen; [reflexivity|exact ND]. Qed.

(* ---- before any execute / a new execute ---- *)
Theorem no_result_set_l : forall d o, is_fetch o = true ->
  snd (step (init d) o) =
  match o with
  | Fetchone | Fetchmany _ | Fetchall => OErr 1
  | FetchPandas => OErr 2
  | Rowcount => OCount None
  | _ => OUnit
  end.
Proof. intros d o F. destruct o; try discriminate; reflexivity. Qed.

Theorem execute_replaces_l : forall s1 s2 rows names aff ops,
  asz s1 = asz s2 -> dictc s1 = dictc s2 ->
  run s1 (Execute rows names aff :: ops) = run s2 (Execute rows names aff :: ops).
Proof. intros s1 s2 rows names aff ops A D. cbn. rewrite A, D. reflexivity. Qed.

(* after a query (no DML count) rowcount and fetch_pandas_all agree with the rows, at any point of
   the fetch sequence; after DML rowcount is the affected count *)
Theorem rowcount_pandas_agree_l : forall ops s0 rows names aff,
  forallb is_fetch ops = true ->
  let s := fst (step s0 (Execute rows names aff)) in
  snd (step (final s ops) Rowcount) = OCount (Some (match aff with Some k => k | None => length rows end)) /\
  snd (step (final s ops) FetchPandas) = OCount (Some (length rows)).
Proof.
  intros ops s0 rows names aff F s.
  assert (G : forall ops s, forallb is_fetch ops = true -> res s = Some (rows, names) ->
              res (final s ops) = Some (rows, names) /\ rc (final s ops) = rc s).
  { clear. induction ops as [|o ops IH]; intros s F R; cbn [final]; [auto|].
    cbn [forallb] in F. apply andb_true_iff in F as [Fo Fr].
    destruct (step_fetch s o rows names R Fo) as (R' & [_ C'] & _).
    destruct (IH _ Fr R') as [A B]. split; [exact A|congruence]. }
  destruct (G ops s F eq_refl) as [A B]. cbn [step snd]. rewrite A, B. auto.
Qed.

Example fetch_nonvacuous :
  let rows := [[Some 1; None]; [Some 2; Some 5]; [Some 3; Some 6]] in
  let ops := [Fetchone; SetArraysize 2; Fetchmany None; Fetchmany (Some 4%nat); Fetchall; Fetchone] in
  run (init false) (Execute rows [lit "A"; lit "A"] None :: ops) =
  [OUnit; OOne (Some [Some 1; None]); OUnit; ORows [[Some 2; Some 5]; [Some 3; Some 6]]; ORows []; ORows [];
   OOne None].
Proof. vm_compute. reflexivity. Qed.

(* ------------------------------------------------------------------ observers *)
Definition is_peek (o : op) : bool := match o with Peek => true | _ => false end.
Definition erase (ops : list op) : list op := filter (fun o => negb (is_peek o)) ops.
Fixpoint outs_erase (ops : list op) (outs : list out) : list out :=
  match ops, outs with
  | o :: r, x :: xs => if is_peek o then outs_erase r xs else x :: outs_erase r xs
  | _, _ => []
  end.

(* reading description (or any other attribute) at ANY points of ANY call sequence changes no answer of the other
   calls and not the final state: the sequence behaves exactly as with those reads erased *)
Theorem peek_erasure_l : forall ops s, outs_erase ops (run s ops) = run s (erase ops) /\ final s ops = final s (erase ops).
Proof.
  induction ops as [|o ops IH]; intros s; [split; reflexivity|].
  destruct (is_peek o) eqn:P.
  - destruct o; try discriminate. cbn. apply IH.
  - unfold erase. cbn [filter]. rewrite P. cbn [negb]. fold (erase ops).
    cbn [run final]. destruct (step s o) as [s' x] eqn:E. cbn [outs_erase fst]. rewrite P.
    destruct (IH s') as [A B]. rewrite A. split; [reflexivity|exact B].
Qed.
