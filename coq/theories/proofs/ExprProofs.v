From FS Require Import Sexp Expr.
From Coq Require Import Lia ZifyBool.

Lemma rescale_same u s0 s : (s0 <=? s) = true -> rescale_trunc u s0 s = rescale_half_away u s0 s.
Proof. intros H. unfold rescale_trunc, rescale_half_away. rewrite H. reflexivity. Qed.

Lemma to_decimal_same try a p s :
  match a with
  | Ok (VDec _ s0) => (s0 <=? s) = true
  | Ok (VNumText u s0) => fits (rescale_trunc u s0 s) p = fits (rescale_half_away u s0 s) p
  | _ => True end ->
  to_decimal_with rescale_trunc rescale_trunc try a p s = to_decimal_with rescale_half_away rescale_half_away try a p s.
Proof.
  intros H. destruct a as [[| | u s0| | | u s0| | | ]|]; try reflexivity; cbn.
  - rewrite (rescale_same u s0 s H). reflexivity.
  - rewrite H. reflexivity.
Qed.

Lemma day_us_pos : 0 < day_us. Proof. reflexivity. Qed.

Lemma shift_us_date u k dn dn' : shift_days u k dn = Some dn' -> shift_us u k (dn * day_us) / day_us = dn'.
Proof.
  intros H. assert (D : dn * day_us / day_us = dn) by (apply Z.div_mul; discriminate).
  assert (M : (dn * day_us) mod day_us = 0) by (apply Z.mod_mul; discriminate).
  destruct u; cbn [shift_us]; try (cbn in H; discriminate); rewrite D, M, H, Z.add_0_r; apply Z.div_mul; discriminate.
Qed.

Lemma shift_week k us : shift_us UDay (7 * k) us = shift_us UWeek k us.
Proof. reflexivity. Qed.

Ltac Zify.zify_post_hook ::= Z.to_euclidean_division_equations.
Lemma week_same_side d1 d2 : (monday_of d1 <? 0) = (monday_of d2 <? 0) ->
  Z.quot (monday_of d2) 7 - Z.quot (monday_of d1) 7 = (d2 + 3) / 7 - (d1 + 3) / 7.
Proof. unfold monday_of. intros H. lia. Qed.
Ltac Zify.zify_post_hook ::= idtac.

Lemma cast_date_not_ts en d us : is_cast_date d = true -> sem_sf en d <> Ok (VTs us).
Proof.
  destruct d; cbn; try discriminate; intros _; unfold to_date_v; destruct (sem_sf en d) as [[]|]; discriminate.
Qed.

(* the rewritten expression means in DuckDB what the original means in Snowflake - value AND type - for every
   environment and every nesting of the constructs, on the supported domain *)
Local Opaque add_months Z.mul Z.div Z.modulo Z.quot.
Theorem rewrite_correct_partial_l : forall en e, supported en e = true -> sem_duck en (rewrite e) = sem_sf en e.
Proof.
  intros en e. induction e as [v|i|a IHa b IHb|a IHa b IHb|a IHa b IHb|a IHa b IHb|a IHa b IHb|a IHa b IHb|a IHa b IHb|a IHa|a IHa
                               |c IHc a IHa b IHb|a IHa b IHb|a IHa|a IHa b IHb|try a IHa p s|a IHa|u n IHn d IHd|u a IHa b IHb
                               |a IHa b IHb|try a IHa p s|a IHa|u k n IHn d IHd|u a IHa b IHb]; intros S; cbn in S; try discriminate;
    try reflexivity;
    try (apply andb_true_iff in S; destruct S as [S1 S2]; cbn; rewrite (IHa S1), (IHb S2); reflexivity);
    try (cbn; rewrite (IHa S); reflexivity).
  - (* CASE *) apply andb_true_iff in S. destruct S as [S S3]. apply andb_true_iff in S. destruct S as [S1 S2].
    cbn. rewrite (IHc S1), (IHa S2), (IHb S3). reflexivity.
  - (* TO_DECIMAL *)
    repeat (apply andb_true_iff in S; destruct S as [S ?]). cbn. rewrite (IHa S). apply to_decimal_same.
    destruct (sem_sf en a) as [[| | u s0| | | u s0| | | ]|]; auto. apply Bool.eqb_prop. assumption.
  - (* DATEADD *)
    repeat (apply andb_true_iff in S; destruct S as [S ?]). rename H into Hv. rename H0 into Ht. rename H1 into Sd.
    apply negb_true_iff in Ht. cbn [rewrite]. rewrite Ht.
    assert (En := IHn S). assert (Ed := IHd Sd).
    destruct u; try discriminate;
      destruct (is_cast_date d) eqn:C; cbn [date_unit andb sem_duck sem_sf]; rewrite En, Ed;
      destruct (sem_sf en n) as [[| k| | | | | | | ]|]; destruct (sem_sf en d) as [[| | | | | | | dn| tus]|] eqn:Es;
      cbn [to_us to_date_v shift_days]; rewrite ?Z.mul_1_l; try reflexivity;
      try (exfalso; eapply cast_date_not_ts; [exact C|exact Es]);
      try (cbn [orb andb] in Hv; discriminate);
      try (f_equal; f_equal; first [apply (shift_us_date UDay k dn) | apply (shift_us_date UDay (7 * k) dn) | apply (shift_us_date UMonth k dn) | apply (shift_us_date UMonth (3 * k) dn) | apply (shift_us_date UYear k dn)]; reflexivity).
  - (* DATEDIFF *)
    repeat (apply andb_true_iff in S; destruct S as [S ?]). rename H into Hw. apply negb_true_iff in H0. apply negb_true_iff in H1.
    cbn [rewrite]. rewrite H0, H1. cbn [sem_duck sem_sf]. rewrite (IHa S), (IHb H2).
    destruct (sem_sf en a) as [x|]; [|reflexivity]. destruct (sem_sf en b) as [y|]; [|destruct x; reflexivity].
    destruct x, y; try reflexivity; cbn [to_us] in *; destruct u; try reflexivity; cbn [diff_units_duck diff_units];
      do 2 f_equal;
      first [ apply week_same_side; apply Bool.eqb_prop in Hw; exact Hw
            | apply andb_true_iff in Hw; destruct Hw as [P Q]; rewrite !Z.quot_div_nonneg by (try lia; reflexivity); reflexivity ].
Qed.
Local Transparent add_months Z.mul Z.div Z.modulo Z.quot.


(* ---- outside the supported domain the rewrite is wrong (witnesses = known findings) ---- *)
Definition dlit (y m d : Z) : expr := ECastDate (ELit (VDateText (days_from_civil y m d))).

(* DATEADD on a DATE column (not a syntactic cast) returns a TIMESTAMP *)
Lemma dateadd_column_type_refuted_l : exists en e, sem_sf en e = Ok (VDate 18293) /\ sem_duck en (rewrite e) = Ok (VTs (18293 * day_us)).
Proof. exists [VDate 18292], (EDateAdd UDay (ELit (VInt 1)) (ECol 0)). vm_compute. split; reflexivity. Qed.

(* TO_DECIMAL(1.45, 10, 1): Snowflake rounds to 1.5, DuckDB's DECIMAL -> DECIMAL cast truncates to 1.4 *)
Lemma decimal_narrowing_refuted_l : exists en e, sem_sf en e = Ok (VDec 15 1) /\ sem_duck en (rewrite e) = Ok (VDec 14 1).
Proof. exists [], (EToDecimal false (ELit (VDec 145 2)) 10 1). vm_compute. split; reflexivity. Qed.

(* TRY_ forms give NULL exactly where the plain forms fail *)
Theorem try_is_null_on_failure_l : forall a p s,
  to_decimal_with rescale_half_away rescale_half_away false a p s = Fail ->
  a <> Fail -> (forall b, a <> Ok (VBool b)) -> (forall d, a <> Ok (VDate d)) -> (forall t, a <> Ok (VTs t)) ->
  to_decimal_with rescale_half_away rescale_half_away true a p s = Ok VNull.
Proof.
  intros a p s H N1 N2 N3 N4. destruct a as [[| z| u s0| b| t| u s0| d| d| t]|]; cbn in *; try discriminate; try reflexivity;
    try (destruct (fits _ p); [discriminate|reflexivity]); try (exfalso; eapply N2; reflexivity); try (exfalso; eapply N3; reflexivity);
    try (exfalso; eapply N4; reflexivity). contradiction.
Qed.

(* the civil calendar round-trips on every day of 1900-01-01 .. 2100-12-31 (finite domain, decided by the kernel) *)
Definition cal_ok (z : Z) : bool := let '(y, m, d) := civil_from_days z in (days_from_civil y m d =? z) && (1 <=? m) && (m <=? 12) && (1 <=? d) && (d <=? month_len y m).
Fixpoint zrange (n : nat) (a : Z) : list Z := match n with O => [] | S m => a :: zrange m (a + 1) end.
Lemma in_zrange n : forall a z, a <= z < a + Z.of_nat n -> In z (zrange n a).
Proof.
  induction n as [|n IH]; intros a z H; [lia|]. cbn [zrange]. destruct (Z.eq_dec a z) as [->|N]; [left; reflexivity|].
  right. apply IH. lia.
Qed.
Definition cal_range : list Z := zrange (Z.to_nat 73414) (-25567).
Lemma cal_range_ok : forallb cal_ok cal_range = true.
Proof. vm_compute. reflexivity. Qed.
Theorem calendar_roundtrip_range_l : forall z, -25567 <= z < 47847 -> cal_ok z = true.
Proof.
  intros z H. pose proof cal_range_ok as F. rewrite forallb_forall in F. apply F. unfold cal_range.
  apply in_zrange. rewrite Z2Nat.id by lia. lia.
Qed.

Definition ex_expr : expr :=
  ECase (EAnd (EEqualNull (ECol 0) (ELit VNull)) (ELt (EDateDiff UMonth (dlit 2020 1 31) (ECol 1)) (ELit (VInt 3))))
        (EToDecimal false (ELit (VNumText 12345 3)) 10 2)
        (EToDecimal true (ELit (VText (lit "abc"))) 10 2).
Lemma expr_nonvacuous_l :
  supported [VNull; VDate 18322] ex_expr = true /\ sem_sf [VNull; VDate 18322] ex_expr = Ok (VDec 1235 2) /\
  supported [VNull; VDate 18322] (EDateAdd UMonth (ELit (VInt 1)) (dlit 2020 1 31)) = true /\
  sem_sf [] (EDateAdd UMonth (ELit (VInt 1)) (dlit 2020 1 31)) = Ok (VDate (days_from_civil 2020 2 29)).
Proof. vm_compute. repeat split. Qed.

(* DATEDIFF(week) across Monday 1969-12-29 is one less than the number of week boundaries *)
(* TRY_TO_NUMERIC('99.995', 4, 2): rounding carries to 100.00, which DuckDB lets through *)
Lemma decimal_round_overflow_refuted_l : exists en e, sem_sf en e = Ok VNull /\ sem_duck en (rewrite e) = Ok (VDec 10000 2).
Proof. exists [], (EToDecimal true (ELit (VNumText 99995 3)) 4 2). vm_compute. split; reflexivity. Qed.

Lemma hour_epoch_refuted_l : exists en e, sem_sf en e = Ok (VInt 1) /\ sem_duck en (rewrite e) = Ok (VInt 0).
Proof. exists [], (EDateDiff UHour (ELit (VTs (-1800000000))) (ELit (VTs 1800000000))). vm_compute. split; reflexivity. Qed.

Lemma week_epoch_refuted_l : exists en e, sem_sf en e = Ok (VInt 2) /\ sem_duck en (rewrite e) = Ok (VInt 1).
Proof. exists [], (EDateDiff UWeek (dlit 1969 12 28) (dlit 1970 1 6)). vm_compute. split; reflexivity. Qed.
