From FS Require Import Sexp Ctx Common.
From Coq Require Import Lia.

Lemma cget_cset_same l c x : (c < length l)%nat -> cget (cset l c x) c = Some x.
Proof. revert c. induction l as [|y l IH]; intros [|c] H; cbn in *; try lia; [reflexivity|]. apply IH. lia. Qed.
Lemma cget_cset_other l c d x : c <> d -> cget (cset l c x) d = cget l d.
Proof.
  revert c d. induction l as [|y l IH]; intros [|c] [|d] H; cbn; try reflexivity; try congruence.
  apply IH. congruence.
Qed.
Lemma cget_lt l c x : cget l c = Some x -> (c < length l)%nat.
Proof. unfold cget. intros H. apply nth_error_Some. congruence. Qed.
Lemma cget_in l c x : cget l c = Some x -> In x l.
Proof. apply nth_error_In. Qed.
Lemma in_cset l c x k : In k (cset l c x) -> k = x \/ In k l.
Proof.
  revert c. induction l as [|y l IH]; intros [|c] H; cbn in *; try tauto.
  - destruct H; auto.
  - destruct H as [H|H]; auto. destruct (IH _ H); auto.
Qed.

Lemma assoc_put_same {X} (l : list (name * X)) k v : assoc (put l k v) k = Some v.
Proof.
  induction l as [|[k' v'] l IH]; cbn; [rewrite str_eqb_refl; reflexivity|].
  destruct (str_eqb k' k) eqn:E; cbn; rewrite E; auto.
Qed.
Lemma mem_app_last t ts : mem t (ts ++ [t]) = true.
Proof. unfold mem. rewrite existsb_app. cbn. rewrite str_eqb_refl. apply orb_true_r. Qed.

(* ---- the engine's error codes ---- *)
Definition ecode (e : Z) : Prop := e = 2003 \/ e = 2043.

Lemma engine_codes k d s t :
  (forall e, e_lookup k d s t = RErr e -> ecode e) /\
  (forall e, e_create_table k d s t = inr e -> ecode e) /\
  (forall e, e_drop_table k d s t = inr e -> ecode e) /\
  (forall e, e_create_schema k d s = inr e -> ecode e) /\
  (forall e, e_drop_schema k d s = inr e -> ecode e) /\
  (forall e, e_create_db k d = inr e -> ecode e) /\
  (forall e, e_set_schema k d s = Some e -> ecode e).
Proof.
  unfold ecode, e_lookup, e_create_table, e_drop_table, e_create_schema, e_drop_schema, e_create_db, e_set_schema.
  destruct (assoc k d) as [ss|]; [destruct (assoc ss s) as [ts|]; [destruct (mem t ts)|]|];
    repeat split; intros e H; inversion H; auto.
Qed.

Lemma with_cat_err w r w' e : with_cat w r = (w', RErr e) -> w' = w /\ r = inr e.
Proof. destruct r; cbn; intros H; inversion H; auto. Qed.

(* a statement that gets past the guards and fails: nothing changed, and the code is the engine's *)
Lemma exec_err w ci c o w' e : exec w ci c o = (w', RErr e) -> w' = w /\ ecode e.
Proof.
  destruct o as [d|d s|d s|q|q|q|d|d s| |d s]; cbn [exec].
  - destruct (engine_codes (cat w) d [] []) as (L1&L2&L3&L4&L5&L6&L7).
    intros H. apply with_cat_err in H as [-> H]. eauto.
  - destruct (engine_codes (cat w) (orelse d (edb c)) s []) as (L1&L2&L3&L4&L5&L6&L7).
    intros H. apply with_cat_err in H as [-> H]. eauto.
  - destruct (engine_codes (cat w) (orelse d (edb c)) s []) as (L1&L2&L3&L4&L5&L6&L7).
    destruct (e_drop_schema (cat w) (orelse d (edb c)) s) eqn:E; intros H; inversion H; subst. eauto.
  - destruct (locate c q) as [[d s] t]. destruct (engine_codes (cat w) d s t) as (L1&L2&L3&L4&L5&L6&L7).
    intros H. apply with_cat_err in H as [-> H]. eauto.
  - destruct (locate c q) as [[d s] t]. destruct (engine_codes (cat w) d s t) as (L1&L2&L3&L4&L5&L6&L7).
    intros H. apply with_cat_err in H as [-> H]. eauto.
  - destruct (locate c q) as [[d s] t]. destruct (engine_codes (cat w) d s t) as (L1&L2&L3&L4&L5&L6&L7).
    intros H. inversion H; subst. eauto.
  - destruct (engine_codes (cat w) d s_main []) as (L1&L2&L3&L4&L5&L6&L7).
    destruct (e_set_schema (cat w) d s_main) eqn:E; intros H; inversion H; subst. eauto.
  - destruct d as [d|]; cbn zeta.
    + destruct (engine_codes (cat w) d s []) as (L1&L2&L3&L4&L5&L6&L7).
      destruct (e_set_schema (cat w) d s) eqn:E; intros H; inversion H; subst. eauto.
    + destruct (engine_codes (cat w) (orelse (cdb c) s_missing_db) s []) as (L1&L2&L3&L4&L5&L6&L7).
      destruct (e_set_schema (cat w) (orelse (cdb c) s_missing_db) s) eqn:E; intros H; inversion H; subst. eauto.
  - intros H. inversion H.
  - intros H. inversion H.
Qed.

Theorem failure_preserves_world_l : forall w ci o w' e, step w ci o = (w', RErr e) -> w' = w.
Proof.
  intros w ci o w' e. unfold step. destruct (cget (conns w) ci) as [c|]; [|intros H; inversion H; reflexivity].
  destruct (fst (needs o) && negb (dset c)); [intros H; inversion H; reflexivity|].
  destruct (snd (needs o) && negb (sset c)); [intros H; inversion H; reflexivity|].
  intros H. apply exec_err in H. tauto.
Qed.

(* ---- the guards are exact ---- *)
Theorem guards_exact_l : forall w ci c o, cget (conns w) ci = Some c ->
  (snd (step w ci o) = RErr 90105 <-> (fst (needs o) = true /\ dset c = false)) /\
  (snd (step w ci o) = RErr 90106 <-> (~ (fst (needs o) = true /\ dset c = false) /\ snd (needs o) = true /\ sset c = false)) /\
  ((fst (needs o) = true /\ dset c = false) \/ (snd (needs o) = true /\ sset c = false) -> fst (step w ci o) = w).
Proof.
  intros w ci c o G. unfold step. rewrite G.
  destruct (fst (needs o)) eqn:Nd, (dset c) eqn:Ds, (snd (needs o)) eqn:Ns, (sset c) eqn:Ss; cbn [andb negb fst snd];
    try (split; [split; [intros; auto | intros; reflexivity] | split; [split; [discriminate | intros (H & _); exfalso; apply H; auto] | reflexivity]]; fail);
    try (split; [split; [discriminate | intros [? ?]; discriminate] | split; [split; [intros; repeat split; auto; intros [? ?]; discriminate | reflexivity] | reflexivity]]; fail).
  all: destruct (exec w ci c o) as [w' r] eqn:E; cbn [fst snd];
    (split; [split; [intros ->; apply exec_err in E as [_ [?|?]]; discriminate | intros [? ?]; discriminate]
           |split; [split; [intros ->; apply exec_err in E as [_ [?|?]]; discriminate | intros (_ & ? & ?); discriminate]
                   |intros [[? ?]|[? ?]]; discriminate]]).
Qed.

(* ---- other connections' contexts are untouched ---- *)
Theorem context_frame_l : forall w ci cj o, ci <> cj -> cget (conns (fst (step w ci o))) cj = cget (conns w) cj.
Proof.
  intros w ci cj o N. unfold step. destruct (cget (conns w) ci) as [c|]; [|reflexivity].
  destruct (fst (needs o) && negb (dset c)); [reflexivity|].
  destruct (snd (needs o) && negb (sset c)); [reflexivity|].
  destruct o as [d|d s|d s|q|q|q|d|d s| |d s]; cbn [exec].
  - destruct (e_create_db _ _); reflexivity.
  - destruct (e_create_schema _ _ _); reflexivity.
  - destruct (e_drop_schema _ _ _); cbn [fst conns]; [apply cget_cset_other; assumption|reflexivity].
  - destruct (locate c q) as [[d s] t]. destruct (e_create_table _ _ _ _); reflexivity.
  - destruct (locate c q) as [[d s] t]. destruct (e_drop_table _ _ _ _); reflexivity.
  - destruct (locate c q) as [[d s] t]. reflexivity.
  - destruct (e_set_schema _ _ _); cbn [fst conns]; [reflexivity|apply cget_cset_other; assumption].
  - destruct d as [d|]; cbn zeta; destruct (e_set_schema _ _ _); cbn [fst conns]; try reflexivity; apply cget_cset_other; assumption.
  - reflexivity.
  - cbn [fst conns]. apply cget_cset_other; assumption.
Qed.

(* ---- coherence ---- *)
(* what the fake reports is what the engine resolves names against *)
Definition Coh (c : conn) : Prop :=
  (dset c = true -> cdb c = Some (edb c)) /\
  (sset c = true -> dset c = true /\ csch c = Some (esch c)).

(* the statements inside the domain: USE DATABASE only on a connection without a schema;
   unqualified USE SCHEMA only with a current database; DROP SCHEMA only of a schema name that is
   nobody's current schema (fakesnow compares the name alone and resets only the dropper) *)
Definition is_some_eq (o : option name) (s : name) : bool :=
  match o with Some x => str_eqb s x | None => false end.
Definition dom (w : world) (ci : nat) (o : op) : bool :=
  match cget (conns w) ci with
  | None => true
  | Some c =>
      match o with
      | UseDb _ => negb (sset c) && match csch c with None => true | Some _ => false end
      | UseSchema None _ => dset c
      | DropSchema _ s => forallb (fun k => negb (is_some_eq (csch k) s) && negb (str_eqb s (esch k))) (conns w)
      | _ => true
      end
  end.

Theorem coh_step_l : forall w ci o, (forall k, In k (conns w) -> Coh k) -> dom w ci o = true ->
  forall k, In k (conns (fst (step w ci o))) -> Coh k.
Proof.
  intros w ci o All D. unfold step, dom in *. destruct (cget (conns w) ci) as [c|] eqn:G; [|exact All].
  pose proof (All c (cget_in _ _ _ G)) as [C1 C2].
  destruct (fst (needs o) && negb (dset c)); [exact All|].
  destruct (snd (needs o) && negb (sset c)); [exact All|].
  destruct o as [d|d s|d s|q|q|q|d|d s| |d s]; cbn [exec].
  - destruct (e_create_db _ _); exact All.
  - destruct (e_create_schema _ _ _); exact All.
  - destruct (e_drop_schema _ _ _); cbn [fst conns]; [|exact All].
    rewrite forallb_forall in D. pose proof (D c (cget_in _ _ _ G)) as Dc.
    apply andb_true_iff in Dc as [Dc _]. unfold is_some_eq in Dc.
    destruct (match csch c with Some x => str_eqb s x | None => false end); [discriminate|].
    intros k Hk. apply in_cset in Hk as [->|Hk]; [split; assumption|auto].
  - destruct (locate c q) as [[d s] t]. destruct (e_create_table _ _ _ _); exact All.
  - destruct (locate c q) as [[d s] t]. destruct (e_drop_table _ _ _ _); exact All.
  - destruct (locate c q) as [[d s] t]. exact All.
  - destruct (e_set_schema _ _ _); cbn [fst conns]; [exact All|].
    apply andb_true_iff in D as [D1 D2]. apply negb_true_iff in D1.
    intros k Hk. apply in_cset in Hk as [->|Hk]; [|auto]. split; cbn; [reflexivity|congruence].
  - destruct d as [d|]; cbn zeta; destruct (e_set_schema _ _ _); cbn [fst conns]; try exact All;
      intros k Hk; apply in_cset in Hk as [->|Hk]; auto; split; cbn; auto.
    intros _. rewrite (C1 D). reflexivity.
  - exact All.
  - cbn [fst conns]. intros k Hk. apply in_cset in Hk as [->|Hk]; [|auto]. split; cbn; auto.
Qed.

(* along any history whose every step is inside the domain *)
Fixpoint all_dom (w : world) (h : list (nat * op)) : bool :=
  match h with
  | [] => true
  | (c, o) :: r => dom w c o && all_dom (fst (step w c o)) r
  end.
Fixpoint final (w : world) (h : list (nat * op)) : world :=
  match h with [] => w | (c, o) :: r => final (fst (step w c o)) r end.

Theorem coh_reachable_l : forall h w, (forall k, In k (conns w) -> Coh k) -> all_dom w h = true ->
  forall k, In k (conns (final w h)) -> Coh k.
Proof.
  induction h as [|[c o] h IH]; intros w All D; cbn [final]; [exact All|].
  cbn [all_dom] in D. apply andb_true_iff in D as [D1 D2]. apply IH; [|exact D2].
  apply coh_step_l; assumption.
Qed.

(* ---- under coherence, a partially qualified name denotes what the fully qualified one does ---- *)
Definition with_q (kind : nat) (q : qname) : op :=
  match kind with O => Select q | S O => CreateTable q | _ => DropTable q end.

Theorem resolve_coherent_l : forall w ci c kind d s t, cget (conns w) ci = Some c -> Coh c ->
  dset c = true -> cdb c = Some d ->
  (forall s', step w ci (with_q kind (Q2 s' t)) = step w ci (with_q kind (Q3 d s' t))) /\
  (sset c = true -> csch c = Some s -> step w ci (with_q kind (Q1 t)) = step w ci (with_q kind (Q3 d s t))) /\
  (sset c = true -> csch c = Some s -> snd (step w ci Current) = RCtx d s).
Proof.
  intros w ci c kind d s t G [C1 C2] Ds Cd. pose proof (C1 Ds) as E1. rewrite Cd in E1. inversion E1 as [Ed].
  split; [|split].
  - intros s'. unfold step. rewrite G. destruct kind as [|[|kind]]; cbn [with_q needs fst snd]; rewrite Ds; cbn [andb negb exec locate]; reflexivity.
  - intros Ss Cs. destruct (C2 Ss) as [_ E2]. rewrite Cs in E2. inversion E2 as [Es].
    unfold step. rewrite G. destruct kind as [|[|kind]]; cbn [with_q needs fst snd]; rewrite Ds, Ss; cbn [andb negb exec locate]; reflexivity.
  - intros Ss Cs. destruct (C2 Ss) as [_ E2]. rewrite Cs in E2. inversion E2 as [Es].
    unfold step. rewrite G. cbn [needs fst snd andb exec]. reflexivity.
Qed.

(* ---- objects are shared by all connections ---- *)
Theorem objects_shared_l : forall w ci c q w', cget (conns w) ci = Some c ->
  step w ci (CreateTable q) = (w', RUnit) ->
  let '(d, s, t) := locate c q in
  forall cj k, cget (conns w') cj = Some k -> snd (step w' cj (Select (Q3 d s t))) = RTable d s t.
Proof.
  intros w ci c q w' G. unfold step at 1. rewrite G.
  destruct (fst (needs (CreateTable q)) && negb (dset c)); [discriminate|].
  destruct (snd (needs (CreateTable q)) && negb (sset c)); [discriminate|].
  cbn [exec]. destruct (locate c q) as [[d s] t]. unfold e_create_table.
  destruct (assoc (cat w) d) as [ss|] eqn:A1; [|discriminate].
  destruct (assoc ss s) as [ts|] eqn:A2; [|discriminate].
  destruct (mem t ts); [discriminate|]. cbn [with_cat]. intros H. inversion H; subst.
  intros cj k Gj. unfold step. cbn [conns] in *. rewrite Gj. cbn [needs fst snd andb exec locate cat].
  unfold e_lookup. rewrite !assoc_put_same, mem_app_last. reflexivity.
Qed.

(* ---- a new session gets what it asked for, whatever the instance's history ---- *)
Lemma assoc_app_none {X} (l : list (name * X)) k v : assoc l k = None -> assoc (l ++ [(k, v)]) k = Some v.
Proof.
  induction l as [|[k' v'] l IH]; cbn; [rewrite str_eqb_refl; reflexivity|].
  destruct (str_eqb k' k); [discriminate|exact IH].
Qed.

Theorem reconnect_sets_context_l : forall w ci c d s, cget (conns w) ci = Some c ->
  let w' := fst (step w ci (Reconnect d s)) in
  e_set_schema (cat w') d s = None /\ snd (step w' ci Current) = RCtx d s /\
  (forall t, e_lookup (cat w) d s t = RTable d s t -> snd (step w' ci (Select (Q1 t))) = RTable d s t) /\
  (forall k, In k (conns w') -> k = {| cdb := Some d; csch := Some s; dset := true; sset := true; edb := d; esch := s |} \/ In k (conns w)).
Proof.
  intros w ci c d s G. unfold step at 1 2 3. rewrite G. cbn [needs fst snd andb exec].
  set (k1 := match assoc (cat w) d with Some _ => cat w | None => cat w ++ [(d, [(s_main, [])])] end).
  assert (A1 : exists ss, assoc k1 d = Some ss /\ (forall ss0, assoc (cat w) d = Some ss0 -> ss = ss0 /\ k1 = cat w)).
  { unfold k1. destruct (assoc (cat w) d) as [ss|] eqn:E.
    - exists ss. split; [exact E|]. intros ss0 H. injection H as <-. auto.
    - eexists. split; [apply assoc_app_none; exact E|]. discriminate. }
  destruct A1 as (ss & A1 & A1'). rewrite A1.
  pose proof (cget_lt _ _ _ G) as Lt.
  assert (Ex : forall k2, (match assoc ss s with Some _ => k1 | None => put k1 d (ss ++ [(s, [])]) end) = k2 -> e_set_schema k2 d s = None).
  { intros k2 <-. unfold e_set_schema. destruct (assoc ss s) eqn:E; [rewrite A1, E; reflexivity|].
    rewrite assoc_put_same. rewrite (assoc_app_none _ _ _ E). reflexivity. }
  cbn [fst cat conns]. split; [apply Ex; reflexivity|]. split; [|split].
  - unfold step. cbn [conns]. rewrite cget_cset_same by exact Lt. reflexivity.
  - intros t Ht. unfold step. cbn [conns]. rewrite cget_cset_same by exact Lt. cbn [needs fst snd dset sset andb negb exec locate edb esch cat].
    unfold e_lookup in Ht. destruct (assoc (cat w) d) as [ss0|] eqn:E0; [|discriminate].
    destruct (A1' ss0 eq_refl) as [-> K1]. destruct (assoc ss0 s) as [ts|] eqn:E1; [|discriminate].
    rewrite K1. unfold e_lookup. rewrite E0, E1. exact Ht.
  - intros k Hk. apply in_cset in Hk. exact Hk.
Qed.

Definition k0 : catalog := [(lit "DB1", [(s_main, []); (lit "S1", [lit "T"]); (lit "S2", [])]); (lit "DB2", [(s_main, []); (lit "S1", [])])].
Definition c0 : conn := {| cdb := Some (lit "DB1"); csch := Some (lit "S1"); dset := true; sset := true; edb := lit "DB1"; esch := lit "S1" |}.
Definition cnone : conn := {| cdb := None; csch := None; dset := false; sset := false; edb := s_memory; esch := s_main |}.

Example ctx_nonvacuous :
  let w := {| cat := k0; conns := [c0; cnone] |} in
  let h := [(0, UseSchema None (lit "S2")); (1, UseSchema (Some (lit "DB2")) (lit "S1")); (0, CreateTable (Q1 (lit "U")));
            (1, Select (Q3 (lit "DB1") (lit "S2") (lit "U"))); (1, CreateSchema None (lit "S3")); (0, UseSchema (Some (lit "DB2")) (lit "S3"))]%nat in
  all_dom w h = true /\ Coh c0 /\ Coh cnone /\
  snd (step (final w h) 0 Current) = RCtx (lit "DB2") (lit "S3") /\
  snd (step w 1 (Select (Q1 (lit "T")))) = RErr 90105.
Proof. vm_compute. repeat split; intros; try discriminate; auto. Qed.

(* the unchanged code outside the domain: USE DATABASE keeps reporting the old schema *)
Example coh_refuted_use_database :
  let w := {| cat := k0; conns := [c0] |} in
  exists k, In k (conns (fst (step w 0 (UseDb (lit "DB2"))))) /\ ~ Coh k.
Proof.
  eexists. split; [left; reflexivity|]. intros [_ C2]. cbn in C2. destruct (C2 eq_refl) as [_ E]. discriminate.
Qed.

(* ... and dropping the current schema leaves schema_set and the engine's setting behind *)
Example coh_refuted_drop_current_schema :
  let w := {| cat := k0; conns := [c0] |} in
  exists k, In k (conns (fst (step w 0 (DropSchema None (lit "S1"))))) /\ ~ Coh k.
Proof.
  eexists. split; [left; reflexivity|]. intros [_ C2]. cbn in C2. destruct (C2 eq_refl) as [_ E]. discriminate.
Qed.
