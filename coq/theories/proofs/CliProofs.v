From FS Require Import Sexp Cli.
From Coq Require Import Lia.

Lemma split_partition_l : forall a, fst (split a) ++ snd (split a) = a.
Proof. intros a. unfold split. cbn [fst snd]. apply firstn_skipn. Qed.

(* ---- the grammar of fakesnow's own leading options and of the target ---- *)
Inductive fsopt :=
| DSp (long : bool) (v : str)    (* -d v | --db_path v *)
| DEq (long : bool) (v : str)    (* -d=v | --db_path=v *)
| DGl (v : str).                 (* -dv *)

Inductive target :=
| TgM (long : bool) (m : str)    (* -m mod | --module mod *)
| TgMEq (long : bool) (m : str)  (* -m=mod | --module=mod *)
| TgMGl (m : str)                (* -mmod *)
| TgPath (p : str).

Definition glue_ok (v : str) : bool := match v with [] => false | c :: _ => negb (c =? 61) end.
Definition nonnil (v : str) : bool := match v with [] => false | _ => true end.

Definition opt_ok (o : fsopt) : bool :=
  match o with DSp _ v => negb (starts_dash v) | DEq _ _ => true | DGl v => glue_ok v end.
Definition dflag (long : bool) : str := if long then s_db else s_d.
Definition mflag (long : bool) : str := if long then s_module else s_m.
Definition render_opt (o : fsopt) : list str :=
  match o with
  | DSp l v => [dflag l; v]
  | DEq l v => [dflag l ++ 61 :: v]
  | DGl v => [s_d ++ v]
  end.
Definition opt_val (o : fsopt) : str := match o with DSp _ v | DEq _ v | DGl v => v end.

Definition tgt_ok (t : target) : bool :=
  match t with
  | TgM _ m => nonnil m && negb (starts_dash m)
  | TgMEq _ m => nonnil m
  | TgMGl m => glue_ok m
  | TgPath p => nonnil p && negb (starts_dash p)
  end.
Definition render_tgt (t : target) : list str :=
  match t with
  | TgM l m => [mflag l; m]
  | TgMEq l m => [mflag l ++ 61 :: m]
  | TgMGl m => [s_m ++ m]
  | TgPath p => [p]
  end.
Definition tgt_name (t : target) : str := match t with TgM _ m | TgMEq _ m | TgMGl m | TgPath m => m end.
Definition tgt_is_module (t : target) : bool := match t with TgPath _ => false | _ => true end.

Fixpoint last_db (opts : list fsopt) (acc : option str) : option str :=
  match opts with [] => acc | o :: r => last_db r (Some (opt_val o)) end.

(* ---- facts about tokens that do not start with a dash ---- *)
Lemma nodash_is_m v : starts_dash v = false -> is_m v = false.
Proof.
  destruct v as [|c v]; [reflexivity|]. cbn [starts_dash]. intros H.
  unfold is_m, s_m, s_module. cbn [str_eqb]. rewrite H. reflexivity.
Qed.
Lemma nodash_glued v : starts_dash v = false -> glued_m v = false.
Proof.
  destruct v as [|c v]; [reflexivity|]. cbn [starts_dash]. intros H.
  unfold glued_m, s_module_eq, s_m. cbn [prefixb]. rewrite (Z.eqb_sym 45 c), H. reflexivity.
Qed.
Lemma nodash_classify v : starts_dash v = false -> classify v = TPos.
Proof. unfold classify. intros ->. reflexivity. Qed.

Lemma split_eq_cons c r : split_eq (c :: r) =
  if c =? 61 then Some ([], r) else match split_eq r with Some (p, q) => Some (c :: p, q) | None => None end.
Proof. reflexivity. Qed.

(* ---- classification of the option forms ---- *)
Lemma classify_deq l v : classify (dflag l ++ 61 :: v) = TDv v.
Proof. destruct l; reflexivity. Qed.
Lemma classify_meq l v : classify (mflag l ++ 61 :: v) = TMv v.
Proof. destruct l; reflexivity. Qed.

Lemma classify_dgl v : glue_ok v = true -> classify (s_d ++ v) = TDv v.
Proof.
  destruct v as [|c v]; [discriminate|]. cbn [glue_ok]. intros H.
  apply negb_true_iff in H.
  unfold classify. cbn [s_d app starts_dash negb]. cbn.
  rewrite H. destruct (split_eq v) as [[p q]|]; cbn.
  - destruct p; reflexivity.
  - reflexivity.
Qed.

Lemma classify_mgl v : glue_ok v = true -> classify (s_m ++ v) = TMv v.
Proof.
  destruct v as [|c v]; [discriminate|]. cbn [glue_ok]. intros H.
  apply negb_true_iff in H.
  unfold classify. cbn [s_m app starts_dash negb]. cbn.
  rewrite H. destruct (split_eq v) as [[p q]|]; cbn.
  - destruct p; reflexivity.
  - reflexivity.
Qed.

(* ---- cut ---- *)
Lemma cut_opt o rest : opt_ok o = true ->
  cut false (render_opt o ++ rest) = (length (render_opt o) + cut false rest)%nat.
Proof.
  destruct o as [l v|l v|v]; cbn [opt_ok render_opt]; intros H.
  - apply negb_true_iff in H.
    assert (E : forall r, cut false (dflag l :: v :: r) = S (S (cut false r))).
    { intros r. destruct l; cbn [dflag]; change (cut false (?a :: v :: r)) with (S (cut true (v :: r)));
      cbn [cut]; rewrite (nodash_is_m _ H), (nodash_glued _ H), H; reflexivity. }
    cbn [app length]. rewrite E. reflexivity.
  - destruct l; reflexivity.
  - destruct v as [|c v]; [discriminate|]. reflexivity.
Qed.

Lemma cut_opts opts rest : forallb opt_ok opts = true ->
  cut false (concat (map render_opt opts) ++ rest) =
  (length (concat (map render_opt opts)) + cut false rest)%nat.
Proof.
  induction opts as [|o opts IH]; cbn [map concat forallb]; intros H; [reflexivity|].
  apply andb_true_iff in H as [Ho Hr].
  rewrite <- app_assoc, cut_opt by exact Ho. rewrite IH by exact Hr.
  rewrite app_length. lia.
Qed.

Lemma cut_tgt t targs : tgt_ok t = true ->
  cut false (render_tgt t ++ targs) = length (render_tgt t).
Proof.
  destruct t as [l m|l m|m|p]; cbn [tgt_ok render_tgt]; intros H.
  - destruct l; reflexivity.
  - destruct l; reflexivity.
  - destruct m as [|c m]; [discriminate|]. reflexivity.
  - apply andb_true_iff in H as [_ H]. apply negb_true_iff in H.
    cbn [app cut length]. rewrite (nodash_is_m _ H), (nodash_glued _ H), H. reflexivity.
Qed.

(* ---- parse ---- *)
Lemma parse_opt o rest db md path : opt_ok o = true ->
  parse (render_opt o ++ rest) db md path false false =
  parse rest (Some (opt_val o)) md path false false.
Proof.
  destruct o as [l v|l v|v]; cbn [opt_ok render_opt opt_val app]; intros H.
  - apply negb_true_iff in H.
    assert (C : classify (dflag l) = TD) by (destruct l; reflexivity).
    cbn [parse]. rewrite C. unfold looks_positional. rewrite (nodash_classify _ H). reflexivity.
  - cbn [parse]. rewrite classify_deq. reflexivity.
  - cbn [parse]. rewrite (classify_dgl _ H). reflexivity.
Qed.

Lemma parse_opts opts rest db md path : forallb opt_ok opts = true ->
  parse (concat (map render_opt opts) ++ rest) db md path false false =
  parse rest (last_db opts db) md path false false.
Proof.
  revert db. induction opts as [|o opts IH]; cbn [map concat forallb last_db]; intros db H; [reflexivity|].
  apply andb_true_iff in H as [Ho Hr].
  rewrite <- app_assoc, parse_opt by exact Ho. apply IH. exact Hr.
Qed.

Lemma nonnil_nonempty m : nonnil m = true -> nonempty (Some m) = Some m.
Proof. destruct m; [discriminate|reflexivity]. Qed.
Lemma glue_nonnil m : glue_ok m = true -> nonnil m = true.
Proof. destruct m; [discriminate|reflexivity]. Qed.

Lemma parse_tgt t db : tgt_ok t = true ->
  parse (render_tgt t) db None None false false =
  if tgt_is_module t then POk db (Some (tgt_name t)) None false
  else POk db None (Some (tgt_name t)) false.
Proof.
  destruct t as [l m|l m|m|p]; cbn [tgt_ok render_tgt tgt_is_module tgt_name]; intros H.
  - apply andb_true_iff in H as [_ H]. apply negb_true_iff in H.
    assert (C : classify (mflag l) = TM) by (destruct l; reflexivity).
    cbn [parse]. rewrite C. unfold looks_positional. rewrite (nodash_classify _ H). reflexivity.
  - cbn [parse]. rewrite classify_meq. reflexivity.
  - cbn [parse]. rewrite (classify_mgl _ H). reflexivity.
  - apply andb_true_iff in H as [_ H]. apply negb_true_iff in H.
    cbn [parse]. rewrite (nodash_classify _ H). reflexivity.
Qed.

Lemma tgt_nonnil t : tgt_ok t = true -> nonnil (tgt_name t) = true.
Proof.
  destruct t; cbn; intros H; try (apply andb_true_iff in H as [H _]); auto using glue_nonnil.
Qed.

Theorem passthrough_l : forall opts tgt targs,
  forallb opt_ok opts = true -> tgt_ok tgt = true ->
  main (concat (map render_opt opts) ++ render_tgt tgt ++ targs) =
  ORun (tgt_is_module tgt) (tgt_name tgt) (tgt_name tgt :: targs) (last_db opts None).
Proof.
  intros opts tgt targs Ho Ht. unfold main, split.
  rewrite cut_opts by exact Ho. rewrite cut_tgt by exact Ht.
  set (pre := concat (map render_opt opts)).
  assert (F : firstn (length pre + length (render_tgt tgt)) (pre ++ render_tgt tgt ++ targs)
              = pre ++ render_tgt tgt).
  { rewrite app_assoc. rewrite <- app_length. rewrite firstn_app, Nat.sub_diag, firstn_all.
    cbn [firstn]. apply app_nil_r. }
  assert (K : skipn (length pre + length (render_tgt tgt)) (pre ++ render_tgt tgt ++ targs) = targs).
  { rewrite app_assoc. rewrite <- app_length. rewrite skipn_app, Nat.sub_diag, skipn_all.
    reflexivity. }
  rewrite F, K. unfold pre. rewrite parse_opts by exact Ho. rewrite parse_tgt by exact Ht.
  pose proof (tgt_nonnil _ Ht) as N.
  destruct (tgt_name tgt) as [|c nm]; [discriminate N|].
  destruct (tgt_is_module tgt); reflexivity.
Qed.

(* non-vacuity: a concrete command line inside the grammar *)
Example passthrough_nonvacuous :
  let opts := [DEq true (lit "x"); DSp false (lit "dir"); DGl (lit "y")] in
  let tgt := TgMGl (lit "pytest") in
  forallb opt_ok opts = true /\ tgt_ok tgt = true /\
  main ((concat (map render_opt opts) ++ render_tgt tgt ++ [lit "-m"; lit "integration"; lit "--db_path=z"])%list)
  = ORun true (lit "pytest") [lit "pytest"; lit "-m"; lit "integration"; lit "--db_path=z"] (Some (lit "y")).
Proof. vm_compute. repeat split. Qed.
