From FS Require Import Sexp Patch.
From Coq Require Import Lia.

Lemma get_set_same w i v : (i < length w)%nat -> get (set w i v) i = v.
Proof.
  revert i. induction w as [|x w IH]; intros [|i] H; cbn in *; try lia; [reflexivity|].
  apply IH. lia.
Qed.
Lemma get_set_other w i j v : i <> j -> get (set w i v) j = get w j.
Proof.
  revert i j. induction w as [|x w IH]; intros [|i] [|j] H; cbn; try reflexivity; try congruence.
  apply IH. congruence.
Qed.
Lemma get_set_oob w i v : (length w <= i)%nat -> set w i v = w.
Proof.
  revert i. induction w as [|x w IH]; intros [|i] H; cbn in *; try reflexivity; try lia.
  f_equal. apply IH. lia.
Qed.
Lemma length_set w i v : length (set w i v) = length w.
Proof. revert i. induction w as [|x w IH]; intros [|i]; cbn; auto. Qed.
Lemma get_oob w i : (length w <= i)%nat -> get w i = VNoModule.
Proof. intros H. unfold get. apply nth_overflow. exact H. Qed.

(* setting a location to the value it already holds changes nothing observable *)
Lemma get_set w i v j : get (set w i v) j = if Nat.eqb i j then (if Nat.ltb i (length w) then v else get w j) else get w j.
Proof.
  destruct (Nat.eqb_spec i j) as [->|N].
  - destruct (Nat.ltb_spec j (length w)).
    + apply get_set_same; assumption.
    + rewrite get_set_oob by assumption. reflexivity.
  - apply get_set_other; assumption.
Qed.

(* ---- the invariant of the target loop ---- *)
Definition Inv (w0 w : world) (st : stack) : Prop :=
  NoDup (map fst st) /\
  (forall i v, In (i, v) st -> get w0 i = v /\ get w i = VMock /\ v <> VMock) /\
  (forall i, ~ In i (map fst st) -> get w i = get w0 i).

Lemma enter_inv ts : forall w0 w st w' st' ok,
  Inv w0 w st -> enter ts w st = (w', st', ok) -> Inv w0 w' st'.
Proof.
  induction ts as [|t ts IH]; intros w0 w st w' st' ok I E; cbn in E.
  - inversion E; subst. exact I.
  - destruct (get w t) eqn:G; try (inversion E; subst; exact I).
    + (* VOrig: patch it *)
      eapply IH; [|exact E]. destruct I as (ND & Hin & Hout).
      assert (Nt : ~ In t (map fst st)).
      { intros Hc. apply in_map_iff in Hc as ((t', v) & Ht & Hin'). cbn in Ht; subst t'.
        destruct (Hin _ _ Hin') as (_ & M & _). congruence. }
      assert (Lt : (t < length w)%nat).
      { destruct (Nat.ltb_spec t (length w)); [assumption|]. rewrite get_oob in G by assumption. discriminate. }
      split; [|split].
      * cbn. constructor; assumption.
      * intros i v [Eq|Hi].
        -- inversion Eq; subst. rewrite get_set_same by assumption.
           rewrite <- (Hout _ Nt). repeat split; auto. congruence.
        -- destruct (Hin _ _ Hi) as (A1 & A2 & A3). repeat split; auto.
           rewrite get_set_other; [exact A2|]. intros ->. apply Nt.
           apply in_map_iff. exists (i, v). auto.
      * intros i Hi. cbn in Hi. rewrite get_set_other; [apply Hout; tauto|]. intros ->. tauto.
    + (* VMock: skip *) eapply IH; eauto.
Qed.

Lemma unwind_restores st : forall w0 w, Inv w0 w st -> forall i, get (unwind st w) i = get w0 i.
Proof.
  induction st as [|[t v] st IH]; intros w0 w (ND & Hin & Hout) i; cbn.
  - apply Hout. auto.
  - apply IH. inversion ND as [|? ? Nt ND']; subst. split; [exact ND'|split].
    + intros j u Hj. destruct (Hin j u (or_intror Hj)) as (A1 & A2 & A3). repeat split; auto.
      rewrite get_set_other; [exact A2|]. intros ->. apply Nt. apply in_map_iff. exists (j, u). auto.
    + intros j Hj. destruct (Nat.eq_dec t j) as [->|N].
      * destruct (Hin j v (or_introl eq_refl)) as (A1 & A2 & A3).
        destruct (Nat.ltb_spec j (length w)).
        -- rewrite get_set_same by assumption. auto.
        -- rewrite get_oob in A2 by assumption. discriminate.
      * rewrite get_set_other by assumption. apply Hout. cbn. tauto.
Qed.

Lemma inv_init w : Inv w w [].
Proof. split; [constructor|split]; cbn; intros; tauto. Qed.

Definition wf (w : world) : Prop := get w 0%nat = VOrig true /\ get w 1%nat = VOrig false.

Lemma wf_std w c : wf w -> get w (std c) = VOrig c.
Proof. intros [A B]. destruct c; assumption. Qed.

(* every location holds what it held before, or - if its module had not been imported
   yet - the original function that importing it binds *)
Definition imported (w0 w : world) : Prop :=
  forall i, get w i = get w0 i \/ (exists c, get w0 i = VUnloaded c /\ get w i = VOrig c).

Lemma import_all_spec ts : forall w0 w w' ok,
  wf w -> imported w0 w -> import_all ts w = (w', ok) -> wf w' /\ imported w0 w'.
Proof.
  induction ts as [|t ts IH]; intros w0 w w' ok W Im E; cbn in E.
  - inversion E; subst. auto.
  - destruct (get w t) eqn:G; try (eapply IH; eauto; fail); try (inversion E; subst; auto; fail).
    (* VUnloaded c *)
    eapply IH; [| |exact E].
    + destruct W as [W0 W1]. split; rewrite get_set_other; auto; intros ->; congruence.
    + intros i. destruct (Nat.eq_dec t i) as [->|N].
      * right. exists c. split.
        -- destruct (Im i) as [Eq|(c' & _ & E2)]; congruence.
        -- rewrite (wf_std _ c W).
           destruct (Nat.ltb_spec i (length w)).
           ++ apply get_set_same. assumption.
           ++ rewrite get_oob in G by assumption. discriminate.
      * rewrite get_set_other by assumption. apply Im.
Qed.


Lemma enter_keeps_mock ts : forall w st w' st' ok i,
  enter ts w st = (w', st', ok) -> get w i = VMock -> get w' i = VMock.
Proof.
  induction ts as [|t ts IH]; intros w st w' st' ok i E M; cbn in E.
  - inversion E; subst. exact M.
  - destruct (get w t) eqn:G; try (inversion E; subst; exact M).
    + eapply IH; [exact E|]. destruct (Nat.eq_dec t i) as [->|N]; [congruence|].
      rewrite get_set_other; assumption.
    + eapply IH; eauto.
Qed.

Lemma enter_all_mock ts : forall w st w' st',
  enter ts w st = (w', st', true) -> forall t, In t ts -> get w' t = VMock.
Proof.
  induction ts as [|t ts IH]; intros w st w' st' E u Hu; [destruct Hu|]. cbn in E.
  destruct (get w t) eqn:G; try discriminate.
  - destruct Hu as [->|Hu]; [|eapply IH; eauto].
    eapply enter_keeps_mock; [exact E|].
    destruct (Nat.ltb_spec u (length w)).
    + apply get_set_same; assumption.
    + rewrite get_oob in G by assumption. discriminate.
  - destruct Hu as [->|Hu]; [|eapply IH; eauto]. eapply enter_keeps_mock; eauto.
Qed.

Lemma imported_pointwise w0 w1 w2 : imported w0 w1 -> (forall i, get w2 i = get w1 i) -> imported w0 w2.
Proof. intros Im P i. rewrite P. apply Im. Qed.

Lemma imported_refl w : imported w w.
Proof. intros i. left. reflexivity. Qed.

Theorem patch_restores_l : forall w extras br, wf w ->
  imported w (after (patch extras br w)) /\ wf (after (patch extras br w)).
Proof.
  intros w extras br W. unfold patch. destruct W as [W0 W1]. rewrite W0. cbn [is_mock].
  destruct (import_all (0%nat :: 1%nat :: extras) w) as [w1 ok] eqn:EI.
  destruct (import_all_spec _ w w w1 ok (conj W0 W1) (imported_refl w) EI) as (Wf1 & Im1).
  destruct ok; cbn [after]; [|auto].
  destruct (enter (0%nat :: 1%nat :: extras) w1 []) as [[w2 st] ok2] eqn:EE.
  pose proof (enter_inv _ _ _ _ _ _ _ (inv_init w1) EE) as I.
  pose proof (unwind_restores _ _ _ I) as P.
  assert (X : imported w (unwind st w2) /\ wf (unwind st w2)).
  { split; [eapply imported_pointwise; eauto|]. destruct Wf1. split; rewrite P; assumption. }
  destruct ok2; exact X.
Qed.

Theorem patch_inside_l : forall w extras br wi,
  inside (patch extras br w) = Some wi ->
  forall t, In t (0%nat :: 1%nat :: extras) -> get wi t = VMock.
Proof.
  intros w extras br wi. unfold patch. destruct (is_mock (get w 0%nat)); [discriminate|].
  destruct (import_all _ w) as [w1 [|]]; [|discriminate].
  destruct (enter _ w1 []) as [[w2 st] [|]] eqn:EE; [|discriminate].
  cbn [inside]. intros H; inversion H; subst. eapply enter_all_mock. exact EE.
Qed.

Theorem nested_refused_l : forall w extras br, get w 0%nat = VMock ->
  let r := patch extras br w in res r = RRefused /\ after r = w /\ inside r = None.
Proof. intros w extras br H. unfold patch. rewrite H. cbn. auto. Qed.

Theorem closed_unless_refused_l : forall w extras br,
  res (patch extras br w) <> RRefused -> closed (patch extras br w) = true.
Proof.
  intros w extras br. unfold patch. destruct (is_mock (get w 0%nat)); [cbn; congruence|].
  destruct (import_all _ w) as [w1 [|]]; [|reflexivity].
  destruct (enter _ w1 []) as [[w2 st] [|]]; reflexivity.
Qed.

(* re-entry: the world a patch() leaves behind can be patched again (it is wf), and a second
   run over the same targets again restores it *)
Theorem reentry_l : forall w e1 b1 e2 b2, wf w ->
  imported (after (patch e1 b1 w)) (after (patch e2 b2 (after (patch e1 b1 w)))).
Proof. intros. apply patch_restores_l. apply patch_restores_l. assumption. Qed.

Example patch_nonvacuous :
  let w := [VOrig true; VOrig false; VOrig true; VUnloaded true; VOther] in
  wf w /\
  after (patch [2%nat; 3%nat; 2%nat] true w) = [VOrig true; VOrig false; VOrig true; VOrig true; VOther] /\
  res (patch [2%nat; 3%nat; 2%nat] true w) = RBodyRaised /\
  res (patch [3%nat; 4%nat] false w) = RAssert /\
  after (patch [3%nat; 4%nat] false w) = [VOrig true; VOrig false; VOrig true; VOrig true; VOther].
Proof. vm_compute. repeat split. Qed.
