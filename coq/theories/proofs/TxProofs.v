From FS Require Import Sexp Tx.
From Coq Require Import Lia.

Lemma cget_cset_same l c t : (c < length l)%nat -> cget (cset l c t) c = t.
Proof. revert c. induction l as [|x l IH]; intros [|c] H; cbn in *; try lia; [reflexivity|]. apply IH. lia. Qed.
Lemma cget_cset_other l c d t : c <> d -> cget (cset l c t) d = cget l d.
Proof.
  revert c d. induction l as [|x l IH]; intros [|c] [|d] H; cbn; try reflexivity; try congruence.
  apply IH. congruence.
Qed.
Lemma cset_length l c t : length (cset l c t) = length l.
Proof. revert c. induction l as [|x l IH]; intros [|c]; cbn; auto. Qed.

(* worlds that no observation can tell apart *)
Definition weq (w w' : world) : Prop :=
  committed w = committed w' /\ length (conns w) = length (conns w') /\
  forall d, cget (conns w) d = cget (conns w') d.

Lemma weq_refl w : weq w w.
Proof. repeat split; auto. Qed.

Lemma cget_oob l d : (length l <= d)%nat -> cget l d = NoTx.
Proof. intros H. unfold cget. apply nth_overflow. exact H. Qed.

Lemma step_weq w w' co : weq w w' -> snd (step w co) = snd (step w' co) /\ weq (fst (step w co)) (fst (step w' co)).
Proof.
  intros (C & Ln & G). destruct co as [c o]. unfold step. rewrite C, (G c).
  destruct (local (committed w') (cget (conns w') c) o) as [[cm t] x]. cbn [fst snd committed conns]. split; [reflexivity|].
  repeat split; cbn [fst snd committed conns]; [rewrite !cset_length; exact Ln|].
  intros d. destruct (Nat.eq_dec c d) as [->|N].
  - destruct (Nat.ltb_spec d (length (conns w))).
    + rewrite !cget_cset_same by lia. reflexivity.
    + rewrite !cget_oob by (rewrite cset_length; lia). reflexivity.
  - rewrite !cget_cset_other by assumption. apply G.
Qed.

Lemma run_weq h : forall w w', weq w w' -> run w h = run w' h /\ weq (final w h) (final w' h).
Proof.
  induction h as [|co h IH]; intros w w' E; cbn [run final]; [auto using weq_refl|].
  destruct (step_weq w w' co E) as [A B].
  destruct (step w co) as [w1 x] eqn:E1. destruct (step w' co) as [w1' x'] eqn:E2. cbn [fst snd] in *. subst x'.
  destruct (IH _ _ B) as [C D]. rewrite C. auto.
Qed.

(* ---- histories ---- *)
Definition byc (c : nat) (co : nat * op) : bool := Nat.eqb (fst co) c.
Definition others (c : nat) (h : list (nat * op)) : list (nat * op) := filter (fun co => negb (byc c co)) h.

(* the body of a transaction of connection c: c issues only DML, queries and failing statements
   (no BEGIN/COMMIT/ROLLBACK); the other connections do anything *)
Definition body_op (o : op) : bool := match o with Insert _ | Select | Fail => true | _ => false end.
Definition tx_body (c : nat) (h : list (nat * op)) : bool :=
  forallb (fun co => negb (byc c co) || body_op (snd co)) h.

(* c's writes inside the body, in order *)
Fixpoint writes (c : nat) (h : list (nat * op)) : list Z :=
  match h with
  | [] => []
  | (d, Insert r) :: t => if Nat.eqb d c then r :: writes c t else writes c t
  | _ :: t => writes c t
  end.

(* observations of everybody except c *)
Fixpoint run_o (c : nat) (w : world) (h : list (nat * op)) : list obs :=
  match h with
  | [] => []
  | co :: r => let '(w', x) := step w co in if byc c co then run_o c w' r else x :: run_o c w' r
  end.

Definition intx (t : txs) (ws : list Z) : Prop :=
  (t = Begun /\ ws = []) \/ exists sn, t = Active sn ws.

(* w: c is inside a transaction having written ws; w': the same world in which c did nothing *)
Definition sim (c : nat) (ws : list Z) (w w' : world) : Prop :=
  committed w = committed w' /\ length (conns w) = length (conns w') /\ (c < length (conns w))%nat /\
  (forall d, d <> c -> cget (conns w) d = cget (conns w') d) /\
  cget (conns w') c = NoTx /\ intx (cget (conns w) c) ws.

Lemma sim_step_other c ws w w' d o : sim c ws w w' -> d <> c ->
  snd (step w (d, o)) = snd (step w' (d, o)) /\ sim c ws (fst (step w (d, o))) (fst (step w' (d, o))).
Proof.
  intros (C & Ln & Lt & G & N & I) Hd. unfold step. rewrite C, (G d Hd).
  destruct (local (committed w') (cget (conns w') d) o) as [[cm t] x]. cbn [fst snd]. split; [reflexivity|].
  unfold sim. cbn [committed conns]. rewrite !cset_length.
  split; [reflexivity|split; [assumption|split; [assumption|split; [|split]]]].
  - intros e He. destruct (Nat.eq_dec d e) as [->|Ne].
    + destruct (Nat.ltb_spec e (length (conns w))).
      * rewrite !cget_cset_same by lia. reflexivity.
      * rewrite !cget_oob by (rewrite cset_length; lia). reflexivity.
    + rewrite !cget_cset_other by assumption. auto.
  - rewrite cget_cset_other by assumption. exact N.
  - rewrite cget_cset_other by assumption. exact I.
Qed.

Lemma sim_step_body c ws w w' o : sim c ws w w' -> body_op o = true ->
  sim c (ws ++ match o with Insert r => [r] | _ => [] end) (fst (step w (c, o))) w'.
Proof.
  intros (C & Ln & Lt & G & N & I) B. unfold step.
  destruct I as [[E ->]|[sn E]]; rewrite E; destruct o; try discriminate;
    unfold sim; cbn [local fst snd committed conns app];
    (split; [assumption|split; [rewrite cset_length; assumption|split; [rewrite cset_length; assumption|split;
      [intros d Hd; rewrite cget_cset_other by auto; auto|split; [assumption|
       rewrite cget_cset_same by lia; unfold intx; rewrite ?app_nil_r; eauto]]]]]).
Qed.

Lemma writes_cons_c c o mid :
  writes c ((c, o) :: mid) = match o with Insert r => [r] | _ => [] end ++ writes c mid.
Proof. destruct o; simpl; rewrite ?Nat.eqb_refl; reflexivity. Qed.
Lemma writes_cons_other c d o mid : d <> c -> writes c ((d, o) :: mid) = writes c mid.
Proof. intros N. destruct o; simpl; try reflexivity. destruct (Nat.eqb_spec d c); [contradiction|reflexivity]. Qed.

Lemma sim_body c : forall mid ws w w', sim c ws w w' -> tx_body c mid = true ->
  run_o c w mid = run w' (others c mid) /\
  sim c (ws ++ writes c mid) (final w mid) (final w' (others c mid)).
Proof.
  induction mid as [|[d o] mid IH]; intros ws w w' S B.
  - cbn [fst snd committed conns]. rewrite app_nil_r. auto.
  - cbn [tx_body forallb] in B. apply andb_true_iff in B as [B1 B2]. fold (tx_body c mid) in B2.
    cbn [run_o others filter final byc fst snd] in *. unfold byc in *. cbn [fst snd] in *.
    destruct (Nat.eqb_spec d c) as [->|Nd]; cbn [negb] in *.
    + (* a body statement of c *)
      cbn in B1. pose proof (sim_step_body c ws w w' o S B1) as S'.
      destruct (step w (c, o)) as [w1 x] eqn:E1. cbn [fst] in S'.
      destruct (IH _ _ _ S' B2) as [A1 A2]. split; [exact A1|].
      assert (K : ws ++ writes c ((c, o) :: mid) = (ws ++ match o with Insert r => [r] | _ => [] end) ++ writes c mid).
      { rewrite writes_cons_c, app_assoc. reflexivity. }
      rewrite K. exact A2.
    + destruct (sim_step_other c ws w w' d o S Nd) as [X1 X2].
      cbn [run]. destruct (step w (d, o)) as [w1 x] eqn:E1. destruct (step w' (d, o)) as [w1' x'] eqn:E2.
      cbn [fst snd] in *. subst x'. destruct (IH _ _ _ X2 B2) as [A1 A2]. rewrite A1. split; [reflexivity|].
      assert (K : writes c ((d, o) :: mid) = writes c mid).
      { apply writes_cons_other. assumption. }
      rewrite K. cbn [final]. rewrite E2. cbn [fst]. exact A2.
Qed.

Lemma sim_begin c w : cget (conns w) c = NoTx -> (c < length (conns w))%nat ->
  sim c [] (fst (step w (c, Begin))) w.
Proof.
  intros N Lt. unfold step. rewrite N. unfold sim. cbn [local fst snd committed conns].
  split; [reflexivity|split; [apply cset_length|split; [rewrite cset_length; assumption|split; [|split; [assumption|]]]]].
  - intros d Hd. rewrite cget_cset_other by auto. reflexivity.
  - rewrite cget_cset_same by assumption. left. auto.
Qed.

Lemma sim_rollback c ws w w' : sim c ws w w' -> weq (fst (step w (c, Rollback))) w'.
Proof.
  intros (C & Ln & Lt & G & N & I). unfold step.
  assert (E : local (committed w) (cget (conns w) c) Rollback = (committed w, NoTx, OEmpty)).
  { destruct I as [[E _]|[sn E]]; rewrite E; reflexivity. }
  rewrite E. unfold weq. cbn [fst snd committed conns].
  split; [assumption|split; [rewrite cset_length; assumption|]].
  intros d. destruct (Nat.eq_dec c d) as [->|Nd].
  - rewrite cget_cset_same by assumption. auto.
  - rewrite cget_cset_other by assumption. auto.
Qed.

Definition replay (c : nat) (ws : list Z) : list (nat * op) := map (fun r => (c, Insert r)) ws.

Lemma autocommit_replay c : forall ws w, cget (conns w) c = NoTx -> (c < length (conns w))%nat ->
  weq (final w (replay c ws)) {| committed := committed w ++ ws; conns := conns w |}.
Proof.
  induction ws as [|r ws IH]; intros w N Lt.
  - cbn [replay map final]. rewrite app_nil_r. destruct w; apply weq_refl.
  - cbn [replay map final]. fold (replay c ws). unfold step at 1. rewrite N. cbn [local fst snd].
    set (w1 := {| committed := committed w ++ [r]; conns := cset (conns w) c NoTx |}).
    assert (N1 : cget (conns w1) c = NoTx) by (cbn [w1 conns]; apply cget_cset_same; assumption).
    assert (L1 : (c < length (conns w1))%nat) by (cbn [w1 conns]; rewrite cset_length; assumption).
    destruct (IH w1 N1 L1) as (A & B & D). unfold weq. subst w1. cbn [committed conns] in *.
    split; [|split].
    + rewrite A. rewrite <- app_assoc. reflexivity.
    + rewrite B. apply cset_length.
    + intros d. rewrite D. destruct (Nat.eq_dec c d) as [->|Nd].
      * rewrite cget_cset_same by assumption. auto.
      * apply cget_cset_other. assumption.
Qed.

Lemma sim_commit c ws w w' : sim c ws w w' ->
  weq (fst (step w (c, Commit))) {| committed := committed w' ++ ws; conns := conns w' |}.
Proof.
  intros (C & Ln & Lt & G & N & I). unfold step.
  assert (E : local (committed w) (cget (conns w) c) Commit = (committed w ++ ws, NoTx, OEmpty)).
  { destruct I as [[E ->]|[sn E]]; rewrite E; cbn [local]; rewrite ?app_nil_r; reflexivity. }
  rewrite E. unfold weq. cbn [fst snd committed conns].
  split; [congruence|split; [rewrite cset_length; assumption|]].
  intros d. destruct (Nat.eq_dec c d) as [->|Nd].
  - rewrite cget_cset_same by assumption. auto.
  - rewrite cget_cset_other by assumption. auto.
Qed.

Lemma weq_trans a b c : weq a b -> weq b c -> weq a c.
Proof. intros (A1 & A2 & A3) (B1 & B2 & B3). split; [congruence|split; [congruence|]]. intros d. rewrite A3. apply B3. Qed.
Lemma weq_sym a b : weq a b -> weq b a.
Proof. intros (A1 & A2 & A3). split; [auto|split; [auto|]]. intros d. symmetry. apply A3. Qed.

Lemma final_app h1 : forall w h2, final w (h1 ++ h2) = final (final w h1) h2.
Proof. induction h1 as [|co h1 IH]; intros w h2; cbn [app final]; auto. Qed.
Lemma run_app h1 : forall w h2, run w (h1 ++ h2) = run w h1 ++ run (final w h1) h2.
Proof.
  induction h1 as [|co h1 IH]; intros w h2; cbn [app run final]; [reflexivity|].
  destruct (step w co) as [w1 x] eqn:E. cbn [fst app]. rewrite IH. reflexivity.
Qed.

(* ROLLBACK leaves no trace: the others observe, during and after, exactly what they would have
   observed had c never issued the transaction; everything that follows (c's own later statements
   included) is identical; the final worlds are indistinguishable *)
Theorem rollback_no_trace_l : forall w c mid h2,
  cget (conns w) c = NoTx -> (c < length (conns w))%nat -> tx_body c mid = true ->
  let h := (c, Begin) :: mid ++ (c, Rollback) :: h2 in
  let h' := others c mid ++ h2 in
  run_o c w ((c, Begin) :: mid) = run w (others c mid) /\
  run (final w ((c, Begin) :: mid ++ [(c, Rollback)])) h2 = run (final w (others c mid)) h2 /\
  weq (final w h) (final w h').
Proof.
  intros w c mid h2 N Lt B h h'.
  pose proof (sim_begin c w N Lt) as S0.
  destruct (sim_body c mid [] _ _ S0 B) as [O1 S1]. cbn [app] in S1.
  pose proof (sim_rollback c _ _ _ S1) as WQ.
  assert (F1 : final w ((c, Begin) :: mid ++ [(c, Rollback)]) = fst (step (final (fst (step w (c, Begin))) mid) (c, Rollback))).
  { cbn [final]. rewrite final_app. reflexivity. }
  split; [|split].
  - cbn [run_o]. destruct (step w (c, Begin)) as [w1 x] eqn:E. cbn [fst] in *. unfold byc. cbn [fst].
    rewrite Nat.eqb_refl. exact O1.
  - rewrite F1. apply run_weq. exact WQ.
  - unfold h, h'. replace ((c, Begin) :: mid ++ (c, Rollback) :: h2) with (((c, Begin) :: mid ++ [(c, Rollback)]) ++ h2)
      by (cbn [app]; rewrite <- app_assoc; reflexivity).
    rewrite !final_app. rewrite F1. apply run_weq. exact WQ.
Qed.

(* COMMIT publishes everything at once: until the COMMIT the others observe what they would observe
   had c done nothing; from the COMMIT on, everything is as if c had performed its writes right
   there, outside any transaction *)
Theorem commit_atomic_l : forall w c mid h2,
  cget (conns w) c = NoTx -> (c < length (conns w))%nat -> tx_body c mid = true ->
  let h := (c, Begin) :: mid ++ (c, Commit) :: h2 in
  let h' := others c mid ++ replay c (writes c mid) ++ h2 in
  run_o c w ((c, Begin) :: mid) = run w (others c mid) /\
  run (final w ((c, Begin) :: mid ++ [(c, Commit)])) h2 = run (final w (others c mid ++ replay c (writes c mid))) h2 /\
  weq (final w h) (final w h').
Proof.
  intros w c mid h2 N Lt B h h'.
  pose proof (sim_begin c w N Lt) as S0.
  destruct (sim_body c mid [] _ _ S0 B) as [O1 S1]. cbn [app] in S1.
  pose proof (sim_commit c _ _ _ S1) as WQ.
  destruct S1 as (_ & L1 & Lt1 & _ & N1 & _).
  pose proof (autocommit_replay c (writes c mid) (final w (others c mid)) N1 ltac:(lia)) as WR.
  assert (WQ2 : weq (fst (step (final (fst (step w (c, Begin))) mid) (c, Commit)))
                    (final w (others c mid ++ replay c (writes c mid)))).
  { rewrite final_app. eapply weq_trans; [exact WQ|]. apply weq_sym. exact WR. }
  assert (F1 : final w ((c, Begin) :: mid ++ [(c, Commit)]) = fst (step (final (fst (step w (c, Begin))) mid) (c, Commit))).
  { cbn [final]. rewrite final_app. reflexivity. }
  split; [|split].
  - cbn [run_o]. destruct (step w (c, Begin)) as [w1 x] eqn:E. cbn [fst] in *. unfold byc. cbn [fst].
    rewrite Nat.eqb_refl. exact O1.
  - rewrite F1. apply run_weq. exact WQ2.
  - unfold h, h'. replace ((c, Begin) :: mid ++ (c, Commit) :: h2) with (((c, Begin) :: mid ++ [(c, Commit)]) ++ h2)
      by (cbn [app]; rewrite <- app_assoc; reflexivity).
    rewrite (app_assoc (others c mid)). rewrite (final_app _ w h2), (final_app (others c mid ++ replay c (writes c mid)) w h2).
    rewrite F1. apply (proj2 (run_weq h2 _ _ WQ2)).
Qed.

(* inside its transaction a connection sees all of its own writes (whichever cursor issues the query) *)
Theorem read_own_writes_l : forall c mid ws w w', sim c ws w w' -> tx_body c mid = true ->
  exists l, snd (step (final w mid) (c, Select)) = ORows l /\ forall r, In r (ws ++ writes c mid) -> In r l.
Proof.
  intros c mid ws w w' S B. destruct (sim_body c mid ws w w' S B) as [_ (C & Ln & Lt & G & N & I)].
  unfold step. destruct I as [[E Ew]|[sn E]]; rewrite E; cbn [fst snd committed conns].
  - eexists. split; [reflexivity|]. rewrite Ew. intros r [].
  - eexists. split; [reflexivity|]. intros r H. apply in_or_app. auto.
Qed.

(* outside a transaction every statement is committed at once; COMMIT/ROLLBACK are no-ops *)
Theorem autocommit_l : forall w c r, cget (conns w) c = NoTx ->
  committed (fst (step w (c, Insert r))) = committed w ++ [r] /\
  weq (fst (step w (c, Commit))) w /\ snd (step w (c, Commit)) = OStatus /\
  weq (fst (step w (c, Rollback))) w /\ snd (step w (c, Rollback)) = OStatus.
Proof.
  intros w c r N. unfold step. rewrite N. cbn [fst snd committed conns].
  assert (K : weq {| committed := committed w; conns := cset (conns w) c NoTx |} w).
  { repeat split; cbn [fst snd committed conns]; [apply cset_length|]. intros d. destruct (Nat.eq_dec c d) as [->|Nd].
    - destruct (Nat.ltb_spec d (length (conns w))).
      + rewrite cget_cset_same by assumption. auto.
      + rewrite !cget_oob; auto. rewrite cset_length. assumption.
    - apply cget_cset_other. assumption. }
  auto.
Qed.

(* a failing statement inside a transaction keeps the transaction and its writes *)
Theorem failing_stmt_keeps_tx_l : forall w c sn own, cget (conns w) c = Active sn own -> (c < length (conns w))%nat ->
  cget (conns (fst (step w (c, Fail)))) c = Active sn own /\ committed (fst (step w (c, Fail))) = committed w.
Proof. intros w c sn own E Lt. unfold step. rewrite E. cbn [local fst snd committed conns]. rewrite cget_cset_same by assumption. auto. Qed.

Example tx_nonvacuous :
  run (init 2) [(0, Begin); (0, Insert 1); (1, Select); (1, Insert 2); (0, Select); (0, Commit); (1, Select);
                (1, Begin); (1, Insert 3); (0, Select); (1, Rollback); (0, Select); (0, Commit)]%nat
  = [OEmpty; OInserted; ORows []; OInserted; ORows [1]; OEmpty; ORows [2; 1];
     OEmpty; OInserted; ORows [2; 1]; OEmpty; ORows [2; 1]; OStatus].
Proof. vm_compute. reflexivity. Qed.
