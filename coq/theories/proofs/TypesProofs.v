From FS Require Import Sexp Types.

(* the domain on which the table is right: everything except DECIMAL(p,0) *)
Definition dom (t : dtype) : bool := match t with DDecimal _ s => negb (s =? 0) | _ => true end.

Theorem meta_consistent_partial_l : forall t m k, sf_meta t = Some m -> py_kind t = Some k -> dom t = true ->
  expected_py m = k.
Proof.
  intros t m k Hm Hk D. destruct t as [| |p s| | | | | | | | | | |c]; cbn in *; inversion Hm; inversion Hk; subst; try reflexivity.
  unfold expected_py. cbn. apply negb_true_iff in D. rewrite D. reflexivity.
Qed.

(* the full statement is false of the faithful model: a NUMBER(p,0) column is described as FIXED scale 0
   (int) but fetched as Decimal *)
Theorem fixed0_refuted_l : exists t m k, sf_meta t = Some m /\ py_kind t = Some k /\ expected_py m <> k.
Proof. exists (DDecimal 10 0), (mk Fixed (Some 10) (Some 0) None), PDecimal. cbn. repeat split. discriminate. Qed.

(* every type that has a fetchable Python value has a description entry, and conversely *)
Theorem meta_total_on_fetchable_l : forall t, (exists k, py_kind t = Some k) <-> (exists m, sf_meta t = Some m).
Proof. intros t. destruct t; cbn; split; intros [x H]; try discriminate; eauto. Qed.

(* one entry per result column, in order, with the column's name *)
Theorem one_entry_per_column_l : forall cols d, describe cols = Some d ->
  map fst d = map fst cols /\ length d = length cols /\
  forall i c, nth_error cols i = Some c -> exists m, sf_meta (snd c) = Some m /\ nth_error d i = Some (fst c, m).
Proof.
  induction cols as [|c cols IH]; intros d H.
  - cbn in H. inversion H; subst. repeat split. intros [|i] c Hc; discriminate.
  - cbn in H. destruct (sf_meta (snd c)) as [m|] eqn:E; [|discriminate].
    destruct (describe cols) as [l|] eqn:E2; [|unfold describe in E2; rewrite E2 in H; discriminate].
    unfold describe in E2. rewrite E2 in H. inversion H; subst.
    destruct (IH l eq_refl) as (A1 & A2 & A3). cbn. repeat split; try congruence.
    intros [|i] c' Hc; cbn in *; [inversion Hc; subst; eauto|apply A3; assumption].
Qed.

(* description fails exactly when some column has an unmapped type *)
Theorem describe_fails_iff_l : forall cols, describe cols = None <-> exists c, In c cols /\ sf_meta (snd c) = None.
Proof.
  induction cols as [|c cols IH]; cbn.
  - split; [discriminate|intros (c & [] & _)].
  - destruct (sf_meta (snd c)) as [m|] eqn:E.
    + fold (describe cols). destruct (describe cols) as [l|] eqn:E2.
      * split; [discriminate|]. intros (c' & [<-|Hin] & Hn); [congruence|].
        destruct IH as [_ IH]. assert (X : @None (list (str * meta)) = None) by reflexivity.
        specialize (IH (ex_intro _ c' (conj Hin Hn))). discriminate.
      * split; [|reflexivity]. intros _. destruct IH as [IH _]. destruct (IH eq_refl) as (c' & Hin & Hn). eauto.
    + split; [|reflexivity]. intros _. exists c. auto.
Qed.

Example types_nonvacuous :
  describe [(lit "A", DBigint); (lit "b c", DDecimal 10 2); (lit "A", DTimestampTz)] =
    Some [(lit "A", mk Fixed (Some 38) (Some 0) None); (lit "b c", mk Fixed (Some 10) (Some 2) None);
          (lit "A", mk TsTz (Some 0) (Some 9) None)] /\
  describe [(lit "S", DOther 1)] = None.
Proof. vm_compute. split; reflexivity. Qed.

(* ------------------------------------------------------------------ information_schema.columns vs the result metadata *)
Theorem info_name_agrees_partial_l : forall t m, sf_meta t = Some m -> column_dom t = true -> info_name t = Some (sf_name (kind m)).
Proof. intros t m H D. destruct t; try discriminate; cbn in H; injection H as <-; vm_compute; reflexivity. Qed.

Theorem info_precision_agrees_partial_l : forall t m, sf_meta t = Some m -> column_dom t = true -> kind m = Fixed ->
  info_prec t = precision m /\ info_scale t = scale m.
Proof. intros t m H D K. destruct t; try discriminate; cbn in H; injection H as <-; try discriminate; vm_compute; split; reflexivity. Qed.

Theorem info_float_has_no_precision_l : info_prec DDouble = None /\ info_scale DDouble = None.
Proof. vm_compute. split; reflexivity. Qed.

(* a type with no arm in the view keeps DuckDB's own name: the statement is false outside column_dom (no Snowflake statement
   produces a TIMESTAMP_NS column) *)
Lemma info_timestamp_ns_refuted_l : exists t m, sf_meta t = Some m /\ info_name t <> Some (sf_name (kind m)).
Proof. exists DTimestampNs, (mk TsNtz (Some 0) (Some 9) None). split; [reflexivity|]. vm_compute. discriminate. Qed.

(* the metadata computed the way types.py writes it (dict, then the if/elif chain held as data in meta_rules) is sf_meta *)
Theorem sf_meta_by_rules_l : forall t, sf_meta_rules t = sf_meta t.
Proof. intros t. destruct t; vm_compute; reflexivity. Qed.
