From FS Require Import Sexp Errs.

Definition is_reference (c : cause) : bool :=
  match c with NoDatabase | NoSchema | UndefinedVariable | ClosedConnection => false | _ => true end.

(* every reference failure is a Snowflake ProgrammingError with 2003/42S02 or 2043/02000 *)
Theorem reference_failure_code_l : forall c, is_reference c = true ->
  code_of c = (ProgrammingError, 2003, Some st_42S02) \/ code_of c = (ProgrammingError, 2043, Some st_02000).
Proof. intros c H. destruct c; try discriminate; cbn; auto. Qed.

Theorem context_failure_code_l :
  code_of NoDatabase = (ProgrammingError, 90105, Some st_22000) /\
  code_of NoSchema = (ProgrammingError, 90106, Some st_22000) /\
  code_of ClosedConnection = (DatabaseError, 250002, Some st_08003) /\
  fst (fst (code_of UndefinedVariable)) = ProgrammingError.
Proof. repeat split. Qed.

(* cursor.sqlstate shows the state of a failing execute until the next execute resets it: after any
   sequence of executes it is determined by the last one alone *)
Theorem sqlstate_lifecycle_l : forall es e, sq_run (es ++ [e]) = sq_step None e.
Proof.
  intros es e. unfold sq_run. rewrite fold_left_app. cbn [fold_left].
  destruct e; [reflexivity| |reflexivity]. unfold sq_step. reflexivity.
Qed.

Theorem sqlstate_after_success_l : forall es, sq_run (es ++ [ExecOk]) = None.
Proof. intros es. rewrite sqlstate_lifecycle_l. reflexivity. Qed.

Example errs_nonvacuous :
  sq_run [ExecOk; ExecRaises UnknownTable] = Some st_42S02 /\
  sq_run [ExecRaises UnknownTable; ExecRaises NoSchema] = Some st_22000 /\
  sq_run [ExecRaises UnknownColumn; ExecOk] = None.
Proof. vm_compute. repeat split. Qed.
