From FS Require Import Sexp.

Lemma str_eqb_refl a : str_eqb a a = true.
Proof. induction a as [|c a IH]; cbn; [reflexivity|]. rewrite Z.eqb_refl. exact IH. Qed.

Lemma str_eqb_eq a b : str_eqb a b = true -> a = b.
Proof.
  revert b. induction a as [|c a IH]; intros [|d b] H; cbn in H; try discriminate; [reflexivity|].
  apply andb_true_iff in H as [H1 H2]. apply Z.eqb_eq in H1. f_equal; auto.
Qed.

Lemma str_eqb_neq a b : str_eqb a b = false -> a <> b.
Proof. intros H ->. rewrite str_eqb_refl in H. discriminate. Qed.
