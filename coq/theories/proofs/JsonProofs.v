From FS Require Import Sexp Json.
From FS Require Import Common.
From Coq Require Import Lia Arith ZifyBool.

Lemma navigate_app_l d p : forall q, navigate d (p ++ q) = match navigate d p with Some d' => navigate d' q | None => None end.
Proof. revert d. induction p as [|st p IH]; intros d q; cbn; [reflexivity|]. destruct (get1 d st); [apply IH|reflexivity]. Qed.

(* ---- the two key lexers ---- *)
Definition starts_delim (l : list pchar) : Prop :=
  match l with [] => True | C c :: _ => (c =? c_dot) || (c =? c_lb) = true | N _ :: _ => True end.

Lemma take_plain_ok s : forall acc tail, forallb plain_char s = true -> starts_delim tail ->
  take_plain (map C s ++ tail) acc = (acc ++ s, tail).
Proof.
  induction s as [|c s IH]; intros acc tail H T; cbn.
  - rewrite app_nil_r. destruct tail as [|[c|i] tail]; cbn in *; [reflexivity| |reflexivity]. rewrite T. reflexivity.
  - cbn in H. apply andb_true_iff in H. destruct H as [Hc Hs]. unfold plain_char in Hc. apply negb_true_iff in Hc.
    apply orb_false_iff in Hc. destruct Hc as [Hc _]. rewrite Hc. rewrite IH by assumption. rewrite <- app_assoc. reflexivity.
Qed.

Lemma take_quote_ok s : forall acc tail, forallb (fun c => negb (c =? c_quote)) s = true ->
  take_until_quote (map C s ++ C c_quote :: tail) acc = Some (acc ++ s, tail).
Proof.
  induction s as [|c s IH]; intros acc tail H; cbn.
  - rewrite app_nil_r. reflexivity.
  - cbn in H. apply andb_true_iff in H. destruct H as [Hc Hs]. apply negb_true_iff in Hc. rewrite Hc.
    rewrite IH by assumption. rewrite <- app_assoc. reflexivity.
Qed.

Lemma render_starts p : starts_delim (flat_map render_step p).
Proof. destruct p as [|[s|s|i] p]; cbn; auto. Qed.

Lemma parse_render p : forall fuel, (length p < fuel)%nat -> dom_path p = true -> parse_steps fuel (flat_map render_step p) = Some p.
Proof.
  induction p as [|st p IH]; intros fuel F D; destruct fuel as [|f]; try lia; [reflexivity|].
  cbn in D. apply andb_true_iff in D. destruct D as [Ds Dp]. cbn in F.
  assert (R : parse_steps f (flat_map render_step p) = Some p) by (apply IH; [lia|exact Dp]).
  destruct st as [s|s|i]; cbn [flat_map render_step app parse_steps].
  - (* unquoted key *)
    cbn in Ds. destruct s as [|c s]; [discriminate|]. cbn [map app].
    assert (Hc : plain_char c = true /\ forallb plain_char s = true) by (cbn in Ds; apply andb_true_iff in Ds; exact Ds).
    destruct Hc as [Hc Hs]. unfold plain_char in Hc. apply negb_true_iff in Hc. apply orb_false_iff in Hc. destruct Hc as [Hc Hq].
    apply orb_false_iff in Hc. destruct Hc as [Hd Hb].
    assert (E1 : (c_dot =? c_dot) = true) by reflexivity. rewrite E1. rewrite Hq.
    change (C c :: map C s ++ flat_map render_step p) with (map C (c :: s) ++ flat_map render_step p).
    rewrite take_plain_ok; [|cbn; unfold plain_char; rewrite Hd, Hb, Hq; cbn; exact Hs|apply render_starts].
    cbn [app]. rewrite R. reflexivity.
  - (* quoted key *)
    cbn in Ds. assert (E1 : (c_dot =? c_dot) = true) by reflexivity. rewrite E1.
    assert (E2 : (c_quote =? c_quote) = true) by reflexivity. rewrite E2.
    rewrite <- app_assoc. cbn [app]. rewrite take_quote_ok by exact Ds. cbn [app]. rewrite R. reflexivity.
  - (* index *)
    assert (E1 : (c_lb =? c_dot) = false) by reflexivity. rewrite E1.
    assert (E2 : (c_lb =? c_lb) = true) by reflexivity. rewrite E2.
    assert (E3 : (c_rb =? c_rb) = true) by reflexivity. rewrite E3. rewrite R. reflexivity.
Qed.

Lemma render_length p : (length p <= length (flat_map render_step p))%nat.
Proof.
  induction p as [|st p IH]; cbn; [lia|]. rewrite app_length. destruct st; cbn; lia.
Qed.

(* DuckDB reads back exactly the steps that were written, at ANY depth *)
Theorem path_roundtrip_l : forall p, dom_path p = true -> parse_path (render_path p) = Some p.
Proof.
  intros p D. unfold parse_path, render_path. assert (E : (c_dollar =? c_dollar) = true) by reflexivity. rewrite E.
  apply parse_render; [|exact D]. pose proof (render_length p). lia.
Qed.

(* hence the rewritten path access is navigation of the document, for every document and every path of any depth *)
Theorem path_correct_partial_l : forall d p, dom_path p = true -> fake_extract d p = Some (navigate d p).
Proof. intros d p D. unfold fake_extract. rewrite path_roundtrip_l by exact D. reflexivity. Qed.

(* a bracket key containing a dot is split in two *)
Lemma path_dot_refuted_l : exists d p, fake_extract d p <> Some (navigate d p).
Proof. exists (JObj [(lit "k.z", JNum 2)]), [KeyU (lit "k.z")]. vm_compute. discriminate. Qed.

(* missing paths and non-matching kinds give NULL under every cast *)
Theorem missing_is_null_l : forall d p, navigate d p = None ->
  as_json (navigate d p) = VNull /\ as_text (navigate d p) = VNull /\ as_int (navigate d p) = VNull /\ as_bool (navigate d p) = VNull.
Proof. intros d p H. rewrite H. repeat split. Qed.

Theorem wrong_kind_is_missing_l : forall d st, (forall l, d <> JObj l) -> (forall l, d <> JArr l) -> get1 d st = None.
Proof. intros d st H1 H2. destruct d; destruct st; try reflexivity; try (exfalso; eapply H1; reflexivity); exfalso; eapply H2; reflexivity. Qed.

(* extracted strings lose their JSON quotes exactly when converted to text *)
Theorem text_strips_quotes_iff_string_l : forall j, j <> JNull ->
  (forall s, j = JStr s -> as_text (Some j) = VText s /\ as_json (Some j) = VJson (JStr s)) /\
  ((forall s, j <> JStr s) -> as_text (Some j) = VJson j /\ as_json (Some j) = VJson j).
Proof.
  intros j Hn. split.
  - intros s ->. split; reflexivity.
  - intros Hs. destruct j; try (split; reflexivity); [contradiction|]. exfalso. eapply Hs. reflexivity.
Qed.

Theorem array_size_partial_l : forall l, l <> [] -> array_size_fake (Some (JArr l)) = array_size_spec (Some (JArr l)).
Proof. intros l H. destruct l as [|x l]; [contradiction|]. cbn [array_size_fake array_size_spec length]. rewrite Nat2Z.inj_succ. destruct (Z.succ (Z.of_nat (length l)) =? 0) eqn:E; [lia|reflexivity]. Qed.
Lemma array_size_empty_refuted_l : array_size_fake (Some (JArr [])) <> array_size_spec (Some (JArr [])).
Proof. vm_compute. discriminate. Qed.
Theorem array_size_non_array_l : forall o, (forall l, o <> Some (JArr l)) -> array_size_fake o = None /\ array_size_spec o = None.
Proof. intros o H. destruct o as [[]|]; try (split; reflexivity). exfalso. eapply H. reflexivity. Qed.

Theorem object_construct_partial_l : forall pairs, oc_dom pairs = true -> oc_fake pairs = oc_spec pairs.
Proof.
  intros pairs D. unfold oc_fake, oc_spec. f_equal. induction pairs as [|[k a] pairs IH]; cbn; [reflexivity|].
  cbn in D. apply andb_true_iff in D. destruct D as [D1 D2]. rewrite IH by exact D2.
  destruct a as [j| |[j|]]; try reflexivity. discriminate.
Qed.
Lemma object_construct_refuted_l : exists pairs, oc_fake pairs <> oc_spec pairs.
Proof. exists [(lit "a", OLit (JNum 1)); (lit "b", OExpr None)]. vm_compute. discriminate. Qed.

(* FLATTEN yields every element once, in order; anything but an array yields no rows *)
Theorem flatten_each_once_l : forall l, flatten (Some (JArr l)) = Some l.
Proof. reflexivity. Qed.

Definition ex_doc : json :=
  JObj [(lit "a", JObj [(lit "b", JArr [JNum 10; JObj [(lit "c", JStr (lit "x y"))]; JNull; JBool true]); (lit "s", JStr (lit "Str"))]);
        (lit "k y", JNum 1); (lit "k", JStr (lit "top"))].
Lemma json_nonvacuous_l :
  dom_path [KeyU (lit "a"); KeyU (lit "b"); Idx 1; KeyQ (lit "c")] = true /\
  fake_extract ex_doc [KeyU (lit "a"); KeyU (lit "b"); Idx 1; KeyQ (lit "c")] = Some (Some (JStr (lit "x y"))) /\
  fake_extract ex_doc [KeyQ (lit "k y")] = Some (Some (JNum 1)) /\
  fake_extract ex_doc [KeyU (lit "a"); KeyU (lit "zz"); Idx 0] = Some None /\
  as_text (navigate ex_doc [KeyU (lit "k")]) = VText (lit "top").
Proof. vm_compute. repeat split. Qed.
