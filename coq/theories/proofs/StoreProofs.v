From FS Require Import Sexp Types Store.
From Coq Require Import Lia ZifyBool.

(* the one place where the mapped DuckDB type is narrower than the Snowflake type *)
Definition vdom (t : sftype) (v : value) : bool :=
  match t, v with
  | TIntFamily, VNum u _ => (- 2 ^ 63 <=? u) && (u <? 2 ^ 63)
  | _, _ => true
  end.

Lemma pow10_mono p : 1 <= p <= 38 -> 10 ^ p <= 10 ^ 38.
Proof. intros H. apply Z.pow_le_mono_r; lia. Qed.

(* every value Snowflake accepts for the declared type fits the DuckDB column type it is mapped to *)
Theorem stored_partial_l : forall t v, sf_dom t v = true -> vdom t v = true -> duck_dom (map_type t) v = true.
Proof.
  intros t v H D. destruct t, v; cbn in *; try discriminate; try reflexivity;
    unfold abs_lt_pow10 in *;
    repeat match goal with
    | H : (_ && _) = true |- _ => apply andb_true_iff in H; destruct H
    end; repeat (apply andb_true_iff; split); try assumption; try lia.
Qed.

(* the full statement (without vdom) is false: the integer family is NUMBER(38,0) in Snowflake but int64 here *)
Theorem int_family_refuted_l : exists v, sf_dom TIntFamily v = true /\ duck_dom (map_type TIntFamily) v = false.
Proof. exists (VNum (2 ^ 63) 0). split; vm_compute; reflexivity. Qed.

(* the Python kind read back is the connector's, except for NUMBER(p,0) with explicit parameters *)
Definition kdom (t : sftype) : bool := match t with TNumber _ s => negb (s =? 0) | _ => true end.

Theorem pykind_partial_l : forall t, kdom t = true -> py_kind (map_type t) = Some (connector_kind t).
Proof.
  intros t H. destruct t; cbn in *; try reflexivity. apply negb_true_iff in H. rewrite H. reflexivity.
Qed.

Theorem fixed0_pytype_refuted_l : exists t, py_kind (map_type t) <> Some (connector_kind t).
Proof. exists (TNumber 10 0). cbn. discriminate. Qed.

(* full-precision edges are inside the domain *)
Example store_nonvacuous :
  sf_dom (TNumber 38 37) (VNum (10 ^ 38 - 1) 37) = true /\ duck_dom (map_type (TNumber 38 37)) (VNum (10 ^ 38 - 1) 37) = true /\
  sf_dom TIntFamily (VNum (2 ^ 63 - 1) 0) = true /\ vdom TIntFamily (VNum (2 ^ 63 - 1) 0) = true /\
  sf_dom TTsNtz (VTs (-62135596800000000)) = true /\ duck_dom (map_type TTsNtz) (VTs (-62135596800000000)) = true.
Proof. vm_compute. repeat split. Qed.

(* rows written are returned exactly once (over the DML model of C04) *)
From FS Require Import Dml DmlProofs.
Lemma written_rows_once_l : forall d t c rows,
  let d' := fst (engine d (InsertValues t c rows)) in
  tget d' t = tget d t ++ map (place c) rows /\ length (tget d' t) = (length (tget d t) + length rows)%nat.
Proof. intros d t c rows. destruct (insert_exact_l d t c rows) as (H1 & H2 & H3). cbv zeta in *. rewrite H2 in H3. split; assumption. Qed.
Lemma copied_rows_once_l : forall d t c src p,
  let d' := fst (engine d (InsertSelect t c src p)) in
  tget d' t = tget d t ++ map (place c) (filter (holds p) (tget d src)).
Proof. intros d t c src p. exact (proj1 (insert_select_exact_l d t c src p)). Qed.
