From FS Require Import Sexp Meta.
From FS Require Import Common.
From Coq Require Import Lia Arith.

(* ------------------------------------------------------------------ keys and association lists *)
Lemma key_eqb_refl k : key_eqb k k = true.
Proof. induction k as [|x k IH]; cbn; [reflexivity|]. rewrite str_eqb_refl. exact IH. Qed.

Lemma key_eqb_eq a : forall b, key_eqb a b = true -> a = b.
Proof.
  induction a as [|x a IH]; intros [|y b] H; cbn in H; try discriminate; [reflexivity|].
  apply andb_true_iff in H. destruct H as [H1 H2]. apply str_eqb_eq in H1. f_equal; auto.
Qed.

Lemma str_eqb_sym a b : str_eqb a b = str_eqb b a.
Proof.
  destruct (str_eqb a b) eqn:E.
  - apply str_eqb_eq in E. subst. symmetry. apply str_eqb_refl.
  - destruct (str_eqb b a) eqn:E'; [|reflexivity]. apply str_eqb_eq in E'. subst. rewrite str_eqb_refl in E. discriminate.
Qed.

Lemma key_eqb_sym a b : key_eqb a b = key_eqb b a.
Proof.
  destruct (key_eqb a b) eqn:E.
  - apply key_eqb_eq in E. subst. symmetry. apply key_eqb_refl.
  - destruct (key_eqb b a) eqn:E'; [|reflexivity]. apply key_eqb_eq in E'. subst. rewrite key_eqb_refl in E. discriminate.
Qed.

Lemma key_eqb_app_last a : forall b x y, length a = length b -> key_eqb (a ++ [x]) (b ++ [y]) = key_eqb a b && str_eqb x y.
Proof.
  induction a as [|p a IH]; intros [|q b] x y H; cbn in H; try discriminate; cbn.
  - rewrite andb_true_r. reflexivity.
  - rewrite IH by lia. rewrite andb_assoc. reflexivity.
Qed.

Lemma lookup_remove_if {X} (P : key -> bool) (m : amap X) k : lookup (remove_if P m) k = if P k then None else lookup m k.
Proof.
  unfold remove_if. induction m as [|[k' v] m IH]; cbn; [destruct (P k); reflexivity|].
  destruct (P k') eqn:Pk'; cbn.
  - rewrite IH. destruct (key_eqb k' k) eqn:E; [|reflexivity]. apply key_eqb_eq in E. subst. rewrite Pk'. reflexivity.
  - rewrite IH. destruct (key_eqb k' k) eqn:E; [|reflexivity]. apply key_eqb_eq in E. subst. rewrite Pk'. reflexivity.
Qed.

Lemma lookup_upsert {X} (m : amap X) k v k' : lookup (upsert m k v) k' = if key_eqb k k' then Some v else lookup m k'.
Proof.
  unfold upsert. cbn. destruct (key_eqb k k') eqn:E; [reflexivity|]. rewrite lookup_remove_if. rewrite E. reflexivity.
Qed.

Lemma firstn3 (k : key) : length k = 3%nat -> firstn 3 k = k.
Proof. intros H. apply firstn_all2. lia. Qed.
Lemma firstn3_app (k : key) c : length k = 3%nat -> firstn 3 (k ++ [c]) = k.
Proof. intros H. destruct k as [|a [|b [|e [|? ?]]]]; cbn in H; try discriminate. reflexivity. Qed.

Lemma of_table_3 k k' : length k' = 3%nat -> of_table k k' = key_eqb k k'.
Proof. intros H. unfold of_table. rewrite firstn3 by exact H. apply key_eqb_sym. Qed.
Lemma of_table_4 k k' c : length k' = 3%nat -> of_table k (k' ++ [c]) = key_eqb k k'.
Proof. intros H. unfold of_table. rewrite firstn3_app by exact H. apply key_eqb_sym. Qed.
Lemma of_schema_4 d s (k' : key) c : length k' = 3%nat -> of_schema d s (k' ++ [c]) = of_schema d s k'.
Proof. intros H. destruct k' as [|a [|b [|e [|? ?]]]]; cbn in H; try discriminate. reflexivity. Qed.

(* ------------------------------------------------------------------ columns *)
Lemma find_col_app cols c x : find_col (cols ++ [x]) c =
  match find_col cols c with Some y => Some y | None => if str_eqb (cname x) c then Some x else None end.
Proof.
  unfold find_col. induction cols as [|y cols IH]; cbn; [reflexivity|].
  destruct (str_eqb (cname y) c); [reflexivity|exact IH].
Qed.

Lemma nodup_find_none x r : negb (existsb (fun y => str_eqb (cname y) (cname x)) r) = true -> find_col r (cname x) = None.
Proof.
  intros H. apply negb_true_iff in H. unfold find_col. induction r as [|y r IH]; cbn; [reflexivity|].
  cbn in H. apply orb_false_iff in H. destruct H as [H1 H2]. rewrite H1. apply IH. exact H2.
Qed.

Lemma nodup_app_last cols x : nodup_names cols = true -> find_col cols (cname x) = None -> nodup_names (cols ++ [x]) = true.
Proof.
  induction cols as [|y cols IH]; intros H F; cbn; [reflexivity|].
  cbn in H. apply andb_true_iff in H. destruct H as [H1 H2].
  unfold find_col in F. cbn in F. destruct (str_eqb (cname y) (cname x)) eqn:E; [discriminate|].
  rewrite IH by assumption. rewrite andb_true_r. rewrite existsb_app. cbn. rewrite orb_false_r.
  apply negb_true_iff in H1. rewrite H1. cbn.
  destruct (str_eqb (cname x) (cname y)) eqn:E'; [|reflexivity]. apply str_eqb_eq in E'. rewrite E' in E. rewrite str_eqb_refl in E. discriminate.
Qed.


(* ------------------------------------------------------------------ re-keyed side tables (renames) *)
Lemma str_eqb_spec a b : reflect (a = b) (str_eqb a b).
Proof.
  destruct (str_eqb a b) eqn:E; constructor; [apply str_eqb_eq; exact E|apply str_eqb_neq; exact E].
Qed.
Lemma key_eqb_spec a b : reflect (a = b) (key_eqb a b).
Proof.
  destruct (key_eqb a b) eqn:E; constructor; [apply key_eqb_eq; exact E|].
  intros ->. rewrite key_eqb_refl in E. discriminate.
Qed.

Lemma key_eqb_app a : forall b s t, length a = length b -> key_eqb (a ++ s) (b ++ t) = key_eqb a b && key_eqb s t.
Proof.
  induction a as [|p a IH]; intros [|q b] s t H; cbn in H; try discriminate; cbn; [reflexivity|].
  rewrite IH by lia. rewrite andb_assoc. reflexivity.
Qed.

Lemma split3 (k : key) suf : length k = 3%nat -> firstn 3 (k ++ suf) = k /\ skipn 3 (k ++ suf) = suf.
Proof. intros H. destruct k as [|a [|b [|e [|? ?]]]]; cbn in H; try discriminate. split; reflexivity. Qed.

Lemma of_table_app k k' suf : length k' = 3%nat -> of_table k (k' ++ suf) = key_eqb k' k.
Proof. intros H. unfold of_table. rewrite (proj1 (split3 k' suf H)). reflexivity. Qed.

Lemma lookup_rekey_eq {X} f (m : amap X) x y :
  (forall p, In p m -> key_eqb (f (fst p)) x = key_eqb (fst p) y) -> lookup (rekey f m) x = lookup m y.
Proof.
  induction m as [|[k v] m IH]; intros H; cbn; [reflexivity|].
  pose proof (H (k, v) (or_introl eq_refl)) as Hh. cbn [fst] in Hh. rewrite Hh. destruct (key_eqb k y); [reflexivity|].
  apply IH. intros p Hp. apply H. right. exact Hp.
Qed.

Lemma lookup_rekey_none {X} f (m : amap X) x :
  (forall p, In p m -> key_eqb (f (fst p)) x = false) -> lookup (rekey f m) x = None.
Proof.
  induction m as [|[k v] m IH]; intros H; cbn; [reflexivity|].
  pose proof (H (k, v) (or_introl eq_refl)) as Hh. cbn [fst] in Hh. rewrite Hh. apply IH. intros p Hp. apply H. right. exact Hp.
Qed.

Lemma in_remove_if {X} P (m : amap X) p : In p (remove_if P m) -> P (fst p) = false.
Proof. unfold remove_if. intros H. apply filter_In in H. destruct H as [_ H]. apply negb_true_iff in H. exact H. Qed.

(* UPDATE _fs_columns_ext SET ext_column_name = c' WHERE ... = c, after deleting any row of c' *)
Lemma lookup_recol k c c' (m : amap Z) k2 x : length k = 3%nat -> length k2 = 3%nat -> c <> c' ->
  lookup (rekey (recol k c c') (remove_if (key_eqb (k ++ [c'])) m)) (k2 ++ [x]) =
  if key_eqb k k2 then (if str_eqb x c' then lookup m (k ++ [c]) else if str_eqb x c then None else lookup m (k2 ++ [x]))
  else lookup m (k2 ++ [x]).
Proof.
  intros Hk Hk2 Hcc.
  assert (App : forall (a b : key) (u v : str), length a = 3%nat -> length b = 3%nat -> a ++ [u] = b ++ [v] -> a = b /\ u = v).
  { intros a b u v Ha Hb E. apply app_inj_tail in E. exact E. }
  destruct (key_eqb_spec k k2) as [<-|Nk].
  - destruct (str_eqb_spec x c') as [->|Nx'].
    + rewrite (lookup_rekey_eq _ _ _ (k ++ [c])).
      * rewrite lookup_remove_if. destruct (key_eqb_spec (k ++ [c']) (k ++ [c])) as [E|_]; [|reflexivity].
        apply App in E; try assumption. destruct E as [_ E]. congruence.
      * intros p Hp. apply in_remove_if in Hp. unfold recol.
        destruct (key_eqb_spec (fst p) (k ++ [c])) as [E|N]; [apply key_eqb_refl|].
        destruct (key_eqb_spec (fst p) (k ++ [c'])) as [E|_]; [|reflexivity].
        rewrite E, key_eqb_refl in Hp. discriminate.
    + destruct (str_eqb_spec x c) as [->|Nx].
      * apply lookup_rekey_none. intros p Hp. unfold recol.
        destruct (key_eqb_spec (fst p) (k ++ [c])) as [E|N].
        -- destruct (key_eqb_spec (k ++ [c']) (k ++ [c])) as [E'|_]; [|reflexivity].
           apply App in E'; try assumption. destruct E' as [_ E']. congruence.
        -- destruct (key_eqb_spec (fst p) (k ++ [c])); [contradiction|reflexivity].
      * rewrite (lookup_rekey_eq _ _ _ (k ++ [x])).
        -- rewrite lookup_remove_if. destruct (key_eqb_spec (k ++ [c']) (k ++ [x])) as [E|_]; [|reflexivity].
           apply App in E; try assumption. destruct E as [_ E]. congruence.
        -- intros p Hp. unfold recol. destruct (key_eqb_spec (fst p) (k ++ [c])) as [E|N]; [|reflexivity].
           rewrite E. destruct (key_eqb_spec (k ++ [c']) (k ++ [x])) as [E1|_].
           ++ apply App in E1; try assumption. destruct E1 as [_ E1]. congruence.
           ++ destruct (key_eqb_spec (k ++ [c]) (k ++ [x])) as [E2|_]; [|reflexivity].
              apply App in E2; try assumption. destruct E2 as [_ E2]. congruence.
  - rewrite (lookup_rekey_eq _ _ _ (k2 ++ [x])).
    + rewrite lookup_remove_if. destruct (key_eqb_spec (k ++ [c']) (k2 ++ [x])) as [E|_]; [|reflexivity].
      apply App in E; try assumption. destruct E as [E _]. contradiction.
    + intros p Hp. unfold recol. destruct (key_eqb_spec (fst p) (k ++ [c])) as [E|N]; [|reflexivity].
      rewrite E. destruct (key_eqb_spec (k ++ [c']) (k2 ++ [x])) as [E1|_].
      * apply App in E1; try assumption. destruct E1 as [E1 _]. contradiction.
      * destruct (key_eqb_spec (k ++ [c]) (k2 ++ [x])) as [E2|_]; [|reflexivity].
        apply App in E2; try assumption. destruct E2 as [E2 _]. contradiction.
Qed.

(* UPDATE ... SET ext_table_name = k' WHERE ... = k, after deleting the rows of k'; suf = [] (comments) or [column] *)
Lemma eq_app_of_table (key' a : key) suf : length a = 3%nat -> key' = a ++ suf -> of_table a key' = true.
Proof. intros Ha ->. rewrite of_table_app by exact Ha. apply key_eqb_refl. Qed.

Lemma lookup_retable {X} k k' (m : amap X) k2 suf : length k = 3%nat -> length k' = 3%nat -> length k2 = 3%nat -> k <> k' ->
  lookup (rekey (retable k k') (remove_if (of_table k') m)) (k2 ++ suf) =
  if key_eqb k' k2 then lookup m (k ++ suf) else if key_eqb k k2 then None else lookup m (k2 ++ suf).
Proof.
  intros Hk Hk' Hk2 Hne.
  assert (Dec : forall key', of_table k key' = true -> key' = k ++ skipn 3 key').
  { intros key' H. unfold of_table in H. apply key_eqb_eq in H. rewrite <- H at 1. symmetry. apply firstn_skipn. }
  destruct (key_eqb_spec k' k2) as [<-|N'].
  - rewrite (lookup_rekey_eq _ _ _ (k ++ suf)).
    + rewrite lookup_remove_if, of_table_app by exact Hk. destruct (key_eqb_spec k k'); [contradiction|reflexivity].
    + intros p Hp. apply in_remove_if in Hp. unfold retable. destruct (of_table k (fst p)) eqn:Ot.
      * rewrite (Dec _ Ot) at 2. rewrite !key_eqb_app by congruence. rewrite !key_eqb_refl. reflexivity.
      * destruct (key_eqb_spec (fst p) (k' ++ suf)) as [E|_].
        -- rewrite (eq_app_of_table _ _ _ Hk' E) in Hp. discriminate.
        -- destruct (key_eqb_spec (fst p) (k ++ suf)) as [E|_]; [|reflexivity].
           rewrite (eq_app_of_table _ _ _ Hk E) in Ot. discriminate.
  - destruct (key_eqb_spec k k2) as [<-|N].
    + apply lookup_rekey_none. intros p Hp. unfold retable. destruct (of_table k (fst p)) eqn:Ot.
      * rewrite key_eqb_app by congruence. destruct (key_eqb_spec k' k); [congruence|reflexivity].
      * destruct (key_eqb_spec (fst p) (k ++ suf)) as [E|_]; [|reflexivity].
        rewrite (eq_app_of_table _ _ _ Hk E) in Ot. discriminate.
    + rewrite (lookup_rekey_eq _ _ _ (k2 ++ suf)).
      * rewrite lookup_remove_if, of_table_app by exact Hk2. destruct (key_eqb_spec k2 k'); [congruence|reflexivity].
      * intros p Hp. unfold retable. destruct (of_table k (fst p)) eqn:Ot; [|reflexivity].
        rewrite key_eqb_app by congruence. destruct (key_eqb_spec k' k2); [contradiction|]. cbn.
        destruct (key_eqb_spec (fst p) (k2 ++ suf)) as [E|_]; [|reflexivity].
        rewrite E, of_table_app in Ot by exact Hk2. apply key_eqb_eq in Ot. congruence.
Qed.

(* ------------------------------------------------------------------ dropped / renamed columns in the declarations *)
Lemma find_col_drop cols c x : find_col (filter (fun y => negb (str_eqb (cname y) c)) cols) x =
  if str_eqb x c then None else find_col cols x.
Proof.
  unfold find_col. induction cols as [|y r IH]; cbn; [destruct (str_eqb x c); reflexivity|].
  destruct (str_eqb_spec (cname y) c) as [E|N]; cbn.
  - rewrite IH. destruct (str_eqb_spec x c) as [_|Nx]; [reflexivity|].
    destruct (str_eqb_spec (cname y) x); [congruence|reflexivity].
  - destruct (str_eqb_spec (cname y) x) as [E|Nx].
    + destruct (str_eqb_spec x c); [congruence|reflexivity].
    + exact IH.
Qed.

Definition text_len (o : option coldef) : option Z :=
  match o with Some {| cty := TText d |} => Some (dflt d) | _ => None end.

Lemma find_col_rename cols c c' x : find_col cols c' = None ->
  text_len (find_col (rename_col cols c c') x) =
  if str_eqb x c' then text_len (find_col cols c) else if str_eqb x c then None else text_len (find_col cols x).
Proof.
  unfold find_col, rename_col. induction cols as [|y r IH]; cbn; intros H.
  - destruct (str_eqb x c'); [reflexivity|]. destruct (str_eqb x c); reflexivity.
  - destruct (str_eqb_spec (cname y) c') as [E|Nc']; [discriminate|]. specialize (IH H).
    destruct (str_eqb_spec (cname y) c) as [Ec|Nc]; cbn.
    + destruct (str_eqb_spec c' x) as [<-|Nx].
      * destruct (str_eqb_spec c' c'); [|congruence]. destruct y as [n [d|z]]; reflexivity.
      * rewrite IH. destruct (str_eqb_spec x c'); [congruence|].
        destruct (str_eqb_spec x c) as [_|Nxc]; [reflexivity|].
        destruct (str_eqb_spec (cname y) x); [congruence|reflexivity].
    + destruct (str_eqb_spec (cname y) x) as [Ex|Nx].
      * destruct (str_eqb_spec x c'); [congruence|]. destruct (str_eqb_spec x c); [congruence|reflexivity].
      * exact IH.
Qed.

Lemma len_spec_alt st k c : len_spec st k c = match lookup (live st) k with Some t => text_len (find_col (tcols t) c) | None => None end.
Proof. reflexivity. Qed.

Lemma put_lengths_cons k x r base : put_lengths k (x :: r) base =
  match cty x with TText d => upsert (put_lengths k r base) (k ++ [cname x]) (dflt d) | TOther _ => put_lengths k r base end.
Proof. reflexivity. Qed.

Lemma put_lengths_lookup k cols : nodup_names cols = true -> length k = 3%nat -> forall base k' c, length k' = 3%nat ->
  lookup (put_lengths k cols base) (k' ++ [c]) =
  if key_eqb k k' then match text_len (find_col cols c) with Some n => Some n | None => lookup base (k' ++ [c]) end
  else lookup base (k' ++ [c]).
Proof.
  intros Hnd Hk base k' c Hk'. induction cols as [|x r IH].
  - cbn. destruct (key_eqb k k'); reflexivity.
  - cbn in Hnd. apply andb_true_iff in Hnd. destruct Hnd as [Hx Hr]. specialize (IH Hr).
    rewrite put_lengths_cons. unfold find_col. cbn [find]. fold (find_col r c).
    destruct (cty x) as [d|z] eqn:Tx.
    + rewrite lookup_upsert. rewrite key_eqb_app_last by congruence.
      destruct (key_eqb k k') eqn:Ek; cbn.
      * destruct (str_eqb (cname x) c) eqn:Ec.
        -- destruct x as [n t]. cbn in *. subst t. reflexivity.
        -- exact IH.
      * exact IH.
    + destruct (key_eqb k k') eqn:Ek; [|exact IH].
      destruct (str_eqb (cname x) c) eqn:Ec.
      * apply str_eqb_eq in Ec. subst c. rewrite IH. rewrite (nodup_find_none _ _ Hx). cbn.
        destruct x as [n t]. cbn in *. subst t. reflexivity.
      * exact IH.
Qed.

(* ------------------------------------------------------------------ the invariant: side tables = function of the declarations *)
Definition Inv (st : state) : Prop :=
  (forall k, length k = 3%nat -> comment_fake st k = comment_spec st k) /\
  (forall k c, length k = 3%nat -> len_fake st k c = len_spec st k c).

Lemma inv_init : Inv init.
Proof. split; intros; reflexivity. Qed.

Lemma inv_step st o : Inv st -> dom_at st o = true -> Inv (step st o).
Proof.
  intros (I1 & I2) D. destruct o as [rep k cols cm|k|d s|k c|k col|k c|k c c'|k k'|k src]; cbn in D; cbn [step].
  - (* CREATE [OR REPLACE] TABLE *)
    apply Nat.eqb_eq in D.
    destruct (negb (nodup_names cols) || match lookup (live st) k with Some _ => negb rep | None => false end) eqn:G; [split; assumption|].
    apply orb_false_iff in G. destruct G as [G1 G2]. apply negb_false_iff in G1.
    unfold Inv, comment_fake, comment_spec, len_fake, len_spec. cbn [live side_c side_l]. split.
    + intros k' Hk'.
      assert (B : lookup (if rep then remove_if (of_table k) (side_c st) else side_c st) k' =
                  if key_eqb k k' then None else lookup (side_c st) k').
      { destruct rep.
        - rewrite lookup_remove_if, of_table_3 by exact Hk'. reflexivity.
        - destruct (key_eqb k k') eqn:E; [|reflexivity]. apply key_eqb_eq in E. subst k'.
          specialize (I1 k D). unfold comment_fake, comment_spec in I1. rewrite I1.
          destruct (lookup (live st) k); [discriminate|reflexivity]. }
      destruct cm as [x|]; cbn [put_comment tcomment].
      * rewrite !lookup_upsert. rewrite B. destruct (key_eqb k k'); [reflexivity|]. apply (I1 k' Hk').
      * rewrite lookup_upsert. rewrite B. destruct (key_eqb k k') eqn:E; [reflexivity|]. apply (I1 k' Hk').
    + intros k' c Hk'. rewrite (put_lengths_lookup k cols G1 D _ k' c Hk'). rewrite lookup_upsert.
      assert (B : lookup (if rep then remove_if (of_table k) (side_l st) else side_l st) (k' ++ [c]) =
                  if key_eqb k k' then None else lookup (side_l st) (k' ++ [c])).
      { destruct rep.
        - rewrite lookup_remove_if, of_table_4 by exact Hk'. reflexivity.
        - destruct (key_eqb k k') eqn:E; [|reflexivity]. apply key_eqb_eq in E. subst k'.
          specialize (I2 k c D). unfold len_fake, len_spec in I2. rewrite I2.
          destruct (lookup (live st) k); [discriminate|reflexivity]. }
      rewrite B. destruct (key_eqb k k') eqn:E.
      * cbn [tcols]. unfold text_len. destruct (find_col cols c) as [[n [d|z]]|]; reflexivity.
      * apply (I2 k' c Hk').
  - (* DROP TABLE *)
    apply Nat.eqb_eq in D. destruct (lookup (live st) k) eqn:Lk; [|repeat split; assumption].
    unfold Inv, comment_fake, comment_spec, len_fake, len_spec. cbn [live side_c side_l]. split.
    + intros k' Hk'. rewrite !lookup_remove_if, of_table_3 by exact Hk'. destruct (key_eqb k k'); [reflexivity|apply (I1 k' Hk')].
    + intros k' c Hk'. rewrite !lookup_remove_if, of_table_4 by exact Hk'. destruct (key_eqb k k'); [reflexivity|apply (I2 k' c Hk')].
  - (* DROP SCHEMA *)
    unfold Inv, comment_fake, comment_spec, len_fake, len_spec. cbn [live side_c side_l]. split.
    + intros k' Hk'. rewrite !lookup_remove_if. destruct (of_schema d s k'); [reflexivity|apply (I1 k' Hk')].
    + intros k' c Hk'. rewrite !lookup_remove_if, of_schema_4 by exact Hk'. destruct (of_schema d s k'); [reflexivity|apply (I2 k' c Hk')].
  - (* COMMENT on an existing table *)
    apply andb_true_iff in D. destruct D as [D L]. apply Nat.eqb_eq in D.
    destruct (lookup (live st) k) as [t|] eqn:Lk; [|discriminate].
    unfold Inv, comment_fake, comment_spec, len_fake, len_spec. cbn [live side_c side_l]. split.
    + intros k' Hk'. rewrite !lookup_upsert. destruct (key_eqb k k'); [reflexivity|apply (I1 k' Hk')].
    + intros k' c' Hk'. rewrite lookup_upsert. destruct (key_eqb k k') eqn:E; [|apply (I2 k' c' Hk')].
      apply key_eqb_eq in E. subst k'. specialize (I2 k c' D). unfold len_fake, len_spec in I2. rewrite I2, Lk. reflexivity.
  - (* ADD COLUMN *)
    apply Nat.eqb_eq in D. destruct (lookup (live st) k) as [t|] eqn:Lk; [|repeat split; assumption].
    destruct (find_col (tcols t) (cname col)) eqn:F; [split; assumption|].
    unfold Inv, comment_fake, comment_spec, len_fake, len_spec. cbn [live side_c side_l]. split.
    + intros k' Hk'. rewrite lookup_upsert. destruct (key_eqb k k') eqn:E; [|apply (I1 k' Hk')].
      apply key_eqb_eq in E. subst k'. specialize (I1 k D). unfold comment_fake, comment_spec in I1. rewrite I1, Lk. reflexivity.
    + intros k' c Hk'. assert (N : nodup_names [col] = true) by reflexivity.
      rewrite (put_lengths_lookup k [col] N D _ k' c Hk'). rewrite lookup_upsert.
      destruct (key_eqb k k') eqn:E; [|apply (I2 k' c Hk')].
      apply key_eqb_eq in E. subst k'. cbn [tcols]. rewrite find_col_app.
      specialize (I2 k c D). unfold len_fake, len_spec in I2. rewrite Lk in I2.
      unfold find_col at 1. cbn [find]. destruct (str_eqb (cname col) c) eqn:Ec.
      * apply str_eqb_eq in Ec. subst c. rewrite F. rewrite F in I2. unfold text_len.
        destruct col as [n [d|z]]; cbn; [reflexivity|exact I2].
      * cbn [text_len]. rewrite I2. destruct (find_col (tcols t) c) as [[n [d|z]]|]; reflexivity.
  - (* DROP COLUMN *)
    apply Nat.eqb_eq in D. destruct (lookup (live st) k) as [t|] eqn:Lk; [|split; assumption].
    destruct (find_col (tcols t) c) eqn:F; [|split; assumption].
    destruct (Nat.leb (length (tcols t)) 1); [split; assumption|].
    unfold Inv, comment_fake, comment_spec. split.
    + intros k' Hk'. cbn [live side_c]. rewrite lookup_upsert. destruct (key_eqb k k') eqn:E; [|apply (I1 k' Hk')].
      apply key_eqb_eq in E. subst k'. specialize (I1 k D). unfold comment_fake, comment_spec in I1. rewrite I1, Lk. reflexivity.
    + intros k' x Hk'. rewrite len_spec_alt. unfold len_fake. cbn [live side_l]. rewrite lookup_upsert, lookup_remove_if.
      rewrite key_eqb_app_last by congruence. specialize (I2 k' x Hk'). rewrite len_spec_alt in I2. unfold len_fake in I2.
      destruct (key_eqb k k') eqn:E; cbn [andb]; [|exact I2].
      apply key_eqb_eq in E. subst k'. cbn [tcols]. rewrite find_col_drop. rewrite Lk in I2.
      rewrite (str_eqb_sym c x). destruct (str_eqb x c); [reflexivity|exact I2].
  - (* RENAME COLUMN *)
    apply Nat.eqb_eq in D. destruct (lookup (live st) k) as [t|] eqn:Lk; [|split; assumption].
    destruct (find_col (tcols t) c) eqn:F; [|split; assumption].
    destruct (find_col (tcols t) c') eqn:F'; [split; assumption|].
    assert (Ncc : c <> c') by (intros ->; congruence).
    unfold Inv, comment_fake, comment_spec. split.
    + intros k' Hk'. cbn [live side_c]. rewrite lookup_upsert. destruct (key_eqb k k') eqn:E; [|apply (I1 k' Hk')].
      apply key_eqb_eq in E. subst k'. specialize (I1 k D). unfold comment_fake, comment_spec in I1. rewrite I1, Lk. reflexivity.
    + intros k' x Hk'. rewrite len_spec_alt. unfold len_fake. cbn [live side_l]. rewrite lookup_upsert.
      rewrite (lookup_recol k c c' _ k' x D Hk' Ncc).
      pose proof (I2 k' x Hk') as J. rewrite len_spec_alt in J. unfold len_fake in J.
      destruct (key_eqb k k') eqn:E; [|exact J].
      apply key_eqb_eq in E. subst k'. cbn [tcols]. rewrite (find_col_rename _ c c' x F').
      pose proof (I2 k c D) as Jc. rewrite len_spec_alt in Jc. unfold len_fake in Jc. rewrite Lk in Jc, J.
      destruct (str_eqb x c'); [exact Jc|]. destruct (str_eqb x c); [reflexivity|exact J].
  - (* RENAME TO *)
    apply andb_true_iff in D. destruct D as [D _]. apply andb_true_iff in D. destruct D as [D D']. apply Nat.eqb_eq in D, D'.
    destruct (lookup (live st) k) as [t|] eqn:Lk; [|split; assumption].
    destruct (lookup (live st) k') eqn:Lk'; [split; assumption|].
    assert (Nkk : k <> k') by (intros ->; congruence).
    unfold Inv, comment_fake, comment_spec. split.
    + intros k2 Hk2. cbn [live side_c]. rewrite lookup_upsert, lookup_remove_if.
      pose proof (lookup_retable k k' (side_c st) k2 [] D D' Hk2 Nkk) as R. rewrite !app_nil_r in R. rewrite R.
      destruct (key_eqb k' k2) eqn:E.
      * specialize (I1 k D). unfold comment_fake, comment_spec in I1. rewrite I1, Lk. reflexivity.
      * destruct (key_eqb k k2); [reflexivity|apply (I1 k2 Hk2)].
    + intros k2 x Hk2. rewrite len_spec_alt. unfold len_fake. cbn [live side_l]. rewrite lookup_upsert, lookup_remove_if.
      rewrite (lookup_retable k k' (side_l st) k2 [x] D D' Hk2 Nkk).
      destruct (key_eqb k' k2) eqn:E.
      * pose proof (I2 k x D) as J. rewrite len_spec_alt in J. unfold len_fake in J. rewrite Lk in J. exact J.
      * destruct (key_eqb k k2); [reflexivity|]. pose proof (I2 k2 x Hk2) as J. rewrite len_spec_alt in J. exact J.
  - (* CLONE: outside dom *) discriminate.
Qed.

Lemma inv_from h : forall st, Inv st -> dom_from st h = true -> Inv (fold_left step h st).
Proof.
  induction h as [|o h IH]; intros st I D; cbn; [exact I|].
  cbn in D. apply andb_true_iff in D. destruct D as [D1 D2]. apply IH; [apply inv_step; assumption|exact D2].
Qed.

Lemma describe_with_ext f g cols : (forall c, f c = g c) -> describe_with f cols = describe_with g cols.
Proof. intros H. unfold describe_with. apply map_ext. intros c. rewrite H. reflexivity. Qed.

(* at every point of every history inside dom, every answer equals the latest declaration - for live tables and
   (as NULL / absent) for everything dropped, replaced or never created *)
Theorem metadata_exact_partial_l : forall h, dom h = true -> forall k, length k = 3%nat ->
  comment_fake (run h) k = comment_spec (run h) k /\
  (forall c, len_fake (run h) k c = len_spec (run h) k c) /\
  describe_fake (run h) k = describe_spec (run h) k.
Proof.
  intros h D k Hk. destruct (inv_from h init inv_init D) as (I1 & I2). fold (run h) in *.
  split; [apply I1; exact Hk|]. split; [intros c; apply I2; exact Hk|].
  unfold describe_fake, describe_spec. destruct (lookup (live (run h)) k); [|reflexivity]. cbn.
  f_equal. apply describe_with_ext. intros c. apply I2. exact Hk.
Qed.

Theorem every_prefix_l : forall h1 h2, dom (h1 ++ h2) = true -> dom h1 = true.
Proof.
  unfold dom. intros h1 h2. generalize init. induction h1 as [|o h1 IH]; intros st D; cbn in *; [reflexivity|].
  apply andb_true_iff in D. destruct D as [D1 D2]. rewrite D1. cbn. apply (IH _ D2).
Qed.

Theorem dropped_leave_nothing_l : forall h, dom h = true -> forall k c, length k = 3%nat -> lookup (live (run h)) k = None ->
  comment_fake (run h) k = None /\ len_fake (run h) k c = None.
Proof.
  intros h D k c Hk L. destruct (metadata_exact_partial_l h D k Hk) as (A & B & _).
  rewrite A, (B c). unfold comment_spec, len_spec. rewrite L. auto.
Qed.

(* ------------------------------------------------------------------ transactions *)
Definition TInv (ts : tstate) : Prop := Inv (cur ts) /\ (forall s, saved ts = Some s -> Inv s).

Lemma tinv_init : TInv tinit.
Proof. split; [exact inv_init|discriminate]. Qed.

Lemma tinv_step ts o : TInv ts -> tdom_at ts o = true -> TInv (tstep ts o).
Proof.
  intros [I S] D. destruct o as [o| | |]; cbn in *.
  - split; [apply inv_step; assumption|exact S].
  - destruct (saved ts) eqn:E; [discriminate|]. split; [exact I|]. cbn. intros s H. injection H as <-. exact I.
  - split; [exact I|discriminate].
  - destruct (saved ts) as [s|] eqn:E; [|split; [exact I|rewrite E; exact S]].
    split; [apply S; reflexivity|discriminate].
Qed.

Lemma tinv_from h : forall ts, TInv ts -> tdom_from ts h = true -> TInv (fold_left tstep h ts).
Proof.
  induction h as [|o h IH]; intros ts I D; cbn; [exact I|].
  cbn in D. apply andb_true_iff in D. destruct D as [D1 D2]. apply IH; [apply tinv_step; assumption|exact D2].
Qed.

(* the same statement over histories with BEGIN / COMMIT / ROLLBACK anywhere (no BEGIN inside a transaction) *)
Theorem metadata_exact_tx_partial_l : forall h, tdom h = true -> forall k, length k = 3%nat ->
  comment_fake (cur (trun h)) k = comment_spec (cur (trun h)) k /\
  (forall c, len_fake (cur (trun h)) k c = len_spec (cur (trun h)) k c) /\
  describe_fake (cur (trun h)) k = describe_spec (cur (trun h)) k.
Proof.
  intros h D k Hk. destruct (tinv_from h tinit tinv_init D) as [[I1 I2] _]. fold (trun h) in *.
  split; [apply I1; exact Hk|]. split; [intros c; apply I2; exact Hk|].
  unfold describe_fake, describe_spec. destruct (lookup (live (cur (trun h))) k); [|reflexivity]. cbn.
  f_equal. apply describe_with_ext. intros c. apply I2. exact Hk.
Qed.

(* ROLLBACK restores exactly the state at BEGIN - declarations and side tables alike *)
Lemma tx_rollback_restores_l : forall ts body, saved ts = None ->
  cur (tstep (fold_left tstep (map Stmt body) (tstep ts TBegin)) TRollback) = cur ts.
Proof.
  intros ts body Hs. cbn. rewrite Hs.
  assert (G : forall b t s0, saved t = Some s0 -> saved (fold_left tstep (map Stmt b) t) = Some s0).
  { induction b as [|o b IH]; intros t s0 H; cbn; [exact H|]. apply IH. cbn. exact H. }
  rewrite (G body _ (cur ts)) by reflexivity. reflexivity.
Qed.

(* histories without transaction statements are the plain model *)
Lemma trun_embed_l : forall h, cur (trun (map Stmt h)) = run h /\ tdom (map Stmt h) = dom h.
Proof.
  intros h. unfold trun, run, tdom, dom.
  assert (G : forall h ts, saved ts = None -> cur (fold_left tstep (map Stmt h) ts) = fold_left step h (cur ts) /\
                                  tdom_from ts (map Stmt h) = dom_from (cur ts) h).
  { induction h0 as [|o h0 IH]; intros ts Hs; cbn; [split; reflexivity|].
    destruct (IH {| cur := step (cur ts) o; saved := saved ts |} Hs) as [A B]. cbn in A, B. rewrite A, B. split; reflexivity. }
  apply (G h tinit). reflexivity.
Qed.

(* ------------------------------------------------------------------ outside dom the statement is false *)
Definition K (t : String.string) : key := [lit "DB1"; lit "S1"; lit t].
Arguments K t%string_scope.
Definition vc (n : String.string) (d : option Z) : coldef := {| cname := lit n; cty := TText d |}.
Arguments vc n%string_scope d.
Definition ic (n : String.string) : coldef := {| cname := lit n; cty := TOther 1 |}.
Arguments ic n%string_scope.

Lemma clone_refuted_l : exists h k, describe_fake (run h) k <> describe_spec (run h) k.
Proof. exists [Create false (K "C1") [vc "V" (Some 7)] None; Clone (K "C2") (K "C1")], (K "C2"). vm_compute. discriminate. Qed.

Lemma comment_on_missing_refuted_l : exists h k, comment_fake (run h) k <> comment_spec (run h) k.
Proof. exists [SetComment (K "T9") (lit "x"); Create false (K "T9") [ic "A"] None], (K "T9"). vm_compute. discriminate. Qed.

(* a non-trivial history inside dom: re-creation under the same name, replacement, a dropped schema, added, dropped,
   re-added and renamed columns, a renamed table whose old name is used again *)
Definition ex_h : list op :=
  [Create false (K "T1") [ic "A"; vc "B" (Some 10); vc "C" None] (Some (lit "first"));
   Drop (K "T1");
   Create false (K "T1") [vc "B" None; ic "C"] None;
   Create true (K "T1") [vc "B" (Some 3)] (Some (lit "it's"));
   AddColumn (K "T1") (vc "D" (Some 255));
   Create false [lit "DB1"; lit "S2"; lit "T1"] [vc "B" (Some 5)] (Some (lit "other"));
   DropSchema (lit "DB1") (lit "S2");
   Create false [lit "DB1"; lit "S2"; lit "T1"] [vc "B" None] None;
   SetComment (K "T1") (lit "last");
   RenameColumn (K "T1") (lit "B") (lit "E");
   DropColumn (K "T1") (lit "D");
   AddColumn (K "T1") (ic "D");
   RenameTable (K "T1") (K "T2");
   Create false (K "T1") [vc "E" None] None].
(* the same history inside transactions: the re-creation is rolled back, later work committed *)
Definition ex_th : list top :=
  map Stmt (firstn 2 ex_h) ++ [TBegin] ++ map Stmt (firstn 2 (skipn 2 ex_h)) ++ [TRollback; TBegin] ++ map Stmt (skipn 2 ex_h) ++ [TCommit; TBegin; Stmt (Drop (K "T2")); TRollback].
Lemma meta_tx_nonvacuous_l : tdom ex_th = true /\ cur (trun ex_th) = run ex_h.
Proof. vm_compute. split; reflexivity. Qed.

Lemma meta_nonvacuous_l : dom ex_h = true /\
  comment_fake (run ex_h) (K "T2") = Some (lit "last") /\
  describe_fake (run ex_h) (K "T2") = Some [(lit "E", inl 3); (lit "D", inr 1)] /\
  len_fake (run ex_h) (K "T2") (lit "D") = None /\
  comment_fake (run ex_h) (K "T1") = None /\
  describe_fake (run ex_h) (K "T1") = Some [(lit "E", inl 16777216)] /\
  comment_fake (run ex_h) [lit "DB1"; lit "S2"; lit "T1"] = None /\
  describe_fake (run ex_h) [lit "DB1"; lit "S2"; lit "T1"] = Some [(lit "B", inl 16777216)].
Proof. vm_compute. repeat split. Qed.
