From FS Require Import Sexp Connect Common.
From Coq Require Import Lia.

Lemma mem_app x l1 l2 : mem x (l1 ++ l2) = mem x l1 || mem x l2.
Proof. unfold mem. apply existsb_app. Qed.
Lemma mem_single x y : mem x [y] = str_eqb x y.
Proof. unfold mem. cbn. apply orb_false_r. Qed.

Lemma str_eqb_sym a b : str_eqb a b = str_eqb b a.
Proof.
  destruct (str_eqb a b) eqn:E.
  - apply str_eqb_eq in E. subst. symmetry. apply str_eqb_refl.
  - destruct (str_eqb b a) eqn:E2; [|reflexivity]. apply str_eqb_eq in E2. subst.
    rewrite str_eqb_refl in E. discriminate.
Qed.

Lemma schemas_of_app l d b d' :
  schemas_of (l ++ [(d, b)]) d' =
  match schemas_of l d' with Some ss => Some ss | None => if str_eqb d d' then Some b else None end.
Proof.
  induction l as [|[x ss] l IH]; cbn; [reflexivity|]. destruct (str_eqb x d'); [reflexivity|exact IH].
Qed.

Lemma schemas_of_add l d s d' :
  schemas_of (add_schema l d s) d' =
  match schemas_of l d' with
  | Some ss => if str_eqb d' d then Some (if mem s ss then ss else ss ++ [s]) else Some ss
  | None => None
  end.
Proof.
  induction l as [|[x ss] l IH]; cbn; [reflexivity|].
  destruct (str_eqb x d) eqn:E; cbn.
  - apply str_eqb_eq in E. subst x. destruct (str_eqb d d') eqn:E2.
    + apply str_eqb_eq in E2. subst. rewrite str_eqb_refl. reflexivity.
    + rewrite (str_eqb_sym d' d), E2. destruct (schemas_of l d'); reflexivity.
  - destruct (str_eqb x d') eqn:E2.
    + apply str_eqb_eq in E2. subst x. rewrite E. reflexivity.
    + exact IH.
Qed.

(* every database the instance can see has a MAIN schema; every attached one is known *)
Definition wfw (w : world) : Prop :=
  (forall d ss, schemas_of (dbs w) d = Some ss -> mem s_main ss = true) /\
  (forall d, db_exists w d = true -> schemas_of (dbs w) d <> None).

Lemma wf_main w d : wfw w -> db_exists w d = true -> schema_exists w d s_main = true.
Proof.
  intros [W1 W2] E. unfold schema_exists. rewrite E. cbn.
  destruct (schemas_of (dbs w) d) as [ss|] eqn:S; [eauto|]. exfalso. eapply W2; eauto.
Qed.

(* ---- the three engine steps ---- *)
Lemma attach_spec w d : wfw w -> exists w1, attach_if_not_exists w d = Some w1 /\ wfw w1 /\
  (forall x, db_exists w1 x = db_exists w x || str_eqb x d) /\
  (forall x s, schema_exists w x s = true -> schema_exists w1 x s = true) /\
  (forall x s, schema_exists w1 x s = true -> schema_exists w x s = true \/ (x = d /\ db_exists w d = false)).
Proof.
  intros [W1 W2]. unfold attach_if_not_exists. destruct (db_exists w d) eqn:E.
  - exists w. repeat split; auto.
    + intros x. destruct (str_eqb x d) eqn:Ex; [apply str_eqb_eq in Ex; subst; rewrite E; reflexivity|].
      rewrite orb_false_r. reflexivity.
  - destruct (schemas_of (dbs w) d) as [ss0|] eqn:S.
    + eexists. split; [reflexivity|]. unfold wfw, schema_exists, db_exists in *. cbn [dbs attached].
      split; [split|split; [|split]].
      * exact W1.
      * intros x. rewrite mem_app, mem_single. intros H. apply orb_true_iff in H as [H|H]; [auto|].
        apply str_eqb_eq in H. subst. congruence.
      * intros x. rewrite mem_app, mem_single. reflexivity.
      * intros x s. rewrite mem_app. intros H. apply andb_true_iff in H as [H1 H2]. rewrite H1, H2. reflexivity.
      * intros x s. rewrite mem_app, mem_single. intros H. apply andb_true_iff in H as [H1 H2].
        apply orb_true_iff in H1 as [H1|H1]; [left; rewrite H1, H2; reflexivity|].
        right. apply str_eqb_eq in H1. auto.
    + eexists. split; [reflexivity|]. unfold wfw, schema_exists, db_exists in *. cbn [dbs attached].
      split; [split|split; [|split]].
      * intros x ss. rewrite schemas_of_app. destruct (schemas_of (dbs w) x) eqn:Sx.
        -- intros H; inversion H; subst. eauto.
        -- destruct (str_eqb d x); [|discriminate]. intros H; inversion H; subst. reflexivity.
      * intros x. rewrite mem_app, mem_single, schemas_of_app. intros H.
        apply orb_true_iff in H as [H|H].
        -- specialize (W2 _ H). destruct (schemas_of (dbs w) x); [discriminate|tauto].
        -- apply str_eqb_eq in H. subst. rewrite S, str_eqb_refl. discriminate.
      * intros x. rewrite mem_app, mem_single. reflexivity.
      * intros x s. rewrite mem_app, schemas_of_app. intros H. apply andb_true_iff in H as [H1 H2]. rewrite H1.
        destruct (schemas_of (dbs w) x); [exact H2|discriminate].
      * intros x s. rewrite mem_app, mem_single, schemas_of_app. intros H. apply andb_true_iff in H as [H1 H2].
        apply orb_true_iff in H1 as [H1|H1].
        -- left. rewrite H1. cbn. specialize (W2 _ H1). destruct (schemas_of (dbs w) x); [exact H2|tauto].
        -- right. apply str_eqb_eq in H1. auto.
Qed.

Lemma create_schema_spec w d s : wfw w -> db_exists w d = true ->
  exists w1, create_schema_if_not_exists w d s = Some w1 /\ wfw w1 /\
  (forall x, db_exists w1 x = db_exists w x) /\
  schema_exists w1 d s = true /\
  (forall x t, schema_exists w x t = true -> schema_exists w1 x t = true) /\
  (forall x t, schema_exists w1 x t = true -> schema_exists w x t = true \/ (x = d /\ t = s)).
Proof.
  intros [W1 W2] E. unfold create_schema_if_not_exists. rewrite E. eexists. split; [reflexivity|].
  unfold wfw, schema_exists, db_exists in *. cbn [dbs attached].
  assert (K : forall x, schemas_of (add_schema (dbs w) d s) x =
                        match schemas_of (dbs w) x with
                        | Some ss => if str_eqb x d then Some (if mem s ss then ss else ss ++ [s]) else Some ss
                        | None => None end) by (intros; apply schemas_of_add).
  split; [split|split; [|split; [|split]]].
  - intros x ss. rewrite K. destruct (schemas_of (dbs w) x) as [ss0|] eqn:Sx; [|discriminate].
    destruct (str_eqb x d).
    + intros H; inversion H; subst. destruct (mem s ss0); [eauto|]. rewrite mem_app. erewrite W1; eauto.
    + intros H; inversion H; subst. eauto.
  - intros x H. rewrite K. specialize (W2 _ H). destruct (schemas_of (dbs w) x); [|tauto].
    destruct (str_eqb x d); discriminate.
  - reflexivity.
  - rewrite E. cbn. rewrite K. specialize (W2 _ E). destruct (schemas_of (dbs w) d) as [ss|]; [|tauto].
    rewrite str_eqb_refl. destruct (mem s ss) eqn:M; [exact M|]. rewrite mem_app, mem_single, str_eqb_refl.
    apply orb_true_r.
  - intros x t H. apply andb_true_iff in H as [H1 H2]. rewrite H1. cbn. rewrite K.
    destruct (schemas_of (dbs w) x) as [ss|]; [|discriminate].
    destruct (str_eqb x d); [|exact H2]. destruct (mem s ss); [exact H2|]. rewrite mem_app, H2. reflexivity.
  - intros x t H. apply andb_true_iff in H as [H1 H2]. rewrite K in H2. rewrite H1. cbn.
    destruct (schemas_of (dbs w) x) as [ss|]; [|discriminate].
    destruct (str_eqb x d) eqn:Ex; [|auto].
    destruct (mem s ss) eqn:M; [auto|]. rewrite mem_app, mem_single in H2.
    apply orb_true_iff in H2 as [H2|H2]; [auto|]. right. apply str_eqb_eq in Ex. apply str_eqb_eq in H2. auto.
Qed.

(* ---- connect, characterised ---- *)
Record spec (w : world) (c : cfg) (w' : world) (s : session) : Prop := {
  sp_wf : wfw w';
  sp_reports : sdb s = option_map upper (database c) /\ ssch s = option_map upper (schema c);
  (* existing objects stay *)
  sp_keep_db : forall x, db_exists w x = true -> db_exists w' x = true;
  sp_keep_sch : forall x t, schema_exists w x t = true -> schema_exists w' x t = true;
  (* creates only what the options allow *)
  sp_new_db : forall x, db_exists w' x = true -> db_exists w x = true \/
                (create_db c = true /\ truthy (option_map upper (database c)) = Some x);
  sp_new_sch : forall x t, schema_exists w' x t = true -> schema_exists w x t = true \/
                (create_db c = true /\ truthy (option_map upper (database c)) = Some x /\ db_exists w x = false) \/
                (create_sch c = true /\ truthy (option_map upper (database c)) = Some x /\
                 truthy (option_map upper (schema c)) = Some t);
  (* current database / schema exactly when the objects exist *)
  sp_set : match truthy (option_map upper (database c)) with
           | None => db_set s = false /\ sch_set s = false /\ duck s = None
           | Some d =>
               db_set s = db_exists w' d /\
               match truthy (option_map upper (schema c)) with
               | None => sch_set s = false /\ duck s = (if db_set s then Some (d, s_main) else None)
               | Some t => sch_set s = schema_exists w' d t /\
                           duck s = (if sch_set s then Some (d, t) else if db_set s then Some (d, s_main) else None)
               end
           end;
}.

Lemma schema_exists_db w d s : schema_exists w d s = true -> db_exists w d = true.
Proof. unfold schema_exists. intros H. apply andb_true_iff in H as [H _]. exact H. Qed.

Ltac same W := split; [reflexivity|]; split; [exact W|]; repeat split; intros; auto.

Theorem connect_spec : forall w c, wfw w -> exists w' s, connect w c = Some (w', s) /\ spec w c w' s.
Proof.
  intros w c W. unfold connect.
  set (db := option_map upper (database c)). set (sch := option_map upper (schema c)).
  destruct (truthy db) as [d|] eqn:Td.
  2:{ (* no database requested: nothing happens *)
      eexists w, _. split; [reflexivity|]. constructor; cbn [sdb ssch db_set sch_set duck]; auto;
        fold db; rewrite ?Td; auto; intros; discriminate. }
  (* step 1 *)
  assert (S1 : exists w1, (if create_db c && negb (db_exists w d) then attach_if_not_exists w d else Some w) = Some w1 /\
                wfw w1 /\
                (forall x, db_exists w x = true -> db_exists w1 x = true) /\
                (forall x, db_exists w1 x = true -> db_exists w x = true \/ (create_db c = true /\ x = d)) /\
                (forall x t, schema_exists w x t = true -> schema_exists w1 x t = true) /\
                (forall x t, schema_exists w1 x t = true -> schema_exists w x t = true \/
                                (create_db c = true /\ x = d /\ db_exists w d = false))).
  { destruct (create_db c) eqn:Cd; cbn [andb].
    - destruct (db_exists w d) eqn:E; cbn [negb].
      + exists w. same W.
      + destruct (attach_spec w d W) as (w1 & A & Wf & Hdb & Hk & Hn). exists w1.
        split; [exact A|]. split; [exact Wf|]. split; [|split; [|split; [exact Hk|]]].
        * intros x H. rewrite Hdb, H. reflexivity.
        * intros x H. rewrite Hdb in H. apply orb_true_iff in H as [H|H]; [auto|].
          right. apply str_eqb_eq in H. auto.
        * intros x t H. destruct (Hn x t H) as [H1|[H1 H2]]; auto.
    - exists w. same W. }
  destruct S1 as (w1 & -> & W1 & K1 & N1 & KS1 & NS1).
  destruct (truthy sch) as [t|] eqn:Ts.
  - (* database and schema requested *)
    assert (S2 : exists w2, (if create_sch c && negb (schema_exists w1 d t) && db_exists w1 d
                             then create_schema_if_not_exists w1 d t else Some w1) = Some w2 /\ wfw w2 /\
                  (forall x, db_exists w2 x = db_exists w1 x) /\
                  (forall x u, schema_exists w1 x u = true -> schema_exists w2 x u = true) /\
                  (forall x u, schema_exists w2 x u = true -> schema_exists w1 x u = true \/
                                  (create_sch c = true /\ x = d /\ u = t))).
    { destruct (create_sch c) eqn:Cs; cbn [andb]; [|exists w1; same W1].
      destruct (schema_exists w1 d t) eqn:E; cbn [negb andb]; [exists w1; same W1|].
      destruct (db_exists w1 d) eqn:Ed; [|exists w1; same W1].
      destruct (create_schema_spec w1 d t W1 Ed) as (w2 & A & Wf & Hdb & _ & Hk & Hn).
      exists w2. split; [exact A|]. split; [exact Wf|]. split; [exact Hdb|]. split; [exact Hk|].
      intros x u H. destruct (Hn x u H) as [H1|[H1 H2]]; auto. }
    destruct S2 as (w2 & -> & W2 & D2 & KS2 & NS2).
    assert (SPEC : forall s, sdb s = db -> ssch s = sch ->
              db_set s = db_exists w2 d -> sch_set s = schema_exists w2 d t ->
              duck s = (if sch_set s then Some (d, t) else if db_set s then Some (d, s_main) else None) ->
              spec w c w2 s).
    { intros s A1 A2 A3 A4 A5. constructor; auto.
      - intros x H. rewrite D2. auto.
      - intros x H. rewrite D2 in H. destruct (N1 x H) as [H1|[H1 H2]]; [auto|]. right. subst. fold db. auto.
      - intros x u H. destruct (NS2 x u H) as [H1|(H1 & H2 & H3)].
        + destruct (NS1 x u H1) as [G|(G1 & G2 & G3)]; [auto|]. right. left. subst. fold db. auto.
        + right. right. subst. fold db sch. auto.
      - fold db sch. rewrite Td, Ts. auto. }
    destruct (schema_exists w2 d t) eqn:E2.
    + unfold set_schema. rewrite E2. eexists w2, _. split; [reflexivity|]. apply SPEC; cbn; auto.
      symmetry. eapply schema_exists_db; eauto.
    + destruct (db_exists w2 d) eqn:Ed2.
      * unfold set_schema. rewrite (wf_main w2 d W2 Ed2). eexists w2, _. split; [reflexivity|]. apply SPEC; cbn; auto.
      * eexists w2, _. split; [reflexivity|]. apply SPEC; cbn; auto.
  - (* only a database requested *)
    assert (X : match truthy sch with Some s => (if create_sch c && negb (schema_exists w1 d s) && db_exists w1 d
                 then create_schema_if_not_exists w1 d s else Some w1) | None => Some w1 end = Some w1) by (rewrite Ts; reflexivity).
    assert (SPEC : forall s, sdb s = db -> ssch s = sch -> db_set s = db_exists w1 d -> sch_set s = false ->
              duck s = (if db_set s then Some (d, s_main) else None) -> spec w c w1 s).
    { intros s A1 A2 A3 A4 A5. constructor; auto.
      - intros x H. destruct (N1 x H) as [H1|[H1 H2]]; [auto|]. right. subst. fold db. auto.
      - intros x u H. destruct (NS1 x u H) as [G|(G1 & G2 & G3)]; [auto|]. right. left. subst. fold db. auto.
      - fold db sch. rewrite Td, Ts. auto. }
    destruct (db_exists w1 d) eqn:Ed.
    + unfold set_schema. rewrite (wf_main w1 d W1 Ed). eexists w1, _. split; [reflexivity|]. apply SPEC; cbn; auto.
    + eexists w1, _. split; [reflexivity|]. apply SPEC; cbn; auto.
Qed.

Definition w0 : world := {| dbs := [(lit "DB1", builtin ++ [lit "S1"])]; attached := [] |}.
Example connect_nonvacuous :
  let c := {| database := Some (lit "db1"); schema := Some (lit "s2"); create_db := true; create_sch := true |} in
  match connect w0 c with
  | Some (w', s) => schema_exists w' (lit "DB1") (lit "S1") = true /\ schema_exists w' (lit "DB1") (lit "S2") = true /\
                    sdb s = Some (lit "DB1") /\ sch_set s = true /\ duck s = Some (lit "DB1", lit "S2")
  | None => False
  end.
Proof. vm_compute. repeat split. Qed.

Fixpoint all_ok (w : world) (cs : list cfg) : Prop :=
  match cs with
  | [] => True
  | c :: r => match connect w c with Some (w', _) => all_ok w' r | None => False end
  end.

Theorem connects_total_l : forall cs w, wfw w -> all_ok w cs.
Proof.
  induction cs as [|c cs IH]; intros w W; cbn; [exact I|].
  destruct (connect_spec w c W) as (w' & s & -> & Sp). apply IH. exact (sp_wf _ _ _ _ Sp).
Qed.

Lemma wfw_empty : wfw {| dbs := []; attached := [] |}.
Proof. split; cbn; intros; discriminate. Qed.
