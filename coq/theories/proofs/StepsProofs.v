From FS Require Import Sexp Steps.
From FS Require Import Common.
From Coq Require Import Lia Arith.

(* ------------------------------------------------------------------ lists *)
Lemma nth_error_upd_same {X} (l : list X) : forall i x, (i < length l)%nat -> nth_error (upd l i x) i = Some x.
Proof. induction l as [|y l IH]; intros [|i] x H; cbn in *; try lia; [reflexivity|]. apply IH. lia. Qed.

Lemma nth_error_upd_other {X} (l : list X) : forall i j x, i <> j -> nth_error (upd l i x) j = nth_error l j.
Proof.
  induction l as [|y l IH]; intros [|i] [|j] x H; cbn; try reflexivity; try congruence. apply IH. congruence.
Qed.

Lemma in_upd {X} (l : list X) : forall i x z, In z (upd l i x) -> z = x \/ In z l.
Proof.
  induction l as [|y l IH]; intros [|i] x z H; cbn in *; auto.
  - destruct H as [H|H]; auto.
  - destruct H as [H|H]; auto. destruct (IH _ _ _ H); auto.
Qed.

Lemma exists_upd_other {X} (P : X -> Prop) (l : list X) : forall i s x, Exists P l -> nth_error l i = Some s -> ~ P s -> Exists P (upd l i x).
Proof.
  induction l as [|y l IH]; intros [|i] s x E N NP; cbn in *; try discriminate.
  - injection N as <-. inversion E; subst; [contradiction|]. apply Exists_cons_tl. assumption.
  - inversion E; subst; [apply Exists_cons_hd; assumption|]. apply Exists_cons_tl. eapply IH; eauto.
Qed.

Lemma exists_upd_same {X} (P : X -> Prop) (l : list X) : forall i x, (i < length l)%nat -> P x -> Exists P (upd l i x).
Proof.
  induction l as [|y l IH]; intros [|i] x H Px; cbn in *; try lia.
  - apply Exists_cons_hd. exact Px.
  - apply Exists_cons_tl. apply IH; [lia|exact Px].
Qed.

Lemma nth_error_lt {X} (l : list X) i x : nth_error l i = Some x -> (i < length l)%nat.
Proof. intros H. apply nth_error_Some. congruence. Qed.

Lemma upd_length {X} (l : list X) : forall i x, length (upd l i x) = length l.
Proof. induction l as [|y l IH]; intros [|i] x; cbn; auto. Qed.

Lemma sched_step_length lk st i : length (snd (sched_step lk st i)) = length (snd st).
Proof.
  destruct st as [e ss]. unfold sched_step. destruct (nth_error ss i) as [x|]; [|reflexivity].
  destruct (lk && wants_lock x && negb (lock_free_for ss i)); [reflexivity|].
  destruct (turn e x) as [[e' x'] c]. cbn. apply upd_length.
Qed.

Lemma run_sched_length lk sch : forall st, length (snd (run_sched lk sch st)) = length (snd st).
Proof.
  unfold run_sched. induction sch as [|i sch IH]; intros st; [reflexivity|]. cbn [fold_left]. rewrite IH. apply sched_step_length.
Qed.

(* ------------------------------------------------------------------ k sessions connect to the same (new) database and schema *)
Section Connects.
  Variables d s : str.
  Hypothesis Hsm : str_eqb s s_main = false.     (* the requested schema is not DuckDB's default one *)

  Definition cop : op := Connect d s.

  (* what the engine must already provide for a session at each program point *)
  Definition req (e : eng) (p : nat) : Prop :=
    match p with
    | 0 | 1 => True
    | 2 | 3 | 4 | 5 => has_db e d = true
    | 6 | 7 => has_db e d = true /\ has_sch e d s = true
    | _ => False
    end%nat.

  Definition good (e : eng) (x : sess) : Prop :=
    (todo x = [cop] /\ done x = [] /\ req e (pc x)) \/
    (todo x = [] /\ done x = [AOk] /\ has_db e d = true /\ has_sch e d s = true).

  Definition at_boot (x : sess) : Prop := todo x = [cop] /\ pc x = 2%nat.

  Definition Inv (st : eng * list sess) : Prop :=
    let '(e, ss) := st in
    Forall (good e) ss /\
    (has_db e d = false -> Forall (fun x => todo x = [cop] /\ (pc x = 0 \/ pc x = 1)%nat) ss) /\
    (has_db e d = true -> booted e d = false -> Exists at_boot ss).

  Arguments has_db : simpl never.
  Arguments has_sch : simpl never.
  Arguments booted : simpl never.

  Definition e_attach (e : eng) : eng := {| dbs := dbs e ++ [(d, false)]; schs := schs e ++ [[d; s_main]]; tbls := tbls e; cmts := cmts e; temps := temps e |}.
  Definition e_boot (e : eng) : eng :=
    {| dbs := map (fun p => if str_eqb (fst p) d then (fst p, true) else p) (dbs e); schs := schs e; tbls := tbls e; cmts := cmts e; temps := temps e |}.
  Definition e_mksch (e : eng) : eng := {| dbs := dbs e; schs := schs e ++ [[d; s]]; tbls := tbls e; cmts := cmts e; temps := temps e |}.

  Lemma attach_db e : has_db (e_attach e) d = true.
  Proof. unfold has_db, e_attach. cbn [dbs]. rewrite existsb_app. cbn. rewrite str_eqb_refl. apply orb_true_r. Qed.
  Lemma attach_sch e : has_sch e d s = true -> has_sch (e_attach e) d s = true.
  Proof. unfold has_sch, e_attach. cbn [schs]. intros H. rewrite existsb_app, H. reflexivity. Qed.
  Lemma attach_booted e : booted e d = true -> booted (e_attach e) d = true.
  Proof. unfold booted, e_attach. cbn [dbs]. intros H. rewrite existsb_app, H. reflexivity. Qed.

  Lemma boot_db e : has_db (e_boot e) d = has_db e d.
  Proof.
    unfold has_db, e_boot. cbn [dbs]. induction (dbs e) as [|[n b] l IH]; cbn; [reflexivity|].
    destruct (str_eqb n d) eqn:E; cbn; rewrite E; cbn; [reflexivity|exact IH].
  Qed.
  Lemma boot_booted e : has_db e d = true -> booted (e_boot e) d = true.
  Proof.
    unfold has_db, booted, e_boot. cbn [dbs]. induction (dbs e) as [|[n b] l IH]; cbn; [discriminate|].
    destruct (str_eqb n d) eqn:E; cbn; rewrite E; cbn; [reflexivity|]. exact IH.
  Qed.
  Lemma boot_sch e : has_sch (e_boot e) d s = has_sch e d s.
  Proof. reflexivity. Qed.

  Lemma mksch_sch e : has_sch (e_mksch e) d s = true.
  Proof. unfold has_sch, e_mksch. cbn [schs]. rewrite existsb_app. cbn. rewrite !str_eqb_refl. cbn. apply orb_true_r. Qed.
  Lemma mksch_db e : has_db (e_mksch e) d = has_db e d.
  Proof. reflexivity. Qed.
  Lemma mksch_booted e : booted (e_mksch e) d = booted e d.
  Proof. reflexivity. Qed.

  (* the calls of a Connect never remove anything *)
  Definition le_eng (e e' : eng) : Prop :=
    (has_db e d = true -> has_db e' d = true) /\ (has_sch e d s = true -> has_sch e' d s = true) /\ (booted e d = true -> booted e' d = true).
  Lemma le_refl e : le_eng e e.
  Proof. repeat split; auto. Qed.

  Lemma req_mono e e' p : le_eng e e' -> req e p -> req e' p.
  Proof.
    intros (A & B & _) R. destruct p as [|[|[|[|[|[|[|[|p]]]]]]]]; cbn in *; auto; try (destruct R; split; auto).
  Qed.

  Lemma good_mono e e' x : le_eng e e' -> good e x -> good e' x.
  Proof.
    intros L [(A & B & C)|(A & B & C & D)]; [left|right]; repeat split; auto; try (eapply req_mono; eauto); destruct L as (L1 & L2 & _); auto.
  Qed.

  Definition csess (p : nat) (la : ans) : sess := {| todo := [cop]; pc := p; last := la; done := [] |}.

  (* the summary of one turn *)
  Definition turn_ok (e : eng) (x : sess) (e' : eng) (x' : sess) : Prop :=
    good e' x' /\ le_eng e e' /\
    (has_db e' d = false -> has_db e d = false /\ todo x' = [cop] /\ (pc x' = 0 \/ pc x' = 1)%nat) /\
    (at_boot x -> booted e' d = true) /\
    (has_db e d = false -> has_db e' d = true -> at_boot x') /\
    (~ at_boot x -> booted e' d = booted e d \/ has_db e d = false).

  (* engine unchanged, session moves to a program point whose requirement already holds *)
  Lemma same_engine e p la p' la' : req e p' -> (p <> 2)%nat -> (has_db e d = false -> (p' = 0 \/ p' = 1)%nat) ->
    turn_ok e (csess p la) e (csess p' la').
  Proof.
    intros R N2 Z. unfold turn_ok, at_boot. cbn [todo pc].
    split; [left; repeat split; exact R|]. split; [apply le_refl|]. split; [intros H; auto|].
    split; [intros [_ ?]; contradiction|]. split; [intros; congruence|]. intros; auto.
  Qed.

  Lemma turn_good e x : good e x -> let '(e', x', _) := turn e x in turn_ok e x e' x'.
  Proof.
    intros [(T & Dn & R)|(T & Dn & H1 & H2)].
    - destruct x as [td p la dn]. cbn in T, Dn, R. subst td dn. fold (csess p la).
      destruct p as [|[|[|[|[|[|[|[|p]]]]]]]]; cbn in R; try contradiction.
      + (* pc 0: QDb *)
        unfold turn, csess. cbn. destruct (has_db e d) eqn:Hd; cbn.
        * apply (same_engine e 0 la 3 (ABool true)); cbn; auto; congruence.
        * apply (same_engine e 0 la 1 (ABool false)); cbn; auto.
      + (* pc 1: Attach *)
        unfold turn, csess. cbn. destruct (has_db e d) eqn:Hd; cbn.
        * apply (same_engine e 1 la 2 AOk); cbn; auto; congruence.
        * fold (e_attach e). unfold turn_ok, at_boot. cbn [todo pc].
          split; [left; repeat split; cbn; apply attach_db|].
          split; [repeat split; intros; [apply attach_db|apply attach_sch; assumption|apply attach_booted; assumption]|].
          split; [intros F; rewrite attach_db in F; discriminate|]. split; [intros [_ ?]; discriminate|].
          split; [intros; split; reflexivity|]. intros _. right. exact Hd.
      + (* pc 2: Boot *)
        unfold turn, csess. cbn. rewrite R. cbn. fold (e_boot e). unfold turn_ok, at_boot. cbn [todo pc].
        split; [left; repeat split; cbn; rewrite boot_db; exact R|].
        split; [repeat split; intros; [rewrite boot_db; assumption|assumption|apply boot_booted; exact R]|].
        split; [intros F; rewrite boot_db in F; congruence|]. split; [intros _; apply boot_booted; exact R|].
        split; [intros; congruence|]. intros N. exfalso. apply N. split; reflexivity.
      + (* pc 3: QSchema *)
        unfold turn, csess. cbn. destruct (has_sch e d s) eqn:Hs; cbn.
        * apply (same_engine e 3 la 6 (ABool true)); cbn; auto; congruence.
        * apply (same_engine e 3 la 4 (ABool false)); cbn; auto; congruence.
      + (* pc 4: QDb again *)
        unfold turn, csess. cbn. rewrite R. cbn. apply (same_engine e 4 la 5 (ABool true)); cbn; auto; congruence.
      + (* pc 5: MkSchema *)
        unfold turn, csess. cbn. rewrite R. destruct (has_sch e d s) eqn:Hs; cbn.
        * apply (same_engine e 5 la 6 AOk); cbn; auto; congruence.
        * fold (e_mksch e). unfold turn_ok, at_boot. cbn [todo pc].
          split; [left; repeat split; cbn; [exact R|apply mksch_sch]|].
          split; [repeat split; intros; auto; apply mksch_sch|].
          split; [intros F; rewrite mksch_db in F; congruence|]. split; [intros [_ ?]; discriminate|].
          split; [intros; congruence|]. intros _. left. reflexivity.
      + (* pc 6: QSchema: always true here *)
        destruct R as [R1 R2]. unfold turn, csess. cbn. rewrite R2. cbn.
        apply (same_engine e 6 la 7 (ABool true)); cbn; auto; congruence.
      + (* pc 7: SetSchema: the connect is complete *)
        destruct R as [R1 R2]. unfold turn, csess. cbn. rewrite R2. cbn. unfold turn_ok, at_boot. cbn [todo pc].
        split; [right; repeat split; auto|]. split; [apply le_refl|]. split; [intros; congruence|].
        split; [intros [_ ?]; discriminate|]. split; [intros; congruence|]. intros; auto.
    - (* finished sessions do nothing *)
      destruct x as [td p la dn]. cbn in T, Dn. subst td dn. unfold turn. cbn. unfold turn_ok, at_boot. cbn [todo pc].
      split; [right; repeat split; auto|]. split; [apply le_refl|]. split; [intros; congruence|].
      split; [intros [? _]; discriminate|]. split; [intros; congruence|]. intros; auto.
  Qed.

  Lemma inv_turn e ss i x : Inv (e, ss) -> nth_error ss i = Some x ->
    let '(e', x', _) := turn e x in Inv (e', upd ss i x').
  Proof.
    intros (G & J0 & J1) N.
    assert (Gx : good e x) by (rewrite Forall_forall in G; apply G; eapply nth_error_In; eauto).
    pose proof (turn_good e x Gx) as T. destruct (turn e x) as [[e' x'] c].
    unfold turn_ok in T. destruct T as (G' & L & A0 & A1 & A2 & A3).
    pose proof (nth_error_lt _ _ _ N) as Hi.
    unfold Inv. repeat split.
    - rewrite Forall_forall. intros z Hz. apply in_upd in Hz. destruct Hz as [->|Hz]; [exact G'|].
      eapply good_mono; [exact L|]. rewrite Forall_forall in G. apply G. exact Hz.
    - intros Hd'. destruct (A0 Hd') as (Hd & T' & P'). specialize (J0 Hd).
      rewrite Forall_forall. intros z Hz. apply in_upd in Hz. destruct Hz as [->|Hz]; [auto|].
      rewrite Forall_forall in J0. apply J0. exact Hz.
    - intros Hd' Hb'. destruct (has_db e d) eqn:Hd.
      + (* the database existed before: the witness is kept unless it was the acting session, which then booted *)
        assert (Hb : booted e d = false).
        { destruct (booted e d) eqn:B; [|reflexivity]. destruct L as (_ & _ & L3). rewrite (L3 B) in Hb'. discriminate. }
        specialize (J1 eq_refl Hb).
        assert (NB : ~ at_boot x). { intros AB. rewrite (A1 AB) in Hb'. discriminate. }
        eapply exists_upd_other; eauto.
      + (* the acting session has just attached it *)
        apply exists_upd_same; [exact Hi|]. apply A2; [reflexivity|exact Hd'].
  Qed.

  Lemma inv_sched_step lk st i : Inv st -> Inv (sched_step lk st i).
  Proof.
    destruct st as [e ss]. intros I. unfold sched_step. destruct (nth_error ss i) as [x|] eqn:N; [|exact I].
    destruct (lk && wants_lock x && negb (lock_free_for ss i)); [exact I|].
    pose proof (inv_turn e ss i x I N) as T. destruct (turn e x) as [[e' x'] c]. exact T.
  Qed.

  Lemma inv_run_sched lk sch : forall st, Inv st -> Inv (run_sched lk sch st).
  Proof. unfold run_sched. induction sch as [|i sch IH]; intros st I; [exact I|]. cbn [fold_left]. apply IH. apply inv_sched_step. exact I. Qed.

  Lemma inv_init n : Inv (e0, map mk_sess (repeat [cop] n)).
  Proof.
    unfold Inv. repeat split.
    - rewrite Forall_forall. intros x Hx. apply in_map_iff in Hx. destruct Hx as (o & <- & Ho). apply repeat_spec in Ho. subst o.
      left. repeat split.
    - intros _. rewrite Forall_forall. intros x Hx. apply in_map_iff in Hx. destruct Hx as (o & <- & Ho). apply repeat_spec in Ho. subst o.
      split; [reflexivity|left; reflexivity].
    - intros H. discriminate.
  Qed.

  (* For EVERY number of sessions, EVERY schedule and with or without the connect lock: no call of any connect ever
     fails; every finished connect reports success with the database and the schema in place; and once all have
     finished the database is attached, bootstrapped and has the schema - whatever the interleaving, i.e. exactly the
     outcome of running the connects one after another. *)
  Theorem connects_all_succeed_l : forall lk n sch,
    let '(e, ss) := run_sched lk sch (e0, map mk_sess (repeat [cop] n)) in
    Forall (good e) ss /\
    (all_done ss = true -> n <> 0%nat -> has_db e d = true /\ booted e d = true /\ has_sch e d s = true /\ Forall (fun x => done x = [AOk]) ss).
  Proof.
    intros lk n sch. pose proof (inv_run_sched lk sch _ (inv_init n)) as I.
    assert (Len : length (snd (run_sched lk sch (e0, map mk_sess (repeat [cop] n)))) = n).
    { rewrite run_sched_length. cbn. rewrite map_length, repeat_length. reflexivity. }
    destruct (run_sched lk sch (e0, map mk_sess (repeat [cop] n))) as [e ss]. cbn in Len.
    destruct I as (G & J0 & J1). split; [exact G|]. intros AD Hn.
    assert (Dn : Forall (fun x => todo x = []) ss).
    { unfold all_done in AD. rewrite forallb_forall in AD. rewrite Forall_forall. intros x Hx. specialize (AD x Hx). destruct (todo x); [reflexivity|discriminate]. }
    destruct ss as [|x0 ss']; [cbn in Len; congruence|].
    assert (Hd : has_db e d = true).
    { destruct (has_db e d) eqn:Hd; [reflexivity|]. specialize (J0 eq_refl). inversion J0; subst. inversion Dn; subst. destruct H1 as [T _]. congruence. }
    assert (Hb : booted e d = true).
    { destruct (booted e d) eqn:Hb; [reflexivity|]. specialize (J1 Hd eq_refl). rewrite Exists_exists in J1. destruct J1 as (z & Hz & T & _).
      rewrite Forall_forall in Dn. rewrite (Dn z Hz) in T. discriminate. }
    assert (Hs : has_sch e d s = true).
    { inversion G; subst. inversion Dn; subst. destruct H1 as [(T & _)|(_ & _ & _ & S)]; [congruence|exact S]. }
    repeat split; auto. rewrite Forall_forall in *. intros z Hz. destruct (G z Hz) as [(T & _)|(_ & D' & _)]; [rewrite (Dn z Hz) in T; discriminate|exact D'].
  Qed.

  (* ---- progress: without the lock every turn of an unfinished connect moves it strictly closer to the end ---- *)
  Definition rank (x : sess) : nat :=
    match todo x with [] => 0 | _ => 8 - pc x end%nat.

  Lemma turn_rank e x : good e x -> let '(_, x', _) := turn e x in (rank x' < rank x)%nat \/ (rank x = 0 /\ rank x' = 0)%nat.
  Proof.
    intros [(T & Dn & R)|(T & Dn & H1 & H2)].
    - destruct x as [td p la dn]. cbn in T, Dn, R. subst td dn.
      destruct p as [|[|[|[|[|[|[|[|p]]]]]]]]; cbn in R; try contradiction; unfold turn, rank; cbn.
      + destruct (has_db e d); cbn; left; lia.
      + destruct (has_db e d); cbn; left; lia.
      + rewrite R. cbn. left. lia.
      + destruct (has_sch e d s); cbn; left; lia.
      + rewrite R. cbn. left. lia.
      + rewrite R. destruct (has_sch e d s); cbn; left; lia.
      + destruct R as [R1 R2]. rewrite R2. cbn. left. lia.
      + destruct R as [R1 R2]. rewrite R2. cbn. left. lia.
    - destruct x as [td p la dn]. cbn in T. subst td. unfold turn, rank. cbn. right. split; reflexivity.
  Qed.

  Fixpoint occ (i : nat) (sch : list nat) : nat :=
    match sch with [] => 0 | j :: r => (if Nat.eqb j i then 1 else 0) + occ i r end%nat.

  Lemma progress_inv sch : forall st, Inv st ->
    (forall i x, nth_error (snd st) i = Some x -> (rank x <= occ i sch)%nat) ->
    forall i x, nth_error (snd (run_sched false sch st)) i = Some x -> rank x = 0%nat.
  Proof.
    unfold run_sched. induction sch as [|j sch IH]; intros st I B i x N.
    - cbn in N. specialize (B i x N). cbn in B. lia.
    - cbn [fold_left] in N. apply (IH (sched_step false st j)) with (i := i); [apply inv_sched_step; exact I| |exact N].
      clear N i x. intros i x N. destruct st as [e ss]. unfold sched_step in N. cbn [snd] in B.
      destruct (nth_error ss j) as [y|] eqn:Nj.
      + cbn [andb] in N. destruct I as (G & _ & _).
        assert (Gy : good e y) by (rewrite Forall_forall in G; apply G; eapply nth_error_In; eauto).
        pose proof (turn_rank e y Gy) as TR. destruct (turn e y) as [[e' y'] c]. cbn [snd] in N.
        destruct (Nat.eq_dec j i) as [->|Ne].
        * rewrite nth_error_upd_same in N by (eapply nth_error_lt; eauto). injection N as <-.
          specialize (B i y Nj). cbn [occ] in B. rewrite Nat.eqb_refl in B. cbn iota in B. destruct TR as [TR|[TR1 TR2]]; lia.
        * rewrite nth_error_upd_other in N by exact Ne. specialize (B i x N). cbn [occ] in B.
          assert (E : Nat.eqb j i = false) by (apply Nat.eqb_neq; exact Ne). rewrite E in B. cbn iota in B. lia.
      + cbn [snd] in N. destruct (Nat.eq_dec j i) as [->|Ne]; [congruence|].
        specialize (B i x N). cbn [occ] in B.
        assert (E : Nat.eqb j i = false) by (apply Nat.eqb_neq; exact Ne). rewrite E in B. cbn iota in B. lia.
  Qed.

  (* every schedule (without the lock) that gives each of the n sessions at least 8 turns finishes every connect *)
  Theorem connects_terminate_l : forall n sch, (forall i, (i < n)%nat -> (8 <= occ i sch)%nat) ->
    all_done (snd (run_sched false sch (e0, map mk_sess (repeat [cop] n)))) = true.
  Proof.
    intros n sch H. unfold all_done. apply forallb_forall. intros x Hx.
    apply In_nth_error in Hx. destruct Hx as [i Ni].
    assert (R : rank x = 0%nat).
    { apply (progress_inv sch (e0, map mk_sess (repeat [cop] n)) (inv_init n)) with (i := i); [|exact Ni].
      intros k y Nk. cbn [snd] in Nk. pose proof (nth_error_lt _ _ _ Nk) as Lk. rewrite map_length, repeat_length in Lk.
      apply nth_error_In in Nk. apply in_map_iff in Nk. destruct Nk as (o & <- & Ho). apply repeat_spec in Ho. subst o.
      unfold rank. cbn. apply (H k Lk). }
    unfold rank in R. destruct (todo x) as [|o r] eqn:T; [reflexivity|].
    (* a session with work left and rank 0 would sit at pc >= 8, which `good` excludes *)
    exfalso. pose proof (connects_all_succeed_l false n sch) as C.
    destruct (run_sched false sch (e0, map mk_sess (repeat [cop] n))) as [e ss]. destruct C as [G _]. cbn [snd] in Ni.
    rewrite Forall_forall in G. apply nth_error_In in Ni. specialize (G x Ni).
    destruct G as [(T' & _ & Rq)|(T' & _)]; [|congruence].
    assert (P : (8 <= pc x)%nat) by lia. unfold req in Rq.
    destruct (pc x) as [|[|[|[|[|[|[|[|p]]]]]]]]; try lia; exact Rq.
  Qed.
End Connects.

(* ------------------------------------------------------------------ progress: a connect finishes within ten of its own turns *)
Definition DB : str := lit "DB1".
Definition SC : str := lit "S1".
Definition TK : key := [DB; SC; lit "T"].

(* two and three sessions, all round-robin completions: everything done, same final state (kernel computation) *)
Lemma connects_complete_example :
  all_done (snd (run_all true [0; 1; 0; 1; 1; 0]%nat [[Connect DB SC]; [Connect DB SC]])) = true /\
  all_done (snd (run_all false [0; 1; 2; 2; 1; 0; 0; 1]%nat [[Connect DB SC]; [Connect DB SC]; [Connect DB SC]])) = true /\
  fst (run_all false [0; 1; 2; 2; 1; 0; 0; 1]%nat [[Connect DB SC]; [Connect DB SC]; [Connect DB SC]]) = fst (run_all false [] [[Connect DB SC]]).
Proof. vm_compute. repeat split. Qed.

(* ------------------------------------------------------------------ multi-step statements are observed half-done *)
Definition setup : list op := [Connect DB SC].
Definition is_torn (a : ans) : bool := match a with AMeta true None => true | _ => false end.

(* serial orders give (absent) or (present with its comment); the schedule A,B,A gives (present, no comment) *)
Lemma torn_create_table_refuted_l :
  exists sch, existsb is_torn (done (nth 2 (snd (run_all true sch [setup; [CreateTable TK (Some (lit "c"))]; [Meta TK]])) (mk_sess []))) = true /\
  forall serial, In serial [[0; 0; 0; 0; 0; 0; 0; 0; 1; 1; 2]; [0; 0; 0; 0; 0; 0; 0; 0; 2; 1; 1]]%nat ->
    existsb is_torn (done (nth 2 (snd (run_all true serial [setup; [CreateTable TK (Some (lit "c"))]; [Meta TK]])) (mk_sess []))) = false.
Proof.
  exists [0; 0; 0; 0; 0; 0; 0; 0; 1; 2; 1]%nat. split; [vm_compute; reflexivity|].
  intros serial [<-|[<-|[]]]; vm_compute; reflexivity.
Qed.

(* CREATE DATABASE: between ATTACH and the bootstrap another session's CREATE TABLE ... COMMENT fails half-way *)
Definition TX : key := [lit "DBX"; s_main; lit "TX"].
Lemma torn_create_database_refuted_l :
  exists sch, existsb is_err (done (nth 2 (snd (run_all true sch [setup; [CreateDb (lit "DBX")]; [CreateTable TX (Some (lit "c"))]])) (mk_sess []))) = true /\
              klook (tbls (fst (run_all true sch [setup; [CreateDb (lit "DBX")]; [CreateTable TX (Some (lit "c"))]]))) TX = Some [] /\
  existsb is_err (done (nth 2 (snd (run_all true [0; 0; 0; 0; 0; 0; 0; 0; 1; 1; 2; 2]%nat [setup; [CreateDb (lit "DBX")]; [CreateTable TX (Some (lit "c"))]])) (mk_sess []))) = false.
Proof. exists [0; 0; 0; 0; 0; 0; 0; 0; 1; 2; 2; 1]%nat. vm_compute. repeat split. Qed.

(* ------------------------------------------------------------------ single-call statements: no insert is lost *)
Fixpoint pending_vals (k : key) (ops : list op) : list Z :=
  match ops with
  | Insert k' v :: r => if key_eqb k' k then v :: pending_vals k r else pending_vals k r
  | _ :: r => pending_vals k r
  | [] => []
  end.

From Coq Require Import Permutation.

Section Inserts.
  Variable k : key.

  Definition ins_only (x : sess) : Prop :=
    pc x = 0%nat /\ Forall (fun o => exists v, o = Insert k v) (todo x) /\ Forall (fun a => a = AOk) (done x).
  Definition pend (ss : list sess) : list Z := flat_map (fun x => pending_vals k (todo x)) ss.

  Lemma key_eqb_refl' : key_eqb k k = true.
  Proof. induction k as [|a r IH]; cbn; [reflexivity|]. rewrite str_eqb_refl. exact IH. Qed.

  Lemma klook_kput_same {X} (l : list (key * X)) v v0 : klook l k = Some v0 -> klook (kput l k v) k = Some v.
  Proof.
    induction l as [|[k' w] l IH]; cbn; [discriminate|]. destruct (key_eqb k' k) eqn:E; cbn; rewrite E; [reflexivity|exact IH].
  Qed.

  Lemma pend_upd ss : forall i x x', nth_error ss i = Some x ->
    forall v, pending_vals k (todo x) = v :: pending_vals k (todo x') ->
    Permutation (v :: pend (upd ss i x')) (pend ss).
  Proof.
    unfold pend. induction ss as [|y ss IH]; intros [|i] x x' N v E; cbn in *; try discriminate.
    - injection N as ->. rewrite E. reflexivity.
    - eapply perm_trans; [apply Permutation_middle|]. apply Permutation_app_head. eapply IH; eauto.
  Qed.

  Lemma pend_upd_same ss : forall i x x', nth_error ss i = Some x -> pending_vals k (todo x) = pending_vals k (todo x') ->
    pend (upd ss i x') = pend ss.
  Proof.
    unfold pend. induction ss as [|y ss IH]; intros [|i] x x' N E; cbn in *; try discriminate.
    - injection N as ->. rewrite E. reflexivity.
    - f_equal. eapply IH; eauto.
  Qed.

  Lemma pend_done ss : all_done ss = true -> pend ss = [].
  Proof.
    unfold pend, all_done. induction ss as [|y ss IH]; intros AD; [reflexivity|]. cbn in *.
    apply andb_true_iff in AD. destruct AD as [A1 A2]. destruct (todo y); [|discriminate]. cbn. apply IH. exact A2.
  Qed.

  Definition InvI (total : list Z) (st : eng * list sess) : Prop :=
    let '(e, ss) := st in
    Forall ins_only ss /\ exists rows, klook (tbls e) k = Some rows /\ Permutation (rows ++ pend ss) total.

  Lemma invI_step lk total st i : InvI total st -> InvI total (sched_step lk st i).
  Proof.
    destruct st as [e ss]. intros (F & rows & Lk & P). unfold sched_step. destruct (nth_error ss i) as [x|] eqn:N; [|repeat split; eauto].
    destruct (lk && wants_lock x && negb (lock_free_for ss i)); [repeat split; eauto|].
    assert (Ix : ins_only x) by (rewrite Forall_forall in F; apply F; eapply nth_error_In; eauto).
    destruct Ix as (Pc & Ops & Dn). destruct x as [td p la dn]. cbn in Pc, Ops, Dn. subst p.
    destruct td as [|o rest].
    - (* finished *) unfold turn. cbn. split.
      + rewrite Forall_forall. intros z Hz. apply in_upd in Hz. destruct Hz as [->|Hz]; [repeat split; auto|]. rewrite Forall_forall in F. auto.
      + exists rows. split; [exact Lk|]. erewrite pend_upd_same; eauto.
    - inversion Ops as [|? ? [v ->] Ops']; subst. unfold turn. cbn [todo pc fetch]. cbn [exec]. rewrite Lk. cbn.
      split.
      + rewrite Forall_forall. intros z Hz. apply in_upd in Hz. destruct Hz as [->|Hz].
        * repeat split; cbn; auto. apply Forall_app. split; [exact Dn|repeat constructor].
        * rewrite Forall_forall in F. auto.
      + exists (rows ++ [v]). split; [apply (klook_kput_same _ _ rows); exact Lk|].
        rewrite <- app_assoc. cbn [app]. eapply perm_trans; [|exact P]. apply Permutation_app_head.
        eapply pend_upd; eauto. cbn. rewrite key_eqb_refl'. reflexivity.
  Qed.

  Lemma invI_run lk sch total : forall st, InvI total st -> InvI total (run_sched lk sch st).
  Proof. unfold run_sched. induction sch as [|i sch IH]; intros st I; [exact I|]. cbn [fold_left]. apply IH. apply invI_step. exact I. Qed.

  (* Any number of sessions inserting into one table, any schedule: every insert succeeds, and once all are done the
     table holds its old rows plus exactly the inserted values - none lost, none duplicated *)
  Theorem inserts_not_lost_l : forall lk sch e rows (scripts : list (list Z)),
    klook (tbls e) k = Some rows ->
    let '(e', ss) := run_sched lk sch (e, map (fun vs => mk_sess (map (Insert k) vs)) scripts) in
    Forall (fun x => Forall (fun a => a = AOk) (done x)) ss /\
    (all_done ss = true -> exists rows', klook (tbls e') k = Some rows' /\ Permutation rows' (rows ++ concat scripts)).
  Proof.
    intros lk sch e rows scripts Lk.
    assert (I0 : InvI (rows ++ concat scripts) (e, map (fun vs => mk_sess (map (Insert k) vs)) scripts)).
    { split.
      - rewrite Forall_forall. intros x Hx. apply in_map_iff in Hx. destruct Hx as (vs & <- & _). repeat split; cbn; auto.
        rewrite Forall_forall. intros o Ho. apply in_map_iff in Ho. destruct Ho as (v & <- & _). eauto.
      - exists rows. split; [exact Lk|]. apply Permutation_app_head. unfold pend. rewrite flat_map_concat_map, map_map.
        assert (E : map (fun vs => pending_vals k (todo (mk_sess (map (Insert k) vs)))) scripts = scripts).
        { rewrite <- (map_id scripts) at 2. apply map_ext. intros vs. cbn. induction vs as [|v vs IH]; cbn; [reflexivity|].
          rewrite key_eqb_refl'. f_equal. exact IH. }
        rewrite E. reflexivity. }
    pose proof (invI_run lk sch _ _ I0) as I. destruct (run_sched lk sch _) as [e' ss]. destruct I as (F & rows' & Lk' & P).
    split.
    - rewrite Forall_forall in *. intros x Hx. destruct (F x Hx) as (_ & _ & D). exact D.
    - intros AD. exists rows'. split; [exact Lk'|].
      rewrite (pend_done ss AD), app_nil_r in P. exact P.
  Qed.
End Inserts.

(* ================================================================== C18: what is on disk after a crash *)
Definition prefix_of (a b : list Z) : Prop := exists t, b = a ++ t.
Definition eng_le (e e' : eng) : Prop :=
  (forall d, has_db e d = true -> has_db e' d = true) /\
  (forall d, booted e d = true -> booted e' d = true) /\
  (forall d s, has_sch e d s = true -> has_sch e' d s = true) /\
  (forall k rows, klook (tbls e) k = Some rows -> exists rows', klook (tbls e') k = Some rows' /\ prefix_of rows rows') /\
  (forall k c, klook (cmts e) k = Some c -> exists c', klook (cmts e') k = Some c').

Lemma prefix_refl a : prefix_of a a.
Proof. exists []. rewrite app_nil_r. reflexivity. Qed.
Lemma prefix_trans a b c : prefix_of a b -> prefix_of b c -> prefix_of a c.
Proof. intros [t ->] [u ->]. exists (t ++ u). rewrite app_assoc. reflexivity. Qed.

Lemma eng_le_refl e : eng_le e e.
Proof. repeat split; auto; intros; eauto using prefix_refl. Qed.
Lemma eng_le_trans a b c : eng_le a b -> eng_le b c -> eng_le a c.
Proof.
  intros (A1 & A2 & A3 & A4 & A5) (B1 & B2 & B3 & B4 & B5). repeat split; auto.
  - intros k rows H. destruct (A4 _ _ H) as (r1 & H1 & P1). destruct (B4 _ _ H1) as (r2 & H2 & P2). eauto using prefix_trans.
  - intros k c0 H. destruct (A5 _ _ H) as (c1 & H1). eauto.
Qed.

Lemma gkey_eqb_eq a : forall b, key_eqb a b = true -> a = b.
Proof.
  induction a as [|x a IH]; intros [|y b] H; cbn in H; try discriminate; [reflexivity|].
  apply andb_true_iff in H. destruct H as [H1 H2]. apply str_eqb_eq in H1. f_equal; auto.
Qed.

Lemma gkey_eqb_refl a : key_eqb a a = true.
Proof. induction a as [|x a IH]; cbn; [reflexivity|]. rewrite str_eqb_refl. exact IH. Qed.
Lemma gkey_eqb_sym a b : key_eqb a b = key_eqb b a.
Proof.
  destruct (key_eqb a b) eqn:E.
  - apply gkey_eqb_eq in E. subst. symmetry. apply gkey_eqb_refl.
  - destruct (key_eqb b a) eqn:E'; [|reflexivity]. apply gkey_eqb_eq in E'. subst. rewrite gkey_eqb_refl in E. discriminate.
Qed.

Lemma klook_kput {X} (l : list (key * X)) k v k' :
  klook (kput l k v) k' = if key_eqb k k' then Some v else klook l k'.
Proof.
  induction l as [|[k0 w] l IH]; cbn.
  - destruct (key_eqb k k'); reflexivity.
  - destruct (key_eqb k0 k) eqn:E; cbn.
    + apply gkey_eqb_eq in E. subst k0. destruct (key_eqb k k'); reflexivity.
    + rewrite IH. destruct (key_eqb k0 k') eqn:E2; [|reflexivity].
      apply gkey_eqb_eq in E2. subst k0. rewrite gkey_eqb_sym, E. reflexivity.
Qed.

Lemma klook_app_none {X} (l : list (key * X)) k v k' : klook l k' = None -> klook (l ++ [(k, v)]) k' = if key_eqb k k' then Some v else None.
Proof. induction l as [|[k0 w] l IH]; cbn; [reflexivity|]. destruct (key_eqb k0 k'); [discriminate|exact IH]. Qed.
Lemma klook_app_some {X} (l : list (key * X)) x k' r : klook l k' = Some r -> klook (l ++ x) k' = Some r.
Proof. induction l as [|[k0 w] l IH]; cbn; [discriminate|]. destruct (key_eqb k0 k'); [auto|exact IH]. Qed.

Lemma tbls_le (t t' : list (key * list Z)) :
  (forall k rows, klook t k = Some rows -> exists rows', klook t' k = Some rows' /\ prefix_of rows rows') -> True.
Proof. auto. Qed.

Arguments has_db : simpl never.
Arguments has_sch : simpl never.
Arguments booted : simpl never.

(* no engine call of the model removes or rewrites anything durable *)
Lemma exec_mono e c : eng_le e (fst (exec e c)).
Proof.
  destruct c as [d|d s|d|d|d s|d s|k|k c|k v|k|k| |k v|k vs| |sid k src|sid k|sid]; cbn; try apply eng_le_refl.
  - (* Attach *) destruct (has_db e d) eqn:H; [apply eng_le_refl|]. cbn. repeat split; cbn; auto; intros.
    + unfold has_db in *. cbn [dbs]. rewrite existsb_app, H0. reflexivity.
    + unfold booted in *. cbn [dbs]. rewrite existsb_app, H0. reflexivity.
    + unfold has_sch in *. cbn [schs]. rewrite existsb_app, H0. reflexivity.
    + eauto using prefix_refl.
    + eauto.
  - (* Boot *) destruct (has_db e d) eqn:H; [|apply eng_le_refl]. cbn. repeat split; cbn; auto; intros.
    + unfold has_db in *. cbn [dbs]. rewrite existsb_exists in *. destruct H0 as ([n b] & I & E). cbn in E.
      exists (if str_eqb n d then (n, true) else (n, b)). split.
      * apply in_map_iff. exists (n, b). auto.
      * destruct (str_eqb n d); exact E.
    + unfold booted in *. cbn [dbs]. rewrite existsb_exists in *. destruct H0 as ([n b] & I & E). cbn in E.
      exists (if str_eqb n d then (n, true) else (n, b)). split.
      * apply in_map_iff. exists (n, b). auto.
      * apply andb_true_iff in E. destruct E as [E1 E2]. cbn in E2. subst b. destruct (str_eqb n d); cbn; rewrite E1; reflexivity.
    + eauto using prefix_refl.
    + eauto.
  - (* MkSchema *) destruct (has_db e d); [|apply eng_le_refl]. destruct (has_sch e d s) eqn:H; [apply eng_le_refl|]. cbn.
    repeat split; cbn; auto; intros; eauto using prefix_refl. unfold has_sch in *. cbn [schs]. rewrite existsb_app, H0. reflexivity.
  - (* SetSchema *) destruct (has_sch e d s); apply eng_le_refl.
  - (* MkTable *) destruct (negb (has_db e (kd k))); [apply eng_le_refl|]. destruct (has_sch e (kd k) (ks k)); [|apply eng_le_refl].
    destruct (klook (tbls e) k) eqn:H; [apply eng_le_refl|]. cbn. repeat split; cbn; auto; intros; eauto.
    exists rows. split; [apply klook_app_some; assumption|apply prefix_refl].
  - (* PutComment *) destruct (booted e (kd k)); [|apply eng_le_refl]. cbn. repeat split; cbn; auto; intros; eauto using prefix_refl.
    rewrite klook_kput. destruct (key_eqb k k0); eauto.
  - (* InsertRow *) destruct (klook (tbls e) k) as [rows|] eqn:H; [|apply eng_le_refl]. cbn. repeat split; cbn; auto; intros; eauto.
    rewrite klook_kput. destruct (key_eqb k k0) eqn:E.
    + apply gkey_eqb_eq in E. subst k0. rewrite H in H0. injection H0 as <-. exists (rows ++ [v]). split; [reflexivity|]. exists [v]. reflexivity.
    + eauto using prefix_refl.
  - (* ReadTable *) destruct (klook (tbls e) k); apply eng_le_refl.
  - (* TxStage *) destruct (klook (tbls e) k); apply eng_le_refl.
  - (* CommitRows *) destruct (klook (tbls e) k) as [rows|] eqn:H; [|apply eng_le_refl]. cbn. repeat split; cbn; auto; intros; eauto.
    rewrite klook_kput. destruct (key_eqb k k0) eqn:E.
    + apply gkey_eqb_eq in E. subst k0. rewrite H in H0. injection H0 as <-. exists (rows ++ vs). split; [reflexivity|]. exists vs. reflexivity.
    + eauto using prefix_refl.
  - (* MkCands: only the session's temporary table *) destruct (klook (tbls e) k); [|apply eng_le_refl]. destruct (klook (tbls e) src); apply eng_le_refl || (cbn; repeat split; cbn; auto; intros; eauto using prefix_refl).
  - (* ApplyCands *) destruct (klook (tbls e) k) as [rows|] eqn:H; [|apply eng_le_refl]. destruct (tlook (temps e) sid) as [cs|]; [|apply eng_le_refl].
    cbn. repeat split; cbn; auto; intros; eauto.
    rewrite klook_kput. destruct (key_eqb k k0) eqn:E.
    + apply gkey_eqb_eq in E. subst k0. rewrite H in H0. injection H0 as <-. exists (rows ++ cs). split; [reflexivity|]. exists cs. reflexivity.
    + eauto using prefix_refl.
  - (* CountCands *) destruct (tlook (temps e) sid); apply eng_le_refl.
Qed.

Lemma turn_mono e x : eng_le e (fst (fst (turn e x))).
Proof.
  unfold turn. destruct (todo x) as [|o rest]; [apply eng_le_refl|]. destruct (fetch o (pc x)) as [c|]; [|apply eng_le_refl].
  pose proof (exec_mono e c) as M. destruct (exec e c) as [e' a]. exact M.
Qed.

Lemma sched_step_mono lk st i : eng_le (fst st) (fst (sched_step lk st i)).
Proof.
  destruct st as [e ss]. unfold sched_step. destruct (nth_error ss i) as [x|]; [|apply eng_le_refl].
  destruct (lk && wants_lock x && negb (lock_free_for ss i)); [apply eng_le_refl|].
  pose proof (turn_mono e x) as M. destruct (turn e x) as [[e' x'] c]. exact M.
Qed.

Lemma run_sched_mono lk sch : forall st, eng_le (fst st) (fst (run_sched lk sch st)).
Proof.
  unfold run_sched. induction sch as [|i sch IH]; intros st; [apply eng_le_refl|]. cbn [fold_left].
  eapply eng_le_trans; [apply sched_step_mono|apply IH].
Qed.

Lemma firstn_plus {X} (l : list X) : forall n m, firstn (n + m) l = firstn n l ++ firstn m (skipn n l).
Proof. induction l as [|x l IH]; intros [|n] m; cbn; try reflexivity; [destruct m; reflexivity|]. rewrite IH. reflexivity. Qed.

(* Whatever was durable at one crash point is durable at every later one: databases, their bootstrap, schemas, tables,
   every row in its place, every recorded comment - for every set of sessions and every schedule *)
Theorem committed_survives_l : forall lk sch scripts n n', (n <= n')%nat -> eng_le (crash lk sch n scripts) (crash lk sch n' scripts).
Proof.
  intros lk sch scripts n n' H. unfold crash.
  assert (E : firstn n' sch = firstn n sch ++ firstn (n' - n) (skipn n sch)).
  { replace n' with (n + (n' - n))%nat at 1 by lia. rewrite firstn_plus. reflexivity. }
  rewrite E. unfold run_sched. rewrite fold_left_app. apply (run_sched_mono lk (firstn (n' - n) (skipn n sch))).
Qed.

(* a statement that completed before the crash left its effect: the row is in the table, the table exists, ... *)
Lemma insert_effect_l e k v e' : exec e (InsertRow k v) = (e', AOk) -> exists rows, klook (tbls e') k = Some (rows ++ [v]).
Proof.
  cbn. destruct (klook (tbls e) k) as [rows|] eqn:H; intros E; [|discriminate]. injection E as <-. exists rows. cbn. rewrite klook_kput.
  assert (R : key_eqb k k = true) by (clear; induction k as [|a r IH]; cbn; [reflexivity|]; rewrite str_eqb_refl; exact IH). rewrite R. reflexivity.
Qed.

(* transactions: the ONLY call of BEGIN; INSERT...; COMMIT that touches the durable state is the COMMIT, which adds all
   rows at once; a transaction that is rolled back or left open never touches it *)
Theorem tx_only_commit_writes_l : forall e k vs b p c, fetch (TxInserts k vs b) p = Some c -> c <> CommitRows k vs -> fst (exec e c) = e.
Proof.
  intros e k vs b p c F N. destruct p as [|i]; cbn in F.
  - injection F as <-. reflexivity.
  - destruct (nth_error vs i) as [v|]; [injection F as <-; cbn; destruct (klook (tbls e) k); reflexivity|].
    destruct (Nat.eqb i (length vs)); [|discriminate]. destruct b; injection F as <-; [contradiction|reflexivity].
Qed.
Theorem tx_uncommitted_absent_l : forall e k vs p c, fetch (TxInserts k vs false) p = Some c -> fst (exec e c) = e.
Proof.
  intros e k vs p c F. apply (tx_only_commit_writes_l e k vs false p c F). intros ->.
  destruct p as [|i]; cbn in F; [discriminate|]. destruct (nth_error vs i); [discriminate|]. destruct (Nat.eqb i (length vs)); discriminate.
Qed.
Theorem tx_commit_all_at_once_l : forall e k vs rows, klook (tbls e) k = Some rows -> klook (tbls (fst (exec e (CommitRows k vs)))) k = Some (rows ++ vs).
Proof.
  intros e k vs rows H. cbn. rewrite H. cbn. rewrite klook_kput.
  assert (R : key_eqb k k = true) by (clear; induction k as [|a r IH]; cbn; [reflexivity|]; rewrite str_eqb_refl; exact IH). rewrite R. reflexivity.
Qed.

(* "a statement interrupted by the kill is either fully there or not at all" is FALSE for multi-call statements *)
Lemma multi_step_atomic_refuted_l : exists n,
  let h := [[Connect DB SC; CreateTable TK (Some (lit "c"))]] in
  klook (tbls (crash false (repeat 0%nat 20) n h)) TK = Some [] /\ klook (cmts (crash false (repeat 0%nat 20) n h)) TK = None /\
  klook (cmts (crash false (repeat 0%nat 20) 20 h)) TK = Some (lit "c").
Proof. exists 9%nat. vm_compute. repeat split. Qed.

Lemma crash_nonvacuous_l :
  let h := [[Connect DB SC; CreateTable TK (Some (lit "c")); Insert TK 1; TxInserts TK [2; 3] true; TxInserts TK [4; 5] false; Insert TK 6]] in
  klook (tbls (crash false (repeat 0%nat 40) 14 h)) TK = Some [1] /\        (* killed inside the first transaction *)
  klook (tbls (crash false (repeat 0%nat 40) 15 h)) TK = Some [1; 2; 3] /\  (* after its COMMIT *)
  klook (tbls (crash false (repeat 0%nat 40) 40 h)) TK = Some [1; 2; 3; 6]. (* the rolled-back rows never appear *)
Proof. vm_compute. repeat split. Qed.

(* ------------------------------------------------------------------ MERGE: the staging table is private to its session *)
Definition op_sid_ok (j : nat) (o : op) : bool := match o with Merge sid _ _ => Nat.eqb sid j | _ => true end.
Definition script_ok (j : nat) (ops : list op) : Prop := Forall (fun o => op_sid_ok j o = true) ops.
Definition all_ok (ss : list sess) : Prop := forall j s, nth_error ss j = Some s -> script_ok j (todo s).

(* between its first and its last engine call, a MERGE of session i finds in ITS temporary table exactly the candidates
   its own first call computed (and its second call applied) *)
Definition priv (e : eng) (i : nat) (s : sess) : Prop :=
  match todo s with
  | Merge _ _ _ :: _ => (pc s = 1 \/ pc s = 2)%nat -> exists cs, last s = ARows cs /\ tlook (temps e) i = Some cs
  | _ => True
  end.
Definition MInv (st : eng * list sess) : Prop :=
  all_ok (snd st) /\ forall i s, nth_error (snd st) i = Some s -> priv (fst st) i s.

Lemma tlook_tput l : forall i j v, tlook (tput l i v) j = if Nat.eqb i j then Some v else tlook l j.
Proof.
  induction l as [|[a w] l IH]; intros i j v; cbn.
  - destruct (Nat.eqb i j); reflexivity.
  - destruct (Nat.eqb a i) eqn:E; cbn.
    + apply Nat.eqb_eq in E. subst a. destruct (Nat.eqb i j); reflexivity.
    + rewrite IH. destruct (Nat.eqb i j) eqn:E2; [|reflexivity].
      apply Nat.eqb_eq in E2. subst j. rewrite E. reflexivity.
Qed.

Lemma exec_temps_other e c i : (forall sid k src, c = MkCands sid k src -> sid <> i) -> tlook (temps (fst (exec e c))) i = tlook (temps e) i.
Proof.
  intros H. destruct c as [d|d s|d|d|d s|d s|k|k c|k v|k|k| |k v|k vs| |sid k src|sid k|sid]; cbn;
    repeat match goal with |- context [match ?x with _ => _ end] => destruct x; cbn end; try reflexivity.
  rewrite tlook_tput. destruct (Nat.eqb sid i) eqn:E; [|reflexivity]. apply Nat.eqb_eq in E. exfalso. exact (H sid k src eq_refl E).
Qed.

Lemma fetch_mkcands o p sid k src : fetch o p = Some (MkCands sid k src) -> o = Merge sid k src /\ p = 0%nat.
Proof.
  destruct o as [d s|d|k0 c|k0 v|k0|k0|k0 vs b|sid0 k0 src0]; cbn.
  - do 10 (destruct p as [|p]; try discriminate).
  - do 2 (destruct p as [|p]; try discriminate).
  - destruct p as [|[|p]]; try discriminate; destruct c; discriminate.
  - destruct p; discriminate.
  - destruct p; discriminate.
  - destruct p; discriminate.
  - destruct p as [|p]; [discriminate|]. destruct (nth_error vs p); [discriminate|]. destruct (Nat.eqb p (length vs)); [|discriminate]. destruct b; discriminate.
  - destruct p as [|[|[|p]]]; try discriminate. intros H. injection H as -> -> ->. auto.
Qed.

Lemma settle_todo s : todo (settle s) = todo s \/ exists o, todo s = o :: todo (settle s).
Proof.
  unfold settle. destruct (todo s) as [|o rest] eqn:T; [left; exact T|].
  destruct (fetch o (pc s)); [left; exact T|]. right. exists o. reflexivity.
Qed.

Lemma script_ok_tail j o r : script_ok j (o :: r) -> script_ok j r.
Proof. intros H. inversion H. assumption. Qed.

Lemma priv_settle_popped e i s : (match todo s with o :: _ => fetch o (pc s) = None | [] => True end) -> priv e i (settle s).
Proof.
  unfold settle. destruct (todo s) as [|o rest] eqn:T.
  - intros _. unfold priv. rewrite T. exact I.
  - intros H. rewrite H. unfold priv. cbn. destruct rest as [|[] ?]; try exact I. intros [F|F]; discriminate.
Qed.

Lemma turn_minv e ss j sj : MInv (e, ss) -> nth_error ss j = Some sj ->
  MInv (fst (fst (turn e sj)), upd ss j (snd (fst (turn e sj)))).
Proof.
  intros [Ok Pr] Hj. cbn [fst snd] in *. pose proof (nth_error_lt _ _ _ Hj) as Lt.
  pose proof (Ok j sj Hj) as Okj. pose proof (Pr j sj Hj) as Prj.
  unfold turn. destruct (todo sj) as [|o rest] eqn:T.
  - (* nothing to do *) unfold MInv. cbn [fst snd]. split.
    + intros i s H. destruct (Nat.eq_dec j i) as [<-|N]; [rewrite nth_error_upd_same in H by exact Lt; injection H as <-; exact (Ok j sj Hj)|].
      rewrite nth_error_upd_other in H by exact N. exact (Ok i s H).
    + intros i s H. destruct (Nat.eq_dec j i) as [<-|N]; [rewrite nth_error_upd_same in H by exact Lt; injection H as <-; exact (Pr j sj Hj)|].
      rewrite nth_error_upd_other in H by exact N. exact (Pr i s H).
  - destruct (fetch o (pc sj)) as [c|] eqn:F.
    + (* one engine call *)
      destruct (exec e c) as [e' a] eqn:X. cbn [fst snd].
      set (s1 := {| todo := o :: rest; pc := advance o (pc sj) a; last := a; done := done sj |}).
      assert (Ts1 : todo s1 = o :: rest) by reflexivity.
      assert (Tmp : forall i, i <> j -> tlook (temps e') i = tlook (temps e) i).
      { intros i N. replace e' with (fst (exec e c)) by (rewrite X; reflexivity). apply exec_temps_other.
        intros sid k src ->. apply fetch_mkcands in F. destruct F as [-> _]. inversion Okj as [|? ? Hs _]. cbn in Hs.
        apply Nat.eqb_eq in Hs. congruence. }
      unfold MInv. cbn [fst snd]. split.
      * intros i s H. destruct (Nat.eq_dec j i) as [<-|N].
        -- rewrite nth_error_upd_same in H by exact Lt. injection H as <-.
           destruct (settle_todo s1) as [E|[o' E]]; rewrite Ts1 in E.
           ++ rewrite E. exact Okj.
           ++ injection E as _ E. rewrite <- E. exact (script_ok_tail _ _ _ Okj).
        -- rewrite nth_error_upd_other in H by exact N. exact (Ok i s H).
      * intros i s H. destruct (Nat.eq_dec j i) as [<-|N].
        -- rewrite nth_error_upd_same in H by exact Lt. injection H as <-.
           (* the acting session *)
           destruct (fetch o (advance o (pc sj) a)) eqn:F2.
           ++ (* stays inside the operation *)
              assert (S1 : settle s1 = s1). { unfold settle, s1. cbn [todo pc]. rewrite F2. reflexivity. }
              rewrite S1. unfold priv, s1. cbn [todo pc last].
              destruct o as [d s|d|k0 cm0|k0 v|k0|k0|k0 vs b|sid k0 src0]; try exact I.
              inversion Okj as [|? ? Hs _]. cbn in Hs. apply Nat.eqb_eq in Hs. subst sid.
              unfold priv in Prj. rewrite T in Prj.
              destruct (pc sj) as [|[|[|p]]] eqn:P; cbn in F; try discriminate; injection F as <-.
              ** (* MkCands *) cbn in X. destruct (klook (tbls e) k0) as [tr|]; [destruct (klook (tbls e) src0) as [sr|]|];
                   injection X as <- <-; cbn in F2; try discriminate.
                 intros _. eexists. split; [reflexivity|]. cbn. rewrite tlook_tput, Nat.eqb_refl. reflexivity.
              ** (* ApplyCands *) destruct (Prj (or_introl eq_refl)) as (cs & L & Tl).
                 cbn in X. rewrite Tl in X. destruct (klook (tbls e) k0) as [rows|]; injection X as <- <-; cbn in F2; try discriminate.
                 intros _. exists cs. split; [reflexivity|exact Tl].
              ** (* CountCands is the last call *) cbn in X. destruct (tlook (temps e) j); injection X as <- <-; cbn in F2; discriminate.
           ++ (* the operation ends: the next one starts at pc 0 *)
              apply priv_settle_popped. unfold s1. cbn [todo pc]. exact F2.
        -- rewrite nth_error_upd_other in H by exact N. pose proof (Pr i s H) as Q. unfold priv in *.
           destruct (todo s) as [|[] ?]; try exact I. intros Hp. destruct (Q Hp) as (cs & L & Tl). exists cs. split; [exact L|].
           rewrite Tmp by congruence. exact Tl.
    + (* fetch = None: settle only *)
      unfold MInv. cbn [fst snd]. split.
      * intros i s H. destruct (Nat.eq_dec j i) as [<-|N].
        -- rewrite nth_error_upd_same in H by exact Lt. injection H as <-.
           destruct (settle_todo sj) as [E|[o' E]].
           ++ rewrite E, T. exact Okj.
           ++ rewrite T in E. injection E as _ E. rewrite <- E. exact (script_ok_tail _ _ _ Okj).
        -- rewrite nth_error_upd_other in H by exact N. exact (Ok i s H).
      * intros i s H. destruct (Nat.eq_dec j i) as [<-|N].
        -- rewrite nth_error_upd_same in H by exact Lt. injection H as <-. apply priv_settle_popped. rewrite T. exact F.
        -- rewrite nth_error_upd_other in H by exact N. exact (Pr i s H).
Qed.

Lemma sched_step_minv lk st j : MInv st -> MInv (sched_step lk st j).
Proof.
  destruct st as [e ss]. intros M. unfold sched_step. destruct (nth_error ss j) as [sj|] eqn:Hj; [|exact M].
  destruct (lk && wants_lock sj && negb (lock_free_for ss j)); [exact M|].
  pose proof (turn_minv e ss j sj M Hj) as Q. destruct (turn e sj) as [[e' s'] c]. exact Q.
Qed.

Lemma run_sched_minv lk sch : forall st, MInv st -> MInv (run_sched lk sch st).
Proof. unfold run_sched. induction sch as [|j sch IH]; intros st M; [exact M|]. cbn [fold_left]. apply IH. apply sched_step_minv. exact M. Qed.

Lemma minv_init scripts : (forall j ops, nth_error scripts j = Some ops -> script_ok j ops) -> MInv (e0, map mk_sess scripts).
Proof.
  intros W. split; cbn [fst snd].
  - intros j s H. rewrite nth_error_map in H. destruct (nth_error scripts j) as [ops|] eqn:E; [|discriminate]. injection H as <-. exact (W j ops E).
  - intros i s H. rewrite nth_error_map in H. destruct (nth_error scripts i) as [ops|]; [|discriminate]. injection H as <-.
    unfold priv. cbn. destruct ops as [|[] ?]; try exact I. intros [F|F]; discriminate.
Qed.

(* for EVERY number of sessions, scripts (every MERGE tagged with its own session) and schedule: whenever a session is
   between the engine calls of a MERGE, its staging table holds its own candidates - no interleaving can make it apply or
   count another session's rows *)
Theorem merge_staging_private_l : forall lk sch scripts, (forall j ops, nth_error scripts j = Some ops -> script_ok j ops) ->
  forall i s, nth_error (snd (run_sched lk sch (e0, map mk_sess scripts))) i = Some s ->
  forall sid k src rest, todo s = Merge sid k src :: rest -> (pc s = 1 \/ pc s = 2)%nat ->
  exists cs, last s = ARows cs /\ tlook (temps (fst (run_sched lk sch (e0, map mk_sess scripts)))) i = Some cs.
Proof.
  intros lk sch scripts W i s H sid k src rest T P.
  destruct (run_sched_minv lk sch _ (minv_init scripts W)) as [_ Pr]. specialize (Pr i s H). unfold priv in Pr. rewrite T in Pr. exact (Pr P).
Qed.

(* with ONE staging table shared by the sessions (both MERGEs tagged 1) an interleaving makes session 1 apply session 2's candidates *)
Definition MT1 : key := [DB; SC; lit "T1"].
Definition MS1 : key := [DB; SC; lit "S1"].
Definition MT2 : key := [DB; SC; lit "T2"].
Definition MS2 : key := [DB; SC; lit "S2"].
Definition merge_setup : list op :=
  [Connect DB SC; CreateTable MT1 None; CreateTable MS1 None; CreateTable MT2 None; CreateTable MS2 None; Insert MS1 1; Insert MS2 2].
Definition merge_sched : list nat := repeat 0%nat 40 ++ repeat 1%nat 5 ++ repeat 2%nat 5 ++ [1; 1; 2; 2]%nat.
Lemma merge_shared_refuted_l :
  klook (tbls (fst (run_all true merge_sched [merge_setup; [Connect DB SC; Merge 1 MT1 MS1]; [Connect DB SC; Merge 1 MT2 MS2]]))) MT1 = Some [2] /\
  klook (tbls (fst (run_all true merge_sched [merge_setup; [Connect DB SC; Merge 1 MT1 MS1]; [Connect DB SC; Merge 2 MT2 MS2]]))) MT1 = Some [1].
Proof. vm_compute. split; reflexivity. Qed.
