From FS Require Import Sexp Vars Common.
From Coq Require Import Lia.

(* ---- texts as segments: literal text without '$', or a reference $word ---- *)
Inductive seg := Lit (s : str) | Ref (w : str).

Definition render1 (g : seg) : str := match g with Lit s => s | Ref w => dollar :: w end.
Definition render (segs : list seg) : str := concat (map render1 segs).

Definition dollar_free (s : str) : bool := forallb (fun c => negb (c =? dollar)) s.
Definition word (s : str) : bool := forallb is_word s.
Definition nonnil (s : str) : bool := match s with [] => false | _ => true end.

(* a reference is a maximal word: it is followed by the end of the text or by literal text that
   starts with a non-word character (so `$a$b` and `$a` directly followed by a letter are outside) *)
Fixpoint wf (segs : list seg) : bool :=
  match segs with
  | [] => true
  | Lit s :: r => dollar_free s && wf r
  | Ref w :: r =>
      word w && nonnil w &&
      match r with
      | [] => true
      | Lit (c :: _) :: _ => negb (is_word c)
      | _ => false
      end && wf r
  end.

(* one-pass specification: every reference stands for the value of the variable of that name *)
Definition expand (vs : vars) (segs : list seg) : list seg :=
  map (fun g => match g with
                | Ref w => match lookup vs w with Some v => Lit v | None => Ref w end
                | x => x end) segs.

(* ---- character facts ---- *)
Lemma word_not_dollar c : is_word c = true -> (c =? dollar) = false.
Proof.
  unfold is_word, is_ascii_lower, is_ascii_upper, is_digit, dollar. intros H.
  destruct (Z.eqb_spec c 36) as [->|]; [discriminate H|reflexivity].
Qed.

Lemma boundary_next r : match r with [] => true | Lit (c :: _) :: _ => negb (is_word c) | _ => false end = true ->
  boundary (render r) = true.
Proof.
  destruct r as [|[ [|c s] | w] r']; cbn; try discriminate; auto.
Qed.

Lemma take_word_app w rest : word w = true -> boundary rest = true -> take_word (w ++ rest) = w.
Proof.
  induction w as [|c w IH]; cbn [app word forallb]; intros W B.
  - destruct rest as [|c r]; [reflexivity|]. cbn in *. apply negb_true_iff in B. rewrite B. reflexivity.
  - apply andb_true_iff in W as [W1 W2]. cbn [take_word]. rewrite W1. f_equal. auto.
Qed.

(* ---- scanning lemmas for the one-pass substitution ---- *)
Definition prefix_res (l : str) (r : str + str) : str + str := match r with inl o => inl (l ++ o) | inr e => inr e end.

Lemma xgo_lit vs l rest : dollar_free l = true -> xgo vs O false (l ++ rest) = prefix_res l (xgo vs O false rest).
Proof.
  induction l as [|c l IH]; cbn [app dollar_free forallb]; intros H.
  - unfold prefix_res. destruct (xgo vs 0 false rest); reflexivity.
  - apply andb_true_iff in H as [H1 H2]. apply negb_true_iff in H1.
    cbn [xgo]. rewrite H1. cbn [andb]. rewrite (IH H2). unfold prefix_res. destruct (xgo vs 0 false rest); reflexivity.
Qed.

Lemma xgo_skip' vs : forall w rest pd, nonnil w = true -> xgo vs (length w) pd (w ++ rest) = xgo vs O false rest.
Proof.
  induction w as [|c w IH]; intros rest pd N; [discriminate|]. cbn [length app xgo].
  destruct w as [|c' w']; [reflexivity|]. apply IH. reflexivity.
Qed.

Lemma xgo_ref vs w rest : word w = true -> nonnil w = true -> boundary rest = true ->
  xgo vs O false (dollar :: w ++ rest) =
  match lookup vs w with Some v => prefix_res v (xgo vs O false rest) | None => inr (upper (dollar :: w)) end.
Proof.
  intros Ww NN B. cbn [xgo]. replace (dollar =? dollar) with true by (symmetry; apply Z.eqb_refl). cbn [negb andb].
  assert (Bw : boundary (w ++ rest) = false).
  { destruct w as [|c w']; [discriminate|]. cbn in Ww. apply andb_true_iff in Ww as [Wc _]. cbn. rewrite Wc. reflexivity. }
  rewrite Bw. cbn [negb]. rewrite (take_word_app w rest Ww B).
  destruct (lookup vs w) as [v|]; [|reflexivity].
  rewrite (xgo_skip' vs w rest false NN). unfold prefix_res. destruct (xgo vs 0 false rest); reflexivity.
Qed.

Definition is_ref (g : seg) : bool := match g with Ref _ => true | _ => false end.
Definition defined (vs : vars) (g : seg) : bool :=
  match g with Ref w => match lookup vs w with Some _ => true | None => false end | _ => true end.

(* the one-pass substitution IS the one-pass specification - for every text built from '$'-free literal segments and references,
   every set of variables (any names, any values: a value may contain '$' signs and references, it is not scanned again) *)
Theorem inline_is_expand_l : forall vs segs,
  wf segs = true -> forallb (defined vs) segs = true ->
  inline_text vs (render segs) = inl (render (expand vs segs)).
Proof.
  intros vs. unfold inline_text. induction segs as [|g segs IH]; intros W Df; [reflexivity|].
  cbn [forallb] in Df. apply andb_true_iff in Df as [Dg Df].
  unfold render in *. cbn [map concat]. destruct g as [s|w]; cbn [wf] in W.
  - apply andb_true_iff in W as [D W]. cbn [render1 expand map concat]. rewrite xgo_lit by exact D.
    rewrite (IH W Df). reflexivity.
  - apply andb_true_iff in W as [W Wr]. apply andb_true_iff in W as [W Nx]. apply andb_true_iff in W as [Ww NN].
    pose proof (boundary_next _ Nx) as B. unfold render in B.
    cbn [render1]. cbn [app]. rewrite (xgo_ref vs w _ Ww NN B).
    cbn [defined] in Dg. cbn [expand map]. destruct (lookup vs w) as [v|]; [|discriminate].
    rewrite (IH Wr Df). reflexivity.
Qed.

(* the first reference to an undefined variable raises "Session variable '$NAME' does not exist" *)
Theorem undefined_raises_l : forall vs pre w post,
  wf (pre ++ Ref w :: post) = true ->
  forallb (defined vs) pre = true -> lookup vs w = None ->
  inline_text vs (render (pre ++ Ref w :: post)) = inr (upper (dollar :: w)).
Proof.
  intros vs pre w post. unfold inline_text. induction pre as [|g pre IH]; intros W Df U.
  - cbn [app] in *. cbn [wf] in W. apply andb_true_iff in W as [W Wr]. apply andb_true_iff in W as [W Nx]. apply andb_true_iff in W as [Ww NN].
    pose proof (boundary_next _ Nx) as B. unfold render in *. cbn [map concat render1 app].
    rewrite (xgo_ref vs w _ Ww NN B), U. reflexivity.
  - cbn [forallb] in Df. apply andb_true_iff in Df as [Dg Df]. cbn [app] in *.
    unfold render in *. cbn [map concat]. destruct g as [s|w']; cbn [wf] in W.
    + apply andb_true_iff in W as [D W]. cbn [render1]. rewrite xgo_lit by exact D. rewrite (IH W Df U). reflexivity.
    + apply andb_true_iff in W as [W Wr]. apply andb_true_iff in W as [W Nx]. apply andb_true_iff in W as [Ww NN].
      assert (B : boundary (concat (map render1 (pre ++ Ref w :: post))) = true).
      { apply (boundary_next (pre ++ Ref w :: post)). exact Nx. }
      cbn [render1 app]. rewrite (xgo_ref vs w' _ Ww NN B).
      cbn [defined] in Dg. destruct (lookup vs w'); [|discriminate]. rewrite (IH Wr Df U). reflexivity.
Qed.

(* text without any '$' is never rewritten, whatever the variables *)
Theorem non_reference_text_untouched_l : forall vs s, dollar_free s = true ->
  inline_text vs s = inl s.
Proof.
  intros vs s D. unfold inline_text. pose proof (xgo_lit vs s [] D) as H. rewrite app_nil_r in H. rewrite H. cbn. rewrite app_nil_r. reflexivity.
Qed.

(* a value containing '$' signs and things that look like references is inserted as it is *)
Example value_with_dollars_l :
  inline_text [(lit "P", lit "'$HOME/x $p'"); (lit "HOME", lit "7")] (lit "select $p, $home") = inl (lit "select '$HOME/x $p', 7").
Proof. vm_compute. reflexivity. Qed.

(* ---- per connection ---- *)
Lemma sget_sset_other st c c' v : c <> c' -> sget (sset st c v) c' = sget st c'.
Proof.
  unfold sget. revert c c'. induction st as [|x st IH]; intros [|c] [|c'] H; cbn; try reflexivity; try congruence.
  apply IH. congruence.
Qed.

Definition conn_of (o : vop) : nat := match o with VSet c _ _ | VUnset c _ | VUse c _ => c end.

Theorem per_connection_l : forall st o c', conn_of o <> c' -> sget (fst (vstep st o)) c' = sget st c'.
Proof. intros st [c n v|c n|c s] c' H; cbn [vstep fst conn_of] in *; auto using sget_sset_other. Qed.

(* UNSET removes the name; a later reference to it is undefined again *)
Lemma vunset_not_in vs n : NoDup (map fst vs) -> ~ In n (map fst (vunset vs n)).
Proof.
  induction vs as [|[n' v'] vs IH]; cbn; intros ND; [tauto|].
  inversion ND as [|? ? Nin ND']; subst.
  destruct (str_eqb n' n) eqn:E.
  - apply str_eqb_eq in E. subst. exact Nin.
  - cbn. intros [H|H]; [apply str_eqb_neq in E; congruence|]. apply IH; assumption.
Qed.

Lemma vunset_keeps_nodup vs n : NoDup (map fst vs) -> NoDup (map fst (vunset vs n)).
Proof.
  induction vs as [|[n' v'] vs IH]; cbn; intros ND; [constructor|].
  inversion ND as [|? ? Nin ND']; subst.
  destruct (str_eqb n' n); [exact ND'|]. cbn. constructor; [|auto].
  intros Hc. apply Nin. clear - Hc. induction vs as [|[a b] vs IH]; cbn in *; [tauto|].
  destruct (str_eqb a n); cbn in *; tauto.
Qed.

Lemma vset_lookup vs n v : In (n, v) (vset vs n v).
Proof.
  induction vs as [|[n' v'] vs IH]; cbn; [auto|].
  destruct (str_eqb n' n) eqn:E; cbn; [apply str_eqb_eq in E; subst|]; auto.
Qed.

Example inline_nonvacuous :
  let vs := [(lit "VAR1", lit "5"); (lit "VAR10", lit "'x y'"); (lit "A_B", lit "1 + 2")] in
  let segs := [Lit (lit "select "); Ref (lit "var10"); Lit (lit ", "); Ref (lit "Var1"); Lit (lit "+"); Ref (lit "a_b")] in
  wf segs = true /\ forallb (defined vs) segs = true /\
  inline_text vs (render segs) = inl (lit "select 'x y', 5+1 + 2").
Proof. vm_compute. repeat split. Qed.

(* ------------------------------------------------------------------ protected pieces: literals, quoted identifiers, comments *)
Lemma scan_quoted_split q bs : forall s acc p rest, scan_quoted q bs s acc = Some (p, rest) -> acc ++ s = p ++ rest.
Proof.
  fix IH 1. intros s acc p rest. destruct s as [|x r]; cbn; [discriminate|].
  destruct (bs && (x =? c_bs)).
  - destruct r as [|y r']; [discriminate|]. intros H. apply IH in H. rewrite <- H, <- app_assoc. reflexivity.
  - destruct (negb (x =? q)).
    + intros H. apply IH in H. rewrite <- H, <- app_assoc. reflexivity.
    + destruct r as [|y r'].
      * intros H. injection H as <- <-. rewrite app_nil_r. reflexivity.
      * destruct (y =? q).
        -- intros H. apply IH in H. rewrite <- H, <- app_assoc. reflexivity.
        -- intros H. injection H as <- <-. rewrite <- app_assoc. reflexivity.
Qed.

Lemma find2_split a b : forall s acc p rest, find2 a b s acc = Some (p, rest) -> acc ++ s = p ++ rest.
Proof.
  induction s as [|x r IH]; intros acc p rest; cbn; [discriminate|].
  destruct r as [|y r']; [discriminate|]. destruct ((x =? a) && (y =? b)).
  - intros H. injection H as <- <-. rewrite <- app_assoc. reflexivity.
  - intros H. apply IH in H. rewrite <- H, <- app_assoc. reflexivity.
Qed.

Lemma to_eol_split : forall s acc, acc ++ s = fst (to_eol s acc) ++ snd (to_eol s acc).
Proof.
  induction s as [|x r IH]; intros acc; cbn; [reflexivity|].
  destruct (x =? c_nl); [reflexivity|]. rewrite <- IH, <- app_assoc. reflexivity.
Qed.

Lemma protect_here_split s p rest : protect_here s = Some (p, rest) -> s = p ++ rest.
Proof.
  destruct s as [|c r]; cbn; [discriminate|].
  destruct (c =? c_sq); [intros H; apply scan_quoted_split in H; exact H|].
  destruct (c =? c_dq); [intros H; apply scan_quoted_split in H; exact H|].
  destruct r as [|d r']; [discriminate|].
  destruct ((c =? dollar) && (d =? dollar)); [intros H; apply find2_split in H; exact H|].
  destruct ((c =? c_dash) && (d =? c_dash)).
  - intros H. injection H as H. pose proof (to_eol_split r' [c; d]) as T. rewrite H in T. exact T.
  - destruct ((c =? c_slash) && (d =? c_star)); [intros H; apply find2_split in H; exact H|discriminate].
Qed.

(* cutting loses and invents nothing: the pieces, in order, are the text *)
Theorem split_concat_l : forall s, concat (map snd (split_protected s)) = s.
Proof.
  assert (G : forall fuel s acc, concat (map snd (split_fuel fuel s acc)) = acc ++ s).
  { induction fuel as [|f IH]; intros s acc; cbn [split_fuel]; [cbn; rewrite app_nil_r; reflexivity|].
    destruct s as [|c r]; [cbn; rewrite !app_nil_r; reflexivity|].
    destruct (protect_here (c :: r)) as [[p rest]|] eqn:E.
    - cbn [map snd concat]. rewrite IH. cbn [app]. apply protect_here_split in E. rewrite E. reflexivity.
    - rewrite IH. rewrite <- app_assoc. reflexivity. }
  intros s. unfold split_protected. rewrite G. reflexivity.
Qed.

(* more fuel than characters changes nothing *)
Lemma scan_quoted_acc q bs : forall s acc p rest, scan_quoted q bs s acc = Some (p, rest) -> (length acc <= length p)%nat.
Proof.
  fix IH 1. intros s acc p rest. destruct s as [|x r]; cbn; [discriminate|].
  destruct (bs && (x =? c_bs)).
  - destruct r as [|y r']; [discriminate|]. intros H. apply IH in H. rewrite app_length in H. lia.
  - destruct (negb (x =? q)).
    + intros H. apply IH in H. rewrite app_length in H. lia.
    + destruct r as [|y r'].
      * intros H. injection H as <- <-. rewrite app_length. lia.
      * destruct (y =? q).
        -- intros H. apply IH in H. rewrite app_length in H. lia.
        -- intros H. injection H as <- <-. rewrite app_length. lia.
Qed.
Lemma find2_acc a b : forall s acc p rest, find2 a b s acc = Some (p, rest) -> (length acc <= length p)%nat.
Proof.
  induction s as [|x r IH]; intros acc p rest; cbn; [discriminate|].
  destruct r as [|y r']; [discriminate|]. destruct ((x =? a) && (y =? b)).
  - intros H. injection H as <- <-. rewrite app_length. lia.
  - intros H. apply IH in H. rewrite app_length in H. lia.
Qed.
Lemma to_eol_acc : forall s acc, (length acc <= length (fst (to_eol s acc)))%nat.
Proof.
  induction s as [|x r IH]; intros acc; cbn; [lia|]. destruct (x =? c_nl); [cbn; lia|].
  specialize (IH (acc ++ [x])). rewrite app_length in IH. lia.
Qed.

Lemma protect_here_shorter s p rest : protect_here s = Some (p, rest) -> (length rest < length s)%nat.
Proof.
  intros H. pose proof (protect_here_split _ _ _ H) as E. subst s. rewrite app_length.
  assert (P : (0 < length p)%nat); [|lia].
  destruct (p ++ rest) as [|c r] eqn:S0; cbn in H; [discriminate|].
  destruct (c =? c_sq); [apply scan_quoted_acc in H; cbn in H; lia|].
  destruct (c =? c_dq); [apply scan_quoted_acc in H; cbn in H; lia|].
  destruct r as [|d r']; [discriminate|].
  destruct ((c =? dollar) && (d =? dollar)); [apply find2_acc in H; cbn in H; lia|].
  destruct ((c =? c_dash) && (d =? c_dash)).
  - injection H as H. pose proof (to_eol_acc r' [c; d]) as T. rewrite H in T. cbn in T. lia.
  - destruct ((c =? c_slash) && (d =? c_star)); [apply find2_acc in H; cbn in H; lia|discriminate].
Qed.

Lemma split_fuel_enough : forall n s f acc, (length s <= n)%nat -> (length s < f)%nat -> split_fuel f s acc = split_fuel (S (length s)) s acc.
Proof.
  induction n as [|n IH]; intros s f acc Hn Hf.
  - destruct s; [|cbn in Hn; lia]. destruct f; [cbn in Hf; lia|]. reflexivity.
  - destruct f as [|f]; [lia|]. destruct s as [|c r]; [reflexivity|].
    change (split_fuel (S (length (c :: r))) (c :: r) acc) with
      (match protect_here (c :: r) with
       | Some (p, rest) => (false, acc) :: (true, p) :: split_fuel (S (length r)) rest []
       | None => split_fuel (S (length r)) r (acc ++ [c]) end).
    change (split_fuel (S f) (c :: r) acc) with
      (match protect_here (c :: r) with
       | Some (p, rest) => (false, acc) :: (true, p) :: split_fuel f rest []
       | None => split_fuel f r (acc ++ [c]) end).
    destruct (protect_here (c :: r)) as [[p rest]|] eqn:E.
    + pose proof (protect_here_shorter _ _ _ E) as L. cbn [length] in L, Hn, Hf.
      rewrite (IH rest f []) by lia. rewrite (IH rest (S (length r)) []) by lia. reflexivity.
    + cbn [length] in Hn, Hf. rewrite (IH r f) by lia. reflexivity.
Qed.

(* text in which no protected piece can start: no quote, no '-', no '/', no '$$' *)
Fixpoint plainb (s : str) : bool :=
  match s with
  | [] => true
  | c :: r => negb (c =? c_sq) && negb (c =? c_dq) && negb (c =? c_dash) && negb (c =? c_slash)
              && (negb (c =? dollar) || match r with d :: _ => negb (d =? dollar) | [] => true end) && plainb r
  end.

Lemma split_plain_prefix : forall pre rest f acc, plainb pre = true ->
  (match rest with d :: _ => d <> dollar | [] => True end) -> (length (pre ++ rest) < f)%nat ->
  split_fuel f (pre ++ rest) acc = split_fuel (f - length pre) rest (acc ++ pre).
Proof.
  induction pre as [|c r IH]; intros rest f acc P Hd Hf.
  - cbn. rewrite app_nil_r, Nat.sub_0_r. reflexivity.
  - cbn [plainb] in P. repeat (apply andb_true_iff in P; destruct P as [P ?]).
    destruct f as [|f]; [cbn in Hf; lia|]. cbn [app split_fuel].
    assert (N : protect_here (c :: r ++ rest) = None).
    { cbn. apply negb_true_iff in P. rewrite P.
      match goal with H : negb (c =? c_dq) = true |- _ => apply negb_true_iff in H; rewrite H end.
      destruct (r ++ rest) as [|d t] eqn:E; [reflexivity|].
      assert (D : (c =? dollar) && (d =? dollar) = false).
      { destruct (c =? dollar) eqn:Cd; [|reflexivity]. cbn.
        match goal with H : negb true || _ = true |- _ => cbn in H end.
        destruct r as [|d' r']; cbn in E.
        - subst rest. apply Z.eqb_neq. exact Hd.
        - injection E as -> _. match goal with H : negb (d =? dollar) = true |- _ => apply negb_true_iff in H; exact H end. }
      rewrite D.
      match goal with H : negb (c =? c_dash) = true |- _ => apply negb_true_iff in H; rewrite H end.
      match goal with H : negb (c =? c_slash) = true |- _ => apply negb_true_iff in H; rewrite H end.
      reflexivity. }
    rewrite N. cbn in Hf. rewrite IH by (assumption || lia). cbn [length]. rewrite <- app_assoc. reflexivity.
Qed.

(* a complete single-quoted literal without quotes or backslashes inside is one protected piece *)
Lemma scan_plain_body : forall body acc rest, forallb (fun c => negb (c =? c_sq) && negb (c =? c_bs)) body = true ->
  (match rest with d :: _ => d <> c_sq | [] => True end) ->
  scan_quoted c_sq true (body ++ c_sq :: rest) acc = Some (acc ++ body ++ [c_sq], rest).
Proof.
  induction body as [|x r IH]; intros acc rest B Hr.
  - cbn. destruct rest as [|d t]; [reflexivity|]. destruct (d =? c_sq) eqn:E; [apply Z.eqb_eq in E; contradiction|reflexivity].
  - cbn [forallb] in B. apply andb_true_iff in B. destruct B as [Bx Br]. apply andb_true_iff in Bx. destruct Bx as [B1 B2].
    cbn [app scan_quoted]. apply negb_true_iff in B2. rewrite B2. cbn [andb]. rewrite B1.
    rewrite IH by assumption. rewrite <- !app_assoc. reflexivity.
Qed.

Definition sq_literal (body : str) : str := c_sq :: body ++ [c_sq].

(* THE statement about literals: whatever precedes (plain SQL text, with any variable references) and follows, a string literal
   is handed on character for character - a '$name' inside it is neither substituted nor reported as undefined - and the text
   before it is processed exactly as if it stood alone *)
Theorem literal_protected_l : forall vs pre body post, plainb pre = true ->
  forallb (fun c => negb (c =? c_sq) && negb (c =? c_bs)) body = true ->
  (match post with d :: _ => d <> c_sq | [] => True end) ->
  inline_variables vs (pre ++ sq_literal body ++ post) =
  match inline_text vs pre with
  | inr e => inr e
  | inl p' => match inline_variables vs post with inl o => inl (p' ++ sq_literal body ++ o) | inr e => inr e end
  end.
Proof.
  intros vs pre body post P B Hp. unfold inline_variables, split_protected.
  assert (Hd : match sq_literal body ++ post with d :: _ => d <> dollar | [] => True end) by (cbn; unfold c_sq, dollar; lia).
  rewrite (split_plain_prefix pre (sq_literal body ++ post) _ [] P Hd) by lia.
  cbn [app]. rewrite app_length. 
  replace (S (length pre + length (sq_literal body ++ post)) - length pre)%nat with (S (length (sq_literal body ++ post))) by lia.
  change (split_fuel (S (length (sq_literal body ++ post))) (sq_literal body ++ post) pre) with
    (match protect_here (sq_literal body ++ post) with
     | Some (p, rest) => (false, pre) :: (true, p) :: split_fuel (length (sq_literal body ++ post)) rest []
     | None => split_fuel (length (sq_literal body ++ post)) (tl (sq_literal body ++ post)) (pre ++ [c_sq]) end).
  assert (PH : protect_here (sq_literal body ++ post) = Some (sq_literal body, post)).
  { unfold sq_literal. cbn [app protect_here]. rewrite Z.eqb_refl. rewrite <- app_assoc. cbn [app].
    rewrite (scan_plain_body body [c_sq] post B Hp). reflexivity. }
  rewrite PH. cbn [inline_pieces].
  rewrite (split_fuel_enough (length post) post (length (sq_literal body ++ post)) []) by (try lia; rewrite app_length; unfold sq_literal; cbn; lia).
  destruct (inline_text vs pre) as [p'|e]; [|reflexivity].
  destruct (inline_pieces vs (split_fuel (S (length post)) post [])) as [o|e]; reflexivity.
Qed.

(* the reported defect, for EVERY set of variables: select 'cost $5' is executed as written *)
Example cost_literal_untouched_l : forall vs, inline_variables vs (lit "select 'cost $5'") = inl (lit "select 'cost $5'").
Proof.
  intros vs. change (lit "select 'cost $5'") with (lit "select " ++ sq_literal (lit "cost $5") ++ []).
  rewrite literal_protected_l; [|reflexivity|reflexivity|exact I].
  rewrite (non_reference_text_untouched_l vs (lit "select ")) by reflexivity.
  assert (E : inline_variables vs [] = inl []).
  { unfold inline_variables, split_protected. cbn [length split_fuel inline_pieces].
    rewrite (non_reference_text_untouched_l vs []) by reflexivity. reflexivity. }
  rewrite E. reflexivity.
Qed.

(* on SQL text proper (nothing that could start a literal, quoted identifier or comment) the whole statement is one piece *)
Theorem plain_is_text_l : forall vs s, plainb s = true -> inline_variables vs s = inline_text vs s.
Proof.
  intros vs s P. unfold inline_variables, split_protected.
  pose proof (split_plain_prefix s [] (S (length s)) [] P I) as H. rewrite app_nil_r in H. rewrite H by lia.
  replace (S (length s) - length s)%nat with 1%nat by lia. cbn [app split_fuel inline_pieces].
  destruct (inline_text vs s) as [t|e]; [rewrite app_nil_r|]; reflexivity.
Qed.

(* ------------------------------------------------------------------ the store as a map: SET then $name
   Names reach Variables._set upper-cased (sqlglot normalises the unquoted identifier of SET), so no name holds a lower-case letter *)
Definition canon (s : str) : bool := forallb (fun c => negb (is_ascii_lower c)) s.

Lemma ci_eqs_refl a : ci_eqs a a = true.
Proof. induction a as [|x a IH]; cbn; [reflexivity|]. unfold ci_eqc. rewrite Z.eqb_refl. exact IH. Qed.

Lemma ci_eqs_canon a : forall b, canon a = true -> canon b = true -> ci_eqs a b = true -> str_eqb a b = true.
Proof.
  induction a as [|x a IH]; intros [|y b]; cbn; try discriminate; [reflexivity|].
  intros Ha Hb H. apply andb_prop in Ha as [Hx Ha]. apply andb_prop in Hb as [Hy Hb]. apply andb_prop in H as [Hxy H].
  rewrite (IH b Ha Hb H), andb_true_r.
  unfold ci_eqc, lo_c, is_ascii_upper, is_ascii_lower in *.
  destruct ((65 <=? x) && (x <=? 90)) eqn:Ux; destruct ((65 <=? y) && (y <=? 90)) eqn:Uy; lia.
Qed.

(* a reference to the name just SET yields the value just SET (in any letter case of the reference) *)
Lemma lookup_vset_same vs n v w :
  forallb canon (map fst vs) = true -> canon n = true -> ci_eqs n w = true -> lookup (vset vs n v) w = Some v.
Proof.
  unfold lookup. induction vs as [|[n' v'] vs IH]; cbn [vset map fst forallb find]; intros Hvs Hn Hw.
  - rewrite Hw. reflexivity.
  - apply andb_prop in Hvs as [Hn' Hvs]. destruct (str_eqb n' n) eqn:E; cbn [find fst].
    + apply str_eqb_eq in E. subst n'. rewrite Hw. reflexivity.
    + destruct (ci_eqs n' w) eqn:E'; [|exact (IH Hvs Hn Hw)].
      exfalso. assert (ci_eqs n' n = true) as Hc.
      { clear - E' Hw. revert n w E' Hw. induction n' as [|x a IHa]; intros [|y b] [|z c]; cbn; try discriminate; [reflexivity|].
        intros H1 H2. apply andb_prop in H1 as [H1 H1']. apply andb_prop in H2 as [H2 H2'].
        rewrite (IHa b c H1' H2'), andb_true_r. unfold ci_eqc in *. lia. }
      rewrite (ci_eqs_canon n' n Hn' Hn Hc) in E. discriminate.
Qed.

(* SET of one name leaves every other name's value alone - no canonicity needed *)
Lemma lookup_vset_other vs n v w : ci_eqs n w = false -> lookup (vset vs n v) w = lookup vs w.
Proof.
  unfold lookup. intros Hw. induction vs as [|[n' v'] vs IH]; cbn [vset find fst].
  - rewrite Hw. reflexivity.
  - destruct (str_eqb n' n) eqn:E; cbn [find fst].
    + apply str_eqb_eq in E. subst n'. rewrite Hw. reflexivity.
    + destruct (ci_eqs n' w); [reflexivity|exact IH].
Qed.

Example set_lookup_nonvacuous :
  let vs := [(lit "A", lit "1"); (lit "B_2", lit "x")] in
  forallb canon (map fst vs) = true /\ canon (lit "B_2") = true /\ ci_eqs (lit "B_2") (lit "b_2") = true /\
  lookup (vset vs (lit "B_2") (lit "y")) (lit "b_2") = Some (lit "y") /\ lookup (vset vs (lit "B_2") (lit "y")) (lit "a") = Some (lit "1").
Proof. vm_compute. repeat split. Qed.

(* the same under the weaker hypothesis that is all the proof needs: no stored name differs from n in letter case only *)
Definition only_spelling (vs : vars) (n : str) : bool := forallb (fun n' => implb (ci_eqs n' n) (str_eqb n' n)) (map fst vs).

Lemma ci_eqs_trans_l a : forall b c, ci_eqs a c = true -> ci_eqs b c = true -> ci_eqs a b = true.
Proof.
  induction a as [|x a IHa]; intros [|y b] [|z c]; cbn; try discriminate; [reflexivity|].
  intros H1 H2. apply andb_prop in H1 as [H1 H1']. apply andb_prop in H2 as [H2 H2'].
  rewrite (IHa b c H1' H2'), andb_true_r. unfold ci_eqc in *. lia.
Qed.

Lemma lookup_vset_same_gen vs n v w : only_spelling vs n = true -> ci_eqs n w = true -> lookup (vset vs n v) w = Some v.
Proof.
  unfold lookup, only_spelling. induction vs as [|[n' v'] vs IH]; cbn [vset map fst forallb find]; intros Hvs Hw.
  - rewrite Hw. reflexivity.
  - apply andb_prop in Hvs as [Hn' Hvs]. destruct (str_eqb n' n) eqn:E; cbn [find fst].
    + apply str_eqb_eq in E. subst n'. rewrite Hw. reflexivity.
    + destruct (ci_eqs n' w) eqn:E'; [|exact (IH Hvs Hw)].
      rewrite (ci_eqs_trans_l n' n w E' Hw) in Hn'. discriminate.
Qed.

(* the store keeps that shape: after SET n, no name differs from n in letter case only, and other names' uniqueness is kept *)
Lemma vset_only_spelling vs n v m : only_spelling vs m = true -> implb (ci_eqs n m) (str_eqb n m) = true -> only_spelling (vset vs n v) m = true.
Proof.
  unfold only_spelling. induction vs as [|[n' v'] vs IH]; cbn [vset map fst forallb]; intros Hvs Hn.
  - rewrite Hn. reflexivity.
  - apply andb_prop in Hvs as [Hn' Hvs]. destruct (str_eqb n' n); cbn [map fst forallb]; rewrite Hn'; cbn [andb]; auto.
Qed.
