From FS Require Import Sexp Wire Common.
From Coq Require Import Lia ZifyBool.
Ltac Zify.zify_post_hook ::= Z.to_euclidean_division_equations.

Theorem epoch_fraction_exact_l : forall t,
  epoch t * 1000000000 + fraction t = 1000 * t /\ 0 <= fraction t < 1000000000.
Proof. intros t. unfold epoch, fraction, floor_sec, pa_divide, pa_multiply, pa_subtract, pa_int32, pa_floor_second, M6. lia. Qed.

(* fits the wire types: fraction is an int32, and the epoch is no larger in magnitude than the input *)
Theorem fraction_fits_int32_l : forall t, 0 <= fraction t < 2147483648.
Proof. intros t. pose proof (epoch_fraction_exact_l t). lia. Qed.

Theorem ts_roundtrip_l : forall t, decode_ts (epoch t) (fraction t) = t.
Proof. intros t. unfold decode_ts, epoch, fraction, floor_sec, pa_divide, pa_multiply, pa_subtract, pa_int32, pa_floor_second, M6. lia. Qed.

Theorem ts_roundtrip_opt_l : forall v, decode_ts_opt (encode_ts v) = v.
Proof. intros [t|]; cbn; [rewrite ts_roundtrip_l|]; reflexivity. Qed.

Theorem time_roundtrip_l : forall us, decode_time (encode_time us) = us.
Proof. intros us. unfold decode_time, encode_time. lia. Qed.

(* ---- tokens ---- *)
Lemma removelast_app_single {X} (l : list X) (x : X) : removelast (l ++ [x]) = l.
Proof. apply removelast_last. Qed.

Theorem token_extract_l : forall prefix tok, length prefix = 17%nat -> extract (prefix ++ tok ++ [34]) = tok.
Proof.
  intros prefix tok H. unfold extract. rewrite skipn_app.
  assert (E : skipn 17 prefix = []) by (rewrite <- H; apply skipn_all).
  rewrite E, H, Nat.sub_diag. cbn [skipn app]. apply removelast_last.
Qed.

(* a request with a missing or unknown token is refused with 401 - and to_conn never changes the table *)
Theorem unknown_token_refused_l : forall s a, lookup (sessions s) (extract a) = None -> a <> [] ->
  to_conn s (Some a) = Refused 401 390104.
Proof. intros s a H N. unfold to_conn. destruct a; [contradiction|]. rewrite H. reflexivity. Qed.
Theorem missing_token_refused_l : forall s, to_conn s None = Refused 401 390103 /\ to_conn s (Some []) = Refused 401 390103.
Proof. intros s. split; reflexivity. Qed.

(* every login that asked for isolation (or a path) gets an instance nobody else has *)
Definition fresh_inv (s : srv) : Prop :=
  (0 < next_instance s)%nat /\ forall x, In x (sessions s) -> (instance x < next_instance s)%nat.

Lemma fresh_inv0 : fresh_inv srv0.
Proof. split; cbn; [lia|tauto]. Qed.

Lemma login_inv s k tok : fresh_inv s -> fresh_inv (login s k tok).
Proof.
  intros [P I]. destruct k; cbn; (split; [cbn; lia|]); intros x [<-|H]; cbn; try lia; specialize (I x H); lia.
Qed.

Theorem isolated_login_is_alone_l : forall s k tok, fresh_inv s -> k <> Shared ->
  forall x, In x (sessions s) -> instance x <> next_instance s /\
  lookup (sessions (login s k tok)) tok = Some {| token := tok; instance := next_instance s |}.
Proof.
  intros s k tok [P I] N x Hx. split; [specialize (I x Hx); lia|].
  destruct k; [contradiction| |]; cbn; rewrite str_eqb_refl; reflexivity.
Qed.

Theorem shared_logins_share_l : forall s t1 t2,
  instance {| token := t1; instance := 0 |} = instance {| token := t2; instance := 0 |} /\
  lookup (sessions (login s Shared t1)) t1 = Some {| token := t1; instance := 0 |}.
Proof. intros. split; [reflexivity|]. cbn. rewrite str_eqb_refl. reflexivity. Qed.

Example wire_nonvacuous :
  encode_ts (Some (-1)) = Some (-1, 999999000) /\ decode_ts (-1) 999999000 = -1 /\
  encode_ts (Some 1577836800000009) = Some (1577836800, 9000) /\ encode_ts None = None /\
  extract (lit "Snowflake Token=""abc""") = lit "abc".
Proof. vm_compute. repeat split. Qed.
