(* MERGE under interleaving: the functional result. Extends the staging-table invariant of StepsProofs (merge_staging_private):
   when only session i writes the target and nobody writes the source while the MERGE runs, the three engine calls of the MERGE -
   however other sessions' calls fall between them - leave the target as the MERGE executed alone would. *)
From FS Require Import Sexp Steps Common StepsProofs.
From Coq Require Import Lia Arith.

Definition target_of (o : op) : option key :=
  match o with CreateTable k _ | Insert k _ | TxInserts k _ _ | Merge _ k _ => Some k | _ => None end.
Definition wkey (c : call) : option key :=
  match c with MkTable k | InsertRow k _ | CommitRows k _ | ApplyCands _ k => Some k | _ => None end.

Ltac fw := let H := fresh "H" in let E := fresh "E" in
  intros H; cbn in H; try discriminate; try (injection H as <-; cbn; try discriminate; try (intros E; exact E)).

Lemma fetch_wkey o p c k : fetch o p = Some c -> wkey c = Some k -> target_of o = Some k.
Proof.
  destruct o as [d s|d|k0 cm|k0 v|k0|k0|k0 vs b|sid k0 src0].
  - do 10 (destruct p as [|p]; [fw|]). fw.
  - do 2 (destruct p as [|p]; [fw|]). fw.
  - destruct cm; do 11 (destruct p as [|p]; [fw|]); fw.
  - do 11 (destruct p as [|p]; [fw|]); fw.
  - do 11 (destruct p as [|p]; [fw|]); fw.
  - do 11 (destruct p as [|p]; [fw|]); fw.
  - destruct p as [|p]; [fw|]. cbn. destruct (nth_error vs p); [fw|].
    destruct (Nat.eqb p (length vs)); [|fw]. destruct b; fw.
  - do 11 (destruct p as [|p]; [fw|]); fw.
Qed.

(* a call changes only the table it writes *)
Lemma exec_tbls_frame e c k : wkey c <> Some k -> klook (tbls (fst (exec e c))) k = klook (tbls e) k.
Proof.
  intros W. destruct c as [d|d s|d|d|d s|d s|k0|k0 c|k0 v|k0|k0| |k0 v|k0 vs| |sid k0 src|sid k0|sid]; cbn in *;
    repeat match goal with |- context [match ?x with _ => _ end] => destruct x eqn:?; cbn end; try reflexivity.
  all: try (rewrite klook_kput; destruct (key_eqb k0 k) eqn:E; [apply gkey_eqb_eq in E; subst; congruence|reflexivity]).
  (* MkTable: a new, empty table at the end *)
  destruct (klook (tbls e) k) eqn:L.
  - apply klook_app_some. exact L.
  - rewrite (klook_app_none _ _ _ _ L). destruct (key_eqb k0 k) eqn:E; [apply gkey_eqb_eq in E; subst; congruence|reflexivity].
Qed.

(* scripts: every MERGE is tagged with its session (as before), and sessions other than i never write k or src *)
Definition op_ok (i : nat) (k src : key) (j : nat) (o : op) : Prop :=
  op_sid_ok j o = true /\ (j <> i -> target_of o <> Some k /\ target_of o <> Some src).
Definition scripts_ok (i : nat) (k src : key) (ss : list sess) : Prop :=
  forall j s, nth_error ss j = Some s -> Forall (op_ok i k src j) (todo s).

Definition cands_of (tr sr : list Z) : list Z := filter (fun v => negb (existsb (Z.eqb v) tr)) sr.

(* what session i's MERGE of (k, src) has established after its first / second call *)
Definition mid (e : eng) (i : nat) (k src : key) (s : sess) : Prop :=
  match todo s with
  | Merge _ k' src' :: _ =>
      k' = k -> src' = src ->
      (pc s = 1%nat -> exists tr sr, klook (tbls e) k = Some tr /\ klook (tbls e) src = Some sr /\
                                     last s = ARows (cands_of tr sr) /\ tlook (temps e) i = Some (cands_of tr sr))
  | _ => True
  end.
Definition FInv (i : nat) (k src : key) (st : eng * list sess) : Prop :=
  scripts_ok i k src (snd st) /\ forall s, nth_error (snd st) i = Some s -> mid (fst st) i k src s.

Lemma forall_tail {X} (P : X -> Prop) x l : Forall P (x :: l) -> Forall P l.
Proof. intros H. inversion H. assumption. Qed.

Lemma mid_settle_popped e i k src s : (match todo s with o :: _ => fetch o (pc s) = None | [] => True end) -> mid e i k src (settle s).
Proof.
  unfold settle. destruct (todo s) as [|o rest] eqn:T.
  - intros _. unfold mid. rewrite T. exact I.
  - intros H. rewrite H. unfold mid. cbn. destruct rest as [|[] ?]; try exact I. intros _ _ F. discriminate.
Qed.

Lemma turn_finv i k src e ss j sj : k <> src -> FInv i k src (e, ss) -> nth_error ss j = Some sj ->
  FInv i k src (fst (fst (turn e sj)), upd ss j (snd (fst (turn e sj)))).
Proof.
  intros Kne [Ok Md] Hj. cbn [fst snd] in *. pose proof (nth_error_lt _ _ _ Hj) as Lt.
  pose proof (Ok j sj Hj) as Okj.
  unfold turn. destruct (todo sj) as [|o rest] eqn:T.
  - (* nothing to do *) unfold FInv. cbn [fst snd]. split.
    + intros a s H. destruct (Nat.eq_dec j a) as [<-|N]; [rewrite nth_error_upd_same in H by exact Lt; injection H as <-; rewrite T; constructor|].
      rewrite nth_error_upd_other in H by exact N. exact (Ok a s H).
    + intros s H. destruct (Nat.eq_dec j i) as [->|N]; [rewrite nth_error_upd_same in H by exact Lt; injection H as <-; exact (Md sj Hj)|].
      rewrite nth_error_upd_other in H by exact N. exact (Md s H).
  - destruct (fetch o (pc sj)) as [c|] eqn:F.
    + destruct (exec e c) as [e' a] eqn:X. cbn [fst snd].
      set (s1 := {| todo := o :: rest; pc := advance o (pc sj) a; last := a; done := done sj |}).
      assert (Ts1 : todo s1 = o :: rest) by reflexivity.
      unfold FInv. cbn [fst snd]. split.
      * intros b s H. destruct (Nat.eq_dec j b) as [<-|N].
        -- rewrite nth_error_upd_same in H by exact Lt. injection H as <-.
           destruct (settle_todo s1) as [E|[o' E]]; rewrite Ts1 in E.
           ++ rewrite E. exact Okj.
           ++ injection E as _ E. rewrite <- E. exact (forall_tail _ _ _ Okj).
        -- rewrite nth_error_upd_other in H by exact N. exact (Ok b s H).
      * intros s H. destruct (Nat.eq_dec j i) as [->|N].
        -- (* session i itself acts *)
           rewrite nth_error_upd_same in H by exact Lt. injection H as <-.
           pose proof (Md sj Hj) as Mdi. unfold mid in Mdi. rewrite T in Mdi.
           destruct (fetch o (advance o (pc sj) a)) eqn:F2; [|apply mid_settle_popped; unfold s1; cbn [todo pc]; exact F2].
           assert (S1 : settle s1 = s1). { unfold settle, s1. cbn [todo pc]. rewrite F2. reflexivity. }
           rewrite S1. unfold mid, s1. cbn [todo pc last].
           destruct o as [d0 s0|d0|k0 cm0|k0 v0|k0|k0|k0 vs0 b0|sid0 k0 src0]; try exact I.
           intros -> ->. inversion Okj as [|? ? [Hs _] _]. cbn in Hs. apply Nat.eqb_eq in Hs. subst sid0.
           destruct (pc sj) as [|[|[|p]]] eqn:P; cbn in F; try discriminate; injection F as <-.
           ++ (* MkCands *) cbn in X. destruct (klook (tbls e) k) as [tr|] eqn:Lk; [destruct (klook (tbls e) src) as [sr|] eqn:Ls|];
                injection X as <- <-; cbn in F2; try discriminate.
              intros _. exists tr, sr. cbn [tbls temps]. repeat split; try assumption. rewrite tlook_tput, Nat.eqb_refl. reflexivity.
           ++ (* ApplyCands moves to pc 2 *) cbn in X. destruct (klook (tbls e) k); [destruct (tlook (temps e) i)|]; injection X as <- <-; cbn in F2; try discriminate;
                intros Q; discriminate.
           ++ cbn in X. destruct (tlook (temps e) i); injection X as <- <-; cbn in F2; discriminate.
        -- (* another session acts: it writes neither k nor src, and not i's staging table *)
           rewrite nth_error_upd_other in H by exact N. pose proof (Md s H) as Q. unfold mid in *.
           destruct (todo s) as [|[] ?]; try exact I. intros -> -> Hp. destruct (Q eq_refl eq_refl Hp) as (tr & sr & Lk & Ls & La & Lt').
           inversion Okj as [|? ? [Hsid Hw] _]. destruct (Hw N) as [Wk Ws].
           assert (Fk : forall key', key' = k \/ key' = src -> klook (tbls e') key' = klook (tbls e) key').
           { intros key' Hk'. replace e' with (fst (exec e c)) by (rewrite X; reflexivity). apply exec_tbls_frame.
             intros Wc. apply (fetch_wkey _ _ _ _ F) in Wc. destruct Hk' as [->| ->]; congruence. }
           exists tr, sr. rewrite (Fk k (or_introl eq_refl)), (Fk src (or_intror eq_refl)). repeat split; try assumption.
           replace e' with (fst (exec e c)) by (rewrite X; reflexivity). rewrite exec_temps_other; [exact Lt'|].
           intros sidx kx srcx ->. apply fetch_mkcands in F. destruct F as [-> _]. cbn in Hsid. apply Nat.eqb_eq in Hsid. congruence.
    + (* fetch = None *)
      unfold FInv. cbn [fst snd]. split.
      * intros b s H. destruct (Nat.eq_dec j b) as [<-|N].
        -- rewrite nth_error_upd_same in H by exact Lt. injection H as <-.
           destruct (settle_todo sj) as [E|[o' E]].
           ++ rewrite E, T. exact Okj.
           ++ rewrite T in E. injection E as _ E. rewrite <- E. exact (forall_tail _ _ _ Okj).
        -- rewrite nth_error_upd_other in H by exact N. exact (Ok b s H).
      * intros s H. destruct (Nat.eq_dec j i) as [->|N].
        -- rewrite nth_error_upd_same in H by exact Lt. injection H as <-. apply mid_settle_popped. rewrite T. exact F.
        -- rewrite nth_error_upd_other in H by exact N. exact (Md s H).
Qed.

Lemma sched_step_finv i k src lk st j : k <> src -> FInv i k src st -> FInv i k src (sched_step lk st j).
Proof.
  destruct st as [e ss]. intros Kne M. unfold sched_step. destruct (nth_error ss j) as [sj|] eqn:Hj; [|exact M].
  destruct (lk && wants_lock sj && negb (lock_free_for ss j)); [exact M|].
  pose proof (turn_finv i k src e ss j sj Kne M Hj) as Q. destruct (turn e sj) as [[e' s'] c]. exact Q.
Qed.

Lemma run_sched_finv i k src lk sch : k <> src -> forall st, FInv i k src st -> FInv i k src (run_sched lk sch st).
Proof. intros Kne. unfold run_sched. induction sch as [|j sch IH]; intros st M; [exact M|]. cbn [fold_left]. apply IH. apply sched_step_finv; assumption. Qed.

Lemma finv_init i k src scripts : (forall j ops, nth_error scripts j = Some ops -> Forall (op_ok i k src j) ops) -> FInv i k src (e0, map mk_sess scripts).
Proof.
  intros W. split; cbn [fst snd].
  - intros j s H. rewrite nth_error_map in H. destruct (nth_error scripts j) as [ops|] eqn:E; [|discriminate]. injection H as <-. exact (W j ops E).
  - intros s H. rewrite nth_error_map in H. destruct (nth_error scripts i) as [ops|]; [|discriminate]. injection H as <-.
    unfold mid. cbn. destruct ops as [|[] ?]; try exact I. intros _ _ F. discriminate.
Qed.

(* from ANY state in which the operations still to be run by the other sessions write neither k nor src (for instance: after the
   set-up session has created and filled the tables), for EVERY schedule: at the moment session i's MERGE applies its candidates they
   are exactly the source rows missing from the target AS IT IS NOW - the call leaves the target as the MERGE run alone would:
   target ++ (source rows not in target) *)
Theorem merge_serial_result_l : forall lk sch i k src st0, k <> src -> FInv i k src st0 ->
  let st := run_sched lk sch st0 in
  forall s sid rest, nth_error (snd st) i = Some s -> todo s = Merge sid k src :: rest -> pc s = 1%nat ->
  exists tr sr, klook (tbls (fst st)) k = Some tr /\ klook (tbls (fst st)) src = Some sr /\
                klook (tbls (fst (exec (fst st) (ApplyCands i k)))) k = Some (tr ++ cands_of tr sr).
Proof.
  intros lk sch i k src st0 Kne F0 st s sid rest H T P.
  destruct (run_sched_finv i k src lk sch Kne _ F0) as [_ Md]. fold st in Md.
  specialize (Md s H). unfold mid in Md. rewrite T in Md. destruct (Md eq_refl eq_refl P) as (tr & sr & Lk & Ls & _ & Lt).
  exists tr, sr. repeat split; try assumption. cbn. rewrite Lk, Lt. cbn. rewrite klook_kput, gkey_eqb_refl. reflexivity.
Qed.

(* the same from the empty instance, when the scripts themselves satisfy the condition *)
Corollary merge_serial_result_from_start_l : forall lk sch scripts i k src, k <> src ->
  (forall j ops, nth_error scripts j = Some ops -> Forall (op_ok i k src j) ops) ->
  let st := run_sched lk sch (e0, map mk_sess scripts) in
  forall s sid rest, nth_error (snd st) i = Some s -> todo s = Merge sid k src :: rest -> pc s = 1%nat ->
  exists tr sr, klook (tbls (fst st)) k = Some tr /\ klook (tbls (fst st)) src = Some sr /\
                klook (tbls (fst (exec (fst st) (ApplyCands i k)))) k = Some (tr ++ cands_of tr sr).
Proof. intros lk sch scripts i k src Kne W. apply merge_serial_result_l; [exact Kne|apply finv_init; exact W]. Qed.

(* non-vacuity: after the set-up session of merge_setup has finished, two sessions merge into their own tables; the hypothesis holds
   for session 1, a schedule that interleaves the two MERGEs brings session 1 to its second call, and the call gives the serial result *)
Definition ms_state : eng * list sess :=
  run_sched true (repeat 0%nat 40) (e0, map mk_sess [merge_setup ++ [Insert MT1 7]; [Connect DB SC; Merge 1 MT1 MS1]; [Connect DB SC; Merge 2 MT2 MS2]]).
Lemma ms_state_finv : FInv 1 MT1 MS1 ms_state.
Proof.
  split.
  - intros j s H. vm_compute in H. destruct j as [|[|[|j]]]; try (destruct j; discriminate); injection H as <-; cbn [todo]; repeat constructor;
      try match goal with N : ?a <> ?a |- _ => exfalso; apply N; reflexivity end; vm_compute; discriminate.
  - intros s H. vm_compute in H. injection H as <-. exact I.
Qed.
Example merge_serial_nonvacuous_l :
  let st := run_sched true [1; 1; 1; 1; 2; 2; 2; 2; 1; 2; 2]%nat ms_state in
  (exists s rest, nth_error (snd st) 1 = Some s /\ todo s = Merge 1 MT1 MS1 :: rest /\ pc s = 1%nat) /\
  klook (tbls (fst (exec (fst st) (ApplyCands 1 MT1)))) MT1 = Some [7; 1].
Proof. vm_compute. split; [eexists; eexists; repeat split|reflexivity]. Qed.
