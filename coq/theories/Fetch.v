(* Model of FakeSnowflakeCursor's result-set handling (fakesnow/cursor.py:220-223,350-351,379-418).
   Values are opaque to this logic: a value is an (optional) integer token. *)
From FS Require Import Sexp.

Definition value := option Z.
Definition row := list value.

Record st := {
  res : option (list row * list str);   (* _arrow_table: rows and column names *)
  idx : option nat;                      (* _arrow_table_fetch_index *)
  asz : nat;                             (* _arraysize *)
  dictc : bool;                          (* _use_dict_result *)
  rc : option nat;                       (* _rowcount *)
}.

Definition init (d : bool) : st := {| res := None; idx := None; asz := 1%nat; dictc := d; rc := None |}.

Inductive op :=
| Execute (rows : list row) (names : list str) (affected : option nat)   (* affected = DuckDB's count for DML *)
| Fetchone
| Fetchmany (k : option nat)
| Fetchall
| SetArraysize (n : nat)
| Rowcount
| FetchPandas
| Peek.      (* reading cursor.description / sqlstate / sfqid / query: observers, they answer but change nothing *)

(* a python dict built from (name, value) pairs: a repeated key keeps its first position, last value *)
Fixpoint dict_set (d : list (str * value)) (k : str) (v : value) : list (str * value) :=
  match d with
  | [] => [(k, v)]
  | (k', v') :: r => if str_eqb k' k then (k', v) :: r else (k', v') :: dict_set r k v
  end.
Definition mkdict (names : list str) (r : row) : list (str * value) :=
  fold_left (fun d kv => dict_set d (fst kv) (snd kv)) (combine names r) [].

Inductive out :=
| ORows (l : list row)
| ODicts (l : list (list (str * value)))
| OOne (r : option row)
| OOneDict (r : option (list (str * value)))
| OErr (code : Z)          (* 1 = TypeError("No open result set"), 2 = NotSupportedError *)
| OUnit
| OCount (n : option nat).

Definition off (s : st) : nat := match idx s with None => 0%nat | Some i => i end.

(* fetchmany after `size = size or self._arraysize` *)
Definition slice (s : st) (size : nat) (rows : list row) : list row := firstn size (skipn (off s) rows).
Definition advance (s : st) (size : nat) : st :=
  {| res := res s; idx := Some (off s + size)%nat; asz := asz s; dictc := dictc s; rc := rc s |}.

Definition eff_size (s : st) (k : option nat) : nat :=
  match k with None | Some O => asz s | Some n => n end.

Definition step (s : st) (o : op) : st * out :=
  match o with
  | Execute rows names aff =>
      ({| res := Some (rows, names); idx := None; asz := asz s; dictc := dictc s;
          rc := Some (match aff with Some k => k | None => length rows end) |}, OUnit)
  | SetArraysize n => ({| res := res s; idx := idx s; asz := n; dictc := dictc s; rc := rc s |}, OUnit)
  | Rowcount => (s, OCount (rc s))
  | Peek => (s, OUnit)
  | FetchPandas =>
      (s, match res s with None => OErr 2 | Some (rows, _) => OCount (Some (length rows)) end)
  | Fetchmany k =>
      match res s with
      | None => (s, OErr 1)
      | Some (rows, names) =>
          let n := eff_size s k in
          (advance s n,
           if dictc s then ODicts (map (mkdict names) (slice s n rows)) else ORows (slice s n rows))
      end
  | Fetchone =>
      match res s with
      | None => (s, OErr 1)
      | Some (rows, names) =>
          let n := eff_size s (Some 1%nat) in
          (advance s n,
           if dictc s then OOneDict (option_map (mkdict names) (hd_error (slice s n rows)))
           else OOne (hd_error (slice s n rows)))
      end
  | Fetchall =>
      match res s with
      | None => (s, OErr 1)
      | Some (rows, names) =>
          let n := eff_size s (Some (length rows)) in
          (advance s n,
           if dictc s then ODicts (map (mkdict names) (slice s n rows)) else ORows (slice s n rows))
      end
  end.

Fixpoint run (s : st) (ops : list op) : list out :=
  match ops with
  | [] => []
  | o :: r => let '(s', x) := step s o in x :: run s' r
  end.

Fixpoint final (s : st) (ops : list op) : st :=
  match ops with [] => s | o :: r => final (fst (step s o)) r end.

(* ---- sexp interface ---- *)
Definition enc_value (v : value) : sexp := enc_opt A v.
Definition dec_value (x : sexp) : option value := dec_opt dec_z x.
Definition enc_row (r : row) : sexp := enc_list enc_value r.
Definition enc_dict (d : list (str * value)) : sexp :=
  enc_list (fun kv => L [enc_str (fst kv); enc_value (snd kv)]) d.
Definition enc_out (o : out) : sexp :=
  match o with
  | ORows l => L [A 0; enc_list enc_row l]
  | ODicts l => L [A 1; enc_list enc_dict l]
  | OOne r => L [A 2; enc_opt enc_row r]
  | OOneDict r => L [A 2; enc_opt enc_dict r]
  | OErr c => L [A 3; A c]
  | OUnit => L [A 4]
  | OCount n => L [A 5; enc_opt enc_nat n]
  end.
Definition dec_op (x : sexp) : option op :=
  match x with
  | L [A 0; rows; names; aff] =>
      match dec_list (dec_list dec_value) rows, dec_list dec_str names, dec_opt dec_nat aff with
      | Some r, Some n, Some a => Some (Execute r n a) | _, _, _ => None end
  | L [A 1] => Some Fetchone
  | L [A 2; k] => match dec_opt dec_nat k with Some k => Some (Fetchmany k) | None => None end
  | L [A 3] => Some Fetchall
  | L [A 4; n] => match dec_nat n with Some n => Some (SetArraysize n) | None => None end
  | L [A 5] => Some Rowcount
  | L [A 6] => Some FetchPandas
  | L [A 7] => Some Peek
  | _ => None
  end.

(* input: (dict? (op ...)) ; output: (out ...) *)
Definition run_c05 (x : sexp) : sexp :=
  match x with
  | L [d; ops] =>
      match dec_bool d, dec_list dec_op ops with
      | Some d, Some ops => enc_list enc_out (run (init d) ops)
      | _, _ => bad
      end
  | _ => bad
  end.
