(* Model for C07: which exception a failed statement surfaces as (cursor.py:225-240,249-268,
   variables.py:65-68), and the cursor.sqlstate life cycle (cursor.py:133,151-153). *)
From FS Require Import Sexp.

Inductive cause :=
| UnknownTable | UnknownView | UnknownSchema | UnknownDatabase | UnknownColumn | UnknownFunction
| TableExists | ViewExists | SchemaExists | DatabaseExists | ColumnExists
| WrongArity
| NoDatabase | NoSchema
| UndefinedVariable
| ClosedConnection.

Inductive exc := ProgrammingError | DatabaseError.

(* the engine's exception class for each cause (abstract DuckDB) *)
Inductive eclass := Binder | Catalog | Connection | NotEngine.
Definition engine_class (c : cause) : eclass :=
  match c with
  | UnknownTable | UnknownView | UnknownSchema | UnknownFunction
  | TableExists | ViewExists | SchemaExists | ColumnExists => Catalog
  | UnknownDatabase | UnknownColumn | DatabaseExists | WrongArity => Binder
  | ClosedConnection => Connection
  | NoDatabase | NoSchema | UndefinedVariable => NotEngine
  end.

Definition st_42S02 : str := Eval compute in lit "42S02".
Definition st_02000 : str := Eval compute in lit "02000".
Definition st_22000 : str := Eval compute in lit "22000".
Definition st_08003 : str := Eval compute in lit "08003".

(* exception class, errno, sqlstate *)
Definition code_of (c : cause) : exc * Z * option str :=
  match c with
  | NoDatabase => (ProgrammingError, 90105, Some st_22000)
  | NoSchema => (ProgrammingError, 90106, Some st_22000)
  | UndefinedVariable => (ProgrammingError, -1, None)
  | _ => match engine_class c with
         | Binder => (ProgrammingError, 2043, Some st_02000)
         | Catalog => (ProgrammingError, 2003, Some st_42S02)
         | _ => (DatabaseError, 250002, Some st_08003)
         end
  end.

(* cursor.sqlstate *)
Inductive ev :=
| ExecOk                  (* any successful execute - also one answered by a nop_regexes pattern without reaching the engine *)
| ExecRaises (c : cause)
| ExecOther.              (* an exception that is not a connector error at all (sqlglot ParseError, TypeError of a bad binding ...) *)
Definition sq_step (_ : option str) (e : ev) : option str :=
  match e with
  | ExecOk => None
  | ExecRaises c => match code_of c with
                    | (ProgrammingError, _, st) => st      (* except ProgrammingError: self._sqlstate = e.sqlstate *)
                    | (DatabaseError, _, _) => None        (* not caught there: stays reset *)
                    end
  | ExecOther => None                                       (* reset at the start of execute, nothing sets it *)
  end.
Definition sq_run (es : list ev) : option str := fold_left sq_step es None.

Definition dec_cause (x : sexp) : option cause :=
  match x with
  | A 0 => Some UnknownTable | A 1 => Some UnknownView | A 2 => Some UnknownSchema | A 3 => Some UnknownDatabase
  | A 4 => Some UnknownColumn | A 5 => Some UnknownFunction | A 6 => Some TableExists | A 7 => Some ViewExists
  | A 8 => Some SchemaExists | A 9 => Some DatabaseExists | A 10 => Some ColumnExists | A 11 => Some WrongArity
  | A 12 => Some NoDatabase | A 13 => Some NoSchema | A 14 => Some UndefinedVariable | A 15 => Some ClosedConnection
  | _ => None
  end.
Definition enc_code (k : exc * Z * option str) : sexp :=
  let '(e, n, st) := k in L [A (match e with ProgrammingError => 0 | DatabaseError => 1 end); A n; enc_opt enc_str st].

(* input: cause ; output: (class errno sqlstate) *)
Definition run_c07_code (x : sexp) : sexp :=
  match dec_cause x with Some c => enc_code (code_of c) | None => bad end.

(* input: (ev ...) with ev = () for success or (cause) ; output: cursor.sqlstate *)
Definition run_c07_sqlstate (x : sexp) : sexp :=
  match dec_list (fun e => match e with
                           | L [] => Some ExecOk
                           | L [L []] => Some ExecOther
                           | L [c] => option_map ExecRaises (dec_cause c)
                           | _ => None end) x with
  | Some es => enc_opt enc_str (sq_run es)
  | None => bad
  end.
