(* Model of fakesnow.patch() (fakesnow/__init__.py:18-97).
   A world is the table of patchable locations ("module.attr"); location 0 is
   snowflake.connector.connect, location 1 is snowflake.connector.pandas_tools.write_pandas. *)
From FS Require Import Sexp.

Inductive value :=
| VOrig (c : bool)      (* the original connect (true) / write_pandas (false) *)
| VMock                 (* a MagicMock *)
| VOther                (* some other function *)
| VAbsent               (* module loaded, attribute missing *)
| VUnloaded (c : bool)  (* module not imported yet; importing binds `from ... import connect|write_pandas` *)
| VNoModule.            (* module cannot be imported *)

Definition world := list value.

Definition get (w : world) (i : nat) : value := nth i w VNoModule.

Fixpoint set (w : world) (i : nat) (v : value) : world :=
  match w, i with
  | [], _ => []
  | _ :: r, O => v :: r
  | x :: r, S i' => x :: set r i' v
  end.

Definition std (c : bool) : nat := if c then 0%nat else 1%nat.

Definition is_mock (v : value) : bool := match v with VMock => true | _ => false end.

(* first pass (fix F5b): import every module that is not loaded yet, before anything is patched.
   Returns the world and whether an import failed. *)
Fixpoint import_all (ts : list nat) (w : world) : world * bool :=
  match ts with
  | [] => (w, true)
  | t :: r =>
      match get w t with
      | VNoModule => (w, false)
      | VUnloaded c => import_all r (set w t (get w (std c)))
      | _ => import_all r w
      end
  end.

Definition stack := list (nat * value).

(* second pass: the target loop of __init__.py:70-87 *)
Fixpoint enter (ts : list nat) (w : world) (st : stack) : world * stack * bool :=
  match ts with
  | [] => (w, st, true)
  | t :: r =>
      match get w t with
      | VMock => enter r w st                         (* already mocked: skip *)
      | VOrig c => enter r (set w t VMock) ((t, VOrig c) :: st)
      | _ => (w, st, false)                            (* assert fn / assert fake *)
      end
  end.

(* ExitStack.close(): undo most recent first *)
Fixpoint unwind (st : stack) (w : world) : world :=
  match st with
  | [] => w
  | (t, v) :: r => unwind r (set w t v)
  end.

Inductive result := RRefused | RImportError | RAssert | ROk | RBodyRaised.

Record run := { inside : option world; after : world; res : result; closed : bool }.

Definition patch (extras : list nat) (body_raises : bool) (w : world) : run :=
  if is_mock (get w 0%nat) then {| inside := None; after := w; res := RRefused; closed := false |}
  else
    let ts := 0%nat :: 1%nat :: extras in
    match import_all ts w with
    | (w1, false) => {| inside := None; after := w1; res := RImportError; closed := true |}
    | (w1, true) =>
        match enter ts w1 [] with
        | (w2, st, false) => {| inside := None; after := unwind st w2; res := RAssert; closed := true |}
        | (w2, st, true) =>
            {| inside := Some w2; after := unwind st w2;
               res := if body_raises then RBodyRaised else ROk; closed := true |}
        end
    end.

(* what every location should hold once the block is left *)
Definition resolved (w : world) (v : value) : value :=
  match v with VUnloaded c => get w (std c) | _ => v end.

(* ---- sexp interface ---- *)
Definition enc_value (v : value) : sexp :=
  A (match v with
     | VOrig true => 0 | VOrig false => 1 | VMock => 2 | VOther => 3 | VAbsent => 4
     | VUnloaded true => 5 | VUnloaded false => 6 | VNoModule => 7 end).
Definition dec_value (s : sexp) : option value :=
  match s with
  | A 0 => Some (VOrig true) | A 1 => Some (VOrig false) | A 2 => Some VMock | A 3 => Some VOther
  | A 4 => Some VAbsent | A 5 => Some (VUnloaded true) | A 6 => Some (VUnloaded false)
  | A 7 => Some VNoModule | _ => None
  end.
Definition enc_result (r : result) : sexp :=
  A (match r with RRefused => 0 | RImportError => 1 | RAssert => 2 | ROk => 3 | RBodyRaised => 4 end).

(* input: (world extras body_raises); output: (result inside? after closed) *)
Definition run_c20_patch (x : sexp) : sexp :=
  match x with
  | L [w; ex; br] =>
      match dec_list dec_value w, dec_list dec_nat ex, dec_bool br with
      | Some w, Some ex, Some br =>
          let r := patch ex br w in
          L [enc_result (res r); enc_opt (enc_list enc_value) (inside r);
             enc_list enc_value (after r); enc_bool (closed r)]
      | _, _, _ => bad
      end
  | _ => bad
  end.
