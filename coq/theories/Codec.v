(* String-literal codecs on the path of a bound parameter (cursor.py:428-446) and of execute_string's
   re-rendering (conn.py:137):
     connector escape + quote -> python % -> sqlglot Snowflake tokenizer -> DuckDB generator -> DuckDB lexer
     sqlglot Snowflake generator -> sqlglot Snowflake tokenizer *)
From FS Require Import Sexp.

Definition q : Z := 39.      (* ' *)
Definition bs : Z := 92.     (* \ *)

(* snowflake.connector.converter.SnowflakeConverter.escape / quote (for str) *)
Definition esc_c (c : Z) : str :=
  if c =? bs then [bs; bs]
  else if c =? 10 then [bs; 110]       (* \n *)
  else if c =? 13 then [bs; 114]       (* \r *)
  else if c =? q then [bs; q]
  else [c].
Definition escape (s : str) : str := flat_map esc_c s.
Definition quote (s : str) : str := q :: s ++ [q].

(* sqlglot tokens._extract_string with the Snowflake dialect: STRING_ESCAPES = [\, '],
   UNESCAPED_SEQUENCES = \a \b \f \n \r \t \v \\ ; returns (content, text after the closing quote) *)
Definition sf_unesc (p : Z) : option Z :=
  if p =? 97 then Some 7 else if p =? 98 then Some 8 else if p =? 102 then Some 12
  else if p =? 110 then Some 10 else if p =? 114 then Some 13 else if p =? 116 then Some 9
  else if p =? 118 then Some 11 else if p =? bs then Some bs else if p =? q then Some q else None.

Definition cons_res (c : Z) (r : option (str * str)) : option (str * str) :=
  match r with Some (a, b) => Some (c :: a, b) | None => None end.

Fixpoint sf_body (s : str) : option (str * str) :=
  match s with
  | [] => None                                   (* TokenError: missing ' *)
  | c :: r =>
      if c =? bs then
        match r with
        | p :: r' => match sf_unesc p with
                     | Some u => cons_res u (sf_body r')
                     | None => cons_res bs (sf_body r)
                     end
        | [] => None
        end
      else if c =? q then
        match r with
        | p :: r' => if p =? q then cons_res q (sf_body r') else Some ([], r)
        | [] => Some ([], [])
        end
      else cons_res c (sf_body r)
  end.
Definition sf_lex (s : str) : option (str * str) :=
  match s with c :: r => if c =? q then sf_body r else None | [] => None end.

(* sqlglot generator literal_sql, DuckDB dialect: no escape sequences, ' doubled *)
Definition duck_gen (s : str) : str := q :: flat_map (fun c => if c =? q then [q; q] else [c]) s ++ [q].
(* DuckDB's lexer for a standard string constant *)
Fixpoint duck_body (s : str) : option (str * str) :=
  match s with
  | [] => None
  | c :: r =>
      if c =? q then
        match r with
        | p :: r' => if p =? q then cons_res q (duck_body r') else Some ([], r)
        | [] => Some ([], [])
        end
      else cons_res c (duck_body r)
  end.
Definition duck_lex (s : str) : option (str * str) :=
  match s with c :: r => if c =? q then duck_body r else None | [] => None end.

(* sqlglot generator literal_sql, Snowflake dialect: ESCAPED_SEQUENCES then ' -> \' *)
Definition sf_gen_c (c : Z) : str :=
  if c =? 7 then [bs; 97] else if c =? 8 then [bs; 98] else if c =? 12 then [bs; 102]
  else if c =? 10 then [bs; 110] else if c =? 13 then [bs; 114] else if c =? 9 then [bs; 116]
  else if c =? 11 then [bs; 118] else if c =? bs then [bs; bs] else if c =? q then [bs; q] else [c].
Definition sf_gen (s : str) : str := q :: flat_map sf_gen_c s ++ [q].

(* python `command % params` restricted to %s and %% *)
Fixpoint pyfmt (cmd : str) (vals : list str) : option str :=
  match cmd with
  | [] => match vals with [] => Some [] | _ => None end      (* not all arguments converted *)
  | c :: r =>
      if c =? 37 then
        match r with
        | p :: r' =>
            if p =? 37 then option_map (cons 37) (pyfmt r' vals)
            else if p =? 115 then
              match vals with
              | v :: vs => option_map (app v) (pyfmt r' vs)
              | [] => None                                     (* not enough arguments *)
              end
            else None                                          (* other conversions: outside the model *)
        | [] => None
        end
      else option_map (cons c) (pyfmt r vals)
  end.

(* the text handed to the parser for `execute(cmd, params)` with string parameters *)
Definition bind (cmd : str) (params : list str) : option str :=
  pyfmt cmd (map (fun p => quote (escape p)) params).

(* ---- sexp ---- *)
Definition enc_lex (r : option (str * str)) : sexp :=
  match r with Some (a, b) => L [enc_str a; enc_str b] | None => L [] end.
Definition run_c08_quote (x : sexp) : sexp := match dec_str x with Some s => enc_str (quote (escape s)) | None => bad end.
Definition run_c08_sflex (x : sexp) : sexp := match dec_str x with Some s => enc_lex (sf_lex s) | None => bad end.
Definition run_c08_duckgen (x : sexp) : sexp := match dec_str x with Some s => enc_str (duck_gen s) | None => bad end.
Definition run_c08_ducklex (x : sexp) : sexp := match dec_str x with Some s => enc_lex (duck_lex s) | None => bad end.
Definition run_c08_sfgen (x : sexp) : sexp := match dec_str x with Some s => enc_str (sf_gen s) | None => bad end.
Definition run_c08_bind (x : sexp) : sexp :=
  match x with
  | L [c; ps] => match dec_str c, dec_list dec_str ps with
                 | Some c, Some ps => enc_opt enc_str (bind c ps) | _, _ => bad end
  | _ => bad
  end.
