(* Model for C19 / C18: every fake operation as a small automaton issuing ATOMIC engine calls
   (conn.py:55-104 connect ladder after fixes 517b544, fbaffcb; cursor.py:280-283 CREATE DATABASE;
   cursor.py:249-355 CREATE TABLE with comment = DDL call + side-table call; plain INSERT / SELECT),
   sessions interleaved by an arbitrary schedule at call boundaries, the connect lock of
   instance.py (fix 32ae9c5), and crash prefixes (the disk = effects of the calls made so far). *)
From FS Require Import Sexp.

Definition key := list str.
Fixpoint key_eqb (a b : key) : bool :=
  match a, b with
  | [], [] => true
  | x :: a', y :: b' => str_eqb x y && key_eqb a' b'
  | _, _ => false
  end.
Definition s_main : str := Eval compute in lit "main".

Record eng := {
  dbs : list (str * bool);            (* attached database, booted? (info-schema side tables, views, macros created) *)
  schs : list key;                    (* [db; schema] *)
  tbls : list (key * list Z);         (* [db; schema; table] -> rows (autocommitted) *)
  cmts : list (key * str);            (* rows of _fs_tables_ext *)
  temps : list (nat * list Z)         (* session id -> rows of that session's TEMPORARY table merge_candidates (never durable) *)
}.
Definition e0 : eng := {| dbs := []; schs := []; tbls := []; cmts := []; temps := [] |}.

Definition has_db (e : eng) (d : str) : bool := existsb (fun p => str_eqb (fst p) d) (dbs e).
Definition booted (e : eng) (d : str) : bool := existsb (fun p => str_eqb (fst p) d && snd p) (dbs e).
Definition has_sch (e : eng) (d s : str) : bool := existsb (key_eqb [d; s]) (schs e).
Fixpoint klook {X} (l : list (key * X)) (k : key) : option X :=
  match l with [] => None | (k', v) :: r => if key_eqb k' k then Some v else klook r k end.
Fixpoint kput {X} (l : list (key * X)) (k : key) (v : X) : list (key * X) :=
  match l with
  | [] => [(k, v)]
  | (k', v') :: r => if key_eqb k' k then (k', v) :: r else (k', v') :: kput r k v
  end.

Inductive call :=
| QDb (d : str)                 (* select * from information_schema.schemata where catalog = d *)
| QSchema (d s : str)
| Attach (d : str)              (* ATTACH IF NOT EXISTS *)
| Boot (d : str)                (* info_schema.creation_sql: CREATE TABLE/VIEW IF NOT EXISTS ... *)
| MkSchema (d s : str)          (* CREATE SCHEMA IF NOT EXISTS *)
| SetSchema (d s : str)         (* SET schema = 'd.s' (per session; the model keeps only success/failure) *)
| MkTable (k : key)             (* CREATE TABLE *)
| PutComment (k : key) (c : str)  (* INSERT INTO d.information_schema._fs_tables_ext ... ON CONFLICT DO UPDATE *)
| InsertRow (k : key) (v : Z)
| ReadTable (k : key)
| ReadMeta (k : key)            (* information_schema.tables joined with _fs_tables_ext: (exists, comment) *)
| TxBegin                       (* BEGIN: later statements of the session are pending until COMMIT *)
| TxStage (k : key) (v : Z)     (* an INSERT inside the open transaction: nothing reaches the shared/durable state *)
| CommitRows (k : key) (vs : list Z)   (* COMMIT: all pending rows become durable and visible in one call *)
| TxRollback
(* MERGE INTO k USING src ON k.v = src.v WHEN NOT MATCHED THEN INSERT (v) VALUES (src.v) - transforms_merge.py: three engine calls
   around the session's own TEMPORARY table merge_candidates *)
| MkCands (sid : nat) (k src : key)   (* CREATE OR REPLACE TEMPORARY TABLE merge_candidates AS ... FULL OUTER JOIN ... *)
| ApplyCands (sid : nat) (k : key)    (* INSERT INTO k SELECT ... FROM merge_candidates *)
| CountCands (sid : nat).             (* SELECT COUNT_IF(...) FROM merge_candidates: the status row *)

Fixpoint tlook (l : list (nat * list Z)) (i : nat) : option (list Z) :=
  match l with [] => None | (j, v) :: r => if Nat.eqb j i then Some v else tlook r i end.
Fixpoint tput (l : list (nat * list Z)) (i : nat) (v : list Z) : list (nat * list Z) :=
  match l with
  | [] => [(i, v)]
  | (j, w) :: r => if Nat.eqb j i then (j, v) :: r else (j, w) :: tput r i v
  end.

Inductive ans := ABool (b : bool) | AOk | AErr (code : Z) | ARows (l : list Z) | AMeta (ex : bool) (c : option str).

Definition kd (k : key) : str := nth 0 k [].
Definition ks (k : key) : str := nth 1 k [].

Definition exec (e : eng) (c : call) : eng * ans :=
  match c with
  | QDb d => (e, ABool (has_db e d))
  | QSchema d s => (e, ABool (has_sch e d s))
  | Attach d => if has_db e d then (e, AOk)
                else ({| dbs := dbs e ++ [(d, false)]; schs := schs e ++ [[d; s_main]]; tbls := tbls e; cmts := cmts e; temps := temps e |}, AOk)
  | Boot d => if has_db e d
              then ({| dbs := map (fun p => if str_eqb (fst p) d then (fst p, true) else p) (dbs e); schs := schs e; tbls := tbls e; cmts := cmts e; temps := temps e |}, AOk)
              else (e, AErr 2043)
  | MkSchema d s => if has_db e d
                    then (if has_sch e d s then e else {| dbs := dbs e; schs := schs e ++ [[d; s]]; tbls := tbls e; cmts := cmts e; temps := temps e |}, AOk)
                    else (e, AErr 2043)
  | SetSchema d s => if has_sch e d s then (e, AOk) else (e, AErr 2043)
  | MkTable k => if negb (has_db e (kd k)) then (e, AErr 2043) else
                 if has_sch e (kd k) (ks k)
                 then match klook (tbls e) k with
                      | Some _ => (e, AErr 2003)
                      | None => ({| dbs := dbs e; schs := schs e; tbls := tbls e ++ [(k, [])]; cmts := cmts e; temps := temps e |}, AOk)
                      end
                 else (e, AErr 2003)
  | PutComment k c => if booted e (kd k)
                      then ({| dbs := dbs e; schs := schs e; tbls := tbls e; cmts := kput (cmts e) k c; temps := temps e |}, AOk)
                      else (e, AErr (-1))       (* raised outside the translating try block: a raw DuckDB exception *)
  | InsertRow k v => match klook (tbls e) k with
                     | Some rows => ({| dbs := dbs e; schs := schs e; tbls := kput (tbls e) k (rows ++ [v]); cmts := cmts e; temps := temps e |}, AOk)
                     | None => (e, AErr (if has_db e (kd k) then 2003 else 2043))
                     end
  | ReadTable k => match klook (tbls e) k with Some rows => (e, ARows rows) | None => (e, AErr (if has_db e (kd k) then 2003 else 2043)) end
  | ReadMeta k => (e, AMeta (match klook (tbls e) k with Some _ => true | None => false end) (klook (cmts e) k))
  | TxBegin | TxRollback => (e, AOk)
  | TxStage k v => match klook (tbls e) k with Some _ => (e, AOk) | None => (e, AErr (if has_db e (kd k) then 2003 else 2043)) end
  | CommitRows k vs => match klook (tbls e) k with
                       | Some rows => ({| dbs := dbs e; schs := schs e; tbls := kput (tbls e) k (rows ++ vs); cmts := cmts e; temps := temps e |}, AOk)
                       | None => (e, AOk)
                       end
  | MkCands sid k src =>
      match klook (tbls e) k, klook (tbls e) src with
      | Some tr, Some sr =>
          let cs := filter (fun v => negb (existsb (Z.eqb v) tr)) sr in
          ({| dbs := dbs e; schs := schs e; tbls := tbls e; cmts := cmts e; temps := tput (temps e) sid cs |}, ARows cs)
      | None, _ => (e, AErr (if has_db e (kd k) then 2003 else 2043))
      | _, None => (e, AErr (if has_db e (kd src) then 2003 else 2043))
      end
  | ApplyCands sid k =>
      match klook (tbls e) k, tlook (temps e) sid with
      | Some rows, Some cs => ({| dbs := dbs e; schs := schs e; tbls := kput (tbls e) k (rows ++ cs); cmts := cmts e; temps := temps e |}, ARows cs)
      | _, _ => (e, AErr 2003)
      end
  | CountCands sid => match tlook (temps e) sid with Some cs => (e, ARows [Z.of_nat (length cs)]) | None => (e, AErr 2003) end
  end.

(* ---- operations as automata: pc -> next call; (pc, answer) -> next pc.  fetch = None: finished *)
Inductive op :=
| Connect (d s : str)                      (* create_database_on_connect = create_schema_on_connect = True *)
| CreateDb (d : str)                       (* CREATE DATABASE d: ATTACH, then the info-schema bootstrap *)
| CreateTable (k : key) (c : option str)   (* with COMMENT: DDL call, then side-table call *)
| Insert (k : key) (v : Z)
| Read (k : key)
| Meta (k : key)
| TxInserts (k : key) (vs : list Z) (commit : bool)    (* BEGIN; INSERT each of vs; COMMIT | leave open / ROLLBACK *)
| Merge (sid : nat) (k src : key).                     (* sid = the index of the session that runs it *)

Definition fetch (o : op) (pc : nat) : option call :=
  match o, pc with
  | Connect d s, 0 => Some (QDb d)
  | Connect d s, 1 => Some (Attach d)
  | Connect d s, 2 => Some (Boot d)
  | Connect d s, 3 => Some (QSchema d s)
  | Connect d s, 4 => Some (QDb d)
  | Connect d s, 5 => Some (MkSchema d s)
  | Connect d s, 6 => Some (QSchema d s)
  | Connect d s, 7 => Some (SetSchema d s)
  | Connect d s, 8 => Some (QDb d)
  | Connect d s, 9 => Some (SetSchema d s_main)
  | CreateDb d, 0 => Some (Attach d)
  | CreateDb d, 1 => Some (Boot d)
  | CreateTable k _, 0 => Some (MkTable k)
  | CreateTable k (Some c), 1 => Some (PutComment k c)
  | Insert k v, 0 => Some (InsertRow k v)
  | Read k, 0 => Some (ReadTable k)
  | Meta k, 0 => Some (ReadMeta k)
  | TxInserts k vs commit, 0 => Some TxBegin
  | TxInserts k vs commit, S i =>
      match nth_error vs i with
      | Some v => Some (TxStage k v)
      | None => if Nat.eqb i (length vs) then Some (if commit then CommitRows k vs else TxRollback) else None
      end
  | Merge sid k src, 0 => Some (MkCands sid k src)
  | Merge sid k src, 1 => Some (ApplyCands sid k)
  | Merge sid k src, 2 => Some (CountCands sid)
  | _, _ => None
  end%nat.

Definition fin : nat := 99.
Definition is_err (a : ans) : bool := match a with AErr _ => true | _ => false end.

(* next pc after the call at pc answered a; an error ends the operation (the exception propagates) *)
Definition advance (o : op) (pc : nat) (a : ans) : nat :=
  if is_err a then fin else
  match o, pc, a with
  | Connect _ _, 0, ABool true => 3
  | Connect _ _, 0, _ => 1
  | Connect _ _, 1, _ => 2
  | Connect _ _, 2, _ => 3
  | Connect _ _, 3, ABool true => 6
  | Connect _ _, 3, _ => 4
  | Connect _ _, 4, ABool true => 5
  | Connect _ _, 4, _ => 6
  | Connect _ _, 5, _ => 6
  | Connect _ _, 6, ABool true => 7
  | Connect _ _, 6, _ => 8
  | Connect _ _, 7, _ => fin
  | Connect _ _, 8, ABool true => 9
  | Connect _ _, 8, _ => fin
  | CreateDb _, 0, _ => 1
  | CreateTable _ (Some _), 0, _ => 1
  | TxInserts _ vs _, p, _ => if Nat.leb p (length vs) then S p else fin
  | Merge _ _ _, 0, _ => 1
  | Merge _ _ _, 1, _ => 2
  | _, _, _ => fin
  end%nat.

(* the visible result of an operation = the answer of its last call, or the error that ended it *)
Record sess := {
  todo : list op;           (* head = operation in progress *)
  pc : nat;
  last : ans;               (* answer of the most recent call of the operation in progress *)
  done : list ans           (* results of finished operations, oldest first *)
}.
Definition mk_sess (ops : list op) : sess := {| todo := ops; pc := 0; last := AOk; done := [] |}.

Definition is_connect (o : op) : bool := match o with Connect _ _ => true | _ => false end.
(* a session holds the connect lock while it is inside a Connect (after its first call) *)
Definition holds_lock (s : sess) : bool :=
  match todo s with o :: _ => is_connect o && negb (Nat.eqb (pc s) 0) | [] => false end.
Definition wants_lock (s : sess) : bool :=
  match todo s with o :: _ => is_connect o && Nat.eqb (pc s) 0 | [] => false end.

(* normalise: skip finished operations (fetch = None) *)
Definition settle (s : sess) : sess :=
  match todo s with
  | o :: rest => match fetch o (pc s) with
                 | None => {| todo := rest; pc := 0; last := AOk; done := done s ++ [last s] |}
                 | Some _ => s
                 end
  | [] => s
  end.

Definition turn (e : eng) (s : sess) : eng * sess * option call :=
  match todo s with
  | o :: rest =>
      match fetch o (pc s) with
      | Some c => let '(e', a) := exec e c in
                  (e', settle {| todo := todo s; pc := advance o (pc s) a; last := a; done := done s |}, Some c)
      | None => (e, settle s, None)
      end
  | [] => (e, s, None)
  end.

Fixpoint upd {X} (l : list X) (i : nat) (x : X) : list X :=
  match l, i with
  | [], _ => []
  | _ :: r, O => x :: r
  | y :: r, S i' => y :: upd r i' x
  end.

Definition lock_free_for (ss : list sess) (i : nat) : bool :=
  forallb (fun p => Nat.eqb (fst p) i || negb (holds_lock (snd p))) (combine (seq 0 (length ss)) ss).

(* one scheduled turn of session i; a session that needs the connect lock while another holds it does nothing *)
Definition sched_step (use_lock : bool) (st : eng * list sess) (i : nat) : eng * list sess :=
  let '(e, ss) := st in
  match nth_error ss i with
  | None => st
  | Some s =>
      if use_lock && wants_lock s && negb (lock_free_for ss i) then st
      else let '(e', s', _) := turn e s in (e', upd ss i s')
  end.
Definition run_sched (use_lock : bool) (sch : list nat) (st : eng * list sess) : eng * list sess :=
  fold_left (sched_step use_lock) sch st.

(* fair completion: every session gets enough further turns, round robin *)
Definition all_done (ss : list sess) : bool := forallb (fun s => match todo s with [] => true | _ => false end) ss.
Fixpoint finish (use_lock : bool) (fuel : nat) (st : eng * list sess) : eng * list sess :=
  match fuel with
  | O => st
  | S f => if all_done (snd st) then st
           else finish use_lock f (run_sched use_lock (seq 0 (length (snd st))) st)
  end.
Definition budget (ss : list sess) : nat := 12 * fold_right (fun s n => (length (todo s) + n)%nat) 0%nat ss + 1.
Definition run_all (use_lock : bool) (sch : list nat) (scripts : list (list op)) : eng * list sess :=
  let st := run_sched use_lock sch (e0, map mk_sess scripts) in
  finish use_lock (budget (snd st)) st.

(* crash after the first n turns of a schedule: what is on disk *)
Definition crash (use_lock : bool) (sch : list nat) (n : nat) (scripts : list (list op)) : eng :=
  fst (run_sched use_lock (firstn n sch) (e0, map mk_sess scripts)).

(* ---- sexp ---- *)
Definition dec_key (x : sexp) : option key := dec_list dec_str x.
Definition dec_op (x : sexp) : option op :=
  match x with
  | L [A 0; d; s] => match dec_str d, dec_str s with Some d, Some s => Some (Connect d s) | _, _ => None end
  | L [A 1; d] => option_map CreateDb (dec_str d)
  | L [A 2; k; c] => match dec_key k, dec_opt dec_str c with Some k, Some c => Some (CreateTable k c) | _, _ => None end
  | L [A 3; k; A v] => option_map (fun k => Insert k v) (dec_key k)
  | L [A 4; k] => option_map Read (dec_key k)
  | L [A 5; k] => option_map Meta (dec_key k)
  | L [A 6; k; vs; c] => match dec_key k, dec_list dec_z vs, dec_bool c with Some k, Some vs, Some c => Some (TxInserts k vs c) | _, _, _ => None end
  | L [A 7; i; k; src] => match dec_nat i, dec_key k, dec_key src with Some i, Some k, Some src => Some (Merge i k src) | _, _, _ => None end
  | _ => None
  end.
Definition enc_ans (a : ans) : sexp :=
  match a with
  | ABool b => L [A 0; enc_bool b] | AOk => L [A 1] | AErr c => L [A 2; A c] | ARows l => L [A 3; L (map A l)]
  | AMeta ex c => L [A 4; enc_bool ex; enc_opt enc_str c]
  end.
Definition call_class (c : call) : Z :=
  match c with QDb _ => 0 | QSchema _ _ => 1 | Attach _ => 2 | Boot _ => 3 | MkSchema _ _ => 4 | SetSchema _ _ => 5
             | MkTable _ => 6 | PutComment _ _ => 7 | InsertRow _ _ => 8 | ReadTable _ => 9 | ReadMeta _ => 10
             | TxBegin => 11 | TxStage _ _ => 8 | CommitRows _ _ => 12 | TxRollback => 13
             | MkCands _ _ _ => 14 | ApplyCands _ _ => 15 | CountCands _ => 16 end.
Definition enc_eng (e : eng) : sexp :=
  L [enc_list (fun p => L [enc_str (fst p); enc_bool (snd p)]) (dbs e);
     enc_list (enc_list enc_str) (schs e);
     enc_list (fun p => L [enc_list enc_str (fst p); L (map A (snd p))]) (tbls e);
     enc_list (fun p => L [enc_list enc_str (fst p); enc_str (snd p)]) (cmts e)].

(* follow a schedule turn by turn, recording which call class each turn made and whether it broke the lock rule *)
Fixpoint follow (sch : list nat) (st : eng * list sess) (acc : list sexp) (viol : bool) : eng * list sess * list sexp * bool :=
  match sch with
  | [] => (st, acc, viol)
  | i :: r =>
      let '(e, ss) := st in
      match nth_error ss i with
      | None => follow r st (acc ++ [A (-1)]) viol
      | Some s =>
          let v := wants_lock s && negb (lock_free_for ss i) in
          let '(e', s', c) := turn e s in
          follow r (e', upd ss i s') (acc ++ [match c with Some c => A (call_class c) | None => A (-1) end]) (viol || v)
      end
  end.

(* input: (scripts schedule) ; output: (results-per-session call-classes final-engine all-done lock-rule-broken) *)
Definition run_c19 (x : sexp) : sexp :=
  match x with
  | L [scripts; sch] =>
      match dec_list (dec_list dec_op) scripts, dec_list dec_nat sch with
      | Some scripts, Some sch =>
          let '(st, classes, viol) := follow sch (e0, map mk_sess scripts) [] false in
          L [enc_list (fun s => enc_list enc_ans (done s)) (snd st); L classes; enc_eng (fst st);
             enc_bool (all_done (snd st)); enc_bool viol]
      | _, _ => bad
      end
  | _ => bad
  end.
(* input: (scripts schedule n) ; output: the engine state (disk) after the first n turns *)
Definition run_c18 (x : sexp) : sexp :=
  match x with
  | L [scripts; sch; n] =>
      match dec_list (dec_list dec_op) scripts, dec_list dec_nat sch, dec_nat n with
      | Some scripts, Some sch, Some n => enc_eng (crash false sch n scripts)
      | _, _, _ => bad
      end
  | _ => bad
  end.
