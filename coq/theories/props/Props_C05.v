(* C05 - fetch calls hand out every result row once, in order, at full width. *)
From FS Require Import Sexp Fetch FetchProofs.

(* any sequence of fetchone / fetchmany(k) / fetchmany() / fetchall / arraysize changes, from any
   point of a result set: the concatenation of everything handed out is exactly the next
   `requested` rows, in result order (tuple cursor and dict cursor) *)
Theorem fetch_in_order : forall ops s rows names,
  res s = Some (rows, names) -> forallb is_fetch ops = true ->
  (dictc s = false ->
     concat (map rows_of (run s ops)) = firstn (requested s ops) (skipn (off s) rows)) /\
  (dictc s = true ->
     concat (map dicts_of (run s ops)) = map (mkdict names) (firstn (requested s ops) (skipn (off s) rows))).
Proof. exact fetch_in_order_l. Qed.
Print Assumptions fetch_in_order.

Theorem exactly_once : forall ops s rows names,
  res s = Some (rows, names) -> idx s = None -> dictc s = false -> forallb is_fetch ops = true ->
  concat (map rows_of (run s ops)) = firstn (requested s ops) rows /\
  ((length rows <= requested s ops)%nat -> concat (map rows_of (run s ops)) = rows).
Proof. exact exactly_once_l. Qed.
Print Assumptions exactly_once.

(* ... and then an empty list / None for ever *)
Theorem drained_stays_empty : forall ops s rows names,
  res s = Some (rows, names) -> forallb is_fetch ops = true -> (length rows <= off s)%nat ->
  concat (map rows_of (run s ops)) = [] /\ concat (map dicts_of (run s ops)) = [].
Proof. exact drained_l. Qed.
Print Assumptions drained_stays_empty.

Theorem fetchall_returns_the_rest_and_drains : forall s rows names, res s = Some (rows, names) ->
  (length rows <= off (fst (step s Fetchall)))%nat /\
  (dictc s = false -> rows_of (snd (step s Fetchall)) = skipn (off s) rows).
Proof. exact fetchall_drains. Qed.
Print Assumptions fetchall_returns_the_rest_and_drains.

(* a DictCursor row carries the same values keyed by the column names (distinct names) *)
Theorem dict_values_agree : forall names r, NoDup names -> mkdict names r = combine names r.
Proof. exact dict_values_agree_l. Qed.
Print Assumptions dict_values_agree.

Theorem no_result_set_before_execute : forall d o, is_fetch o = true ->
  snd (step (init d) o) =
  match o with
  | Fetchone | Fetchmany _ | Fetchall => OErr 1
  | FetchPandas => OErr 2
  | Rowcount => OCount None
  | _ => OUnit
  end.
Proof. exact no_result_set_l. Qed.
Print Assumptions no_result_set_before_execute.

(* what follows an execute does not depend on the previous result set or fetch position *)
Theorem execute_replaces : forall s1 s2 rows names aff ops,
  asz s1 = asz s2 -> dictc s1 = dictc s2 ->
  run s1 (Execute rows names aff :: ops) = run s2 (Execute rows names aff :: ops).
Proof. exact execute_replaces_l. Qed.
Print Assumptions execute_replaces.

Theorem rowcount_and_pandas_agree : forall ops s0 rows names aff,
  forallb is_fetch ops = true ->
  let s := fst (step s0 (Execute rows names aff)) in
  snd (step (final s ops) Rowcount) = OCount (Some (match aff with Some k => k | None => length rows end)) /\
  snd (step (final s ops) FetchPandas) = OCount (Some (length rows)).
Proof. exact rowcount_pandas_agree_l. Qed.
Print Assumptions rowcount_and_pandas_agree.

(* full width even when column names repeat: tuple rows are the result rows themselves *)
Example width_with_repeated_names :
  let rows := [[Some 1; None]; [Some 2; Some 5]; [Some 3; Some 6]] in
  let ops := [Fetchone; SetArraysize 2; Fetchmany None; Fetchmany (Some 4%nat); Fetchall; Fetchone] in
  run (init false) (Execute rows [lit "A"; lit "A"] None :: ops) =
  [OUnit; OOne (Some [Some 1; None]); OUnit; ORows [[Some 2; Some 5]; [Some 3; Some 6]]; ORows []; ORows [];
   OOne None].
Proof. exact fetch_nonvacuous. Qed.
Print Assumptions width_with_repeated_names.

(* reading cursor.description, sqlstate, sfqid ... between the fetch calls - at any points of any call sequence - changes
   no answer and not the final state *)
Theorem peek_erasure : forall ops s, outs_erase ops (run s ops) = run s (erase ops) /\ final s ops = final s (erase ops).
Proof. exact peek_erasure_l. Qed.
Print Assumptions peek_erasure.
