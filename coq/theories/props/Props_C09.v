(* C09 - metadata views always describe exactly the current user objects.
   *_fake : what information_schema / DESCRIBE answer = DuckDB's live catalog joined with fakesnow's side tables
   (comments, VARCHAR lengths); *_spec : what the user most recently declared for the CURRENT incarnation of each
   table (what Snowflake reports). Full statement: they agree at every point of every DDL history.
   False outside dom (the *_refuted witnesses = known findings); proved on dom = histories of CREATE [OR REPLACE]
   TABLE, DROP TABLE, DROP SCHEMA, ADD / DROP / RENAME COLUMN, RENAME TO (after fix 6836b10) and comments on existing
   tables - including any re-use of table and column names. Outside dom: CLONE / CTAS and comments on missing tables. *)
From FS Require Import Sexp Types TypesProofs Meta MetaProofs.

Theorem metadata_exact_partial : forall h, dom h = true -> forall k, length k = 3%nat ->
  comment_fake (run h) k = comment_spec (run h) k /\
  (forall c, len_fake (run h) k c = len_spec (run h) k c) /\
  describe_fake (run h) k = describe_spec (run h) k.
Proof. exact metadata_exact_partial_l. Qed.
Print Assumptions metadata_exact_partial.

(* the same with BEGIN / COMMIT / ROLLBACK anywhere in the history (one session; no BEGIN inside a transaction) *)
Theorem metadata_exact_tx_partial : forall h, tdom h = true -> forall k, length k = 3%nat ->
  comment_fake (cur (trun h)) k = comment_spec (cur (trun h)) k /\
  (forall c, len_fake (cur (trun h)) k c = len_spec (cur (trun h)) k c) /\
  describe_fake (cur (trun h)) k = describe_spec (cur (trun h)) k.
Proof. exact metadata_exact_tx_partial_l. Qed.
Print Assumptions metadata_exact_tx_partial.

Theorem tx_rollback_restores : forall ts body, saved ts = None ->
  cur (tstep (fold_left tstep (map Stmt body) (tstep ts TBegin)) TRollback) = cur ts.
Proof. exact tx_rollback_restores_l. Qed.
Print Assumptions tx_rollback_restores.

Theorem trun_embed : forall h, cur (trun (map Stmt h)) = run h /\ tdom (map Stmt h) = dom h.
Proof. exact trun_embed_l. Qed.
Print Assumptions trun_embed.

(* "at every point of any DDL history": dom is prefix-closed, so the theorem applies after every statement *)
Theorem every_prefix : forall h1 h2, dom (h1 ++ h2) = true -> dom h1 = true.
Proof. exact every_prefix_l. Qed.
Print Assumptions every_prefix.

(* "nothing dropped or replaced": a name that is not live has no comment and no lengths left behind *)
Theorem dropped_leave_nothing : forall h, dom h = true -> forall k c, length k = 3%nat -> lookup (live (run h)) k = None ->
  comment_fake (run h) k = None /\ len_fake (run h) k c = None.
Proof. exact dropped_leave_nothing_l. Qed.
Print Assumptions dropped_leave_nothing.

Theorem clone_refuted : exists h k, describe_fake (run h) k <> describe_spec (run h) k.
Proof. exact clone_refuted_l. Qed.
Print Assumptions clone_refuted.

Theorem comment_on_missing_refuted : exists h k, comment_fake (run h) k <> comment_spec (run h) k.
Proof. exact comment_on_missing_refuted_l. Qed.
Print Assumptions comment_on_missing_refuted.

Example meta_holds_somewhere : dom ex_h = true /\
  comment_fake (run ex_h) (K "T2") = Some (lit "last") /\
  describe_fake (run ex_h) (K "T2") = Some [(lit "E", inl 3); (lit "D", inr 1)] /\
  len_fake (run ex_h) (K "T2") (lit "D") = None /\
  comment_fake (run ex_h) (K "T1") = None /\
  describe_fake (run ex_h) (K "T1") = Some [(lit "E", inl 16777216)] /\
  comment_fake (run ex_h) [lit "DB1"; lit "S2"; lit "T1"] = None /\
  describe_fake (run ex_h) [lit "DB1"; lit "S2"; lit "T1"] = Some [(lit "B", inl 16777216)].
Proof. exact meta_nonvacuous_l. Qed.
Print Assumptions meta_holds_somewhere.

Example meta_tx_holds_somewhere : tdom ex_th = true /\ cur (trun ex_th) = run ex_h.
Proof. exact meta_tx_nonvacuous_l. Qed.
Print Assumptions meta_tx_holds_somewhere.

(* "with Snowflake type names, precision and scale ... agree with each other": for every DuckDB column type a Snowflake
   statement can produce, the name / precision / scale that information_schema.columns and DESCRIBE TABLE compute (the CASE arms
   of the view _fs_columns_snowflake, tied to info_schema.py by the generated theorem view_arms_match_source) are those of
   cursor.description (Types.sf_meta, tied to types.py by table_matches_source) *)
Theorem info_name_agrees_partial : forall t m, sf_meta t = Some m -> column_dom t = true -> info_name t = Some (sf_name (kind m)).
Proof. exact info_name_agrees_partial_l. Qed.
Print Assumptions info_name_agrees_partial.

Theorem info_precision_agrees_partial : forall t m, sf_meta t = Some m -> column_dom t = true -> kind m = Fixed ->
  info_prec t = precision m /\ info_scale t = scale m.
Proof. exact info_precision_agrees_partial_l. Qed.
Print Assumptions info_precision_agrees_partial.

Theorem info_float_has_no_precision : info_prec DDouble = None /\ info_scale DDouble = None.
Proof. exact info_float_has_no_precision_l. Qed.
Print Assumptions info_float_has_no_precision.

Theorem info_timestamp_ns_refuted : exists t m, sf_meta t = Some m /\ info_name t <> Some (sf_name (kind m)).
Proof. exact info_timestamp_ns_refuted_l. Qed.
Print Assumptions info_timestamp_ns_refuted.
