(* C18 *)
From FS Require Import Sexp Steps StepsProofs.
Example placeholder : True. Proof. exact I. Qed.
Print Assumptions placeholder.
