(* C18 - with db_path, committed state survives exit, exceptions and kills.
   Model (Steps.v): the disk holds exactly the effects of the engine calls made before the crash; `crash lk sch n`
   = the state after the first n calls of a schedule. DuckDB's own guarantee (an autocommitted or committed call is
   durable and atomic under SIGKILL) is the model's assumption, validated by the kill experiments of the check. *)
From FS Require Import Sexp Steps StepsProofs.

(* For ALL sessions, schedules and crash points n <= n': every database, bootstrap, schema, table, every row (in its
   place) and every recorded comment that is on disk at crash point n is on disk at crash point n' *)
Theorem committed_survives : forall lk sch scripts n n', (n <= n')%nat -> eng_le (crash lk sch n scripts) (crash lk sch n' scripts).
Proof. exact committed_survives_l. Qed.
Print Assumptions committed_survives.

Theorem insert_effect : forall e k v e', exec e (InsertRow k v) = (e', AOk) -> exists rows, klook (tbls e') k = Some (rows ++ [v]).
Proof. exact insert_effect_l. Qed.
Print Assumptions insert_effect.

(* work that was never committed is absent: of all the calls of BEGIN; INSERT ...; [COMMIT] only the COMMIT changes the
   durable state (for every state, table, row list and program point), and it adds all rows in one atomic call *)
Theorem tx_only_commit_writes : forall e k vs b p c, fetch (TxInserts k vs b) p = Some c -> c <> CommitRows k vs -> fst (exec e c) = e.
Proof. exact tx_only_commit_writes_l. Qed.
Print Assumptions tx_only_commit_writes.

Theorem tx_uncommitted_absent : forall e k vs p c, fetch (TxInserts k vs false) p = Some c -> fst (exec e c) = e.
Proof. exact tx_uncommitted_absent_l. Qed.
Print Assumptions tx_uncommitted_absent.

Theorem tx_commit_all_at_once : forall e k vs rows, klook (tbls e) k = Some rows -> klook (tbls (fst (exec e (CommitRows k vs)))) k = Some (rows ++ vs).
Proof. exact tx_commit_all_at_once_l. Qed.
Print Assumptions tx_commit_all_at_once.

(* "a statement interrupted by the kill is either fully there or not at all" is FALSE for statements carried out in
   several calls: killed after 9 calls, CREATE TABLE ... COMMENT has left the table without its comment *)
Theorem multi_step_atomic_refuted : exists n,
  let h := [[Connect DB SC; CreateTable TK (Some (lit "c"))]] in
  klook (tbls (crash false (repeat 0%nat 20) n h)) TK = Some [] /\ klook (cmts (crash false (repeat 0%nat 20) n h)) TK = None /\
  klook (cmts (crash false (repeat 0%nat 20) 20 h)) TK = Some (lit "c").
Proof. exact multi_step_atomic_refuted_l. Qed.
Print Assumptions multi_step_atomic_refuted.

Example crash_holds_somewhere :
  let h := [[Connect DB SC; CreateTable TK (Some (lit "c")); Insert TK 1; TxInserts TK [2; 3] true; TxInserts TK [4; 5] false; Insert TK 6]] in
  klook (tbls (crash false (repeat 0%nat 40) 14 h)) TK = Some [1] /\
  klook (tbls (crash false (repeat 0%nat 40) 15 h)) TK = Some [1; 2; 3] /\
  klook (tbls (crash false (repeat 0%nat 40) 40 h)) TK = Some [1; 2; 3; 6].
Proof. exact crash_nonvacuous_l. Qed.
Print Assumptions crash_holds_somewhere.
