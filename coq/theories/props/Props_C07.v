(* C07 - failures are Snowflake errors with the right codes, and change nothing. *)
From FS Require Import Sexp Ctx CtxProofs Errs ErrsProofs.

Theorem reference_failure_code : forall c, is_reference c = true ->
  code_of c = (ProgrammingError, 2003, Some st_42S02) \/ code_of c = (ProgrammingError, 2043, Some st_02000).
Proof. exact reference_failure_code_l. Qed.
Print Assumptions reference_failure_code.

Theorem context_failure_code :
  code_of NoDatabase = (ProgrammingError, 90105, Some st_22000) /\
  code_of NoSchema = (ProgrammingError, 90106, Some st_22000) /\
  code_of ClosedConnection = (DatabaseError, 250002, Some st_08003) /\
  fst (fst (code_of UndefinedVariable)) = ProgrammingError.
Proof. exact context_failure_code_l. Qed.
Print Assumptions context_failure_code.

(* in the catalog/context machine (shared with C03): whatever the world, connection and statement, a
   statement that ends in an error leaves catalog and every session context exactly as they were,
   and the error of a statement that got past the guards is one of the engine's two classes *)
Theorem failure_preserves_world : forall w ci o w' e, step w ci o = (w', RErr e) -> w' = w.
Proof. exact failure_preserves_world_l. Qed.
Print Assumptions failure_preserves_world.

Theorem engine_failure_codes : forall w ci c o w' e, exec w ci c o = (w', RErr e) -> w' = w /\ (e = 2003 \/ e = 2043).
Proof. exact exec_err. Qed.
Print Assumptions engine_failure_codes.

Theorem sqlstate_lifecycle : forall es e, sq_run (es ++ [e]) = sq_step None e.
Proof. exact sqlstate_lifecycle_l. Qed.
Print Assumptions sqlstate_lifecycle.

Theorem sqlstate_reset_by_success : forall es, sq_run (es ++ [ExecOk]) = None.
Proof. exact sqlstate_after_success_l. Qed.
Print Assumptions sqlstate_reset_by_success.

Example errs_hold_somewhere :
  sq_run [ExecOk; ExecRaises UnknownTable] = Some st_42S02 /\
  sq_run [ExecRaises UnknownTable; ExecRaises NoSchema] = Some st_22000 /\
  sq_run [ExecRaises UnknownColumn; ExecOk] = None.
Proof. exact errs_nonvacuous. Qed.
Print Assumptions errs_hold_somewhere.
