(* C06 - cursor.description matches the result of every executed statement. *)
From FS Require Import Sexp Types TypesProofs.

(* the metadata table agrees with the Python values fetched (FIXED scale 0 <-> int, scale > 0 <-> Decimal,
   REAL <-> float, TEXT/VARIANT <-> str, ...), for every mapped type except DECIMAL(p,0) *)
Theorem meta_consistent_partial : forall t m k, sf_meta t = Some m -> py_kind t = Some k -> dom t = true ->
  expected_py m = k.
Proof. exact meta_consistent_partial_l. Qed.
Print Assumptions meta_consistent_partial.

Theorem fixed0_refuted : exists t m k, sf_meta t = Some m /\ py_kind t = Some k /\ expected_py m <> k.
Proof. exact fixed0_refuted_l. Qed.
Print Assumptions fixed0_refuted.

Theorem meta_total_on_fetchable : forall t, (exists k, py_kind t = Some k) <-> (exists m, sf_meta t = Some m).
Proof. exact meta_total_on_fetchable_l. Qed.
Print Assumptions meta_total_on_fetchable.

Theorem one_entry_per_column_in_order : forall cols d, describe cols = Some d ->
  map fst d = map fst cols /\ length d = length cols /\
  forall i c, nth_error cols i = Some c -> exists m, sf_meta (snd c) = Some m /\ nth_error d i = Some (fst c, m).
Proof. exact one_entry_per_column_l. Qed.
Print Assumptions one_entry_per_column_in_order.

Theorem describe_fails_iff_unmapped : forall cols, describe cols = None <-> exists c, In c cols /\ sf_meta (snd c) = None.
Proof. exact describe_fails_iff_l. Qed.
Print Assumptions describe_fails_iff_unmapped.

Example types_hold_somewhere :
  describe [(lit "A", DBigint); (lit "b c", DDecimal 10 2); (lit "A", DTimestampTz)] =
    Some [(lit "A", mk Fixed (Some 38) (Some 0) None); (lit "b c", mk Fixed (Some 10) (Some 2) None);
          (lit "A", mk TsTz (Some 0) (Some 9) None)] /\
  describe [(lit "S", DOther 1)] = None.
Proof. exact types_nonvacuous. Qed.
Print Assumptions types_hold_somewhere.

(* sf_meta, the function all theorems above speak about, is what types.py's dict + if/elif chain compute: both are held as data
   (table, meta_rules) that generated theorems (table_matches_source, meta_rules_match_source) compare with the source on every run *)
Theorem sf_meta_by_rules : forall t, sf_meta_rules t = sf_meta t.
Proof. exact sf_meta_by_rules_l. Qed.
Print Assumptions sf_meta_by_rules.
