(* C03 - names resolve against each connection's own current database and schema. *)
From FS Require Import Sexp Ctx CtxProofs.

(* coherence (what conn.database/conn.schema report = what the engine resolves names against and
   what CURRENT_DATABASE()/CURRENT_SCHEMA() return) is an invariant of EVERY multi-connection history
   whose steps are inside `dom` *)
Theorem coh_reachable_partial : forall h w, (forall k, In k (conns w) -> Coh k) -> all_dom w h = true ->
  forall k, In k (conns (final w h)) -> Coh k.
Proof. exact coh_reachable_l. Qed.
Print Assumptions coh_reachable_partial.

(* full statement (no `dom`) is false of the faithful model: *)
Theorem coh_refuted_use_database :
  let w := {| cat := k0; conns := [c0] |} in
  exists k, In k (conns (fst (step w 0 (UseDb (lit "DB2"))))) /\ ~ Coh k.
Proof. exact CtxProofs.coh_refuted_use_database. Qed.
Print Assumptions coh_refuted_use_database.
Theorem coh_refuted_drop_current_schema :
  let w := {| cat := k0; conns := [c0] |} in
  exists k, In k (conns (fst (step w 0 (DropSchema None (lit "S1"))))) /\ ~ Coh k.
Proof. exact CtxProofs.coh_refuted_drop_current_schema. Qed.
Print Assumptions coh_refuted_drop_current_schema.

(* under coherence an unqualified / schema-qualified name denotes exactly what the fully qualified
   name built from the reported context denotes - same outcome, same new world - for queries/DML,
   CREATE and DROP; and CURRENT_DATABASE()/CURRENT_SCHEMA() report that context *)
Theorem resolve_coherent : forall w ci c kind d s t, cget (conns w) ci = Some c -> Coh c ->
  dset c = true -> cdb c = Some d ->
  (forall s', step w ci (with_q kind (Q2 s' t)) = step w ci (with_q kind (Q3 d s' t))) /\
  (sset c = true -> csch c = Some s -> step w ci (with_q kind (Q1 t)) = step w ci (with_q kind (Q3 d s t))) /\
  (sset c = true -> csch c = Some s -> snd (step w ci Current) = RCtx d s).
Proof. exact resolve_coherent_l. Qed.
Print Assumptions resolve_coherent.

(* 90105 / 90106 are raised exactly when the statement needs a current database / schema and the
   session has none - and then nothing changes *)
Theorem guards_exact : forall w ci c o, cget (conns w) ci = Some c ->
  (snd (step w ci o) = RErr 90105 <-> (fst (needs o) = true /\ dset c = false)) /\
  (snd (step w ci o) = RErr 90106 <-> (~ (fst (needs o) = true /\ dset c = false) /\ snd (needs o) = true /\ sset c = false)) /\
  ((fst (needs o) = true /\ dset c = false) \/ (snd (needs o) = true /\ sset c = false) -> fst (step w ci o) = w).
Proof. exact guards_exact_l. Qed.
Print Assumptions guards_exact.

Theorem context_frame : forall w ci cj o, ci <> cj -> cget (conns (fst (step w ci o))) cj = cget (conns w) cj.
Proof. exact context_frame_l. Qed.
Print Assumptions context_frame.

Theorem objects_shared : forall w ci c q w', cget (conns w) ci = Some c ->
  step w ci (CreateTable q) = (w', RUnit) ->
  let '(d, s, t) := locate c q in
  forall cj k, cget (conns w') cj = Some k -> snd (step w' cj (Select (Q3 d s t))) = RTable d s t.
Proof. exact objects_shared_l. Qed.
Print Assumptions objects_shared.

Example ctx_holds_somewhere :
  let w := {| cat := k0; conns := [c0; cnone] |} in
  let h := [(0, UseSchema None (lit "S2")); (1, UseSchema (Some (lit "DB2")) (lit "S1")); (0, CreateTable (Q1 (lit "U")));
            (1, Select (Q3 (lit "DB1") (lit "S2") (lit "U"))); (1, CreateSchema None (lit "S3")); (0, UseSchema (Some (lit "DB2")) (lit "S3"))]%nat in
  all_dom w h = true /\ Coh c0 /\ Coh cnone /\
  snd (step (final w h) 0 Current) = RCtx (lit "DB2") (lit "S3") /\
  snd (step w 1 (Select (Q1 (lit "T")))) = RErr 90105.
Proof. exact ctx_nonvacuous. Qed.
Print Assumptions ctx_holds_somewhere.

(* "set at connect": a NEW session opened at any point of any history of the instance - after other sessions created, used
   or dropped anything - has the database and schema it asked for: they exist, they are the engine's current ones, unqualified
   names resolve there, and no other session's context changed *)
Theorem reconnect_sets_context : forall w ci c d s, cget (conns w) ci = Some c ->
  let w' := fst (step w ci (Reconnect d s)) in
  e_set_schema (cat w') d s = None /\ snd (step w' ci Current) = RCtx d s /\
  (forall t, e_lookup (cat w) d s t = RTable d s t -> snd (step w' ci (Select (Q1 t))) = RTable d s t) /\
  (forall k, In k (conns w') -> k = {| cdb := Some d; csch := Some s; dset := true; sset := true; edb := d; esch := s |} \/ In k (conns w)).
Proof. exact reconnect_sets_context_l. Qed.
Print Assumptions reconnect_sets_context.
