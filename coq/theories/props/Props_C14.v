(* C14 - connect() does what its options say in every configuration. *)
From FS Require Import Sexp Connect ConnectProofs.

(* For EVERY catalog (any databases/schemas, attached or only on disk), every argument combination
   (any names, any letter case, given or not) and both auto-create flags: connect succeeds, and the
   record `spec` holds: names reported upper-cased; existing objects kept; only the requested
   database/schema created, and only when the flag allows; current database (schema) set exactly when
   the database (schema) exists afterwards; the engine's SET schema agrees with what is reported. *)
Theorem connect_total_and_exact : forall w c, wfw w ->
  exists w' s, connect w c = Some (w', s) /\ spec w c w' s.
Proof. exact connect_spec. Qed.
Print Assumptions connect_total_and_exact.

(* any number of connects, in any order, with any options: none raises *)
Theorem connects_total : forall cs w, wfw w -> all_ok w cs.
Proof. exact connects_total_l. Qed.
Print Assumptions connects_total.

Theorem empty_instance_wf : wfw {| dbs := []; attached := [] |}.
Proof. exact wfw_empty. Qed.
Print Assumptions empty_instance_wf.

Example connect_holds_somewhere :
  let c := {| database := Some (lit "db1"); schema := Some (lit "s2"); create_db := true; create_sch := true |} in
  match connect w0 c with
  | Some (w', s) => schema_exists w' (lit "DB1") (lit "S1") = true /\ schema_exists w' (lit "DB1") (lit "S2") = true /\
                    sdb s = Some (lit "DB1") /\ sch_set s = true /\ duck s = Some (lit "DB1", lit "S2")
  | None => False
  end.
Proof. exact connect_nonvacuous. Qed.
Print Assumptions connect_holds_somewhere.
