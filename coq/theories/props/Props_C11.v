(* C11 - VARIANT/OBJECT/ARRAY values behave as JSON documents. *)
From FS Require Import Sexp Json JsonProofs.

(* path access: for EVERY document and EVERY path of ANY depth whose keys are unambiguous in the path text (dom_path:
   unquoted/bracket keys are non-empty and contain none of . [ and the double quote; quoted keys contain no double quote)
   DuckDB reads back exactly the steps sqlglot wrote, hence the rewritten access is navigation of the document *)
Theorem path_roundtrip : forall p, dom_path p = true -> parse_path (render_path p) = Some p.
Proof. exact path_roundtrip_l. Qed.
Print Assumptions path_roundtrip.

Theorem path_correct_partial : forall d p, dom_path p = true -> fake_extract d p = Some (navigate d p).
Proof. exact path_correct_partial_l. Qed.
Print Assumptions path_correct_partial.

Theorem path_dot_refuted : exists d p, fake_extract d p <> Some (navigate d p).
Proof. exact path_dot_refuted_l. Qed.
Print Assumptions path_dot_refuted.

(* extraction of an extraction (f.value:c, nested GET_PATH) is extraction along the concatenated path *)
Theorem navigate_app : forall d p q, navigate d (p ++ q) = match navigate d p with Some d' => navigate d' q | None => None end.
Proof. exact navigate_app_l. Qed.
Print Assumptions navigate_app.

Theorem missing_is_null : forall d p, navigate d p = None ->
  as_json (navigate d p) = VNull /\ as_text (navigate d p) = VNull /\ as_int (navigate d p) = VNull /\ as_bool (navigate d p) = VNull.
Proof. exact missing_is_null_l. Qed.
Print Assumptions missing_is_null.

Theorem wrong_kind_is_missing : forall d st, (forall l, d <> JObj l) -> (forall l, d <> JArr l) -> get1 d st = None.
Proof. exact wrong_kind_is_missing_l. Qed.
Print Assumptions wrong_kind_is_missing.

Theorem text_strips_quotes_iff_string : forall j, j <> JNull ->
  (forall s, j = JStr s -> as_text (Some j) = VText s /\ as_json (Some j) = VJson (JStr s)) /\
  ((forall s, j <> JStr s) -> as_text (Some j) = VJson j /\ as_json (Some j) = VJson j).
Proof. exact text_strips_quotes_iff_string_l. Qed.
Print Assumptions text_strips_quotes_iff_string.

Theorem array_size_partial : forall l, l <> [] -> array_size_fake (Some (JArr l)) = array_size_spec (Some (JArr l)).
Proof. exact array_size_partial_l. Qed.
Print Assumptions array_size_partial.

Theorem array_size_empty_refuted : array_size_fake (Some (JArr [])) <> array_size_spec (Some (JArr [])).
Proof. exact array_size_empty_refuted_l. Qed.
Print Assumptions array_size_empty_refuted.

Theorem array_size_non_array : forall o, (forall l, o <> Some (JArr l)) -> array_size_fake o = None /\ array_size_spec o = None.
Proof. exact array_size_non_array_l. Qed.
Print Assumptions array_size_non_array.

(* OBJECT_CONSTRUCT drops NULL-valued pairs: proved when every NULL is written as the NULL keyword; a NULL that arrives
   as a column or expression value is kept as "k":null *)
Theorem object_construct_partial : forall pairs, oc_dom pairs = true -> oc_fake pairs = oc_spec pairs.
Proof. exact object_construct_partial_l. Qed.
Print Assumptions object_construct_partial.

Theorem object_construct_refuted : exists pairs, oc_fake pairs <> oc_spec pairs.
Proof. exact object_construct_refuted_l. Qed.
Print Assumptions object_construct_refuted.

Theorem flatten_each_once : forall l, flatten (Some (JArr l)) = Some l.
Proof. exact flatten_each_once_l. Qed.
Print Assumptions flatten_each_once.

Example json_holds_somewhere :
  dom_path [KeyU (lit "a"); KeyU (lit "b"); Idx 1; KeyQ (lit "c")] = true /\
  fake_extract ex_doc [KeyU (lit "a"); KeyU (lit "b"); Idx 1; KeyQ (lit "c")] = Some (Some (JStr (lit "x y"))) /\
  fake_extract ex_doc [KeyQ (lit "k y")] = Some (Some (JNum 1)) /\
  fake_extract ex_doc [KeyU (lit "a"); KeyU (lit "zz"); Idx 0] = Some None /\
  as_text (navigate ex_doc [KeyU (lit "k")]) = VText (lit "top").
Proof. exact json_nonvacuous_l. Qed.
Print Assumptions json_holds_somewhere.
