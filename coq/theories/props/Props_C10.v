(* C10 - rewritten Snowflake functions return what Snowflake documents.
   sem_sf : Snowflake's documented meaning of the fragment (arithmetic, comparison, three-valued logic, CASE, COALESCE,
   ::date, EQUAL_NULL, [TRY_]TO_DECIMAL/TO_NUMBER/TO_NUMERIC, TO_DATE, DATEADD, DATEDIFF - arbitrarily nested);
   rewrite : what fakesnow + sqlglot turn it into; sem_duck : DuckDB's meaning of the result (DATE + INTERVAL is a
   TIMESTAMP, narrowing DECIMAL casts truncate, text -> DECIMAL rounds, date_diff counts boundaries ...). *)
From FS Require Import Sexp Expr ExprProofs.

(* for EVERY environment and EVERY expression of the fragment, however deeply the constructs are nested in each other,
   inside `supported`: the rewritten expression has in DuckDB the value AND the type the original has in Snowflake *)
Theorem rewrite_correct_partial : forall en e, supported en e = true -> sem_duck en (rewrite e) = sem_sf en e.
Proof. exact rewrite_correct_partial_l. Qed.
Print Assumptions rewrite_correct_partial.

Theorem dateadd_column_type_refuted : exists en e, sem_sf en e = Ok (VDate 18293) /\ sem_duck en (rewrite e) = Ok (VTs (18293 * day_us)).
Proof. exact dateadd_column_type_refuted_l. Qed.
Print Assumptions dateadd_column_type_refuted.

Theorem decimal_narrowing_refuted : exists en e, sem_sf en e = Ok (VDec 15 1) /\ sem_duck en (rewrite e) = Ok (VDec 14 1).
Proof. exact decimal_narrowing_refuted_l. Qed.
Print Assumptions decimal_narrowing_refuted.

Theorem decimal_round_overflow_refuted : exists en e, sem_sf en e = Ok VNull /\ sem_duck en (rewrite e) = Ok (VDec 10000 2).
Proof. exact decimal_round_overflow_refuted_l. Qed.
Print Assumptions decimal_round_overflow_refuted.

Theorem week_epoch_refuted : exists en e, sem_sf en e = Ok (VInt 2) /\ sem_duck en (rewrite e) = Ok (VInt 1).
Proof. exact week_epoch_refuted_l. Qed.
Print Assumptions week_epoch_refuted.

Theorem hour_epoch_refuted : exists en e, sem_sf en e = Ok (VInt 1) /\ sem_duck en (rewrite e) = Ok (VInt 0).
Proof. exact hour_epoch_refuted_l. Qed.
Print Assumptions hour_epoch_refuted.

Theorem try_is_null_on_failure : forall a p s,
  to_decimal_with rescale_half_away rescale_half_away false a p s = Fail ->
  a <> Fail -> (forall b, a <> Ok (VBool b)) -> (forall d, a <> Ok (VDate d)) -> (forall t, a <> Ok (VTs t)) ->
  to_decimal_with rescale_half_away rescale_half_away true a p s = Ok VNull.
Proof. exact try_is_null_on_failure_l. Qed.
Print Assumptions try_is_null_on_failure.

(* the calendar both semantics share is a bijection with valid (y, m, d) on every day of 1900-01-01 .. 2100-12-31
   (finite domain decided by vm_compute and lifted with forallb_forall; outside the range it is validated against
   Python's datetime by the check) *)
Theorem calendar_roundtrip_range : forall z, -25567 <= z < 47847 -> cal_ok z = true.
Proof. exact calendar_roundtrip_range_l. Qed.
Print Assumptions calendar_roundtrip_range.

Example expr_holds_somewhere :
  supported [VNull; VDate 18322] ex_expr = true /\ sem_sf [VNull; VDate 18322] ex_expr = Ok (VDec 1235 2) /\
  supported [VNull; VDate 18322] (EDateAdd UMonth (ELit (VInt 1)) (dlit 2020 1 31)) = true /\
  sem_sf [] (EDateAdd UMonth (ELit (VInt 1)) (dlit 2020 1 31)) = Ok (VDate (days_from_civil 2020 2 29)).
Proof. exact expr_nonvacuous_l. Qed.
Print Assumptions expr_holds_somewhere.
