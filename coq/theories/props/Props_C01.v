(* C01 - stored values read back unchanged, in the connector's Python types. *)
From FS Require Import Sexp Types Store StoreProofs.

(* for EVERY declared type and EVERY value Snowflake accepts for it (38-digit extremes, full scale,
   0001-01-01 .. 9999-12-31 at microsecond precision, ...) the DuckDB column type it is mapped to can hold
   the value exactly - on `vdom` (integer-family values inside int64) *)
Theorem stored_partial : forall t v, sf_dom t v = true -> vdom t v = true -> duck_dom (map_type t) v = true.
Proof. exact stored_partial_l. Qed.
Print Assumptions stored_partial.

Theorem int_family_refuted : exists v, sf_dom TIntFamily v = true /\ duck_dom (map_type TIntFamily) v = false.
Proof. exact int_family_refuted_l. Qed.
Print Assumptions int_family_refuted.

Theorem pykind_partial : forall t, kdom t = true -> py_kind (map_type t) = Some (connector_kind t).
Proof. exact pykind_partial_l. Qed.
Print Assumptions pykind_partial.

Theorem fixed0_pytype_refuted : exists t, py_kind (map_type t) <> Some (connector_kind t).
Proof. exact fixed0_pytype_refuted_l. Qed.
Print Assumptions fixed0_pytype_refuted.

Example store_holds_somewhere :
  sf_dom (TNumber 38 37) (VNum (10 ^ 38 - 1) 37) = true /\ duck_dom (map_type (TNumber 38 37)) (VNum (10 ^ 38 - 1) 37) = true /\
  sf_dom TIntFamily (VNum (2 ^ 63 - 1) 0) = true /\ vdom TIntFamily (VNum (2 ^ 63 - 1) 0) = true /\
  sf_dom TTsNtz (VTs (-62135596800000000)) = true /\ duck_dom (map_type TTsNtz) (VTs (-62135596800000000)) = true.
Proof. exact store_nonvacuous. Qed.
Print Assumptions store_holds_somewhere.
