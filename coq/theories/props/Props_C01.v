(* C01 - stored values read back unchanged, in the connector's Python types. *)
From FS Require Import Sexp Types Store StoreProofs Dml DmlProofs.

(* for EVERY declared type and EVERY value Snowflake accepts for it (38-digit extremes, full scale,
   0001-01-01 .. 9999-12-31 at microsecond precision, ...) the DuckDB column type it is mapped to can hold
   the value exactly - on `vdom` (integer-family values inside int64) *)
Theorem stored_partial : forall t v, sf_dom t v = true -> vdom t v = true -> duck_dom (map_type t) v = true.
Proof. exact stored_partial_l. Qed.
Print Assumptions stored_partial.

Theorem int_family_refuted : exists v, sf_dom TIntFamily v = true /\ duck_dom (map_type TIntFamily) v = false.
Proof. exact int_family_refuted_l. Qed.
Print Assumptions int_family_refuted.

Theorem pykind_partial : forall t, kdom t = true -> py_kind (map_type t) = Some (connector_kind t).
Proof. exact pykind_partial_l. Qed.
Print Assumptions pykind_partial.

Theorem fixed0_pytype_refuted : exists t, py_kind (map_type t) <> Some (connector_kind t).
Proof. exact fixed0_pytype_refuted_l. Qed.
Print Assumptions fixed0_pytype_refuted.

Example store_holds_somewhere :
  sf_dom (TNumber 38 37) (VNum (10 ^ 38 - 1) 37) = true /\ duck_dom (map_type (TNumber 38 37)) (VNum (10 ^ 38 - 1) 37) = true /\
  sf_dom TIntFamily (VNum (2 ^ 63 - 1) 0) = true /\ vdom TIntFamily (VNum (2 ^ 63 - 1) 0) = true /\
  sf_dom TTsNtz (VTs (-62135596800000000)) = true /\ duck_dom (map_type TTsNtz) (VTs (-62135596800000000)) = true.
Proof. exact store_nonvacuous. Qed.
Print Assumptions store_holds_somewhere.

(* "every written row is returned exactly once, and no other row or table changes": over the DML model of C04
   (Dml.v), for ALL databases, targets, column lists and row lists - INSERT appends exactly the written rows after
   the existing ones, INSERT ... SELECT exactly the selected source rows, and every other table is unchanged *)


Theorem written_rows_once : forall d t c rows,
  let d' := fst (engine d (InsertValues t c rows)) in
  tget d' t = tget d t ++ map (place c) rows /\ length (tget d' t) = (length (tget d t) + length rows)%nat.
Proof. exact written_rows_once_l. Qed.
Print Assumptions written_rows_once.

Theorem copied_rows_once : forall d t c src p,
  let d' := fst (engine d (InsertSelect t c src p)) in
  tget d' t = tget d t ++ map (place c) (filter (holds p) (tget d src)).
Proof. exact copied_rows_once_l. Qed.
Print Assumptions copied_rows_once.

Theorem other_tables_unchanged : forall d s t', norm (target s) <> norm t' -> tget (fst (engine d s)) t' = tget d t'.
Proof. exact bystanders_unchanged_l. Qed.
Print Assumptions other_tables_unchanged.
