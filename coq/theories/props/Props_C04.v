(* C04 - DML changes exactly the right rows and reports the true affected count. *)
From FS Require Import Sexp Dml DmlProofs.

Theorem count_reported : forall d s, (forall t, s <> Truncate t) ->
  let n := snd (engine d s) in
  rowcount (snd (fake d s)) = n /\
  (stat (snd (fake d s)) = SInserted n \/ stat (snd (fake d s)) = SUpdated n \/ stat (snd (fake d s)) = SDeleted n) /\
  fst (fake d s) = fst (engine d s).
Proof. exact count_reported_l. Qed.
Print Assumptions count_reported.

Theorem bystanders_unchanged : forall d s t', norm (target s) <> norm t' ->
  tget (fst (engine d s)) t' = tget d t'.
Proof. exact bystanders_unchanged_l. Qed.
Print Assumptions bystanders_unchanged.

Theorem delete_exact : forall d t p,
  let d' := fst (engine d (Delete t p)) in let n := snd (engine d (Delete t p)) in
  tget d' t = filter (fun r => negb (holds p r)) (tget d t) /\
  length (tget d t) = (n + length (tget d' t))%nat /\
  filter (holds p) (tget d' t) = [] /\
  (forall r, In r (tget d t) -> holds p r = false -> In r (tget d' t)).
Proof. exact delete_exact_l. Qed.
Print Assumptions delete_exact.

Theorem update_exact : forall d t sb e p,
  let d' := fst (engine d (Update t sb e p)) in let n := snd (engine d (Update t sb e p)) in
  tget d' t = map (fun r => if holds p r then upd sb e r else r) (tget d t) /\
  length (tget d' t) = length (tget d t) /\
  n = length (filter (holds p) (tget d t)) /\
  (forall r, In r (tget d t) -> holds p r = false -> In r (tget d' t)).
Proof. exact update_exact_l. Qed.
Print Assumptions update_exact.

Theorem insert_exact : forall d t c rows,
  let d' := fst (engine d (InsertValues t c rows)) in let n := snd (engine d (InsertValues t c rows)) in
  tget d' t = tget d t ++ map (place c) rows /\ n = length rows /\
  length (tget d' t) = (length (tget d t) + n)%nat.
Proof. exact insert_exact_l. Qed.
Print Assumptions insert_exact.

Theorem insert_select_exact : forall d t c src p,
  let d' := fst (engine d (InsertSelect t c src p)) in let n := snd (engine d (InsertSelect t c src p)) in
  tget d' t = tget d t ++ map (place c) (filter (holds p) (tget d src)) /\
  n = length (filter (holds p) (tget d src)) /\
  length (tget d' t) = (length (tget d t) + n)%nat.
Proof. exact insert_select_exact_l. Qed.
Print Assumptions insert_select_exact.

Theorem truncate_exact : forall d t, tget (fst (engine d (Truncate t))) t = [].
Proof. exact truncate_exact_l. Qed.
Print Assumptions truncate_exact.

Theorem unknown_not_selected : forall p r,
  (eval p r = None -> holds p r = false /\ holds (Not p) r = false) /\
  (holds p r = true -> holds (Not p) r = false) /\
  (holds (Not p) r = true <-> eval p r = Some false).
Proof. exact unknown_not_selected_l. Qed.
Print Assumptions unknown_not_selected.

Theorem ddl_status_names_object : forall k i q,
  exists pre post, ddl_status k i q = pre ++ reported_name i q ++ post.
Proof. exact ddl_status_names_object_l. Qed.
Print Assumptions ddl_status_names_object.

Example dml_holds_somewhere :
  let d := ([(Some 1, Some 2); (None, Some 3); (Some 2, None)], [], []) in
  fake d (Update 0 true (Plus true 1) (Not (Eq (Col false) (Const (Some 1))))) =
    (([(Some 1, Some 2); (None, Some 3); (Some 2, None)], [], []), {| stat := SUpdated 1; rowcount := 1 |}) /\
  fake d (Delete 0 (Eq (Col false) (Const None))) = (d, {| stat := SDeleted 0; rowcount := 0 |}) /\
  snd (fake d (Delete 0 (Or (IsNull (Col true)) (Lt (Col false) (Const (Some 2)))))) = {| stat := SDeleted 2; rowcount := 2 |}.
Proof. exact dml_nonvacuous. Qed.
Print Assumptions dml_holds_somewhere.
