(* C17 - the HTTP server answers exactly like the in-process fake. *)
From FS Require Import Sexp Wire WireProofs.

(* for EVERY timestamp (any microsecond fraction, negative epochs included): the (epoch, fraction)
   struct the server sends is exact and in range *)
Theorem epoch_fraction_exact : forall t,
  epoch t * 1000000000 + fraction t = 1000 * t /\ 0 <= fraction t < 1000000000.
Proof. exact epoch_fraction_exact_l. Qed.
Print Assumptions epoch_fraction_exact.

Theorem fraction_fits_int32 : forall t, 0 <= fraction t < 2147483648.
Proof. exact fraction_fits_int32_l. Qed.
Print Assumptions fraction_fits_int32.

(* what the connector decodes is what the engine returned - NULL included *)
Theorem wire_roundtrip_timestamp : forall v, decode_ts_opt (encode_ts v) = v.
Proof. exact ts_roundtrip_opt_l. Qed.
Print Assumptions wire_roundtrip_timestamp.

Theorem wire_roundtrip_time : forall us, decode_time (encode_time us) = us.
Proof. exact time_roundtrip_l. Qed.
Print Assumptions wire_roundtrip_time.

Theorem token_extract : forall prefix tok, length prefix = 17%nat -> extract (prefix ++ tok ++ [34]) = tok.
Proof. exact token_extract_l. Qed.
Print Assumptions token_extract.

Theorem unknown_token_refused : forall s a, lookup (sessions s) (extract a) = None -> a <> [] ->
  to_conn s (Some a) = Refused 401 390104.
Proof. exact unknown_token_refused_l. Qed.
Print Assumptions unknown_token_refused.

Theorem missing_token_refused : forall s, to_conn s None = Refused 401 390103 /\ to_conn s (Some []) = Refused 401 390103.
Proof. exact missing_token_refused_l. Qed.
Print Assumptions missing_token_refused.

(* logins share data unless they asked for an isolated or path-backed instance *)
Theorem isolated_login_is_alone : forall s k tok, fresh_inv s -> k <> Shared ->
  forall x, In x (sessions s) -> instance x <> next_instance s /\
  lookup (sessions (login s k tok)) tok = Some {| token := tok; instance := next_instance s |}.
Proof. exact isolated_login_is_alone_l. Qed.
Print Assumptions isolated_login_is_alone.

Theorem fresh_invariant : fresh_inv srv0 /\ forall s k tok, fresh_inv s -> fresh_inv (login s k tok).
Proof. split; [exact fresh_inv0|exact login_inv]. Qed.
Print Assumptions fresh_invariant.

Example wire_holds_somewhere :
  encode_ts (Some (-1)) = Some (-1, 999999000) /\ decode_ts (-1) 999999000 = -1 /\
  encode_ts (Some 1577836800000009) = Some (1577836800, 9000) /\ encode_ts None = None /\
  extract (lit "Snowflake Token=""abc""") = lit "abc".
Proof. exact wire_nonvacuous. Qed.
Print Assumptions wire_holds_somewhere.
