(* C08 - bound parameters arrive as data, whatever they contain. *)
From FS Require Import Sexp Codec CodecProofs.

(* FOR ALL strings s (any code points: quotes, backslashes, newlines, %, $, ?, ;, comment markers ...) and
   all following text: the connector's quoted+escaped form of s is read by the Snowflake tokenizer as ONE
   string token with content s, and the text after it is left exactly as it was - a parameter can never
   end its literal early or swallow what follows *)
Theorem structure_preserved : forall s rest, starts_q rest = false ->
  sf_lex (quote (escape s) ++ rest) = Some (s, rest).
Proof. exact sf_lex_quote_escape_l. Qed.
Print Assumptions structure_preserved.

Theorem duck_literal_roundtrip : forall s rest, starts_q rest = false -> duck_lex (duck_gen s ++ rest) = Some (s, rest).
Proof. exact duck_lex_gen_l. Qed.
Print Assumptions duck_literal_roundtrip.

Theorem literal_roundtrip : forall s,
  exists lit_, sf_lex (quote (escape s)) = Some (lit_, []) /\ duck_lex (duck_gen lit_) = Some (s, []).
Proof. exact literal_roundtrip_l. Qed.
Print Assumptions literal_roundtrip.

(* python's % puts the quoted values at the placeholders verbatim, in order, and never re-scans them *)
Theorem pyfmt_positional : forall segs vals, forallb seg_ok segs = true -> holes segs = length vals ->
  pyfmt (render segs) vals = Some (fill segs vals).
Proof. exact pyfmt_positional_l. Qed.
Print Assumptions pyfmt_positional.

Example codec_holds_somewhere :
  let s := [97; q; bs; 10; 37; 115; 36; 120; 59; 45; 45] in
  bind (lit "select %s, '100%%' from t where c = %s") [s; lit "it's"] =
    Some (lit "select " ++ quote (escape s) ++ lit ", '100%' from t where c = " ++ quote (escape (lit "it's"))) /\
  sf_lex (quote (escape s) ++ lit ", '100%'") = Some (s, lit ", '100%'") /\
  duck_lex (duck_gen s) = Some (s, []) /\ sf_lex (sf_gen s) = Some (s, []).
Proof. exact codec_nonvacuous. Qed.
Print Assumptions codec_holds_somewhere.
