(* C12 - MERGE leaves the target as Snowflake's MERGE would, with true counts.
   fake_target / fake_counts : the code (transforms_merge.py: merge_candidates with the index of the first applicable
   clause, then one DELETE / UPDATE / INSERT per clause re-joined against it, run one after another; COUNT_IF counts);
   spec_target / spec_counts : Snowflake's row-wise semantics. Full statement: forall deterministic merges they agree.
   It is FALSE of the code (dupkey_refuted, key_assign_refuted, insert_first_refuted, counts_null_refuted,
   not_atomic_refuted below - all known findings); it is proved on `dom`. *)
From FS Require Import Sexp Merge MergeProofs.

(* for ALL targets, sources (any sizes, NULL keys, duplicate keys), ON column pairs, clause lists and conditions inside dom
   = deterministic && op_consistent && no_key_assign && inserts_last *)
Theorem merge_correct_partial : forall m tgt src, dom m tgt src = true -> fake_target m tgt src = spec_target m tgt src.
Proof. exact merge_correct_partial_l. Qed.
Print Assumptions merge_correct_partial.

(* op_consistent is guaranteed when WHEN MATCHED conditions mention only source columns ... *)
Theorem src_only_consistent : forall m tgt src, conds_src_only m = true -> op_consistent m tgt src = true.
Proof. exact src_only_consistent_l. Qed.
Print Assumptions src_only_consistent.

(* ... or when no two target rows share a source partner *)
Theorem uniq_keys_consistent : forall m tgt src, uniq_keys m tgt src = true -> op_consistent m tgt src = true.
Proof. exact uniq_keys_consistent_l. Qed.
Print Assumptions uniq_keys_consistent.

(* for EVERY deterministic merge with at least one candidate row the status row holds Snowflake's counts *)
Theorem counts_correct_partial : forall m tgt src, deterministic m tgt src = true -> cands m tgt src <> [] ->
  fake_counts m tgt src = spec_counts m tgt src.
Proof. exact counts_correct_partial_l. Qed.
Print Assumptions counts_correct_partial.

Theorem counts_null_refuted : exists m tgt src, dom m tgt src = true /\ fake_counts m tgt src <> spec_counts m tgt src.
Proof. exact counts_null_refuted_l. Qed.
Print Assumptions counts_null_refuted.

Theorem dupkey_refuted : exists m tgt src, deterministic m tgt src = true /\ no_key_assign m = true /\ inserts_last (clauses m) = true /\
  fake_target m tgt src <> spec_target m tgt src.
Proof. exact dupkey_refuted_l. Qed.
Print Assumptions dupkey_refuted.

Theorem key_assign_refuted : exists m tgt src, deterministic m tgt src = true /\ op_consistent m tgt src = true /\ inserts_last (clauses m) = true /\
  fake_target m tgt src <> spec_target m tgt src.
Proof. exact key_assign_refuted_l. Qed.
Print Assumptions key_assign_refuted.

Theorem insert_first_refuted : exists m tgt src, deterministic m tgt src = true /\ op_consistent m tgt src = true /\ no_key_assign m = true /\
  fake_target m tgt src <> spec_target m tgt src.
Proof. exact insert_first_refuted_l. Qed.
Print Assumptions insert_first_refuted.

(* "applies all of its effects or none" is false: the exploded statements run one after another *)
Theorem not_atomic_refuted : exists m tgt src k, dom m tgt src = true /\
  fake_prefix m tgt src k <> tgt /\ fake_prefix m tgt src k <> fake_target m tgt src.
Proof. exact not_atomic_refuted_l. Qed.
Print Assumptions not_atomic_refuted.

Example merge_holds_somewhere : dom ex_m ex_tgt ex_src = true /\
  fake_target ex_m ex_tgt ex_src =
    [r3 1 10 100; r3 3 31 7; [None; Some 1; Some 1]; [Some 4; Some 41; None]; [Some 5; None; Some 5]; [None; None; Some 2]].
Proof. exact merge_nonvacuous_l. Qed.
Print Assumptions merge_holds_somewhere.
