(* C20 - patch() and the CLI switch the fake on and off cleanly.
   Property theorems only; proofs live in proofs/CliProofs.v and proofs/PatchProofs.v. *)
From FS Require Import Sexp Cli Patch CliProofs PatchProofs.

(* split() never loses, duplicates or reorders an argument *)
Theorem split_partition : forall a, fst (split a) ++ snd (split a) = a.
Proof. exact split_partition_l. Qed.
Print Assumptions split_partition.

(* for every list of fakesnow's own options (spaced, = and glued forms), every target form and
   ARBITRARY target arguments, the target is run with exactly its own arguments, in order *)
Theorem passthrough : forall opts tgt targs,
  forallb opt_ok opts = true -> tgt_ok tgt = true ->
  main (concat (map render_opt opts) ++ render_tgt tgt ++ targs) =
  ORun (tgt_is_module tgt) (tgt_name tgt) (tgt_name tgt :: targs) (last_db opts None).
Proof. exact passthrough_l. Qed.
Print Assumptions passthrough.

Example passthrough_holds_somewhere :
  let opts := [DEq true (lit "x"); DSp false (lit "dir"); DGl (lit "y")] in
  let tgt := TgMGl (lit "pytest") in
  forallb opt_ok opts = true /\ tgt_ok tgt = true /\
  main (concat (map render_opt opts) ++ render_tgt tgt ++ [lit "-m"; lit "integration"; lit "--db_path=z"])
  = ORun true (lit "pytest") [lit "pytest"; lit "-m"; lit "integration"; lit "--db_path=z"] (Some (lit "y")).
Proof. exact passthrough_nonvacuous. Qed.
Print Assumptions passthrough_holds_somewhere.

(* whatever the targets and however the block is left (normally, body raises, an import or an
   assert fails during set-up): every location holds what it held before - or, for a module that
   patch() had to import, the ORIGINAL function - and the standard targets are the originals *)
Theorem patch_restores : forall w extras body_raises, wf w ->
  imported w (after (patch extras body_raises w)) /\ wf (after (patch extras body_raises w)).
Proof. exact patch_restores_l. Qed.
Print Assumptions patch_restores.

(* inside the block every standard and extra target is a fake *)
Theorem patch_inside : forall w extras br wi,
  inside (patch extras br w) = Some wi ->
  forall t, In t (0%nat :: 1%nat :: extras) -> get wi t = VMock.
Proof. exact patch_inside_l. Qed.
Print Assumptions patch_inside.

Theorem nested_refused_without_damage : forall w extras br, get w 0%nat = VMock ->
  let r := patch extras br w in res r = RRefused /\ after r = w /\ inside r = None.
Proof. exact nested_refused_l. Qed.
Print Assumptions nested_refused_without_damage.

Theorem instance_closed_on_every_exit : forall w extras br,
  res (patch extras br w) <> RRefused -> closed (patch extras br w) = true.
Proof. exact closed_unless_refused_l. Qed.
Print Assumptions instance_closed_on_every_exit.

Theorem reentry_ok : forall w e1 b1 e2 b2, wf w ->
  imported (after (patch e1 b1 w)) (after (patch e2 b2 (after (patch e1 b1 w)))).
Proof. exact reentry_l. Qed.
Print Assumptions reentry_ok.

Example patch_holds_somewhere :
  let w := [VOrig true; VOrig false; VOrig true; VUnloaded true; VOther] in
  wf w /\
  after (patch [2%nat; 3%nat; 2%nat] true w) = [VOrig true; VOrig false; VOrig true; VOrig true; VOther] /\
  res (patch [2%nat; 3%nat; 2%nat] true w) = RBodyRaised /\
  res (patch [3%nat; 4%nat] false w) = RAssert /\
  after (patch [3%nat; 4%nat] false w) = [VOrig true; VOrig false; VOrig true; VOrig true; VOther].
Proof. exact patch_nonvacuous. Qed.
Print Assumptions patch_holds_somewhere.
