(* C16 - execute_string equals one-by-one execution; nop_regexes only no-op matches. *)
From FS Require Import Sexp Codec CodecProofs Split SplitProofs.

(* cutting the text `s1; s2; ... sn;` gives back exactly s1 ... sn, for ALL statements made of plain
   text and string literals with ARBITRARY content (semicolons, quotes, backslashes, comment markers,
   newlines, $$ inside the literal never cut or end it) *)
Theorem split_join : forall stmts, forallb (forallb chunk_ok) stmts = true ->
  split (join stmts) = Some (map render stmts ++ [[]]).
Proof. exact split_join_l. Qed.
Print Assumptions split_join.

(* the literal that execute_string re-renders reads back as the same string *)
Theorem rerender_literal : forall s rest, starts_q rest = false -> sf_lex (sf_gen s ++ rest) = Some (s, rest).
Proof. exact sf_lex_gen_l. Qed.
Print Assumptions rerender_literal.

(* for ANY executor, pattern matcher, pattern set, world and statement *)
Theorem nop_exact : forall world stmt result pat (exec : world -> stmt -> world * option result)
  (matches : pat -> stmt -> bool) (success : result) pats w s,
  (exists p, In p pats /\ matches p s = true) ->
  exec_nop world stmt result pat exec matches success pats w s = (w, Some success).
Proof. exact nop_exact_l. Qed.
Print Assumptions nop_exact.

Theorem nop_transparent : forall world stmt result pat (exec : world -> stmt -> world * option result)
  (matches : pat -> stmt -> bool) (success : result) pats w s,
  (forall p, In p pats -> matches p s = false) ->
  exec_nop world stmt result pat exec matches success pats w s = exec w s.
Proof. exact nop_transparent_l. Qed.
Print Assumptions nop_transparent.

Theorem exec_string_is_fold : forall world stmt result pat (exec : world -> stmt -> world * option result)
  (matches : pat -> stmt -> bool) (success : result) pats ss w,
  fst (execute_string world stmt result pat exec matches success pats w ss) =
  one_by_one world stmt result pat exec matches success pats w ss.
Proof. exact exec_string_is_fold_l. Qed.
Print Assumptions exec_string_is_fold.

Theorem stops_at_first_failure : forall world stmt result pat (exec : world -> stmt -> world * option result)
  (matches : pat -> stmt -> bool) (success : result) pats pre s post w,
  snd (execute_string world stmt result pat exec matches success pats w pre) = true ->
  snd (exec_nop world stmt result pat exec matches success pats
         (fst (fst (execute_string world stmt result pat exec matches success pats w pre))) s) = None ->
  execute_string world stmt result pat exec matches success pats w (pre ++ s :: post) =
    (fst (exec_nop world stmt result pat exec matches success pats
            (fst (fst (execute_string world stmt result pat exec matches success pats w pre))) s),
     snd (fst (execute_string world stmt result pat exec matches success pats w pre)), false).
Proof. exact stops_at_first_failure_l. Qed.
Print Assumptions stops_at_first_failure.

Example split_holds_somewhere :
  split (lit "select 'a;b\';c' ; select 2 -- x;y" ++ [10] ++ lit "; select $$q;r$$; /* ; */ select ""i;j""") =
  Some [lit "select 'a;b\';c' "; lit " select 2 -- x;y" ++ [10]; lit " select $$q;r$$"; lit " /* ; */ select ""i;j"""].
Proof. exact split_nonvacuous. Qed.
Print Assumptions split_holds_somewhere.
