(* C02 - unquoted identifiers fold to upper case; quoted ones are kept verbatim; the complete outcome of a
   statement does not depend on the letter case of its keywords and unquoted identifiers. *)
From FS Require Import Sexp Ident IdentProofs.
From FS Require Ctx Dml.

(* for ALL strings and ALL re-spellings (any subset of positions flipped) *)
Theorem upper_recase : forall mask s, upper (recase mask s) = upper s.
Proof. exact upper_recase_l. Qed.
Print Assumptions upper_recase.

Theorem norm_respell : forall m i, norm (respell m i) = norm i.
Proof. exact norm_respell_l. Qed.
Print Assumptions norm_respell.

Theorem quoted_verbatim : forall t, norm {| itext := t; iquoted := true |} = t.
Proof. exact quoted_verbatim_l. Qed.
Print Assumptions quoted_verbatim.

Theorem unquoted_reported_upper : forall t, let n := norm {| itext := t; iquoted := false |} in
  upper n = n /\ forallb (fun c => negb (is_ascii_lower c)) n = true.
Proof. exact unquoted_reported_upper_l. Qed.
Print Assumptions unquoted_reported_upper.

(* the state machine of C03 (catalog + per-connection contexts, guards 90105/90106, USE, CREATE/DROP, name resolution)
   behind upper_case_unquoted_identifiers: same new world and same result for every re-spelling of every statement ... *)
Theorem step_respell : forall w c o m, sstep w c (respell_op m o) = sstep w c o.
Proof. exact step_respell_l. Qed.
Print Assumptions step_respell.

(* ... and of every multi-connection history, each statement re-spelled independently: all results, all reported
   contexts and all catalogs along the way are equal *)
Theorem run_respell : forall h ms w, srun w (respell_hist ms h) = srun w h.
Proof. exact run_respell_l. Qed.
Print Assumptions run_respell.

(* identifier equality as MERGE uses it (checks.py:73) *)
Theorem ident_eq_respell : forall m m' a b, ident_eq (respell m a) (respell m' b) = ident_eq a b.
Proof. exact ident_eq_respell_l. Qed.
Print Assumptions ident_eq_respell.

(* every keyword test written  x.upper() == "KW"  is spelling-independent; one written  x == "KW"  is not *)
Theorem kw_is_recase : forall kw m s, kw_is kw (recase m s) = kw_is kw s.
Proof. exact kw_is_recase_l. Qed.
Print Assumptions kw_is_recase.

Theorem kw_exact_refuted : exists kw m s, kw_is_exact kw (recase m s) <> kw_is_exact kw s.
Proof. exact kw_exact_refuted_l. Qed.
Print Assumptions kw_exact_refuted.

(* status messages name the object in its reported form *)
Theorem ddl_status_respell : forall k m s, Dml.ddl_status k (recase m s) false = Dml.ddl_status k s false.
Proof. exact ddl_status_respell_l. Qed.
Print Assumptions ddl_status_respell.

Example respell_holds_somewhere :
  respell [true; false; true; true] (ex_id "myTab_1" false) = ex_id "MytAb_1" false /\
  norm (ex_id "myTab_1" false) = lit "MYTAB_1" /\ norm (ex_id "myTab_1" true) = lit "myTab_1" /\
  respell [true; true] (ex_id "myTab_1" true) = ex_id "myTab_1" true /\
  ident_eq (ex_id "t2" false) (ex_id "T2" true) = true /\ ident_eq (ex_id "t2" true) (ex_id "T2" false) = false.
Proof. exact respell_nonvacuous_l. Qed.
Print Assumptions respell_holds_somewhere.
