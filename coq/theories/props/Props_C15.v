(* C15 - session variables substitute exactly, per connection. *)
From FS Require Import Sexp Vars VarsProofs.

(* inline_variables cuts the statement into pieces (_split_protected, fix 83dbaa3): complete string literals,
   quoted identifiers, $$strings$$ and comments are handed on untouched, every other piece goes through inline_text.
   Theorems about inline_text speak about one piece of SQL text proper; plain_is_text lifts them to whole statements without
   literals/comments, literal_protected says what happens around a literal. *)

(* The one-pass regex substitution of variables.py (after fix 7b219e4) IS the specification "every $word stands for the value of
   the variable of that name (any letter case)", for every text built from '$'-free literal segments and references and for EVERY set
   of variables - names that are prefixes of each other, values containing '$' signs or things that look like references (a value is
   inserted as it is and never scanned again). *)
Theorem inline_is_expand : forall vs segs,
  wf segs = true -> forallb (defined vs) segs = true ->
  inline_text vs (render segs) = inl (render (expand vs segs)).
Proof. exact inline_is_expand_l. Qed.
Print Assumptions inline_is_expand.

(* the first undefined reference raises "Session variable '$NAME' does not exist" (upper-cased) *)
Theorem undefined_raises_first : forall vs pre w post,
  wf (pre ++ Ref w :: post) = true ->
  forallb (defined vs) pre = true -> lookup vs w = None ->
  inline_text vs (render (pre ++ Ref w :: post)) = inr (upper (dollar :: w)).
Proof. exact undefined_raises_l. Qed.
Print Assumptions undefined_raises_first.

Theorem non_reference_text_untouched : forall vs s, dollar_free s = true ->
  inline_text vs s = inl s.
Proof. exact non_reference_text_untouched_l. Qed.
Print Assumptions non_reference_text_untouched.

(* nothing is lost or invented by the cutting *)
Theorem split_concat : forall s, concat (map snd (split_protected s)) = s.
Proof. exact split_concat_l. Qed.
Print Assumptions split_concat.

Theorem plain_is_text : forall vs s, plainb s = true -> inline_variables vs s = inline_text vs s.
Proof. exact plain_is_text_l. Qed.
Print Assumptions plain_is_text.

(* a string literal is handed on character for character, whatever variable references stand before and after it; a '$name'
   inside it is neither substituted nor reported as undefined *)
Theorem literal_protected : forall vs pre body post, plainb pre = true ->
  forallb (fun c => negb (c =? c_sq) && negb (c =? c_bs)) body = true ->
  (match post with d :: _ => d <> c_sq | [] => True end) ->
  inline_variables vs (pre ++ sq_literal body ++ post) =
  match inline_text vs pre with
  | inr e => inr e
  | inl p' => match inline_variables vs post with inl o => inl (p' ++ sq_literal body ++ o) | inr e => inr e end
  end.
Proof. exact literal_protected_l. Qed.
Print Assumptions literal_protected.

Example cost_literal_untouched : forall vs, inline_variables vs (lit "select 'cost $5'") = inl (lit "select 'cost $5'").
Proof. exact cost_literal_untouched_l. Qed.
Print Assumptions cost_literal_untouched.

(* SET/UNSET/use on one connection never changes the variables of another *)
Theorem per_connection : forall st o c', conn_of o <> c' -> sget (fst (vstep st o)) c' = sget st c'.
Proof. exact per_connection_l. Qed.
Print Assumptions per_connection.

Theorem unset_removes : forall vs n, NoDup (map fst vs) -> ~ In n (map fst (vunset vs n)).
Proof. exact vunset_not_in. Qed.
Print Assumptions unset_removes.

Theorem set_defines : forall vs n v, In (n, v) (vset vs n v).
Proof. exact vset_lookup. Qed.
Print Assumptions set_defines.

(* the store read as a map: a reference in any letter case yields the value last SET for that name, provided no stored name differs
   from it in letter case only (names arrive upper-cased; harness/c15.py checks on every run that no store holds two names equal
   ignoring case), and SET of one name leaves every other name's value alone *)
Theorem set_then_reference : forall vs n v w, only_spelling vs n = true -> ci_eqs n w = true -> lookup (vset vs n v) w = Some v.
Proof. exact lookup_vset_same_gen. Qed.
Print Assumptions set_then_reference.

Theorem set_then_reference_canonical : forall vs n v w,
  forallb canon (map fst vs) = true -> canon n = true -> ci_eqs n w = true -> lookup (vset vs n v) w = Some v.
Proof. exact lookup_vset_same. Qed.
Print Assumptions set_then_reference_canonical.

Theorem set_keeps_one_spelling : forall vs n v m,
  only_spelling vs m = true -> implb (ci_eqs n m) (str_eqb n m) = true -> only_spelling (vset vs n v) m = true.
Proof. exact vset_only_spelling. Qed.
Print Assumptions set_keeps_one_spelling.

Theorem set_frames_others : forall vs n v w, ci_eqs n w = false -> lookup (vset vs n v) w = lookup vs w.
Proof. exact lookup_vset_other. Qed.
Print Assumptions set_frames_others.

Example set_reference_holds_somewhere :
  let vs := [(lit "A", lit "1"); (lit "B_2", lit "x")] in
  forallb canon (map fst vs) = true /\ canon (lit "B_2") = true /\ ci_eqs (lit "B_2") (lit "b_2") = true /\
  lookup (vset vs (lit "B_2") (lit "y")) (lit "b_2") = Some (lit "y") /\ lookup (vset vs (lit "B_2") (lit "y")) (lit "a") = Some (lit "1").
Proof. exact set_lookup_nonvacuous. Qed.
Print Assumptions set_reference_holds_somewhere.

Example value_with_dollars :
  inline_text [(lit "P", lit "'$HOME/x $p'"); (lit "HOME", lit "7")] (lit "select $p, $home") = inl (lit "select '$HOME/x $p', 7").
Proof. exact value_with_dollars_l. Qed.
Print Assumptions value_with_dollars.

Example inline_holds_somewhere :
  let vs := [(lit "VAR1", lit "5"); (lit "VAR10", lit "'x y'"); (lit "A_B", lit "1 + 2")] in
  let segs := [Lit (lit "select "); Ref (lit "var10"); Lit (lit ", "); Ref (lit "Var1"); Lit (lit "+"); Ref (lit "a_b")] in
  wf segs = true /\ forallb (defined vs) segs = true /\
  inline_text vs (render segs) = inl (lit "select 'x y', 5+1 + 2").
Proof. exact inline_nonvacuous. Qed.
Print Assumptions inline_holds_somewhere.
