(* C19 - concurrent sessions behave as if their statements ran one at a time.
   Model: every fake operation is an automaton issuing atomic engine calls; sessions are interleaved by an
   ARBITRARY schedule at call boundaries (run_sched), with or without the connect lock of instance.py. *)
From FS Require Import Sexp Steps StepsProofs StepsMerge.

(* For EVERY number n of sessions connecting to the same database and schema (auto-created), EVERY schedule,
   with or without the lock: at every reachable point every session is `good` (no call has failed or can fail: each
   program point's precondition on the engine holds), and once all have finished every connect has returned success
   and the database is attached, bootstrapped and has the schema - the outcome of any serial order. *)
Theorem connects_all_succeed : forall d s lk n sch,
  let '(e, ss) := run_sched lk sch (e0, map mk_sess (repeat [Connect d s] n)) in
  Forall (good d s e) ss /\
  (all_done ss = true -> n <> 0%nat -> has_db e d = true /\ booted e d = true /\ has_sch e d s = true /\ Forall (fun x => done x = [AOk]) ss).
Proof. exact connects_all_succeed_l. Qed.
Print Assumptions connects_all_succeed.

(* "no statement hangs": without the lock, EVERY schedule that gives each of the n sessions at least 8 turns finishes every
   connect (each own turn moves a connect strictly closer to its end, whatever the others do in between) *)
Theorem connects_terminate : forall d s n sch, (forall i, (i < n)%nat -> (8 <= occ i sch)%nat) ->
  all_done (snd (run_sched false sch (e0, map mk_sess (repeat [Connect d s] n)))) = true.
Proof. exact connects_terminate_l. Qed.
Print Assumptions connects_terminate.

(* For EVERY number of sessions inserting any values into one existing table under EVERY schedule: every insert
   succeeds and the table ends with its old rows plus exactly the inserted values *)
Theorem inserts_not_lost : forall k lk sch e rows (scripts : list (list Z)),
  klook (tbls e) k = Some rows ->
  let '(e', ss) := run_sched lk sch (e, map (fun vs => mk_sess (map (Insert k) vs)) scripts) in
  Forall (fun x => Forall (fun a => a = AOk) (done x)) ss /\
  (all_done ss = true -> exists rows', klook (tbls e') k = Some rows' /\ Permutation.Permutation rows' (rows ++ concat scripts)).
Proof. exact inserts_not_lost_l. Qed.
Print Assumptions inserts_not_lost.

(* progress (kernel computation on instances): round-robin completion finishes every session, same final engine *)
Example connects_complete :
  all_done (snd (run_all true [0; 1; 0; 1; 1; 0]%nat [[Connect DB SC]; [Connect DB SC]])) = true /\
  all_done (snd (run_all false [0; 1; 2; 2; 1; 0; 0; 1]%nat [[Connect DB SC]; [Connect DB SC]; [Connect DB SC]])) = true /\
  fst (run_all false [0; 1; 2; 2; 1; 0; 0; 1]%nat [[Connect DB SC]; [Connect DB SC]; [Connect DB SC]]) = fst (run_all false [] [[Connect DB SC]]).
Proof. exact connects_complete_example. Qed.
Print Assumptions connects_complete.

(* "a statement carried out in several internal steps is never observed half-done" is FALSE:
   an observer scheduled between the two calls of CREATE TABLE ... COMMENT sees the table without its comment,
   which neither serial order shows *)
Theorem torn_create_table_refuted :
  exists sch, existsb is_torn (done (nth 2 (snd (run_all true sch [setup; [CreateTable TK (Some (lit "c"))]; [Meta TK]])) (mk_sess []))) = true /\
  forall serial, In serial [[0; 0; 0; 0; 0; 0; 0; 0; 1; 1; 2]; [0; 0; 0; 0; 0; 0; 0; 0; 2; 1; 1]]%nat ->
    existsb is_torn (done (nth 2 (snd (run_all true serial [setup; [CreateTable TK (Some (lit "c"))]; [Meta TK]])) (mk_sess []))) = false.
Proof. exact torn_create_table_refuted_l. Qed.
Print Assumptions torn_create_table_refuted.

Theorem torn_create_database_refuted :
  exists sch, existsb is_err (done (nth 2 (snd (run_all true sch [setup; [CreateDb (lit "DBX")]; [CreateTable TX (Some (lit "c"))]])) (mk_sess []))) = true /\
              klook (tbls (fst (run_all true sch [setup; [CreateDb (lit "DBX")]; [CreateTable TX (Some (lit "c"))]]))) TX = Some [] /\
  existsb is_err (done (nth 2 (snd (run_all true [0; 0; 0; 0; 0; 0; 0; 0; 1; 1; 2; 2]%nat [setup; [CreateDb (lit "DBX")]; [CreateTable TX (Some (lit "c"))]])) (mk_sess []))) = false.
Proof. exact torn_create_database_refuted_l. Qed.
Print Assumptions torn_create_database_refuted.

(* MERGE is three engine calls around a TEMPORARY staging table. For EVERY number of sessions, scripts (each MERGE run by the
   session it is written for) and schedule: whenever a session is between the calls of a MERGE, its staging table holds exactly
   the candidates its own first call computed - no interleaving makes it apply or count another session's rows *)
Theorem merge_staging_private : forall lk sch scripts, (forall j ops, nth_error scripts j = Some ops -> script_ok j ops) ->
  forall i s, nth_error (snd (run_sched lk sch (e0, map mk_sess scripts))) i = Some s ->
  forall sid k src rest, todo s = Merge sid k src :: rest -> (pc s = 1 \/ pc s = 2)%nat ->
  exists cs, last s = ARows cs /\ tlook (temps (fst (run_sched lk sch (e0, map mk_sess scripts)))) i = Some cs.
Proof. exact merge_staging_private_l. Qed.
Print Assumptions merge_staging_private.

(* the hypothesis matters: with ONE staging table for both sessions (both MERGEs tagged 1) an interleaving at call granularity
   puts session 2's row into session 1's target; with private tables the same schedule gives the serial result *)
Example merge_shared_refuted :
  klook (tbls (fst (run_all true merge_sched [merge_setup; [Connect DB SC; Merge 1 MT1 MS1]; [Connect DB SC; Merge 1 MT2 MS2]]))) MT1 = Some [2] /\
  klook (tbls (fst (run_all true merge_sched [merge_setup; [Connect DB SC; Merge 1 MT1 MS1]; [Connect DB SC; Merge 2 MT2 MS2]]))) MT1 = Some [1].
Proof. exact merge_shared_refuted_l. Qed.
Print Assumptions merge_shared_refuted.

(* ... and the functional result: from ANY state in which the operations the other sessions still have to run write neither the
   target k nor the source src (e.g. after a set-up session created and filled the tables), under EVERY schedule, at the moment
   session i's MERGE applies its candidates they are exactly the source rows missing from the target as it is now - the call
   leaves the target as the MERGE run alone would: target ++ (source rows not in target) *)
Theorem merge_serial_result : forall lk sch i k src st0, k <> src -> FInv i k src st0 ->
  let st := run_sched lk sch st0 in
  forall s sid rest, nth_error (snd st) i = Some s -> todo s = Merge sid k src :: rest -> pc s = 1%nat ->
  exists tr sr, klook (tbls (fst st)) k = Some tr /\ klook (tbls (fst st)) src = Some sr /\
                klook (tbls (fst (exec (fst st) (ApplyCands i k)))) k = Some (tr ++ cands_of tr sr).
Proof. exact merge_serial_result_l. Qed.
Print Assumptions merge_serial_result.

Theorem merge_serial_result_from_start : forall lk sch scripts i k src, k <> src ->
  (forall j ops, nth_error scripts j = Some ops -> Forall (op_ok i k src j) ops) ->
  let st := run_sched lk sch (e0, map mk_sess scripts) in
  forall s sid rest, nth_error (snd st) i = Some s -> todo s = Merge sid k src :: rest -> pc s = 1%nat ->
  exists tr sr, klook (tbls (fst st)) k = Some tr /\ klook (tbls (fst st)) src = Some sr /\
                klook (tbls (fst (exec (fst st) (ApplyCands i k)))) k = Some (tr ++ cands_of tr sr).
Proof. exact merge_serial_result_from_start_l. Qed.
Print Assumptions merge_serial_result_from_start.

(* the hypothesis is met after the set-up of the merges-private scenario, and a schedule interleaving the two MERGEs reaches the call *)
Example merge_serial_holds_somewhere :
  FInv 1 MT1 MS1 ms_state /\
  let st := run_sched true [1; 1; 1; 1; 2; 2; 2; 2; 1; 2; 2]%nat ms_state in
  (exists s rest, nth_error (snd st) 1 = Some s /\ todo s = Merge 1 MT1 MS1 :: rest /\ pc s = 1%nat) /\
  klook (tbls (fst (exec (fst st) (ApplyCands 1 MT1)))) MT1 = Some [7; 1].
Proof. split; [exact ms_state_finv|exact merge_serial_nonvacuous_l]. Qed.
Print Assumptions merge_serial_holds_somewhere.
