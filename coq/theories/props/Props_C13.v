(* C13 - transactions are atomic, isolated between connections, and sticky to theirs. *)
From FS Require Import Sexp Tx TxProofs.

(* For ANY prior history (world w), any connection c outside a transaction, any transaction body
   (c: DML / queries / failing statements; the other connections: arbitrary statements, interleaved in
   any way) and any continuation h2:  BEGIN ... ROLLBACK leaves no trace. *)
Theorem rollback_no_trace : forall w c mid h2,
  cget (conns w) c = NoTx -> (c < length (conns w))%nat -> tx_body c mid = true ->
  let h := (c, Begin) :: mid ++ (c, Rollback) :: h2 in
  let h' := others c mid ++ h2 in
  run_o c w ((c, Begin) :: mid) = run w (others c mid) /\
  run (final w ((c, Begin) :: mid ++ [(c, Rollback)])) h2 = run (final w (others c mid)) h2 /\
  weq (final w h) (final w h').
Proof. exact rollback_no_trace_l. Qed.
Print Assumptions rollback_no_trace.

(* BEGIN ... COMMIT: invisible to the others until the COMMIT, then visible all at once - exactly as
   if c had performed its writes at the COMMIT point, outside any transaction *)
Theorem commit_atomic_visibility : forall w c mid h2,
  cget (conns w) c = NoTx -> (c < length (conns w))%nat -> tx_body c mid = true ->
  let h := (c, Begin) :: mid ++ (c, Commit) :: h2 in
  let h' := others c mid ++ replay c (writes c mid) ++ h2 in
  run_o c w ((c, Begin) :: mid) = run w (others c mid) /\
  run (final w ((c, Begin) :: mid ++ [(c, Commit)])) h2 = run (final w (others c mid ++ replay c (writes c mid))) h2 /\
  weq (final w h) (final w h').
Proof. exact commit_atomic_l. Qed.
Print Assumptions commit_atomic_visibility.

Theorem read_own_writes : forall c mid ws w w', sim c ws w w' -> tx_body c mid = true ->
  exists l, snd (step (final w mid) (c, Select)) = ORows l /\ forall r, In r (ws ++ writes c mid) -> In r l.
Proof. exact read_own_writes_l. Qed.
Print Assumptions read_own_writes.

Theorem autocommit_and_noop_commit : forall w c r, cget (conns w) c = NoTx ->
  committed (fst (step w (c, Insert r))) = committed w ++ [r] /\
  weq (fst (step w (c, Commit))) w /\ snd (step w (c, Commit)) = OStatus /\
  weq (fst (step w (c, Rollback))) w /\ snd (step w (c, Rollback)) = OStatus.
Proof. exact autocommit_l. Qed.
Print Assumptions autocommit_and_noop_commit.

Theorem failing_stmt_keeps_tx : forall w c sn own, cget (conns w) c = Active sn own -> (c < length (conns w))%nat ->
  cget (conns (fst (step w (c, Fail)))) c = Active sn own /\ committed (fst (step w (c, Fail))) = committed w.
Proof. exact failing_stmt_keeps_tx_l. Qed.
Print Assumptions failing_stmt_keeps_tx.

Example tx_holds_somewhere :
  run (init 2) [(0, Begin); (0, Insert 1); (1, Select); (1, Insert 2); (0, Select); (0, Commit); (1, Select);
                (1, Begin); (1, Insert 3); (0, Select); (1, Rollback); (0, Select); (0, Commit)]%nat
  = [OEmpty; OInserted; ORows []; OInserted; ORows [1]; OEmpty; ORows [2; 1];
     OEmpty; OInserted; ORows [2; 1]; OEmpty; ORows [2; 1]; OStatus].
Proof. exact tx_nonvacuous. Qed.
Print Assumptions tx_holds_somewhere.
