(* Model for C04: three tables of two nullable integer columns, three-valued predicates, the DML
   statements, and fakesnow's status-row / rowcount plumbing (cursor.py:270,285-295,350-351 after fix
   4b59b25) and DDL status text (cursor.py:304-319). *)
From FS Require Import Sexp.

Definition val := option Z.
Definition row := (val * val)%type.
Definition table := list row.
Definition db := (table * table * table)%type.      (* tables 0, 1, 2 *)

Inductive term := Col (b : bool) (* false = column a, true = column b *) | Const (v : val) | Plus (b : bool) (k : Z).
Inductive pred :=
| Eq (x y : term) | Lt (x y : term) | IsNull (x : term)
| InL (x : term) (l : list val)
| And (p q : pred) | Or (p q : pred) | Not (p : pred).

Definition tval (t : term) (r : row) : val :=
  match t with
  | Col false => fst r | Col true => snd r
  | Const v => v
  | Plus b k => match (if b then snd r else fst r) with Some x => Some (x + k) | None => None end
  end.

(* SQL three-valued logic: None = UNKNOWN *)
Definition and3 (a b : option bool) : option bool :=
  match a, b with
  | Some false, _ | _, Some false => Some false
  | Some true, Some true => Some true
  | _, _ => None
  end.
Definition or3 (a b : option bool) : option bool :=
  match a, b with
  | Some true, _ | _, Some true => Some true
  | Some false, Some false => Some false
  | _, _ => None
  end.
Definition not3 (a : option bool) : option bool := option_map negb a.

Fixpoint in3 (x : Z) (l : list val) : option bool :=
  match l with
  | [] => Some false
  | Some y :: r => if x =? y then Some true else in3 x r
  | None :: r => match in3 x r with Some true => Some true | _ => None end
  end.

Fixpoint eval (p : pred) (r : row) : option bool :=
  match p with
  | Eq x y => match tval x r, tval y r with Some a, Some b => Some (a =? b) | _, _ => None end
  | Lt x y => match tval x r, tval y r with Some a, Some b => Some (a <? b) | _, _ => None end
  | IsNull x => Some (match tval x r with None => true | Some _ => false end)
  | InL x l => match tval x r with Some a => in3 a l | None => match l with [] => Some false | _ => None end end
  | And p q => and3 (eval p r) (eval q r)
  | Or p q => or3 (eval p r) (eval q r)
  | Not p => not3 (eval p r)
  end.
Definition holds (p : pred) (r : row) : bool := match eval p r with Some true => true | _ => false end.

Inductive cols := Both | OnlyA | OnlyB | Swapped.     (* column list of an INSERT *)
Definition place (c : cols) (r : row) : row :=
  match c with
  | Both => r | OnlyA => (fst r, None) | OnlyB => (None, fst r) | Swapped => (snd r, fst r)
  end.

Inductive stmt :=
| InsertValues (t : nat) (c : cols) (rows : list row)
| InsertSelect (t : nat) (c : cols) (src : nat) (p : pred)
| Update (t : nat) (setb : bool) (e : term) (p : pred)
| Delete (t : nat) (p : pred)
| Truncate (t : nat).

Definition tget (d : db) (t : nat) : table :=
  let '(t0, t1, t2) := d in match t with O => t0 | S O => t1 | _ => t2 end.
Definition tset (d : db) (t : nat) (x : table) : db :=
  let '(t0, t1, t2) := d in match t with O => (x, t1, t2) | S O => (t0, x, t2) | _ => (t0, t1, x) end.

Definition upd (setb : bool) (e : term) (r : row) : row :=
  if setb then (fst r, tval e r) else (tval e r, snd r).

(* what the engine does: new database and its affected-row count *)
Definition engine (d : db) (s : stmt) : db * nat :=
  match s with
  | InsertValues t c rows => (tset d t (tget d t ++ map (place c) rows), length rows)
  | InsertSelect t c src p =>
      let sel := filter (holds p) (tget d src) in
      (tset d t (tget d t ++ map (place c) sel), length sel)
  | Update t sb e p =>
      (tset d t (map (fun r => if holds p r then upd sb e r else r) (tget d t)),
       length (filter (holds p) (tget d t)))
  | Delete t p =>
      (tset d t (filter (fun r => negb (holds p r)) (tget d t)), length (filter (holds p) (tget d t)))
  | Truncate t => (tset d t [], length (tget d t))
  end.

(* what the fake reports *)
Inductive status := SInserted (n : nat) | SUpdated (n : nat) | SDeleted (n : nat) | SOther.
Record report := { stat : status; rowcount : nat }.

Definition fake (d : db) (s : stmt) : db * report :=
  let '(d', n) := engine d s in
  match s with
  | InsertValues _ _ _ | InsertSelect _ _ _ _ => (d', {| stat := SInserted n; rowcount := n |})
  | Update _ _ _ _ => (d', {| stat := SUpdated n; rowcount := n |})
  | Delete _ _ => (d', {| stat := SDeleted n; rowcount := n |})
  | Truncate _ => (d', {| stat := SOther; rowcount := 1%nat |})
  end.

(* DDL status messages *)
Inductive ddl := CreateTable | CreateSchema | CreateView | CreateDatabase | DropAny.
Definition reported_name (ident : str) (quoted : bool) : str := if quoted then ident else upper ident.
Definition ddl_status (k : ddl) (ident : str) (quoted : bool) : str :=
  let n := reported_name ident quoted in
  match k with
  | CreateTable => lit "Table " ++ n ++ lit " successfully created."
  | CreateSchema => lit "Schema " ++ n ++ lit " successfully created."
  | CreateView => lit "View " ++ n ++ lit " successfully created."
  | CreateDatabase => lit "Database " ++ n ++ lit " successfully created."
  | DropAny => n ++ lit " successfully dropped."
  end.

(* ---- sexp ---- *)
Definition dec_val (x : sexp) : option val := dec_opt dec_z x.
Definition enc_val (v : val) : sexp := enc_opt A v.
Definition dec_row (x : sexp) : option row :=
  match x with L [a; b] => match dec_val a, dec_val b with Some a, Some b => Some (a, b) | _, _ => None end | _ => None end.
Definition enc_row (r : row) : sexp := L [enc_val (fst r); enc_val (snd r)].
Definition dec_term (x : sexp) : option term :=
  match x with
  | L [A 0; b] => option_map Col (dec_bool b)
  | L [A 1; v] => option_map Const (dec_val v)
  | L [A 2; b; A k] => option_map (fun b => Plus b k) (dec_bool b)
  | _ => None
  end.
Fixpoint dec_pred (fuel : nat) (x : sexp) : option pred :=
  match fuel with
  | O => None
  | S f =>
      match x with
      | L [A 0; a; b] => match dec_term a, dec_term b with Some a, Some b => Some (Eq a b) | _, _ => None end
      | L [A 1; a; b] => match dec_term a, dec_term b with Some a, Some b => Some (Lt a b) | _, _ => None end
      | L [A 2; a] => option_map IsNull (dec_term a)
      | L [A 3; a; l] => match dec_term a, dec_list dec_val l with Some a, Some l => Some (InL a l) | _, _ => None end
      | L [A 4; p; q] => match dec_pred f p, dec_pred f q with Some p, Some q => Some (And p q) | _, _ => None end
      | L [A 5; p; q] => match dec_pred f p, dec_pred f q with Some p, Some q => Some (Or p q) | _, _ => None end
      | L [A 6; p] => option_map Not (dec_pred f p)
      | _ => None
      end
  end.
Definition dec_cols (x : sexp) : option cols :=
  match x with A 0 => Some Both | A 1 => Some OnlyA | A 2 => Some OnlyB | A 3 => Some Swapped | _ => None end.
Definition dec_stmt (x : sexp) : option stmt :=
  match x with
  | L [A 0; t; c; rows] => match dec_nat t, dec_cols c, dec_list dec_row rows with
                           | Some t, Some c, Some r => Some (InsertValues t c r) | _, _, _ => None end
  | L [A 1; t; c; s; p] => match dec_nat t, dec_cols c, dec_nat s, dec_pred 50 p with
                           | Some t, Some c, Some s, Some p => Some (InsertSelect t c s p) | _, _, _, _ => None end
  | L [A 2; t; sb; e; p] => match dec_nat t, dec_bool sb, dec_term e, dec_pred 50 p with
                            | Some t, Some sb, Some e, Some p => Some (Update t sb e p) | _, _, _, _ => None end
  | L [A 3; t; p] => match dec_nat t, dec_pred 50 p with Some t, Some p => Some (Delete t p) | _, _ => None end
  | L [A 4; t] => option_map Truncate (dec_nat t)
  | _ => None
  end.
Definition enc_report (r : report) : sexp :=
  L [match stat r with
     | SInserted n => L [A 0; enc_nat n] | SUpdated n => L [A 1; enc_nat n]
     | SDeleted n => L [A 2; enc_nat n] | SOther => L [A 3] end;
     enc_nat (rowcount r)].
Definition enc_db (d : db) : sexp :=
  let '(t0, t1, t2) := d in L [enc_list enc_row t0; enc_list enc_row t1; enc_list enc_row t2].

Fixpoint run_stmts (d : db) (l : list stmt) : list sexp :=
  match l with
  | [] => []
  | s :: r => let '(d', rep) := fake d s in L [enc_report rep; enc_db d'] :: run_stmts d' r
  end.

(* input: (stmt ...) ; output: ((report db) ...) starting from three empty tables *)
Definition run_c04 (x : sexp) : sexp :=
  match dec_list dec_stmt x with
  | Some l => L (run_stmts ([], [], []) l)
  | None => bad
  end.

(* input: (kind ident quoted) ; output: status text *)
Definition run_c04_ddl (x : sexp) : sexp :=
  match x with
  | L [A k; i; q] =>
      match dec_str i, dec_bool q with
      | Some i, Some q =>
          enc_str (ddl_status (match k with 0 => CreateTable | 1 => CreateSchema | 2 => CreateView
                                       | 3 => CreateDatabase | _ => DropAny end) i q)
      | _, _ => bad
      end
  | _ => bad
  end.
